import AtsimModel.Driver.Json
import AtsimModel.Driver.Cutoff
import AtsimModel.Model.Expr
import AtsimModel.Model.Poly
import AtsimModel.Gen.Forms
import AtsimModel.Gen.Combinators
import AtsimModel.Gen.Splines
import AtsimModel.Gen.Kernels
namespace Atsim.Drv
open Lean Atsim.Gen

def getFloats (j : Json) (k : String) : Except String (List Float) := do
  (← getArr j k).mapM getFloatME

def floatJ (x : Float) : Json :=
  if x.isNaN then Json.str "nan" else if x.isInf then Json.str (if x > 0 then "inf" else "-inf") else floatME x

def closureTable : List (String × E) :=
  [("plus.potential", plus_potential), ("plus.deriv", plus_deriv), ("plus.deriv2", plus_deriv2),
   ("product.potential", product_potential), ("product.deriv", product_deriv), ("product.deriv2", product_deriv2),
   ("pow.potential", pow_potential), ("pow.deriv", pow_deriv), ("pow.deriv2", pow_deriv2)]

def handleExpr (op : String) (j : Json) : Except String Json := do
  match op with
  | "form" =>
    -- evaluate a generated form term:  name, which ∈ call|deriv|deriv2, points = [[r, p0, p1, ...], ...]
    let name ← getStr j "name"
    let which ← getStr j "which"
    match formTable.find? (fun t => t.1 == name) with
    | none => throw s!"unknown form {name}"
    | some (_, c, d1, d2, _) =>
      let e := if which == "call" then c else if which == "deriv" then d1 else d2
      if e.isBad then return Json.str "untranslatable"
      let pts ← (← getArr j "points").mapM fun p => do (← p.getArr?).toList.mapM getFloatME
      return arrJ (pts.map fun
        | r :: ps => floatJ (E.evalF (fun i => ps.getD i 0.0) (fun _ => 0.0) r e)
        | [] => Json.null)
  | "closure" =>
    -- evaluate a combinator closure body: name, points = [[sym0 .. sym7], ...]
    let name ← getStr j "name"
    match closureTable.find? (fun t => t.1 == name) with
    | none => throw s!"unknown closure {name}"
    | some (_, e) =>
      if e.isBad then return Json.str "untranslatable"
      let pts ← (← getArr j "points").mapM fun p => do (← p.getArr?).toList.mapM getFloatME
      return arrJ (pts.map fun syms => floatJ (E.evalF (fun _ => 0.0) (fun k => syms.getD k 0.0) 0.0 e))
  | "lits" =>
    -- the double each literal n/d denotes (checked bit for bit against Python's float(text))
    let ls ← (← getArr j "lits").mapM fun p => do
      match (← p.getArr?).toList with
      | [n, d] => return (← n.getNat?, ← d.getNat?)
      | _ => throw "bad literal"
    return arrJ (ls.map fun (n, d) => floatJ (E.litF n d))
  | "poly" =>
    let which ← getStr j "which"
    let pts ← (← getArr j "points").mapM fun p => do (← p.getArr?).toList.mapM getFloatME
    return arrJ (pts.map fun
      | r :: cs => floatJ (if which == "call" then polyCall r cs else if which == "deriv" then polyDeriv r cs else polyDeriv2 r cs)
      | [] => Json.null)
  | "system" =>
    -- evaluate a generated spline system under symbol values: name ∈ exp|buck4, params -> {M: rows, V: rhs}
    let name ← getStr j "name"
    let ps ← getFloats j "params"
    let (M, V) := if name == "exp" then (expA, expB) else (buck4M, buck4V)
    if (M.any fun r => r.any E.isBad) || V.any E.isBad then return Json.str "untranslatable"
    let ev := fun (e : E) => floatJ (E.evalF (fun i => ps.getD i 0.0) (fun _ => 0.0) 0.0 e)
    return Json.mkObj [("M", arrJ (M.map fun r => arrJ (r.map ev))), ("V", arrJ (V.map ev))]
  | "kernel" =>
    -- evaluate a regenerated arithmetic kernel at Float: name, points = [[operand0, operand1, ...], ...]
    let name ← getStr j "name"
    match kernelTable.find? (fun t => t.1 == name) with
    | none => throw s!"unknown kernel {name}"
    | some (_, e, _) =>
      if e.isBad then return Json.str "untranslatable"
      let pts ← (← getArr j "points").mapM fun p => do (← p.getArr?).toList.mapM getFloatME
      return arrJ (pts.map fun ps => floatJ (E.evalF (fun i => ps.getD i 0.0) (fun _ => 0.0) 0.0 e))
  | "params" =>
    return arrJ (formTable.map fun (n, _, _, _, k) => arrJ [Json.str n, natJ k])
  | _ => throw s!"unknown expr op {op}"

end Atsim.Drv
