import AtsimModel.Driver.Pair
import AtsimModel.Driver.Eam
