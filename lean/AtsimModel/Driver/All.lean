import AtsimModel.Driver.Pair
import AtsimModel.Driver.Eam
import AtsimModel.Driver.Range
import AtsimModel.Driver.Cutoff
import AtsimModel.Driver.Expr
import AtsimModel.Driver.Lang
import AtsimModel.Driver.Trace
import AtsimModel.Driver.Filter
