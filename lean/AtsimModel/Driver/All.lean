import AtsimModel.Driver.Pair
