import AtsimModel.Driver.Json
import AtsimModel.Model.Filter
namespace Atsim.Drv
open Lean

def parseEntries (j : Json) : Except String (List Entry) := do
  (← getArr j "entries").mapM fun e => do
    return { species := ← getStrs e "species", id := ← getNat e "id" }

def optStrs (j : Json) (k : String) : Except String (Option (List String)) :=
  match optField j k with
  | none => return none
  | some _ => do return some (← getStrs j k)

def handleFilter (op : String) (j : Json) : Except String Json := do
  let entries ← parseEntries j
  let idsJ := fun (l : List Entry) => arrJ (l.map fun e => natJ e.id)
  match op with
  | "view" =>
    let shipped := (getBool j "shipped").toOption.getD false
    let (ex, S) := (if shipped then modeShipped else modeCurrent) (← optStrs j "exclude") (← optStrs j "include")
    return Json.mkObj [("view", idsJ (filteredView ex S entries)), ("byhand", idsJ (deleteByHand ex S entries)), ("exclude", ex)]
  | "ops" =>
    let ops ← (← getArr j "ops").mapM fun o => do
      match optField o "read" with
      | some r => return ViewOp.read (← r.getNat?)
      | none => return ViewOp.create (← getBool o "exclude") (← getStrs o "S")
    let shared := (getBool j "shared").toOption.getD false
    let out := if shared then runShared entries ops else runPerView entries ops
    return arrJ (out.map fun r => match r with | some l => idsJ l | none => Json.null)
  | _ => throw s!"unknown filter op {op}"

end Atsim.Drv
