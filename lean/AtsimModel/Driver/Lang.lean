import AtsimModel.Driver.Json
import AtsimModel.Model.PotLang
import AtsimModel.Model.Formula
namespace Atsim.Drv
open Lean

def parseTok (j : Json) : Except String Tok := do
  match j with
  | .str "ge" => return .ge
  | .str "gt" => return .gt
  | .str "(" => return .lpar
  | .str ")" => return .rpar
  | .str "," => return .comma
  | .arr a =>
    match a.toList with
    | [.str "num", .str q] => return .num (← parseRat q)
    | [.str "id", .str s] => return .ident s
    | _ => throw "bad token"
  | _ => throw "bad token"

def startJ (s : RStart) : Json := arrJ [Json.str (if s.1 then ">=" else ">"), ratJ s.2]

mutual
partial def multiJ (m : MultiRange) : Json := arrJ (m.map fun (s, p) => pieceJ s p)
partial def pieceJ (s : RStart) : Piece → Json
  | .form l ps => Json.mkObj [("form", l), ("params", arrJ (ps.map ratJ)), ("start", startJ s)]
  | .modifier l args => Json.mkObj [("modifier", l), ("args", arrJ (args.map multiJ)), ("start", startJ s)]
end

partial def parseEx (j : Json) : Except String Ex := do
  let a := (← j.getArr?).toList
  match a with
  | [.str "lit", .str q] => return .lit (← parseRat q)
  | [.str "var", n] => return .var (← n.getNat?)
  | [.str "add", x, y] => return .add (← parseEx x) (← parseEx y)
  | [.str "sub", x, y] => return .sub (← parseEx x) (← parseEx y)
  | [.str "mul", x, y] => return .mul (← parseEx x) (← parseEx y)
  | [.str "div", x, y] => return .div (← parseEx x) (← parseEx y)
  | [.str "ite", x, y, t, e] => return .ite (← parseEx x) (← parseEx y) (← parseEx t) (← parseEx e)
  | [.str "call", f, args] => return .call (← f.getNat?) (← (← args.getArr?).toList.mapM parseEx)
  | _ => throw "bad expression"

def handleLang (op : String) (j : Json) : Except String Json := do
  match op with
  | "parse" =>
    let toks ← (← getArr j "toks").mapM parseTok
    match parseDefinition toks with
    | none => return Json.null
    | some m => return multiJ m
  | "energy" =>
    -- forms: list of bodies (index = form id); calls: [[f, [args...]], ...] evaluated IN SEQUENCE on one set of tables
    let bodies ← (← getArr j "forms").mapM parseEx
    let body := fun (f : Nat) => bodies.getD f (.lit 0)
    let calls ← (← getArr j "calls").mapM fun c => do
      match (← c.getArr?).toList with
      | [f, args] => return (← f.getNat?, ← (← args.getArr?).toList.mapM fun a => do parseRat (← a.getStr?))
      | _ => throw "bad call"
    let fuel := (getNat j "fuel").toOption.getD 400
    let pure := (getBool j "pure").toOption.getD false
    let mut σ : Tables := fun _ _ => 1      -- `_init_symbol_table` sets every variable to 1.0
    let mut out : List Json := []
    for (f, vals) in calls do
      if pure then
        out := out ++ [match energyP body fuel f vals with | some v => ratJ v | none => Json.null]
      else
        match evalS body fuel f (writeTable σ f vals) (body f) with
        | some (v, σ') => out := out ++ [ratJ v]; σ := σ'
        | none => out := out ++ [Json.null]
    return arrJ out
  | _ => throw s!"unknown lang op {op}"

end Atsim.Drv
