import AtsimModel.Driver.Json
import AtsimModel.Model.WriteTrace
namespace Atsim.Drv
open Lean

def traceStr (t : List Ev) : String := String.ofList (t.map fun e => match e with | .ev => 'e' | .wr => 'w')

def handleTrace (op : String) (j : Json) : Except String Json := do
  let t ← match op with
    | "buffered" => pure (traceBuffered (← getNat j "n"))
    | "gulp-streamed" => pure (traceGulpStreamed (← getNat j "npots") (← getNat j "nr"))
    | "adp-three-writes" => pure (traceAdpThreeWrites (← getNat j "n1") (← getNat j "n2") (← getNat j "n3"))
    | _ => throw s!"unknown trace op {op}"
  let ks := (getArr j "ks").toOption.getD []
  let ws ← ks.mapM fun k => do return natJ (writesBeforeFailure t (← k.getNat?))
  return Json.mkObj [("trace", Json.str (traceStr t)), ("writesBefore", arrJ ws)]

end Atsim.Drv
