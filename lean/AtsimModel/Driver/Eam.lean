import AtsimModel.Driver.Json
import AtsimModel.Model.Eam
namespace Atsim.Drv
open Lean

def parsePairDecls (j : Json) (k : String) : Except String (List PairDecl) :=
  match optField j k with
  | none => return []
  | some _ => do
    (← getArr j k).mapM fun p => do
      return { a := ← getStr p "a", b := ← getStr p "b", fid := ← getNat p "fid" }

def parseSpFid (j : Json) (k : String) : Except String (List (Sp × Fid)) :=
  match optField j k with
  | none => return []
  | some _ => do
    (← getArr j k).mapM fun p => do
      match (← p.getArr?).toList with
      | [s, f] => return (← s.getStr?, ← f.getNat?)
      | _ => throw "bad (species, fid) pair"

def parseEl (e : Json) : Except String El := do
  return { sp := ← getStr e "sp", z := ← getInt e "z", mass := ← getRat e "mass", a0 := ← getRat e "a0",
           lat := ← getStr e "lat", embed := ← getNat e "embed", dens := ← getNat e "dens",
           densTo := ← parseSpFid e "densTo" }

def optRat (j : Json) (k : String) : Except String (Option Rat) :=
  match optField j k with
  | none => return none
  | some _ => do return some (← getRat j k)

def parseMeta (j : Json) : Except String SpMeta := do
  let z ← match optField j "z" with
    | none => pure none
    | some v => do pure (some (← v.getInt?))
  let lat ← match optField j "lat" with
    | none => pure none
    | some v => do pure (some (← v.getStr?))
  return { z := z, mass := ← optRat j "mass", a0 := ← optRat j "a0", lat := lat }

def emptyMeta : SpMeta := { z := none, mass := none, a0 := none, lat := none }

def parseMetaTable (j : Json) (k : String) : Except String (Sp → SpMeta) := do
  match optField j k with
  | none => return fun _ => emptyMeta
  | some o =>
    let tbl ← (← o.getArr?).toList.mapM fun e => do
      match (← e.getArr?).toList with
      | [s, m] => return (← s.getStr?, ← parseMeta m)
      | _ => throw "bad meta entry"
    return fun s => match tbl.find? (fun p => p.1 == s) with
      | some p => p.2
      | none => emptyMeta

/-- elements either given directly (`els`) or built from a potable-style `cfg` -/
def getEls (j : Json) : Except String (Option (List El)) := do
  match optField j "cfg" with
  | none => return some (← (← getArr j "els").mapM parseEl)
  | some c =>
    let embed ← parseSpFid c "embed"
    let extraOrder := (getStrs c "extraOrder").toOption
    let extra ← parseMetaTable c "speciesExtra"
    let builtin ← parseMetaTable c "speciesBuiltin"
    let spMeta := resolveMeta extra builtin
    if ← getBool c "fs" then
      let dens ← (← getArr c "densFS").mapM fun p => do
        return (← getStr p "from", ← getStr p "to", ← getNat p "fid")
      return match extraOrder with
        | some o => eamBuildFSWith embed dens o spMeta     -- shipped behaviour under a given set iteration order
        | none => eamBuildFS embed dens spMeta
    else
      let dens ← parseSpFid c "dens"
      return match extraOrder with
        | some o => eamBuildWith embed dens o spMeta
        | none => eamBuild embed dens spMeta

def slotsJ (l : List Slot) : Json := arrJ (l.map slotJ)

def elBlockJ (b : ElBlock) : Json :=
  Json.mkObj [("z", intJ b.z), ("mass", ratJ b.mass), ("a0", ratJ b.a0), ("lat", b.lat),
    ("embed", slotsJ b.embed), ("dens", arrJ (b.dens.map slotsJ))]

def setflJ (f : SetflFile) (adp : Bool) : Json :=
  Json.mkObj ([("ntypes", natJ f.ntypes), ("names", arrJ (f.names.map Json.str)), ("nrho", natJ f.nrho), ("drho", ratJ f.drho),
    ("nr", natJ f.nr), ("dr", ratJ f.dr), ("elements", arrJ (f.elements.map elBlockJ)),
    ("pairs", arrJ (f.pairs.map slotsJ))] ++
    (if adp then [("dipoles", arrJ (f.dipoles.map slotsJ)), ("quadrupoles", arrJ (f.quadrupoles.map slotsJ))] else []))

def tblockJ (b : TBlock) : Json :=
  Json.mkObj [("kw", b.kw), ("species", arrJ (b.species.map Json.str)), ("n", natJ b.n), ("lo", ratJ b.lo), ("hi", ratJ b.hi),
    ("rows", arrJ (b.rows.map slotsJ))]

def tabeamJ (f : TabeamFile) : Json :=
  Json.mkObj [("declared", natJ f.declared), ("blocks", arrJ (f.blocks.map tblockJ))]

def sheetJ (s : Sheet) : Json :=
  Json.mkObj [("name", s.name), ("header", arrJ (s.header.map Json.str)),
    ("rows", arrJ (s.rows.map fun r => arrJ [ratJ r.1, slotsJ r.2]))]

def elJ (e : El) : Json :=
  Json.mkObj [("sp", e.sp), ("z", intJ e.z), ("mass", ratJ e.mass), ("a0", ratJ e.a0), ("lat", e.lat), ("embed", natJ e.embed),
    ("dens", natJ e.dens), ("densTo", arrJ (e.densTo.map fun p => arrJ [Json.str p.1, natJ p.2]))]

def handleEam (op : String) (j : Json) : Except String Json := do
  match ← getEls j with
  | none => return Json.str "config_error"
  | some els =>
    let pairs ← parsePairDecls j "pairs"
    let fs := (getBool j "fs").toOption.getD false
    match op with
    | "build" => return arrJ (els.map elJ)
    | "setfl" => return setflJ (setfl fs (← getNat j "nrho") (← getRat j "drho") (← getNat j "nr") (← getRat j "dr") els pairs) false
    | "setflTab" => return setflJ (setflTab fs els pairs (← getRat j "cut") (← getNat j "nr") (← getRat j "cutrho") (← getNat j "nrho")) false
    | "adp" => return setflJ (adp els pairs (← parsePairDecls j "dip") (← parsePairDecls j "quad")
                  (← getRat j "cut") (← getNat j "nr") (← getRat j "cutrho") (← getNat j "nrho")) true
    | "tabeam" => return tabeamJ (tabeam fs (← getNat j "nrho") (← getRat j "drho") (← getNat j "nr") (← getRat j "dr") els pairs)
    | "tabeamTab" => return tabeamJ (tabeamTab fs els pairs (← getRat j "cut") (← getNat j "nr") (← getRat j "cutrho") (← getNat j "nrho"))
    | "funcfl" =>
      match els with
      | [e] =>
        let f := funcfl (← getNat j "nrho") (← getRat j "drho") (← getNat j "nr") (← getRat j "dr") e (← getNat j "pairFid")
        return Json.mkObj [("z", intJ f.z), ("mass", ratJ f.mass), ("a0", ratJ f.a0), ("lat", f.lat), ("nrho", natJ f.nrho), ("drho", ratJ f.drho),
          ("nr", natJ f.nr), ("dr", ratJ f.dr), ("cutoff", ratJ f.cutoff), ("embed", arrJ (f.embed.map slotsJ)), ("charge", arrJ (f.charge.map slotsJ)),
          ("dens", arrJ (f.dens.map slotsJ))]
      | _ => throw "funcfl takes exactly one element"
    | "excelPair" => return arrJ [sheetJ (pairSheet pairs (← getRat j "cut") (← getNat j "nr"))]
    | "excelEam" => return arrJ ((excelEam fs els pairs (← getRat j "cut") (← getNat j "nr") (← getRat j "cutrho") (← getNat j "nrho")).map sheetJ)
    | _ => throw s!"unknown eam op {op}"

end Atsim.Drv
