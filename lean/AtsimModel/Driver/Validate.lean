import AtsimModel.Driver.Lang
import AtsimModel.Model.Validate
namespace Atsim.Drv
open Lean

def handleValidate (op : String) (j : Json) : Except String Json := do
  match op with
  | "spline" =>
    -- args: list of token lists (one per comma separated argument of spline(...))
    let args ← (← getArr j "args").mapM fun a => do
      let toks ← (← a.getArr?).toList.mapM parseTok
      match parseDefinition toks with
      | some m => pure m
      | none => throw "argument does not parse"
    match validateSpline args with
    | .ok _ => return Json.str "ok"
    | .error e => return Json.str s!"cfg:{repr e}"
  | "table" =>
    let xs ← (← getArr j "xs").mapM fun x => do parseRat (← x.getStr?)
    let t : TableShape := { hasX := ← getBool j "hasX", hasY := ← getBool j "hasY", hasXY := ← getBool j "hasXY", nx := ← getNat j "nx", ny := ← getNat j "ny",
                            nxy := ← getNat j "nxy", interpolation := ← getStr j "interpolation", xs := xs }
    match validateTable t with
    | .ok _ => return Json.str "ok"
    | .error e => return Json.str s!"cfg:{repr e}"
  | "target" =>
    match validateTarget (optField j "target" |>.bind (·.getStr?.toOption)) with
    | some t => return Json.str t
    | none => return Json.null
  | "signature" =>
    -- parameter names of a [Potential-Form] signature (separation variable first): accepted iff no two are equal up to case
    let ns ← getStrs j "names"
    match sigClash [] ns with
    | none => return Json.str "ok"
    | some (a, b) => return arrJ [Json.str a, Json.str b]
  | "key" =>
    match splitKey (← getStrs j "parts") with
    | some (a, b) => return arrJ [Json.str a, Json.str b]
    | none => return Json.null
  | _ => throw s!"unknown validate op {op}"

end Atsim.Drv
