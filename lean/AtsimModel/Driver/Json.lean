import Lean.Data.Json
import AtsimModel.Model.Basic
/-! JSON helpers for the line-protocol driver.  Rationals cross the boundary as `"num/den"` strings
    (or plain integers); nothing is ever passed as a float. -/
namespace Atsim.Drv
open Lean

def parseRat (s : String) : Except String Rat :=
  match s.splitOn "/" with
  | [n] => match n.toInt? with
    | some i => .ok (i : Rat)
    | none => .error s!"bad rational {s}"
  | [n, d] => match n.toInt?, d.toNat? with
    | some n, some d => if d == 0 then .error "zero denominator" else .ok ((n : Rat) / (d : Rat))
    | _, _ => .error s!"bad rational {s}"
  | _ => .error s!"bad rational {s}"

def showRat (q : Rat) : String := if q.den == 1 then s!"{q.num}" else s!"{q.num}/{q.den}"

def ratJ (q : Rat) : Json := Json.str (showRat q)

def getRat (j : Json) (k : String) : Except String Rat := do
  let v ← j.getObjVal? k
  match v with
  | .str s => parseRat s
  | .num n => if n.exponent == 0 then .ok (n.mantissa : Rat) else .error s!"non-integer number for {k}"
  | _ => .error s!"bad rational field {k}"

def getNat (j : Json) (k : String) : Except String Nat := do (← j.getObjVal? k).getNat?
def getInt (j : Json) (k : String) : Except String Int := do (← j.getObjVal? k).getInt?
def getStr (j : Json) (k : String) : Except String String := do (← j.getObjVal? k).getStr?
def getBool (j : Json) (k : String) : Except String Bool := do (← j.getObjVal? k).getBool?
def getArr (j : Json) (k : String) : Except String (List Json) := do
  return (← (← j.getObjVal? k).getArr?).toList
def getStrs (j : Json) (k : String) : Except String (List String) := do
  (← getArr j k).mapM fun x => x.getStr?
def optField (j : Json) (k : String) : Option Json :=
  match j.getObjVal? k with
  | .ok .null => none
  | .ok v => some v
  | .error _ => none

def arrJ (l : List Json) : Json := Json.arr l.toArray
def natJ (n : Nat) : Json := Json.num (JsonNumber.fromNat n)
def intJ (n : Int) : Json := Json.num (JsonNumber.fromInt n)

def slotJ : Slot → Json
  | .val f x => arrJ [natJ f, ratJ x]
  | .zero => Json.str "0"

end Atsim.Drv
