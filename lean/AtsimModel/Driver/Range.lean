import AtsimModel.Driver.Json
import AtsimModel.Model.RangeSearch
namespace Atsim.Drv
open Lean

def handleRange (op : String) (j : Json) : Except String Json := do
  let rs ← (← getArr j "ranges").mapM fun p => do
    return ({ incl := ← getBool p "incl", start := ← getInt p "start", f := ← getNat p "f" } : RD)
  match op with
  | "select" =>
    let qs ← (← getArr j "rs").mapM fun x => x.getInt?
    return arrJ (qs.map fun r => match selected rs r with
      | some f => natJ f
      | none => Json.null)
  | "sorted" => return arrJ ((sortRD rs).map fun t => natJ t.f)
  | _ => throw s!"unknown range op {op}"

end Atsim.Drv
