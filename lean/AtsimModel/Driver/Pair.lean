import AtsimModel.Driver.Json
import AtsimModel.Model.PairTables
namespace Atsim.Drv
open Lean

def parsePots (j : Json) : Except String (List Pot) := do
  (← getArr j "pots").mapM fun p => do
    return { a := ← getStr p "a", b := ← getStr p "b", fid := ← getNat p "fid" }

def lblockJ (b : LBlock) : Json :=
  Json.mkObj [("title", Json.str (b.a ++ "-" ++ b.b)), ("N", natJ b.N), ("lo", ratJ b.lo), ("hi", ratJ b.hi),
    ("rows", arrJ (b.rows.map fun r => arrJ [natJ r.n, ratJ r.r, slotJ r.e, slotJ r.f]))]

def dblockJ (b : DBlock) : Json :=
  Json.mkObj [("a", b.a), ("b", b.b),
    ("energies", arrJ (b.energies.map fun g => arrJ (g.map slotJ))),
    ("forces", arrJ (b.forces.map fun g => arrJ (g.map slotJ)))]

def gblockJ (b : GBlock) : Json :=
  Json.mkObj [("a", b.a), ("b", b.b), ("cutoff", ratJ b.cutoff),
    ("rows", arrJ (b.rows.map fun r => arrJ [slotJ r.1, ratJ r.2]))]

def handlePair (op : String) (j : Json) : Except String Json := do
  let pots ← parsePots j
  let cut ← getRat j "cut"
  let nr ← getNat j "nr"
  match op with
  | "lammps" => return arrJ ((lammpsTable pots cut nr).map lblockJ)
  | "dlpoly" =>
    match dlpolyTable pots cut nr with
    | none => return Json.str "rejected"
    | some t => return Json.mkObj [("delpot", ratJ t.delpot), ("cutpot", ratJ t.cutpot),
        ("ngrid", natJ t.ngrid), ("blocks", arrJ (t.blocks.map dblockJ))]
  | "gulp" => return arrJ ((gulpTable pots cut nr).map gblockJ)
  | _ => throw s!"unknown pair op {op}"

end Atsim.Drv
