import AtsimModel.Driver.Json
import AtsimModel.Model.TableReader
namespace Atsim.Drv
open Lean

def handleTable (op : String) (j : Json) : Except String Json := do
  match op with
  | "reader" =>
    let rows ← (← getArr j "rows").mapM fun r => do
      match (← r.getArr?).toList with
      | [x, y] => return ((← parseRat (← x.getStr?), ← parseRat (← y.getStr?)) : Row)
      | _ => throw "bad row"
    let qs ← (← getArr j "xs").mapM fun x => do parseRat (← x.getStr?)
    return arrJ (qs.map fun x => ratJ (tableReader rows x))
  | "plot" =>
    return arrJ ((plotXs (← getRat j "lowx") (← getRat j "highx") (← getNat j "steps")).map ratJ)
  | "deinterleave" =>
    let xy ← (← getArr j "xy").mapM fun x => do parseRat (← x.getStr?)
    let (xs, ys) := deinterleave xy
    return arrJ [arrJ (xs.map ratJ), arrJ (ys.map ratJ)]
  | _ => throw s!"unknown table op {op}"

end Atsim.Drv
