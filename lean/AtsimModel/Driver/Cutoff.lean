import AtsimModel.Driver.Json
import AtsimModel.Model.Cutoff
namespace Atsim.Drv
open Lean

/-- a double, sent exactly as (integer mantissa, binary exponent) -/
def getFloatME (j : Json) : Except String Float := do
  match (← j.getArr?).toList with
  | [m, e] => return (Float.ofInt (← m.getInt?)).scaleB (← e.getInt?)
  | _ => throw "bad float"

def optFloat (j : Json) (k : String) : Except String (Option Float) :=
  match optField j k with
  | none => return none
  | some v => do return some (← getFloatME v)

/-- exact (mantissa, exponent) of a finite double -/
def floatME (x : Float) : Json :=
  if x == 0 then arrJ [intJ 0, intJ 0]
  else
    let (m, e) := x.frExp      -- x = m * 2^e, 0.5 <= |m| < 1
    let mi := (m.scaleB 53).toInt64.toInt
    arrJ [intJ mi, intJ (e - 53)]

def errJ : CutErr → Json
  | .allThree => "allThree"
  | .stepAlone => "stepAlone"
  | .nonPositive => "nonPositive"
  | .tooFewRows => "tooFewRows"

def handleCutoff (op : String) (j : Json) : Except String Json := do
  match op with
  | "rows" =>
    -- list of [c, d] pairs -> [rowsTrunc, rowsSnap]
    let ps ← getArr j "pairs"
    let out ← ps.mapM fun p => do
      match (← p.getArr?).toList with
      | [c, d] =>
        let c ← getFloatME c
        let d ← getFloatME d
        return arrJ [intJ (rowsTrunc c d), intJ (rowsSnap c d)]
      | _ => throw "bad pair"
    return arrJ out
  | "init" =>
    let nr := match optField j "nr" with
      | none => none
      | some v => v.getInt?.toOption
    let dr ← optFloat j "dr"
    let cutoff ← optFloat j "cutoff"
    let shipped := (getBool j "shipped").toOption.getD false
    let r := if shipped then initCutoffTruthy (floatOps rowsTrunc) (fun x => x == 0) nr dr cutoff
             else initCutoff (floatOps rowsSnap) nr dr cutoff
    match r with
    | .error e => return Json.mkObj [("err", errJ e)]
    | .ok (n, c) => return Json.mkObj [("nr", match n with | some n => intJ n | none => Json.null),
                                        ("cutoff", match c with | some c => floatME c | none => Json.null)]
  | _ => throw s!"unknown cutoff op {op}"

end Atsim.Drv
