import AtsimModel.Driver.Json
import AtsimModel.Gen.Logic
import AtsimModel.Model.Ini
import AtsimModel.Model.TableReader
import AtsimModel.Lemmas.IniOps
import AtsimModel.Driver.Ini
/-! Driver for the REGENERATED definitions of `Gen/Logic.lean` (kept apart from the model driver: when the translator cannot translate a function any more
    this file does not build, which must not take the model driver with it).  Used by the harness to validate the translator itself: the generated writer
    is run on concrete inputs, its tokens are rendered with Python's own formatting and compared byte for byte with what the real writer wrote. -/
namespace Atsim.Drv
open Lean Atsim.Gen.Logic Atsim.IniOps

partial def ovJ : OV → Json
  | .int i => arrJ [Json.str "i", intJ i]
  | .num q => arrJ [Json.str "q", ratJ q]
  | .str s => arrJ [Json.str "s", Json.str s]
  | .fn w f x => arrJ [Json.str "f", Json.str w, natJ f, ratJ x]
  | .repr v => arrJ [Json.str "r", ovJ v]
  | .scaled r v => arrJ [Json.str "x", ratJ r, ovJ v]

def tokJ (t : Tok) : Json := arrJ [Json.str t.fmt, arrJ (t.args.map ovJ)]

def parsePotRecs (j : Json) : Except String (List PotRec) := do
  (← getArr j "pots").mapM fun p => do
    return { a := ← getStr p "a", b := ← getStr p "b", fid := ← getNat p "fid" }

def parseEamRecs (j : Json) : Except String (List EamRec) := do
  (← getArr j "els").mapM fun e => do
    let fs ← (← getArr e "densFS").mapM fun d => do return ((← getStr d "to"), (⟨← getNat d "fid"⟩ : FnRec))
    return { species := ← getStr e "sp", atomicNumber := ← getInt e "z", mass := ← getRat e "mass", latticeConstant := ← getRat e "a0",
             latticeType := ← getStr e "lat", embed := ⟨← getNat e "embed"⟩, dens := ⟨← getNat e "dens"⟩, densFS := fs }

def cfgErrJ : CfgErr → Json
  | .notTwoParts => Json.str "notTwoParts" | .blankSpecies => Json.str "blankSpecies" | .unpack => Json.str "unpack"
  | .duplicatePair => Json.str "duplicatePair" | .duplicateTableForm => Json.str "duplicateTableForm"

def parseCfgRec (j : Json) : Except String CfgRec := do
  let secs ← (← getArr j "sections").mapM fun s => do return ((← getStr s "name"), (← getStrs s "keys"))
  return ⟨secs⟩

/-- a parsed definition: {"mod":bool,"name":str,"params":[rat],"args":[inst],"start":{"rt":str,"start":rat}|null,"next":inst|null} -/
partial def parseInst (j : Json) : Except String PInst := do
  let args ← (← getArr j "args").mapM parseInst
  let params ← (← getArr j "params").mapM fun x => do
    match x with
    | Json.str t => parseRat t
    | _ => throw "parameter must be a rational string"
  let st ← match j.getObjVal? "start" with
    | .ok Json.null => pure none
    | .ok o => do pure (some ({ range_type := ← getStr o "rt", start := ← getRat o "start" } : StartRec))
    | .error _ => pure none
  let nx ← match j.getObjVal? "next" with
    | .ok Json.null => pure none
    | .ok o => do pure (some (← parseInst o))
    | .error _ => pure none
  return { isModifier := ← getBool j "mod", name := ← getStr j "name", parameters := params, potential_forms := args, start := st, next := nx }

/-- names are a letter followed by the node's number -/
def nodeId (name : String) : Nat := (String.ofList (name.toList.drop 1)).toNat?.getD 0

def defnCode (t : MRDefn) : Nat :=
  (t.pform.id * 100 + (match t.start with | none => 0 | some q => q.num.toNat + 1)) * 4 + (if t.range_type == ">" then 1 else if t.range_type == ">=" then 2 else 3)

/-- a definition handed to spline(): {"mod":bool,"name":str,"params":[rat],"start":{"rt":str,"start":rat},"next":inst|null} -/
partial def parseInstS (j : Json) : Except String PInstS := do
  let params ← (← getArr j "params").mapM fun x => do
    match x with
    | Json.str t => parseRat t
    | _ => throw "parameter must be a rational string"
  let o ← j.getObjVal? "start"
  let st : StartRec := { range_type := ← getStr o "rt", start := ← getRat o "start" }
  let nx ← match j.getObjVal? "next" with
    | .ok Json.null => pure none
    | .ok o => do pure (some (← parseInstS o))
    | .error _ => pure none
  return { isModifier := ← getBool j "mod", name := ← getStr j "name", parameters := params, start := st, next := nx }

def handleGen (op : String) (j : Json) : Except String Json := do
  match op with
  | "pair_species" =>
    match pair_species_func Atsim.strip (← getStr j "k") with
    | .ok p => return arrJ [Json.str p.1, Json.str p.2]
    | .error e => return cfgErrJ e
  | "fs_species" =>
    match fs_species_func Atsim.strip (← getStr j "k") with
    | .ok p => return arrJ [Json.str p.1, Json.str p.2]
    | .error e => return cfgErrJ e
  | "dup_pairs" =>
    match dup_pairs Atsim.strip (← parseCfgRec j) with
    | .ok _ => return Json.str "ok"
    | .error e => return cfgErrJ e
  | "dup_table_forms" =>
    -- the two regular-expression helpers are operations of the translated function: their values on this configuration's section names come with the request
    let tbl ← (← getArr j "names").mapM fun s => do return ((← getStr s "name"), (← getBool s "relevant"), (← getStr s "label"))
    let rel := fun (n : String) => ((tbl.find? fun e => e.1 == n).map (·.2.1)).getD false
    let lab := fun (n : String) => ((tbl.find? fun e => e.1 == n).map (·.2.2)).getD ""
    match dup_table_forms rel lab ⟨tbl.map fun e => (e.1, [])⟩ with
    | .ok _ => return Json.str "ok"
    | .error e => return cfgErrJ e
  | "apply_overrides" =>
    -- the regenerated override loops on the model's parser operations: same request and answer format as the model driver's "apply" (API form)
    let lines ← (← getArr j "lines").mapM parseLine
    let ovs ← (← getArr j "overrides").mapM parseOp
    let ads ← (← getArr j "additional").mapM parseOp
    match readIni currentCfg lines with
    | .error e => return Json.mkObj [("err", errJ' e)]
    | .ok ini =>
      match apply_overrides hasOptionR hasSectionR sectionKeysR removeOptionR removeSectionR addSectionR setValueR (wrap ini) (ovs.map toOv) (ads.map toOv) with
      | .error e => return Json.mkObj [("err", match e with | .missing => "missing" | .exists => "exists" | .badValue => "badValue" | .malformedOption => "malformedOption")]
      | .ok r => return Json.mkObj [("ini", iniJ r.state)]
  | "raw_has_option" =>
    -- _RawConfigParser.has_option / optionxform on a file given as lines: queries [[section, option], ...] -> Booleans, and the transformed option texts
    let lines ← (← getArr j "lines").mapM parseLine
    match readIni currentCfg lines with
    | .error e => return Json.mkObj [("err", errJ' e)]
    | .ok ini =>
      let qs ← (← getArr j "queries").mapM fun q => do
        match (← q.getArr?).toList with
        | [Json.str a, Json.str b] => pure (a, b)
        | _ => throw "bad query"
      let sup := fun (s k : String) => (s == "Variables" || s == "") && ini.vars.any (fun p => p.1 == Atsim.norm k)
      return Json.mkObj [("has", arrJ (qs.map fun q => Json.bool (raw_has_option Atsim.strip sup ini.sections "Variables" q.1 q.2))),
                         ("xform", arrJ (qs.map fun q => Json.str (raw_optionxform Atsim.strip q.2))),
                         ("options", arrJ (qs.map fun q => match raw_options ini.sections ini.vars "Variables" q.1 with
                            | .ok ks => arrJ (ks.map Json.str)
                            | .error .noSection => Json.str "noSection"))]
  | "parse_params_section" =>
    -- ConfigParser._parse_params_section on a file given as lines: the parsed entries [key, value] of the named section (a key holding "bad" does not parse), or the error
    let lines ← (← getArr j "lines").mapM parseLine
    match readIni currentCfg lines with
    | .error e => return Json.mkObj [("err", errJ' e)]
    | .ok ini =>
      let getV := fun (r : IniRec) (s k : String) => (((r.state.sections.find? fun p => p.1 == s).bind fun p => p.2.find? fun q => q.1 == Atsim.norm k).map (·.2)).getD ""
      let keys := fun (r : IniRec) (s : String) => ((r.state.sections.find? fun p => p.1 == s).map fun p => p.2.map (·.1)).getD []
      -- a parsed line is identified by its position among all (key, value) pairs of the file
      let all := ini.sections.flatMap fun p => p.2
      let parse := fun (k v : String) => if strContains k "bad" then (.error ParseErr.badLine : Except ParseErr ParsedLine) else .ok ⟨(all.findIdx? fun q => q.1 == k && q.2 == v).getD 9999⟩
      let sec ← getStr j "section"
      match parse_params_section hasSectionR keys getV (fun r => r.state.sections.map (·.1)) (fun r => r.state.vars.map (·.1)) (fun _ => false) (wrap ini) sec parse with
      | .ok l => return arrJ (l.map fun x => match all[x.id]? with | some q => arrJ [Json.str q.1, Json.str q.2] | none => Json.null)
      | .error e => return Json.str (match e with | .missingSection => "missingSection" | .badLine => "badLine")
  | "reference_get" =>
    -- Reference_Data.get: built-in rows and [Species] rows as [[species, [[property, value id], ...]], ...]; queries [[species, property], ...]
    let rows := fun (k : String) => do
      (← getArr j k).mapM fun r => do
        match (← r.getArr?).toList with
        | [Json.str sp, props] => do
          let ps ← (← props.getArr?).toList.mapM fun q => do
            match (← q.getArr?).toList with
            | [Json.str pn, v] => pure (pn, (⟨← v.getNat?⟩ : RefVal))
            | _ => throw "bad property"
          pure (sp, ps)
        | _ => throw "bad row"
    let builtin ← rows "builtin"
    let extra ← rows "extra"
    let tbl : List (String × ElData) := (List.range builtin.length).zip builtin |>.map fun p => (p.2.1, ⟨p.1⟩)
    let asDict := fun (e : ElData) => (builtin.getD e.id ("", [])).2
    let qs ← (← getArr j "queries").mapM fun q => do
      match (← q.getArr?).toList with
      | [Json.str a, Json.str b] => pure (a, b)
      | _ => throw "bad query"
    return arrJ (qs.map fun q => match reference_get tbl asDict extra q.1 q.2 with
      | .ok v => natJ v.id
      | .error e => Json.str (match e with | .unknownSpecies => "unknownSpecies" | .unknownProperty => "unknownProperty" | .attributeError => "attributeError"))
  | "trans_modifier" =>
    -- _modifiers.trans on argument definitions: [id of what the form builder was handed (as for spline_modifier), the shift] or the error
    let forms ← (← getArr j "forms").mapM parseInstS
    let idOf := fun (p : PInstS) => (p.parameters.headD 0).num.toNat
    let mkFn := fun (p : PInstS) => (⟨idOf p * 4 + (if p.next.isSome then 2 else 0) + (if p.start.range_type == ">=" then 1 else 0)⟩ : FnObj2)
    match trans_modifier mkFn forms () with
    | .ok t => return arrJ [natJ t.fn.id, ratJ t.x]
    | .error e => return Json.str (match e with | .notTwoArguments => "notTwoArguments" | .secondNotConstant => "secondNotConstant" | .notOneParameter => "notOneParameter" | .indexError => "indexError")
  | "spline_modifier" =>
    -- _modifiers.spline on argument definitions; the form builder names what it is handed (its "id" parameter, whether it still has a next part, whether its start was
    -- made minus infinity), the spline factories check their parameters as the real ones do and record what they were handed
    let forms ← (← getArr j "forms").mapM parseInstS
    let negInf : Rat := -1000000
    let idOf := fun (p : PInstS) => (p.parameters.headD 0).num.toNat
    let mkFn := fun (p : PInstS) => (⟨idOf p * 4 + (if p.next.isSome then 2 else 0) + (if p.start.start == negInf && p.start.range_type == ">" then 1 else 0)⟩ : FnObj2)
    let enc := fun (q : Rat) => (q * 1000).num.toNat
    -- the regenerated build_spline methods of the two factories, with recording spline constructors
    let mkExp := fun (d a : SplPoint) => (.ok ⟨(((1 * 1000 + d.fn.id) * 100000 + enc d.r) * 1000 + a.fn.id) * 100000 + enc a.r⟩ : Except SplBuildErr SplCore)
    let mkB4 := fun (d a : SplPoint) (rm : Rat) => (.ok ⟨((((2 * 1000 + d.fn.id) * 100000 + enc d.r) * 1000 + a.fn.id) * 100000 + enc a.r) * 100000 + enc rm⟩ : Except SplBuildErr SplCore)
    let build := fun (f : SplFactory) (d a : SplPoint) (mid : PInstS) =>
      if f.spline_keyword == "exp_spline" then exp_build_spline mkExp d a mid else buck4_build_spline mkB4 d a mid
    match spline_modifier negInf mkFn build (fun c => ⟨c⟩) forms () with
    | .ok o => return natJ o.core.id
    | .error e => return Json.str (match e with
        | .notOneArgument => "notOneArgument" | .onlyOne => "onlyOne" | .middleIsModifier => "middleIsModifier" | .unknownSplineType => "unknownSplineType"
        | .onlyTwo => "onlyTwo" | .moreThanThree => "moreThanThree" | .firstNotBelowSecond => "firstNotBelowSecond" | .secondNotBelowThird => "secondNotBelowThird"
        | .cannotJoin => "cannotJoin" | .needsPackage => "needsPackage" | .config => "config" | .indexError => "indexError")
  | "list_items" =>
    -- _query_actions._list_items (with parsed_sections / orphan_sections) on a file given as lines (read by the model's reader): the labels and raw values, in order
    let lines ← (← getArr j "lines").mapM parseLine
    match readIni currentCfg lines with
    | .error e => return Json.mkObj [("err", errJ' e)]
    | .ok ini =>
      let getV := fun (r : IniRec) (s k : String) =>
        -- (the raw parser compares option keys without their white space)
        if s == r.default_section then ((r.state.vars.find? fun p => p.1 == Atsim.norm k).map (·.2)).getD ""
        else (((r.state.sections.find? fun p => p.1 == s).bind fun p => p.2.find? fun q => q.1 == Atsim.norm k).map (·.2)).getD ""
      -- `^\s*Table-Form\s*:` of _TableFormSection._section_name_regex
      let isRel := fun (s : String) =>
        let t := (s.toList.dropWhile Char.isWhitespace)
        let pre := "Table-Form".toList
        t.take pre.length == pre && ((t.drop pre.length).dropWhile Char.isWhitespace).head? == some ':'
      let items := list_items hasSectionR sectionKeysR getV (fun r => r.state.sections.map (·.1)) (fun r => r.state.vars.map (·.1)) isRel ⟨wrap ini⟩
      -- `queries`: labels handed to _item_value (listed ones and others): the value, or the error
      let qs := (getStrs j "queries").toOption.getD []
      let iv := qs.map fun q => match item_value hasSectionR sectionKeysR getV (fun r => r.state.sections.map (·.1)) (fun r => r.state.vars.map (·.1)) isRel hasOptionR ⟨wrap ini⟩ q with
        | .ok v => arrJ [Json.str "ok", Json.str v]
        | .error e => arrJ [Json.str "error", Json.str (match e with | .missing => "missing" | .exists => "exists" | .badValue => "badValue" | .malformedOption => "malformedOption")]
      return Json.mkObj [("items", arrJ (items.map fun p => arrJ [Json.str p.1, Json.str p.2])), ("values", arrJ iv)]
  | "eam_builder" =>
    -- EAM_Potential_Builder._init_eampotentials (zero-filling) on rows (species, function id) and a reference-data table; the set iteration order is `reverse` or the identity
    let rows := fun (k : String) => do (← getArr j k).mapM fun r => do return ({ species := ← getStr r "sp", pfi := ⟨← getNat r "fid"⟩ } : EmbRow)
    let metaT ← (← getArr j "meta").mapM fun r => do
      return ((← getStr r "sp"), (getInt r "z").toOption, (getRat r "mass").toOption, (getRat r "a0").toOption, (getStr r "lat").toOption)
    let look := fun (s : String) => metaT.find? fun e => e.1 == s
    let ord : List String → List String := if (← getBool j "reverse") then List.reverse else id
    match eam_init_potentials (fun p => ⟨p.id⟩) ord (fun s => (look s).bind (·.2.2.1)) (fun s => (look s).bind (·.2.1)) (fun s => (look s).bind (·.2.2.2.1)) (fun s => (look s).bind (·.2.2.2.2))
        (← getBool j "add_undefined") ⟨← rows "embed", ← rows "density"⟩ () () with
    | .ok l => return arrJ (l.map fun e => arrJ [Json.str e.species, intJ e.atomicNumber, ratJ e.mass, ratJ e.latticeConstant, Json.str e.latticeType, natJ e.embed.fid, natJ e.dens.fid])
    | .error e => return Json.str (match e with | .speciesMismatch => "speciesMismatch" | .noMass => "noMass" | .noAtomicNumber => "noAtomicNumber" | .keyError => "keyError" | .duplicateDensity => "duplicateDensity")
  | "modifiers" =>
    -- sum / product / pow of _modifiers.py on constant callables: a callable is its (natural) value, the combinators are + * ^ on values
    let ids ← (← getArr j "ids").mapM fun x => x.getNat?
    let forms : List Pfi := ids.map fun i => ⟨i⟩
    let mk := fun (p : Pfi) => (⟨p.id⟩ : FnObj2)
    let r := match (← getStr j "which") with
      | "sum" => modifier_sum mk (fun a b => ⟨a.id + b.id⟩) forms ()
      | "product" => modifier_product mk (fun a b => ⟨a.id * b.id⟩) forms ()
      | _ => modifier_pow mk (fun a b => ⟨a.id ^ b.id⟩) forms ()
    return match r with | .ok v => natJ v.id | .error _ => Json.str "noArguments"
  | "register_each_other" =>
    -- Potential_Form_Registry._register_with_each_other on n forms (ids 0..n-1): the calls a.register_function(b) as [a, b], in order
    let n ← getNat j "n"
    let forms : List (String × FormObj) := (List.range n).map fun i => (toString i, ⟨i⟩)
    return arrJ ((register_with_each_other (fun f => ⟨f.id⟩) forms []).map fun p => arrJ [natJ p.1.id, natJ p.2.id])
  | "create_tabulation" =>
    -- create_tabulation of the four kinds of factory on a [Tabulation] section (absent keys are null); the pair objects and the EAM objects are opaque lists (2 and 3
    -- items); `pair_fails` / `builder_fails`: the builders raise; the tabulation class records its constructor arguments (lengths and numbers)
    let opt := fun (k : String) => match j.getObjVal? k with | .ok Json.null => none | .ok _ => (getRat j k).toOption | .error _ => none
    let optI := fun (k : String) => match j.getObjVal? k with | .ok Json.null => none | .ok _ => (getInt j k).toOption | .error _ => none
    let t : TabSec := ⟨opt "cutoff", optI "nr", opt "cutoff_rho", optI "nrho"⟩
    let pots : List PotObj := [⟨"A", "B", ⟨1⟩⟩, ⟨"B", "B", ⟨2⟩⟩]
    let pf ← getBool j "pair_fails"
    let bf ← getBool j "builder_fails"
    let pairObjects := fun (_ _ : Unit) (_ : CpRec) => if pf then (.error FactoryErr.other : Except FactoryErr (List PotObj)) else .ok pots
    let eamBuilder := fun (_ : CpRec) (_ _ : Unit) (_ : RefObj) => if bf then (.error FactoryErr.other : Except FactoryErr BuilderObj) else .ok ⟨3⟩
    let eams := fun (b : BuilderObj) => (List.range b.id).map fun i => ({ species := toString i, atomicNumber := 1, mass := 1, latticeConstant := 0, latticeType := "fcc", embed := ⟨1⟩ } : EamRec)
    let tab3 := fun (a : List PotObj × Rat × Int) => (⟨[(a.1.length : Rat), a.2.1, (a.2.2 : Rat)]⟩ : TabObj)
    let tab6 := fun (a : List PotObj × List EamRec × Rat × Int × Rat × Int) => (⟨[(a.1.length : Rat), (a.2.1.length : Rat), a.2.2.1, (a.2.2.2.1 : Rat), a.2.2.2.2.1, (a.2.2.2.2.2 : Rat)]⟩ : TabObj)
    let sf ← getStrs j "sections_fail"
    let sectionObjects := fun (_ : CpRec) (_ _ : Unit) (nm : String) => if sf.contains nm then (.error FactoryErr.other : Except FactoryErr (List PotObj))
      else .ok (if nm == "EAM-ADP-Dipole" then [⟨"A", "A", ⟨5⟩⟩] else if nm == "EAM-ADP-Quadrupole" then [⟨"A", "A", ⟨6⟩⟩, ⟨"A", "B", ⟨7⟩⟩, ⟨"B", "B", ⟨8⟩⟩, ⟨"B", "C", ⟨9⟩⟩] else [])
    let tab8 := fun (a : List PotObj × List EamRec × List PotObj × List PotObj × Rat × Int × Rat × Int) =>
      (⟨[(a.1.length : Rat), (a.2.1.length : Rat), (a.2.2.1.length : Rat), (a.2.2.2.1.length : Rat), a.2.2.2.2.1, (a.2.2.2.2.2.1 : Rat), a.2.2.2.2.2.2.1, (a.2.2.2.2.2.2.2 : Rat)]⟩ : TabObj)
    let r := match (← getStr j "which") with
      | "adp" => adp_create_tabulation pairObjects (fun _ => ⟨0⟩) eamBuilder eams sectionObjects tab8 ⟨t⟩
      | "pair" => pair_create_tabulation pairObjects tab3 ⟨t⟩
      | "dlpoly" => dlpoly_create_tabulation pairObjects tab3 ⟨t⟩
      | "lammps" => lammps_create_tabulation pairObjects tab3 ⟨t⟩
      | _ => eam_create_tabulation pairObjects (fun _ => ⟨0⟩) eamBuilder eams tab6 ⟨t⟩
    match r with
    | .ok o => return arrJ (o.args.map ratJ)
    | .error e => return Json.str (match e with | .notMultipleOfFour => "notMultipleOfFour" | .fourRowsOrFewer => "fourRowsOrFewer" | .fewerThanThreePoints => "fewerThanThreePoints" | .other => "other")
  | "read_from_parser" =>
    -- Configuration.read_from_parser: factory table (names, in order; factories named in `failing` raise), the parser's target or null
    let names ← getStrs j "factories"
    let failing ← getStrs j "failing"
    let facs : List (String × FactoryObj) := (List.range names.length).zip names |>.map fun p => (p.2, ⟨p.1⟩)
    let tgt := match j.getObjVal? "target" with | .ok (Json.str t) => some t | _ => none
    let create := fun (f : FactoryObj) (_ : CpT) => if failing.contains (names.getD f.id "") then (.error TargetErr.factory : Except TargetErr TabulationObj) else .ok ⟨f.id⟩
    match read_from_parser create facs ⟨⟨tgt⟩⟩ with
    | .ok t => return natJ t.id
    | .error e => return Json.str (match e with | .unknownTarget => "unknownTarget" | .factory => "factory")
  | "pair_builder" =>
    -- Pair_Potentials_From_Tuples_Builder._init_potentials with the form builder underneath: rows {a, b, inst}; the registries know `forms` / `modifiers`; factories of
    -- the names in `failing` raise a ConfigurationException; a callable is the code of the Multi_Range_Defn list it was made from
    let forms ← getStrs j "forms"
    let mods ← getStrs j "modifiers"
    let failing ← getStrs j "failing"
    let rows ← (← getArr j "rows").mapM fun r => do
      return ({ species := ⟨← getStr r "a", ← getStr r "b"⟩, potential_form_instance := ← parseInst (← r.getObjVal? "inst") } : PairRow)
    let lookupM := fun (_ : PfbSelf) (n : String) => if mods.contains n then some (⟨nodeId n⟩ : ModFactory) else none
    let lookupF := fun (_ : PfbSelf) (n : String) => if forms.contains n then some (⟨nodeId n⟩ : FormFactory) else none
    let bad := fun (i : Nat) => failing.any fun n => nodeId n == i
    let applyM := fun (f : ModFactory) (args : List PInst) (_ : PfbSelf) => if bad f.id then (.error PfbErr.config : Except PfbErr PForm) else .ok ⟨f.id * 10 + args.length⟩
    let applyF := fun (f : FormFactory) (ps : List Rat) => if bad f.id then (.error PfbErr.config : Except PfbErr PForm) else .ok ⟨f.id * 10 + ps.length⟩
    let mk := fun (ts : List MRDefn) => (.ok ⟨ts.foldl (fun acc t => acc * 10000000 + defnCode t + 1) 0⟩ : Except PfbErr PotFn)
    match pair_init_potentials lookupM lookupF applyM applyF mk rows 0 0 with
    | .ok l => return arrJ (l.map fun p => arrJ [Json.str p.a, Json.str p.b, natJ p.fn.id])
    | .error e => return Json.str (match e with | .unknownModifier => "unknownModifier" | .unknownForm => "unknownForm" | .problemDefining => "problemDefining")
  | "eam_builder_fs" =>
    -- EAM_Potential_Builder_FS._init_eampotentials on embed rows (species, function id), density rows (from, to, function id) and a reference-data table;
    -- each element's inner dictionary is reported sorted by neighbour (its order is not part of what is compared)
    let erows ← (← getArr j "embed").mapM fun r => do return ({ species := ← getStr r "sp", pfi := ⟨← getNat r "fid"⟩ } : EmbRow)
    let drows ← (← getArr j "density").mapM fun r => do return ({ species := ⟨← getStr r "from", ← getStr r "to"⟩, pfi := ⟨← getNat r "fid"⟩ } : FsRow)
    let metaT ← (← getArr j "meta").mapM fun r => do
      return ((← getStr r "sp"), (getInt r "z").toOption, (getRat r "mass").toOption, (getRat r "a0").toOption, (getStr r "lat").toOption)
    let look := fun (s : String) => metaT.find? fun e => e.1 == s
    let ord : List String → List String := if (← getBool j "reverse") then List.reverse else id
    match eam_init_potentials_fs (fun p => ⟨p.id⟩) ord (fun s => (look s).bind (·.2.2.1)) (fun s => (look s).bind (·.2.1)) (fun s => (look s).bind (·.2.2.2.1)) (fun s => (look s).bind (·.2.2.2.2))
        (← getBool j "add_undefined") ⟨erows, drows⟩ () () with
    | .ok l => return arrJ (l.map fun e => arrJ [Json.str e.species, intJ e.atomicNumber, ratJ e.mass, ratJ e.latticeConstant, Json.str e.latticeType, natJ e.embed.fid,
        arrJ ((stableSortBy (fun a b => decide (a.1 ≤ b.1)) e.densFS).map fun p => arrJ [Json.str p.1, natJ p.2.fid])])
    | .error e => return Json.str (match e with | .speciesMismatch => "speciesMismatch" | .noMass => "noMass" | .noAtomicNumber => "noAtomicNumber" | .keyError => "keyError"
                                                | .duplicateDensity => "duplicateDensity")
  | "tab_write" =>
    -- the `write` methods of the tabulation objects; answer: the tokens (or "raised") and the number of chunks the destination-mode twin hands the destination
    let which ← getStr j "which"
    let nr ← getInt j "nr"
    let cut ← getRat j "cut"
    let pots ← parsePotRecs j
    if which == "lammps" then
      let t : TabRec := { nr := nr, cutoff := cut, potentials := pots }
      return Json.mkObj [("toks", arrJ ((lammps_tab_write t []).map tokJ)), ("writes", natJ (lammps_tab_write_writes t []).length)]
    else if which == "dlpoly" then
      let t : TabRec := { nr := nr, cutoff := cut, potentials := pots }
      return Json.mkObj [("toks", match dlpoly_tab_write t [] with | .ok r => arrJ (r.map tokJ) | .error _ => Json.str "raised"), ("writes", natJ (dlpoly_tab_write_writes t []).length)]
    else
      let dip ← (← getArr j "dipoles").mapM fun p => do return ({ a := ← getStr p "a", b := ← getStr p "b", fid := ← getNat p "fid" } : PotRec)
      let quad ← (← getArr j "quadrupoles").mapM fun p => do return ({ a := ← getStr p "a", b := ← getStr p "b", fid := ← getNat p "fid" } : PotRec)
      let e : EamTabRec := { nr := nr, cutoff := cut, nrho := ← getInt j "nrho", cutoff_rho := ← getRat j "cutrho", eam_potentials := ← parseEamRecs j, potentials := pots,
                             dipole_potentials := dip, quadrupole_potentials := quad }
      match which with
      | "setfl" => return Json.mkObj [("toks", arrJ ((setfl_tab_write e []).map tokJ)), ("writes", natJ (setfl_tab_write_writes e []).length)]
      | "setfl_fs" => return Json.mkObj [("toks", arrJ ((setfl_fs_tab_write e []).map tokJ)), ("writes", natJ (setfl_fs_tab_write_writes e []).length)]
      | "tabeam" => return Json.mkObj [("toks", arrJ ((tabeam_tab_write e []).map tokJ)), ("writes", natJ (tabeam_tab_write_writes e []).length)]
      | "tabeam_fs" =>
        return Json.mkObj [("toks", match tabeam_fs_tab_write e [] with | .ok r => arrJ (r.map tokJ) | .error _ => Json.str "raised"), ("writes", natJ (tabeam_fs_tab_write_writes e []).length)]
      | "adp" => return Json.mkObj [("toks", arrJ ((adp_tab_write e []).map tokJ)), ("writes", natJ (adp_tab_write_writes e []).length)]
      | _ => throw s!"unknown tabulation {which}"
  | "cli_species" =>
    -- the species choice of potable's _do_tabulation: {"include": [..]|null, "exclude": [..]|null} -> [species list | null, exclude flag]
    let optList := fun (k : String) => do
      match j.getObjVal? k with
      | .ok Json.null => pure (none : Option (List String))
      | .ok v => do pure (some (← (← v.getArr?).toList.mapM fun x => x.getStr?))
      | .error _ => pure none
    let (sp, fl) := cli_species_choice () ⟨← optList "include", ← optList "exclude"⟩
    return arrJ [match sp with | some l => arrJ (l.map Json.str) | none => Json.null, Json.bool fl]
  | "cli_operations" =>
    -- _create_override_tuple / _item_id / the dictionary part of _make_config_parser; absent option kinds are `null`
    let optLists := fun (k : String) => do
      match j.getObjVal? k with
      | .ok Json.null => pure (none : Option (List (List String)))
      | .ok v => do
        let outer ← v.getArr?
        let ll ← outer.toList.mapM fun g => do (← g.getArr?).toList.mapM fun x => x.getStr?
        pure (some ll)
      | .error _ => pure none
    let ovJ' := fun (o : OvRec) => arrJ [Json.str o.sect, Json.str o.key, match o.value with | some v => Json.str v | none => Json.null]
    match cli_operations Atsim.norm () (← optLists "overrides") (← optLists "additional") (← optLists "removes") () () with
    | .ok (o, a) => return Json.mkObj [("overrides", arrJ (o.map ovJ')), ("additional", arrJ (a.map ovJ'))]
    | .error _ => return Json.str "malformedOption"
  | "tabeam" =>
    let r := tabeam_write (← getInt j "nrho") (← getRat j "drho") (← getInt j "nr") (← getRat j "dr") (← parseEamRecs j) (← parsePotRecs j) [] (← getStr j "title")
    return arrJ (r.map tokJ)
  | "tabeam_fs" =>
    match tabeam_write_fs (← getInt j "nrho") (← getRat j "drho") (← getInt j "nr") (← getRat j "dr") (← parseEamRecs j) (← parsePotRecs j) [] (← getStr j "title") with
    | .ok r => return arrJ (r.map tokJ)
    | .error _ => return Json.str "raised"
  | "setfl" =>
    -- the public functions writeSetFL / writeSetFLFinnisSinclair (comments, optional cutoff)
    let els ← parseEamRecs j
    let cutoff : Option Rat := (getRat j "cutoff").toOption
    let w := if (← getBool j "fs") then setfl_write_fs else setfl_write_alloy
    let r := w (← getInt j "nrho") (← getRat j "drho") (← getInt j "nr") (← getRat j "dr") els (← parsePotRecs j) [] (← getStrs j "comments") cutoff
    return arrJ (r.map tokJ)
  | "table_reader" =>
    -- TableReaderBase._findIndex / getValue on sorted rows; bisect_left is the model's count of rows with a smaller abscissa
    let rows ← (← getArr j "rows").mapM fun r => do return ((← getRat r "x"), (← getRat r "y"))
    let xs ← (← getArr j "xs").mapM fun x => do match x.getStr? with | .ok t => (getRat (Json.mkObj [("v", Json.str t)]) "v") | .error e => throw e
    let bl := fun (t : List (Rat × Rat)) (y : Rat) => ((Atsim.bisectLeft t y : Nat) : Int)
    return arrJ (xs.map fun x => arrJ [match find_index bl rows x with | some i => intJ i | none => Json.null, ratJ (get_value bl rows x)])
  -- destination mode: how many `write` calls reach the destination (the `_writes` twins)
  | "writes_lammps" =>
    return natJ (lammps_write_potentials_writes (← parsePotRecs j) (← getRat j "minr") (← getRat j "maxr") (← getInt j "n") []).length
  | "writes_dlpoly" =>
    return natJ (dlpoly_write_potentials_writes (← parsePotRecs j) (← getRat j "cut") (← getInt j "n") []).length
  | "writes_gulp" =>
    return natJ (gulp_write_writes { nr := ← getInt j "n", cutoff := ← getRat j "cut", potentials := ← parsePotRecs j } []).length
  | "writes_setfl" =>
    let w := if (← getBool j "fs") then setfl_write_fs_writes else setfl_write_alloy_writes
    return natJ (w (← getInt j "nrho") (← getRat j "drho") (← getInt j "nr") (← getRat j "dr") (← parseEamRecs j) (← parsePotRecs j) [] (← getStrs j "comments") ((getRat j "cutoff").toOption)).length
  | "writes_tabeam" =>
    return natJ (tabeam_write_writes (← getInt j "nrho") (← getRat j "drho") (← getInt j "nr") (← getRat j "dr") (← parseEamRecs j) (← parsePotRecs j) [] (← getStr j "title")).length
  | "writes_tabeam_fs" =>
    return natJ (tabeam_write_fs_writes (← getInt j "nrho") (← getRat j "drho") (← getInt j "nr") (← getRat j "dr") (← parseEamRecs j) (← parsePotRecs j) [] (← getStr j "title")).length
  | "lammps" =>
    let r := lammps_write_potentials (← parsePotRecs j) (← getRat j "minr") (← getRat j "maxr") (← getInt j "n") []
    return arrJ (r.map tokJ)
  | "dlpoly" =>
    match dlpoly_write_potentials (← parsePotRecs j) (← getRat j "cut") (← getInt j "n") [] with
    | .ok r => return arrJ (r.map tokJ)
    | .error _ => return Json.str "raised"
  | "gulp" =>
    let r := gulp_write { nr := ← getInt j "n", cutoff := ← getRat j "cut", potentials := ← parsePotRecs j } []
    return arrJ (r.map tokJ)
  | "range_search" =>
    let defs ← (← getArr j "defs").mapM fun d => do
      return ({ range_type := ← getStr d "t", start := ← getInt d "s", f := ← getNat d "f" } : PRange)
    let sorted := range_defns_setter defs
    let rs ← (← getArr j "rs").mapM fun x => x.getInt?
    return arrJ (rs.map fun r => match range_search sorted r with | some t => natJ t.f | none => Json.null)
  | "check_tuple" =>
    return Json.bool (check_tuple (← getStrs j "S") (← getBool j "exclude") (← getStrs j "t"))
  | _ => throw s!"unknown gen op {op}"

end Atsim.Drv
