import AtsimModel.Driver.Json
import AtsimModel.Gen.Logic
/-! Driver for the REGENERATED definitions of `Gen/Logic.lean` (kept apart from the model driver: when the translator cannot translate a function any more
    this file does not build, which must not take the model driver with it).  Used by the harness to validate the translator itself: the generated writer
    is run on concrete inputs, its tokens are rendered with Python's own formatting and compared byte for byte with what the real writer wrote. -/
namespace Atsim.Drv
open Lean Atsim.Gen.Logic

partial def ovJ : OV → Json
  | .int i => arrJ [Json.str "i", intJ i]
  | .num q => arrJ [Json.str "q", ratJ q]
  | .str s => arrJ [Json.str "s", Json.str s]
  | .fn w f x => arrJ [Json.str "f", Json.str w, natJ f, ratJ x]
  | .repr v => arrJ [Json.str "r", ovJ v]
  | .scaled r v => arrJ [Json.str "x", ratJ r, ovJ v]

def tokJ (t : Tok) : Json := arrJ [Json.str t.fmt, arrJ (t.args.map ovJ)]

def parsePotRecs (j : Json) : Except String (List PotRec) := do
  (← getArr j "pots").mapM fun p => do
    return { a := ← getStr p "a", b := ← getStr p "b", fid := ← getNat p "fid" }

def handleGen (op : String) (j : Json) : Except String Json := do
  match op with
  | "lammps" =>
    let r := lammps_write_potentials (← parsePotRecs j) (← getRat j "minr") (← getRat j "maxr") (← getInt j "n") []
    return arrJ (r.map tokJ)
  | "dlpoly" =>
    match dlpoly_write_potentials (← parsePotRecs j) (← getRat j "cut") (← getInt j "n") [] with
    | .ok r => return arrJ (r.map tokJ)
    | .error _ => return Json.str "raised"
  | "gulp" =>
    let r := gulp_write { nr := ← getInt j "n", cutoff := ← getRat j "cut", potentials := ← parsePotRecs j } []
    return arrJ (r.map tokJ)
  | "range_search" =>
    let defs ← (← getArr j "defs").mapM fun d => do
      return ({ range_type := ← getStr d "t", start := ← getInt d "s", f := ← getNat d "f" } : PRange)
    let sorted := range_defns_setter defs
    let rs ← (← getArr j "rs").mapM fun x => x.getInt?
    return arrJ (rs.map fun r => match range_search sorted r with | some t => natJ t.f | none => Json.null)
  | "check_tuple" =>
    return Json.bool (check_tuple (← getStrs j "S") (← getBool j "exclude") (← getStrs j "t"))
  | _ => throw s!"unknown gen op {op}"

end Atsim.Drv
