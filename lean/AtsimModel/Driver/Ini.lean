import AtsimModel.Driver.Json
import AtsimModel.Model.Ini
import AtsimModel.Model.Interp
namespace Atsim.Drv
open Lean

def parseLine (j : Json) : Except String Line := do
  match (← j.getArr?).toList with
  | [.str "sec", .str n] => return .sec n
  | [.str "kv", .str k, .str v] => return .kv k v
  | _ => throw "bad line"

def parseOp (j : Json) : Except String Op := do
  match (← j.getArr?).toList with
  | [.str "override", .str s, .str k, .str v] => return .override s k v
  | [.str "remove", .str s, .str k] => return .remove s k
  | [.str "add", .str s, .str k, .str v] => return .add s k v
  | _ => throw "bad op"

def kvsJ (l : List KV) : Json := arrJ (l.map fun p => arrJ [Json.str p.1, Json.str p.2])

def iniJ (i : Ini) : Json :=
  Json.mkObj [("sections", arrJ (i.sections.map fun p => arrJ [Json.str p.1, kvsJ p.2])), ("vars", kvsJ i.vars)]

def errJ' : IniErr → Json
  | .duplicate => "duplicate" | .missing => "missing" | .exists => "exists" | .noHeader => "noHeader"

def handleIni (op : String) (j : Json) : Except String Json := do
  let cfg : IniCfg := ⟨(getBool j "normKeys").toOption.getD true, (getBool j "ownKeys").toOption.getD true, (getBool j "listVars").toOption.getD true⟩
  let lines ← (← getArr j "lines").mapM parseLine
  match op with
  | "apply" =>
    let ovs ← match optField j "overrides" with | none => pure [] | some _ => do (← getArr j "overrides").mapM parseOp
    let rms ← match optField j "removes" with | none => pure [] | some _ => do (← getArr j "removes").mapM parseOp
    let ads ← match optField j "additional" with | none => pure [] | some _ => do (← getArr j "additional").mapM parseOp
    let cli := (getBool j "cli").toOption.getD false
    let ovl := if cli then cliOverrides ovs rms else ovs ++ rms
    match readIni cfg lines with
    | .error e => return Json.mkObj [("err", errJ' e)]
    | .ok ini =>
      match applyOps cfg ini ovl ads with
      | .error e => return Json.mkObj [("err", errJ' e)]
      | .ok r => return Json.mkObj [("ini", iniJ r),
          ("items", arrJ ((listItems cfg r).map fun (s, k, v) => arrJ [Json.str s, Json.str k, Json.str v])),
          ("keys", arrJ (r.sections.map fun p => arrJ [Json.str p.1, arrJ ((sectionKeys cfg r p.1).map Json.str)]))]
  | _ => throw s!"unknown ini op {op}"

end Atsim.Drv

namespace Atsim.Drv
open Lean

def parsePart (j : Json) : Except String Part := do
  match (← j.getArr?).toList with
  | [.str "lit", .str s] => return .lit s
  | [.str "ref", .str n] => return .ref n
  | [.str "xref", .str s, .str n] => return .xref s n
  | _ => throw "bad part"

def parseTKVs (j : Json) : Except String (List (String × TVal)) := do
  (← j.getArr?).toList.mapM fun p => do
    match (← p.getArr?).toList with
    | [.str k, v] => return (k, ← (← v.getArr?).toList.mapM parsePart)
    | _ => throw "bad templated kv"

def handleInterp (op : String) (j : Json) : Except String Json := do
  match op with
  | "resolve" =>
    let secs ← (← getArr j "sections").mapM fun s => do
      match (← s.getArr?).toList with
      | [.str n, kvs] => return (n, ← parseTKVs kvs)
      | _ => throw "bad section"
    let vars ← parseTKVs (← j.getObjVal? "vars")
    let ini : TIni := ⟨secs, vars⟩
    -- resolve every value of every section
    return arrJ (secs.map fun (n, kvs) => arrJ [Json.str n, arrJ (kvs.map fun (k, v) =>
      arrJ [Json.str k, match resolveVal ini 10 n v with | some t => Json.str t | none => Json.null])])
  | _ => throw s!"unknown interp op {op}"

end Atsim.Drv
