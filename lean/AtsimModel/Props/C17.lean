import AtsimModel.Model.WriteTrace
import AtsimModel.Gen.Logic
/-!
# C17 — a failed tabulation never leaves a partial table behind

`writesBeforeFailure t k` is the number of writes that reached the destination when the k-th function evaluation raises.
Tie to the code: `harness/props/C17.py` enumerates EVERY fault position k for every target on small grids, records the
real evaluation/write event sequence and compares it with these traces.
-/
namespace Atsim.C17
open Atsim

theorem writesBefore_replicate_ev (n k : Nat) (rest : List Ev) (hk : 1 ≤ k) (hkn : k ≤ n) :
    writesBeforeFailure (List.replicate n .ev ++ rest) k = 0 := by
  induction n generalizing k with
  | zero => omega
  | succ n ih =>
    simp only [List.replicate_succ, List.cons_append, writesBeforeFailure]
    by_cases h1 : k ≤ 1
    · simp [h1]
    · simp only [h1, if_false]
      exact ih (k - 1) (by omega) (by omega)

/-- buffered writers, any size, any fault position: nothing has been written when an evaluation fails -/
theorem C17_buffered (n k : Nat) (hk : 1 ≤ k) (hkn : k ≤ n) : writesBeforeFailure (traceBuffered n) k = 0 := by
  unfold traceBuffered
  exact writesBefore_replicate_ev n k [.wr] hk hkn

/-- … and without a failure exactly one write happens, after all n evaluations -/
theorem C17_buffered_complete (n : Nat) : evalCount (traceBuffered n) = n ∧ (traceBuffered n).count .wr = 1 := by
  simp [traceBuffered, evalCount, List.count_append, List.count_replicate]

/-- SHIPPED GULP writer (kept as regression witness): a failure at ANY evaluation leaves something behind -
    the two header lines at least (3 potentials x 4 rows, failure at the very first evaluation) -/
theorem C17_gulp_streamed_witness : writesBeforeFailure (traceGulpStreamed 3 4) 1 = 2 ∧ writesBeforeFailure (traceGulpStreamed 3 4) 7 = 10 := by
  decide

/-- SHIPPED ADP writer: a failure inside the dipole or quadrupole phase leaves the complete setfl part behind -/
theorem C17_adp_three_writes_witness : writesBeforeFailure (traceAdpThreeWrites 5 3 3) 5 = 0 ∧ writesBeforeFailure (traceAdpThreeWrites 5 3 3) 6 = 1 ∧
    writesBeforeFailure (traceAdpThreeWrites 5 3 3) 9 = 2 := by
  decide

/-- in general: once the first phase has been written, every later failure finds a non-empty destination -/
theorem C17_adp_three_writes (n1 n2 n3 k : Nat) (hk : n1 < k) (hk2 : k ≤ n1 + n2 + n3) :
    1 ≤ writesBeforeFailure (traceAdpThreeWrites n1 n2 n3) k := by
  unfold traceAdpThreeWrites
  have key : ∀ (n k : Nat) (rest : List Ev), n < k →
      writesBeforeFailure (List.replicate n .ev ++ rest) k = writesBeforeFailure rest (k - n) := by
    intro n
    induction n with
    | zero => intro k rest _; simp
    | succ n ih =>
      intro k rest h
      simp only [List.replicate_succ, List.cons_append, writesBeforeFailure]
      have h1 : ¬ k ≤ 1 := by omega
      simp only [h1, if_false]
      rw [ih (k - 1) rest (by omega)]
      congr 1
      omega
  simp only [List.append_assoc]
  rw [key n1 k _ hk]
  simp only [List.cons_append, List.nil_append, writesBeforeFailure]
  omega

/-- non-vacuity -/
example : writesBeforeFailure (traceBuffered 6) 4 = 0 := by decide

/-! ## The code itself: how many `write` calls reach the destination

For every whole-file writer the translator emits a second definition, `<writer>_writes` (`translator/py2lean_logic.py`, destination mode): the same Python function,
statement for statement, in which the output parameter is the DESTINATION - the list of chunks it has received, one per `write` / `print(file=)` call that reaches it
(local `StringIO` builders stay ordinary streams) - and whose value is what the destination holds when control leaves the function, normally or through one of the
function's own `raise` statements.  The theorems below hold for EVERY input: the destination receives exactly ONE chunk, and that chunk is the complete table the
ordinary translation of the same function produces (the functions `Cxx_code_*` of C01-C05/C19 are about); when the function raises (a DL_POLY grid that is not a
multiple of four, a missing Finnis-Sinclair density) it has received nothing.  Every evaluation of a model function whose value appears in the table is an argument of
a token of that single chunk, so it happened before the only `write`: the event sequence is `traceBuffered n` (`C17_code_trace`), which `C17_buffered` is about. -/
namespace CodeTie
open Atsim.Gen.Logic

/-- evaluations of model callables recorded in an opaque argument -/
def ovEvals : OV → Nat
  | .fn _ _ _ => 1
  | .repr v => ovEvals v
  | .scaled _ v => ovEvals v
  | _ => 0

/-- evaluations whose results a chunk of text holds -/
def chunkEvals (c : List Tok) : Nat := (c.map fun t => (t.args.map ovEvals).sum).sum

/-- the event sequence of a destination history: for each chunk, the evaluations that produced it, then the write -/
def evsOf (d : List (List Tok)) : List Ev := d.flatMap fun c => List.replicate (chunkEvals c) Ev.ev ++ [Ev.wr]

end CodeTie

open Atsim.Gen.Logic CodeTie in
/-- a destination that received exactly one chunk has the buffered trace -/
theorem C17_code_trace (c : List Tok) : evsOf [c] = traceBuffered (chunkEvals c) := by
  simp [evsOf, traceBuffered, List.flatMap_cons, List.flatMap_nil]

open Atsim.Gen.Logic in
theorem lammps_writes_loop1_eq (n : Int) (maxr minr : Rat) (d : List (List Tok)) (pots : List PotRec) (pl : List (List Tok)) (xs : List PotRec) :
    lammps_write_potentials_writes_loop1 n maxr minr d pots pl xs = d ++ [lammps_write_potentials_loop1 n maxr minr [] pots pl xs] := by
  induction xs generalizing pl with
  | nil => simp [lammps_write_potentials_writes_loop1, lammps_write_potentials_loop1]
  | cons x rest ih =>
    simp only [lammps_write_potentials_writes_loop1, lammps_write_potentials_loop1]
    exact ih _

open Atsim.Gen.Logic in
/-- **code tie (LAMMPS)**: `writePotentials` hands the destination one chunk: the whole table -/
theorem C17_code_lammps (pots : List PotRec) (minr maxr : Rat) (n : Int) (d : List (List Tok)) :
    lammps_write_potentials_writes pots minr maxr n d = d ++ [lammps_write_potentials pots minr maxr n []] := by
  simp only [lammps_write_potentials_writes, lammps_write_potentials]
  exact lammps_writes_loop1_eq _ _ _ _ _ _ _

open Atsim.Gen.Logic in
theorem dlpoly_writes_loop1_eq (cutoff : Rat) (n : Int) (mesh : Rat) (d : List (List Tok)) (ob : List Tok) (pots : List PotRec) (xs : List PotRec) :
    dlpoly_write_potentials_writes_loop1 cutoff n mesh d ob pots xs =
      match dlpoly_write_potentials_loop1 cutoff n mesh [] ob pots xs with
      | .ok s => d ++ [s]
      | .error _ => d := by
  induction xs generalizing ob with
  | nil => simp [dlpoly_write_potentials_writes_loop1, dlpoly_write_potentials_loop1]
  | cons x rest ih =>
    simp only [dlpoly_write_potentials_writes_loop1, dlpoly_write_potentials_loop1]
    cases h : dlpoly_write_potential x cutoff n mesh ob with
    | error e => simp [andThen]
    | ok v => simp only [andThen]; exact ih _

open Atsim.Gen.Logic in
/-- **code tie (DL_POLY)**: one chunk, or - when the grid is refused - nothing -/
theorem C17_code_dlpoly (pots : List PotRec) (cutoff : Rat) (n : Int) (d : List (List Tok)) :
    dlpoly_write_potentials_writes pots cutoff n d =
      match dlpoly_write_potentials pots cutoff n [] with
      | .ok s => d ++ [s]
      | .error _ => d := by
  simp only [dlpoly_write_potentials_writes, dlpoly_write_potentials]
  exact dlpoly_writes_loop1_eq _ _ _ _ _ _ _

open Atsim.Gen.Logic in
theorem gulp_writes_loop1_eq (d : List (List Tok)) (sb : List Tok) (t : TabRec) (xs : List PotRec) :
    gulp_write_writes_loop1 d sb t xs = d ++ [gulp_write_loop1 [] sb t xs] := by
  induction xs generalizing sb with
  | nil => simp [gulp_write_writes_loop1, gulp_write_loop1]
  | cons x rest ih =>
    simp only [gulp_write_writes_loop1, gulp_write_loop1]
    exact ih _

open Atsim.Gen.Logic in
/-- **code tie (GULP)** -/
theorem C17_code_gulp (t : TabRec) (d : List (List Tok)) : gulp_write_writes t d = d ++ [gulp_write t []] := by
  simp only [gulp_write_writes, gulp_write]
  exact gulp_writes_loop1_eq _ _ _ _

open Atsim.Gen.Logic in
theorem setfl_writes_loop1_eq (comments : List String) (cutoff dr drho : Rat) (els : List EamRec) (nr nrho : Int) (d : List (List Tok)) (pots : List PotRec)
    (wo : List Tok) (wdf : EamRec → List EamRec → Int → Rat → List Tok → List Tok) (xs : List EamRec) :
    setfl_write_writes_loop1 comments cutoff dr drho els nr nrho d pots wo wdf xs =
      d ++ [setfl_write_loop1 comments cutoff dr drho els nr nrho [] pots wo wdf xs] := by
  induction xs generalizing wo with
  | nil => simp [setfl_write_writes_loop1, setfl_write_loop1]
  | cons x rest ih =>
    simp only [setfl_write_writes_loop1, setfl_write_loop1]
    exact ih _

open Atsim.Gen.Logic in
theorem setfl_write_writes_eq (nrho : Int) (drho : Rat) (nr : Int) (dr : Rat) (cutoff : Rat) (els : List EamRec) (pots : List PotRec) (comments : List String)
    (d : List (List Tok)) (wdf : EamRec → List EamRec → Int → Rat → List Tok → List Tok) :
    setfl_write_writes nrho drho nr dr cutoff els pots comments d wdf = d ++ [setfl_write nrho drho nr dr cutoff els pots comments [] wdf] := by
  simp only [setfl_write_writes, setfl_write]
  exact setfl_writes_loop1_eq _ _ _ _ _ _ _ _ _ _ _ _

open Atsim.Gen.Logic in
/-- **code tie (setfl, eam/alloy)** -/
theorem C17_code_setfl (nrho : Int) (drho : Rat) (nr : Int) (dr : Rat) (els : List EamRec) (pots : List PotRec) (comments : List String) (cutoff : Option Rat)
    (d : List (List Tok)) :
    setfl_write_alloy_writes nrho drho nr dr els pots d comments cutoff = d ++ [setfl_write_alloy nrho drho nr dr els pots [] comments cutoff] := by
  cases cutoff with
  | none => simp only [setfl_write_alloy_writes, setfl_write_alloy, setfl_write_writes_eq]
  | some c =>
    simp only [setfl_write_alloy_writes, setfl_write_alloy, setfl_write_writes_eq]
    split <;> rfl

open Atsim.Gen.Logic in
/-- **code tie (setfl, eam/fs)** -/
theorem C17_code_setfl_fs (nrho : Int) (drho : Rat) (nr : Int) (dr : Rat) (els : List EamRec) (pots : List PotRec) (comments : List String) (cutoff : Option Rat)
    (d : List (List Tok)) :
    setfl_write_fs_writes nrho drho nr dr els pots d comments cutoff = d ++ [setfl_write_fs nrho drho nr dr els pots [] comments cutoff] := by
  cases cutoff with
  | none => simp only [setfl_write_fs_writes, setfl_write_fs, setfl_write_writes_eq]
  | some c =>
    simp only [setfl_write_fs_writes, setfl_write_fs, setfl_write_writes_eq]
    split <;> rfl

open Atsim.Gen.Logic in
theorem tabeam_writes_loop1_eq (dr drho : Rat) (els : List EamRec) (nr nrho : Int) (np : Rat) (d : List (List Tok)) (ob : List Tok) (pots : List PotRec)
    (title : String) (xs : List EamRec) :
    tabeam_write_writes_loop1 dr drho els nr nrho np d ob pots title xs = d ++ [tabeam_write_loop1 dr drho els nr nrho np [] ob pots title xs] := by
  induction xs generalizing ob with
  | nil => simp [tabeam_write_writes_loop1, tabeam_write_loop1]
  | cons x rest ih =>
    simp only [tabeam_write_writes_loop1, tabeam_write_loop1]
    exact ih _

open Atsim.Gen.Logic in
/-- **code tie (TABEAM)** -/
theorem C17_code_tabeam (nrho : Int) (drho : Rat) (nr : Int) (dr : Rat) (els : List EamRec) (pots : List PotRec) (title : String) (d : List (List Tok)) :
    tabeam_write_writes nrho drho nr dr els pots d title = d ++ [tabeam_write nrho drho nr dr els pots [] title] := by
  simp only [tabeam_write_writes, tabeam_write]
  exact tabeam_writes_loop1_eq _ _ _ _ _ _ _ _ _ _ _

open Atsim.Gen.Logic in
theorem tabeam_fs_writes_loop2_eq (dr drho : Rat) (ep : EamRec) (els : List EamRec) (nr nrho : Int) (np : Rat) (d : List (List Tok)) (o : List Tok)
    (ob : List Tok) (pots : List PotRec) (spA : String) (sl : List String) (title : String) (xs : List String) :
    tabeam_write_fs_writes_loop2 dr drho ep els nr nrho np d ob pots spA sl title xs =
      tabeam_write_fs_loop2 dr drho ep els nr nrho np o ob pots spA sl title xs := by
  induction xs generalizing ob with
  | nil => simp [tabeam_write_fs_writes_loop2, tabeam_write_fs_loop2]
  | cons x rest ih =>
    simp only [tabeam_write_fs_writes_loop2, tabeam_write_fs_loop2]
    cases densOfOpt ep x with
    | none => rfl
    | some f => exact ih _

open Atsim.Gen.Logic in
theorem tabeam_fs_writes_loop1_eq (dr drho : Rat) (els : List EamRec) (nr nrho : Int) (np : Rat) (d : List (List Tok)) (o : List Tok)
    (ob : List Tok) (pots : List PotRec) (sl : List String) (title : String) (xs : List EamRec) :
    tabeam_write_fs_writes_loop1 dr drho els nr nrho np d ob pots sl title xs =
      tabeam_write_fs_loop1 dr drho els nr nrho np o ob pots sl title xs := by
  induction xs generalizing ob with
  | nil => simp [tabeam_write_fs_writes_loop1, tabeam_write_fs_loop1]
  | cons x rest ih =>
    simp only [tabeam_write_fs_writes_loop1, tabeam_write_fs_loop1]
    rw [tabeam_fs_writes_loop2_eq (o := o)]
    cases tabeam_write_fs_loop2 dr drho x els nr nrho np o ob pots x.species sl title sl with
    | error e => rfl
    | ok v => simp only [andThen]; exact ih _

open Atsim.Gen.Logic in
/-- **code tie (TABEAM, extended EAM)**: one chunk, or - when a density is missing - nothing -/
theorem C17_code_tabeam_fs (nrho : Int) (drho : Rat) (nr : Int) (dr : Rat) (els : List EamRec) (pots : List PotRec) (title : String) (d : List (List Tok)) :
    tabeam_write_fs_writes nrho drho nr dr els pots d title =
      match tabeam_write_fs nrho drho nr dr els pots [] title with
      | .ok s => d ++ [s]
      | .error _ => d := by
  simp only [tabeam_write_fs_writes, tabeam_write_fs]
  rw [tabeam_fs_writes_loop1_eq (o := [])]
  cases tabeam_write_fs_loop1 dr drho els nr nrho _ [] _ pots _ title els with
  | error e => rfl
  | ok v => simp [andThen]

open Atsim.Gen.Logic CodeTie in
/-- hence, for instance for LAMMPS tables of any size: whichever evaluation fails, nothing has reached an empty destination -/
theorem C17_code_lammps_no_partial (pots : List PotRec) (minr maxr : Rat) (n : Int) (k : Nat)
    (hk : 1 ≤ k) (hkn : k ≤ chunkEvals (lammps_write_potentials pots minr maxr n [])) :
    writesBeforeFailure (evsOf (lammps_write_potentials_writes pots minr maxr n [])) k = 0 := by
  rw [C17_code_lammps, List.nil_append, C17_code_trace]
  exact C17_buffered _ k hk hkn


open Atsim.Gen.Logic in
/-- **code tie (the tabulation objects' `write` methods)**: each hands the destination one chunk holding the complete table, or nothing when it raises -/
theorem C17_code_tabulation_objects (t : TabRec) (e : EamTabRec) (d : List (List Tok)) :
    lammps_tab_write_writes t d = d ++ [lammps_tab_write t []] ∧
    (dlpoly_tab_write_writes t d = match dlpoly_tab_write t [] with | .ok s => d ++ [s] | .error _ => d) ∧
    setfl_tab_write_writes e d = d ++ [setfl_tab_write e []] ∧
    setfl_fs_tab_write_writes e d = d ++ [setfl_fs_tab_write e []] ∧
    tabeam_tab_write_writes e d = d ++ [tabeam_tab_write e []] ∧
    (tabeam_fs_tab_write_writes e d = match tabeam_fs_tab_write e [] with | .ok s => d ++ [s] | .error _ => d) ∧
    adp_tab_write_writes e d = d ++ [adp_tab_write e []] := by
  refine ⟨?_, ?_, ?_, ?_, ?_, ?_, ?_⟩
  · simp only [lammps_tab_write_writes, lammps_tab_write]
    exact C17_code_lammps _ _ _ _ _
  · simp only [dlpoly_tab_write_writes, dlpoly_tab_write]
    rw [C17_code_dlpoly]
    cases dlpoly_write_potentials t.potentials t.cutoff t.nr [] with
    | error err => rfl
    | ok v => rfl
  · simp only [setfl_tab_write_writes, setfl_tab_write]
    exact C17_code_setfl _ _ _ _ _ _ _ _ _
  · simp only [setfl_fs_tab_write_writes, setfl_fs_tab_write]
    exact C17_code_setfl_fs _ _ _ _ _ _ _ _ _
  · simp only [tabeam_tab_write_writes, tabeam_tab_write]
    exact C17_code_tabeam _ _ _ _ _ _ _ _
  · simp only [tabeam_fs_tab_write_writes, tabeam_fs_tab_write]
    rw [C17_code_tabeam_fs]
    cases tabeam_write_fs e.nrho (eamtab_drho e) e.nr (eamtab_dr e) e.eam_potentials e.potentials [] "" with
    | error err => rfl
    | ok v => rfl
  · simp only [adp_tab_write_writes, adp_tab_write, List.nil_append]

end Atsim.C17
