import AtsimModel.Model.WriteTrace
/-!
# C17 — a failed tabulation never leaves a partial table behind

`writesBeforeFailure t k` is the number of writes that reached the destination when the k-th function evaluation raises.
Tie to the code: `harness/props/C17.py` enumerates EVERY fault position k for every target on small grids, records the
real evaluation/write event sequence and compares it with these traces.
-/
namespace Atsim.C17
open Atsim

theorem writesBefore_replicate_ev (n k : Nat) (rest : List Ev) (hk : 1 ≤ k) (hkn : k ≤ n) :
    writesBeforeFailure (List.replicate n .ev ++ rest) k = 0 := by
  induction n generalizing k with
  | zero => omega
  | succ n ih =>
    simp only [List.replicate_succ, List.cons_append, writesBeforeFailure]
    by_cases h1 : k ≤ 1
    · simp [h1]
    · simp only [h1, if_false]
      exact ih (k - 1) (by omega) (by omega)

/-- buffered writers, any size, any fault position: nothing has been written when an evaluation fails -/
theorem C17_buffered (n k : Nat) (hk : 1 ≤ k) (hkn : k ≤ n) : writesBeforeFailure (traceBuffered n) k = 0 := by
  unfold traceBuffered
  exact writesBefore_replicate_ev n k [.wr] hk hkn

/-- … and without a failure exactly one write happens, after all n evaluations -/
theorem C17_buffered_complete (n : Nat) : evalCount (traceBuffered n) = n ∧ (traceBuffered n).count .wr = 1 := by
  simp [traceBuffered, evalCount, List.count_append, List.count_replicate]

/-- SHIPPED GULP writer (kept as regression witness): a failure at ANY evaluation leaves something behind -
    the two header lines at least (3 potentials x 4 rows, failure at the very first evaluation) -/
theorem C17_gulp_streamed_witness : writesBeforeFailure (traceGulpStreamed 3 4) 1 = 2 ∧ writesBeforeFailure (traceGulpStreamed 3 4) 7 = 10 := by
  decide

/-- SHIPPED ADP writer: a failure inside the dipole or quadrupole phase leaves the complete setfl part behind -/
theorem C17_adp_three_writes_witness : writesBeforeFailure (traceAdpThreeWrites 5 3 3) 5 = 0 ∧ writesBeforeFailure (traceAdpThreeWrites 5 3 3) 6 = 1 ∧
    writesBeforeFailure (traceAdpThreeWrites 5 3 3) 9 = 2 := by
  decide

/-- in general: once the first phase has been written, every later failure finds a non-empty destination -/
theorem C17_adp_three_writes (n1 n2 n3 k : Nat) (hk : n1 < k) (hk2 : k ≤ n1 + n2 + n3) :
    1 ≤ writesBeforeFailure (traceAdpThreeWrites n1 n2 n3) k := by
  unfold traceAdpThreeWrites
  have key : ∀ (n k : Nat) (rest : List Ev), n < k →
      writesBeforeFailure (List.replicate n .ev ++ rest) k = writesBeforeFailure rest (k - n) := by
    intro n
    induction n with
    | zero => intro k rest _; simp
    | succ n ih =>
      intro k rest h
      simp only [List.replicate_succ, List.cons_append, writesBeforeFailure]
      have h1 : ¬ k ≤ 1 := by omega
      simp only [h1, if_false]
      rw [ih (k - 1) rest (by omega)]
      congr 1
      omega
  simp only [List.append_assoc]
  rw [key n1 k _ hk]
  simp only [List.cons_append, List.nil_append, writesBeforeFailure]
  omega

/-- non-vacuity -/
example : writesBeforeFailure (traceBuffered 6) 4 = 0 := by decide

end Atsim.C17
