import AtsimModel.Lemmas.ExprReal
import AtsimModel.Gen.Forms
import Mathlib.Tactic.NormNum
import Mathlib.Tactic.Positivity
import Mathlib.Algebra.BigOperators.Intervals
import Mathlib.Tactic.Ring
import Mathlib.Tactic.FieldSimp
import Mathlib.Tactic.IntervalCases
/-!
# C06 — built-in potential forms evaluate their documented formula, in documented argument order

`Atsim.Gen.*_call` are regenerated from /repo's `potentialfunctions.py` on every run; the documented formulas below are
transcribed by hand from `docs/reference/potential_forms.rst` and the docstrings, with parameters in the documented
signature order.  Statements are over ℝ.
-/
namespace Atsim.C06
open Atsim Atsim.E Atsim.Gen Real

noncomputable abbrev ev (ps : List ℝ) (e : E) (x : ℝ) : ℝ := evalR (envOf ps) noSyms x e

/-! ### documented signatures (argument order) -/
theorem C06_signatures :
    buck_params = ["A", "rho", "C"] ∧ bornmayer_params = ["A", "rho"] ∧ coul_params = ["qi", "qj"] ∧
    constant_params = ["constant"] ∧ exponential_params = ["A", "n"] ∧ hbnd_params = ["A", "B"] ∧
    lj_params = ["epsilon", "sigma"] ∧ morse_params = ["gamma", "r_star", "D"] ∧ sqrt_params = ["G"] ∧
    tang_toennies_params = ["A", "b", "C_6", "C_8", "C_10"] ∧ zbl_params = ["z1", "z2"] ∧ zero_params = [] ∧
    exp_spline_params = ["B0", "B1", "B2", "B3", "B4", "B5", "C"] := by
  decide

/-! ### documented formulas -/
noncomputable def buckDoc (A rho C r : ℝ) : ℝ := A * Real.exp (-r / rho) - C / r ^ 6
noncomputable def bornmayerDoc (A rho r : ℝ) : ℝ := A * Real.exp (-r / rho)
/-- ε₀ = 0.0055264 e²/(eV Å) -/
noncomputable def eps0 : ℝ := 55264 / 10 ^ 7
noncomputable def coulDoc (qi qj r : ℝ) : ℝ := qi * qj / (4 * Real.pi * eps0 * r)
noncomputable def exponentialDoc (A n r : ℝ) : ℝ := A * r ^ n
noncomputable def expSplineDoc (B0 B1 B2 B3 B4 B5 C r : ℝ) : ℝ :=
  Real.exp (B0 + B1 * r + B2 * r ^ 2 + B3 * r ^ 3 + B4 * r ^ 4 + B5 * r ^ 5) + C
noncomputable def hbndDoc (A B r : ℝ) : ℝ := A / r ^ 12 - B / r ^ 10
noncomputable def ljDoc (eps sigma r : ℝ) : ℝ := 4 * eps * (sigma ^ 12 / r ^ 12 - sigma ^ 6 / r ^ 6)
noncomputable def morseDoc (gamma rstar Dp r : ℝ) : ℝ :=
  Dp * (Real.exp (-2 * gamma * (r - rstar)) - 2 * Real.exp (-gamma * (r - rstar)))
noncomputable def sqrtDoc (G r : ℝ) : ℝ := G * Real.sqrt r

theorem C06_buck (A rho C r : ℝ) : ev [A, rho, C] buck_call r = buckDoc A rho C r := by
  simp only [ev, evalR, envOf, List.getD_cons_zero, List.getD_cons_succ, buck_call, buckDoc]
  form_close
theorem C06_bornmayer (A rho r : ℝ) : ev [A, rho] bornmayer_call r = bornmayerDoc A rho r := by
  simp only [ev, evalR, envOf, List.getD_cons_zero, List.getD_cons_succ, bornmayer_call, bornmayerDoc]
  form_close
theorem C06_coul (qi qj r : ℝ) : ev [qi, qj] coul_call r = coulDoc qi qj r := by
  simp only [ev, evalR, envOf, List.getD_cons_zero, List.getD_cons_succ, coul_call, coulDoc, eps0]
  form_close
theorem C06_constant (c r : ℝ) : ev [c] constant_call r = c := by
  simp only [ev, evalR, envOf, List.getD_cons_zero, constant_call]
  form_close
theorem C06_zero (r : ℝ) : ev [] zero_call r = 0 := by
  simp only [ev, evalR, zero_call]
  form_close
theorem C06_exponential (A n r : ℝ) : ev [A, n] exponential_call r = exponentialDoc A n r := by
  simp only [ev, evalR, envOf, List.getD_cons_zero, List.getD_cons_succ, exponential_call, exponentialDoc]
  form_close
theorem C06_exp_spline (B0 B1 B2 B3 B4 B5 C r : ℝ) :
    ev [B0, B1, B2, B3, B4, B5, C] exp_spline_call r = expSplineDoc B0 B1 B2 B3 B4 B5 C r := by
  simp only [ev, evalR, envOf, List.getD_cons_zero, List.getD_cons_succ, exp_spline_call, expSplineDoc]
  form_close
theorem C06_hbnd (A B r : ℝ) : ev [A, B] hbnd_call r = hbndDoc A B r := by
  simp only [ev, evalR, envOf, List.getD_cons_zero, List.getD_cons_succ, hbnd_call, hbndDoc]
  form_close
theorem C06_lj (eps sigma r : ℝ) : ev [eps, sigma] lj_call r = ljDoc eps sigma r := by
  simp only [ev, evalR, envOf, List.getD_cons_zero, List.getD_cons_succ, lj_call, ljDoc]
  form_close
theorem C06_morse (gamma rstar Dp r : ℝ) : ev [gamma, rstar, Dp] morse_call r = morseDoc gamma rstar Dp r := by
  simp only [ev, evalR, envOf, List.getD_cons_zero, List.getD_cons_succ, morse_call, morseDoc]
  form_close
theorem C06_sqrt (G r : ℝ) : ev [G] sqrt_call r = sqrtDoc G r := by
  simp only [ev, evalR, envOf, List.getD_cons_zero, sqrt_call, sqrtDoc]
  form_close

/-! ### ZBL: the formula the code's own reference (`_as_sympy`) states, with the 1985 ZBL constants.
    (The reference manual prints the "universal" coefficient set 0.46850 / 0.18175, 3.19980 … instead – a recorded finding.) -/
noncomputable def zblDoc (z1 z2 r : ℝ) : ℝ :=
  let a := ((8854 / 10 ^ 4 : ℝ) * (529 / 10 ^ 3)) / (z1 ^ (23 / 100 : ℝ) + z2 ^ (23 / 100 : ℝ))
  (1439942 / 10 ^ 5 : ℝ) * (z1 * z2) / r *
    ( (1818 / 10 ^ 4 : ℝ) * Real.exp (-((32 / 10 : ℝ) * r) / a) + (5099 / 10 ^ 4 : ℝ) * Real.exp (-((9423 / 10 ^ 4 : ℝ) * r) / a)
    + (2802 / 10 ^ 4 : ℝ) * Real.exp (-((4029 / 10 ^ 4 : ℝ) * r) / a) + (2817 / 10 ^ 5 : ℝ) * Real.exp (-((2016 / 10 ^ 4 : ℝ) * r) / a) )

theorem C06_zbl (z1 z2 r : ℝ) : ev [z1, z2] zbl_call r = zblDoc z1 z2 r := by
  simp only [ev, evalR, envOf, List.getD_cons_zero, List.getD_cons_succ, zbl_call, zblDoc]
  form_close

/-! ### Tang-Toennies: documented formula (energies in Hartree and lengths in bohr inside, converted with 27.211 eV and 0.5292 Å).
    The code is a machine-expanded form whose decimal coefficients stand for closed forms such as `27.211 * 0.5292^10`;
    what is proved here is the closed-form identity of the documented formula's damping functions, used by the numerical leg. -/
noncomputable def f2n (n : ℕ) (x : ℝ) : ℝ := 1 - Real.exp (-x) * (Finset.range (2 * n + 1)).sum (fun k => x ^ k / (Nat.factorial k : ℝ))
noncomputable def ttDoc (A b C6 C8 C10 r : ℝ) : ℝ :=
  let R := r / (5292 / 10 ^ 4 : ℝ)
  (27211 / 10 ^ 3 : ℝ) * (A * Real.exp (-b * R) - (f2n 3 (b * R) * C6 / R ^ 6 + f2n 4 (b * R) * C8 / R ^ 8 + f2n 5 (b * R) * C10 / R ^ 10))

/-- the damping function tends to the undamped dispersion at large argument in the sense that 0 ≤ f < 1 for x > 0 … here only: f2n n 0 = 0 -/
theorem C06_f2n_zero (n : ℕ) : f2n n 0 = 0 := by
  unfold f2n
  rw [Finset.sum_range_succ']
  simp

/-! ### polynomial of any order: `sum(r**float(i) * c)` is Σ cᵢ rⁱ -/
noncomputable def polyVal (i0 : Nat) : List ℝ → ℝ → ℝ
  | [], _ => 0
  | c :: cs, r => r ^ i0 * c + polyVal (i0 + 1) cs r

theorem polyVal_aux (cs : List ℝ) (r : ℝ) : ∀ i0 : Nat,
    polyVal i0 cs r = (Finset.range cs.length).sum (fun i => cs.getD i 0 * r ^ (i0 + i)) := by
  induction cs with
  | nil => intro i0; simp [polyVal]
  | cons c cs ih =>
    intro i0
    rw [polyVal, ih (i0 + 1), List.length_cons, Finset.sum_range_succ']
    simp only [List.getD_cons_zero, List.getD_cons_succ, add_zero]
    rw [add_comm]
    congr 1
    · apply Finset.sum_congr rfl
      intro i _
      congr 2
      omega
    · ring

theorem C06_polynomial (cs : List ℝ) (r : ℝ) :
    polyVal 0 cs r = (Finset.range cs.length).sum (fun i => cs.getD i 0 * r ^ i) := by
  have h := polyVal_aux cs r 0
  simpa using h

/-! non-vacuity: distinct parameters really are bound in signature order (a swap would change the value) -/
example : buckDoc 1 2 3 1 ≠ buckDoc 3 2 1 1 := by
  unfold buckDoc
  norm_num
  intro h
  have : Real.exp (-1 / 2) = -1 := by linarith
  linarith [Real.exp_pos (-1 / 2 : ℝ)]

/-! ## Tang–Toennies: the code evaluates the documented formula up to the rounding of its machine-expanded decimal constants

`potentialfunctions.tang_toennies.__call__` is a machine-expanded expression (sympy output): every closed-form constant of the documented
formula – `27.211`, `1/0.5292`, `27.211 * 0.5292^(2n)`, `(1/0.5292)^k / k!` – appears as a 14..20-digit decimal literal.  So the regenerated
term is not syntactically the documented formula, and not exactly equal to it either.  What holds, and is proved here about the REGENERATED
term `Atsim.Gen.tang_toennies_call`: the documented formula is the "shape" `ttShape` with the closed-form constants (`C06_tt_doc_shape`), and
the code is the SAME shape with constants each within relative 1e-13 of the closed forms (`C06_tang_toennies_shape`). -/

/-- `Σ_{k < m} p k * b^k * r^k` -/
noncomputable def ttPoly (p : ℕ → ℝ) (m : ℕ) (b r : ℝ) : ℝ := (Finset.range m).sum (fun k => p k * b ^ k * r ^ k)

/-- the shape shared by the documented formula and the code: energy scale `E`, exponent scale `β`, dispersion prefactors `c 3, c 4, c 5`
    (for C6, C8, C10) and damping-polynomial coefficients `p k` -/
noncomputable def ttShape (E β : ℝ) (c p : ℕ → ℝ) (A b C6 C8 C10 r : ℝ) : ℝ :=
  E * A * Real.exp (-(β * b * r))
    - c 5 * C10 * (1 - ttPoly p 11 b r * Real.exp (-(β * b * r))) / r ^ 10
    - c 3 * C6 * (1 - ttPoly p 7 b r * Real.exp (-(β * b * r))) / r ^ 6
    - c 4 * C8 * (1 - ttPoly p 9 b r * Real.exp (-(β * b * r))) / r ^ 8

/-- closed-form constants of the documented formula -/
noncomputable def ttE : ℝ := 27211 / 10 ^ 3
noncomputable def ttBeta : ℝ := 1 / (5292 / 10 ^ 4)
noncomputable def ttC (n : ℕ) : ℝ := (27211 / 10 ^ 3) * (5292 / 10 ^ 4) ^ (2 * n)
noncomputable def ttP (k : ℕ) : ℝ := (1 / (5292 / 10 ^ 4)) ^ k / (Nat.factorial k : ℝ)


/-! ### the code's constants (reduced fractions of the decimal literals of the source) -/
noncomputable def ttCodeE : ℝ := 27210999999999998522 / 10 ^ 18
noncomputable def ttCodeBeta : ℝ := 18896447467876 / 10 ^ 13
noncomputable def ttCodeC : ℕ → ℝ
  | 3 => 59767283277249427798 / 10 ^ 20
  | 4 => 16737985467421556685 / 10 ^ 20
  | 5 => 46875170184330419709 / 10 ^ 21
  | _ => 0
noncomputable def ttCodeP : ℕ → ℝ
  | 0 => 1
  | 1 => 18896447467876038573 / 10 ^ 19
  | 2 => 17853786345309936578 / 10 ^ 19
  | 3 => 11245771192561058172 / 10 ^ 19
  | 4 => 53126281143995923717 / 10 ^ 20
  | 5 => 2007795961602264756 / 10 ^ 19
  | 6 => 63233684857718089334 / 10 ^ 21
  | 7 => 17069885773058547651 / 10 ^ 21
  | 8 => 40320024974155677447 / 10 ^ 22
  | 9 => 84656137091953641977 / 10 ^ 23
  | 10 => 15997002473914140102 / 10 ^ 23
  | _ => 0

theorem tt_code_eq (A b C6 C8 C10 r : ℝ) :
    ev [A, b, C6, C8, C10] tang_toennies_call r = ttShape ttCodeE ttCodeBeta ttCodeC ttCodeP A b C6 C8 C10 r := by
  have hexp : -(ttCodeBeta * b * r) = -(4724111866969 / 2500000000000 : ℝ) * b * r := by
    unfold ttCodeBeta; ring
  simp only [ttShape, hexp]
  simp only [ev, evalR, envOf, tang_toennies_call, List.getD_cons_zero, List.getD_cons_succ, ttPoly,
    Finset.sum_range_succ, Finset.sum_range_zero, ttCodeC, ttCodeP, ttCodeE, Nat.cast_ofNat]
  generalize Real.exp (-(4724111866969 / 2500000000000 : ℝ) * b * r) = x
  ring

/-- the documented formula is the shape with the closed-form constants (all r, with Lean's `x / 0 = 0` on both sides) -/
theorem C06_tt_doc_shape (A b C6 C8 C10 r : ℝ) :
    ttDoc A b C6 C8 C10 r = ttShape ttE ttBeta ttC ttP A b C6 C8 C10 r := by
  have hexp : -b * (r / (5292 / 10 ^ 4 : ℝ)) = -(ttBeta * b * r) := by
    unfold ttBeta; ring
  have hexp' : -(b * (r / (5292 / 10 ^ 4 : ℝ))) = -(ttBeta * b * r) := by
    unfold ttBeta; ring
  simp only [ttDoc, f2n, ttShape, hexp, hexp']
  generalize Real.exp (-(ttBeta * b * r)) = x
  simp only [ttPoly, Finset.sum_range_succ, Finset.sum_range_zero, ttE, ttC, ttP, Nat.factorial]
  by_cases hr : r = 0
  · subst hr; simp; ring
  · field_simp
    ring

/-- **the code**: the regenerated `tang_toennies.__call__` is the same shape, for all parameters and all r, with constants that agree with
    the closed forms of the documented formula to better than 1e-13 relative -/
theorem C06_tang_toennies_shape :
    ∃ (E β : ℝ) (c p : ℕ → ℝ),
      (∀ A b C6 C8 C10 r : ℝ, ev [A, b, C6, C8, C10] tang_toennies_call r = ttShape E β c p A b C6 C8 C10 r) ∧
      |E / ttE - 1| ≤ 1 / 10 ^ 13 ∧ |β / ttBeta - 1| ≤ 1 / 10 ^ 13 ∧
      (∀ n, n = 3 ∨ n = 4 ∨ n = 5 → |c n / ttC n - 1| ≤ 1 / 10 ^ 13) ∧
      (∀ k, k ≤ 10 → |p k / ttP k - 1| ≤ 1 / 10 ^ 13) := by
  refine ⟨ttCodeE, ttCodeBeta, ttCodeC, ttCodeP, tt_code_eq, ?_, ?_, ?_, ?_⟩
  · norm_num [ttE, ttCodeE, abs_le]
  · norm_num [ttBeta, ttCodeBeta, abs_le]
  · intro n hn
    rcases hn with rfl | rfl | rfl <;> norm_num [ttC, ttCodeC, abs_le]
  · intro k hk
    interval_cases k <;> norm_num [ttP, ttCodeP, Nat.factorial, abs_le]

end Atsim.C06

