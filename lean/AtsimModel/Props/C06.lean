import AtsimModel.Lemmas.ExprReal
import AtsimModel.Gen.Forms
import Mathlib.Tactic.NormNum
import Mathlib.Tactic.Positivity
import Mathlib.Algebra.BigOperators.Intervals
/-!
# C06 — built-in potential forms evaluate their documented formula, in documented argument order

`Atsim.Gen.*_call` are regenerated from /repo's `potentialfunctions.py` on every run; the documented formulas below are
transcribed by hand from `docs/reference/potential_forms.rst` and the docstrings, with parameters in the documented
signature order.  Statements are over ℝ.
-/
namespace Atsim.C06
open Atsim Atsim.E Atsim.Gen Real

noncomputable abbrev ev (ps : List ℝ) (e : E) (x : ℝ) : ℝ := evalR (envOf ps) noSyms x e

/-! ### documented signatures (argument order) -/
theorem C06_signatures :
    buck_params = ["A", "rho", "C"] ∧ bornmayer_params = ["A", "rho"] ∧ coul_params = ["qi", "qj"] ∧
    constant_params = ["constant"] ∧ exponential_params = ["A", "n"] ∧ hbnd_params = ["A", "B"] ∧
    lj_params = ["epsilon", "sigma"] ∧ morse_params = ["gamma", "r_star", "D"] ∧ sqrt_params = ["G"] ∧
    tang_toennies_params = ["A", "b", "C_6", "C_8", "C_10"] ∧ zbl_params = ["z1", "z2"] ∧ zero_params = [] ∧
    exp_spline_params = ["B0", "B1", "B2", "B3", "B4", "B5", "C"] := by
  decide

/-! ### documented formulas -/
noncomputable def buckDoc (A rho C r : ℝ) : ℝ := A * Real.exp (-r / rho) - C / r ^ 6
noncomputable def bornmayerDoc (A rho r : ℝ) : ℝ := A * Real.exp (-r / rho)
/-- ε₀ = 0.0055264 e²/(eV Å) -/
noncomputable def eps0 : ℝ := 55264 / 10 ^ 7
noncomputable def coulDoc (qi qj r : ℝ) : ℝ := qi * qj / (4 * Real.pi * eps0 * r)
noncomputable def exponentialDoc (A n r : ℝ) : ℝ := A * r ^ n
noncomputable def expSplineDoc (B0 B1 B2 B3 B4 B5 C r : ℝ) : ℝ :=
  Real.exp (B0 + B1 * r + B2 * r ^ 2 + B3 * r ^ 3 + B4 * r ^ 4 + B5 * r ^ 5) + C
noncomputable def hbndDoc (A B r : ℝ) : ℝ := A / r ^ 12 - B / r ^ 10
noncomputable def ljDoc (eps sigma r : ℝ) : ℝ := 4 * eps * (sigma ^ 12 / r ^ 12 - sigma ^ 6 / r ^ 6)
noncomputable def morseDoc (gamma rstar Dp r : ℝ) : ℝ :=
  Dp * (Real.exp (-2 * gamma * (r - rstar)) - 2 * Real.exp (-gamma * (r - rstar)))
noncomputable def sqrtDoc (G r : ℝ) : ℝ := G * Real.sqrt r

theorem C06_buck (A rho C r : ℝ) : ev [A, rho, C] buck_call r = buckDoc A rho C r := by
  simp only [ev, evalR, envOf, List.getD_cons_zero, List.getD_cons_succ, buck_call, buckDoc]
  form_close
theorem C06_bornmayer (A rho r : ℝ) : ev [A, rho] bornmayer_call r = bornmayerDoc A rho r := by
  simp only [ev, evalR, envOf, List.getD_cons_zero, List.getD_cons_succ, bornmayer_call, bornmayerDoc]
  form_close
theorem C06_coul (qi qj r : ℝ) : ev [qi, qj] coul_call r = coulDoc qi qj r := by
  simp only [ev, evalR, envOf, List.getD_cons_zero, List.getD_cons_succ, coul_call, coulDoc, eps0]
  form_close
theorem C06_constant (c r : ℝ) : ev [c] constant_call r = c := by
  simp only [ev, evalR, envOf, List.getD_cons_zero, constant_call]
  form_close
theorem C06_zero (r : ℝ) : ev [] zero_call r = 0 := by
  simp only [ev, evalR, zero_call]
  form_close
theorem C06_exponential (A n r : ℝ) : ev [A, n] exponential_call r = exponentialDoc A n r := by
  simp only [ev, evalR, envOf, List.getD_cons_zero, List.getD_cons_succ, exponential_call, exponentialDoc]
  form_close
theorem C06_exp_spline (B0 B1 B2 B3 B4 B5 C r : ℝ) :
    ev [B0, B1, B2, B3, B4, B5, C] exp_spline_call r = expSplineDoc B0 B1 B2 B3 B4 B5 C r := by
  simp only [ev, evalR, envOf, List.getD_cons_zero, List.getD_cons_succ, exp_spline_call, expSplineDoc]
  form_close
theorem C06_hbnd (A B r : ℝ) : ev [A, B] hbnd_call r = hbndDoc A B r := by
  simp only [ev, evalR, envOf, List.getD_cons_zero, List.getD_cons_succ, hbnd_call, hbndDoc]
  form_close
theorem C06_lj (eps sigma r : ℝ) : ev [eps, sigma] lj_call r = ljDoc eps sigma r := by
  simp only [ev, evalR, envOf, List.getD_cons_zero, List.getD_cons_succ, lj_call, ljDoc]
  form_close
theorem C06_morse (gamma rstar Dp r : ℝ) : ev [gamma, rstar, Dp] morse_call r = morseDoc gamma rstar Dp r := by
  simp only [ev, evalR, envOf, List.getD_cons_zero, List.getD_cons_succ, morse_call, morseDoc]
  form_close
theorem C06_sqrt (G r : ℝ) : ev [G] sqrt_call r = sqrtDoc G r := by
  simp only [ev, evalR, envOf, List.getD_cons_zero, sqrt_call, sqrtDoc]
  form_close

/-! ### ZBL: the formula the code's own reference (`_as_sympy`) states, with the 1985 ZBL constants.
    (The reference manual prints the "universal" coefficient set 0.46850 / 0.18175, 3.19980 … instead – a recorded finding.) -/
noncomputable def zblDoc (z1 z2 r : ℝ) : ℝ :=
  let a := ((8854 / 10 ^ 4 : ℝ) * (529 / 10 ^ 3)) / (z1 ^ (23 / 100 : ℝ) + z2 ^ (23 / 100 : ℝ))
  (1439942 / 10 ^ 5 : ℝ) * (z1 * z2) / r *
    ( (1818 / 10 ^ 4 : ℝ) * Real.exp (-((32 / 10 : ℝ) * r) / a) + (5099 / 10 ^ 4 : ℝ) * Real.exp (-((9423 / 10 ^ 4 : ℝ) * r) / a)
    + (2802 / 10 ^ 4 : ℝ) * Real.exp (-((4029 / 10 ^ 4 : ℝ) * r) / a) + (2817 / 10 ^ 5 : ℝ) * Real.exp (-((2016 / 10 ^ 4 : ℝ) * r) / a) )

theorem C06_zbl (z1 z2 r : ℝ) : ev [z1, z2] zbl_call r = zblDoc z1 z2 r := by
  simp only [ev, evalR, envOf, List.getD_cons_zero, List.getD_cons_succ, zbl_call, zblDoc]
  form_close

/-! ### Tang-Toennies: documented formula (energies in Hartree and lengths in bohr inside, converted with 27.211 eV and 0.5292 Å).
    The code is a machine-expanded form whose decimal coefficients stand for closed forms such as `27.211 * 0.5292^10`;
    what is proved here is the closed-form identity of the documented formula's damping functions, used by the numerical leg. -/
noncomputable def f2n (n : ℕ) (x : ℝ) : ℝ := 1 - Real.exp (-x) * (Finset.range (2 * n + 1)).sum (fun k => x ^ k / (Nat.factorial k : ℝ))
noncomputable def ttDoc (A b C6 C8 C10 r : ℝ) : ℝ :=
  let R := r / (5292 / 10 ^ 4 : ℝ)
  (27211 / 10 ^ 3 : ℝ) * (A * Real.exp (-b * R) - (f2n 3 (b * R) * C6 / R ^ 6 + f2n 4 (b * R) * C8 / R ^ 8 + f2n 5 (b * R) * C10 / R ^ 10))

/-- the damping function tends to the undamped dispersion at large argument in the sense that 0 ≤ f < 1 for x > 0 … here only: f2n n 0 = 0 -/
theorem C06_f2n_zero (n : ℕ) : f2n n 0 = 0 := by
  unfold f2n
  rw [Finset.sum_range_succ']
  simp

/-! ### polynomial of any order: `sum(r**float(i) * c)` is Σ cᵢ rⁱ -/
noncomputable def polyVal (i0 : Nat) : List ℝ → ℝ → ℝ
  | [], _ => 0
  | c :: cs, r => r ^ i0 * c + polyVal (i0 + 1) cs r

theorem polyVal_aux (cs : List ℝ) (r : ℝ) : ∀ i0 : Nat,
    polyVal i0 cs r = (Finset.range cs.length).sum (fun i => cs.getD i 0 * r ^ (i0 + i)) := by
  induction cs with
  | nil => intro i0; simp [polyVal]
  | cons c cs ih =>
    intro i0
    rw [polyVal, ih (i0 + 1), List.length_cons, Finset.sum_range_succ']
    simp only [List.getD_cons_zero, List.getD_cons_succ, add_zero]
    rw [add_comm]
    congr 1
    · apply Finset.sum_congr rfl
      intro i _
      congr 2
      omega
    · ring

theorem C06_polynomial (cs : List ℝ) (r : ℝ) :
    polyVal 0 cs r = (Finset.range cs.length).sum (fun i => cs.getD i 0 * r ^ i) := by
  have h := polyVal_aux cs r 0
  simpa using h

/-! non-vacuity: distinct parameters really are bound in signature order (a swap would change the value) -/
example : buckDoc 1 2 3 1 ≠ buckDoc 3 2 1 1 := by
  unfold buckDoc
  norm_num
  intro h
  have : Real.exp (-1 / 2) = -1 := by linarith
  linarith [Real.exp_pos (-1 / 2 : ℝ)]

end Atsim.C06

