import AtsimModel.Gen.Logic
import AtsimModel.Model.Interp
/-!
# C15 — [Variables] substitution equals textual substitution and changes nothing else

* `C15_unused_neutral`: under the current configuration a section lists its own keys only, so defining variables (used or not,
  whatever their names resemble) does not change the keys of any section; the shipped behaviour is kept as a witness.
* `C15_resolve_literal`, `C15_resolve_subst`: resolving a value equals resolving the value in which a placeholder has been
  replaced by hand with the text it stands for.
Tie to the code: `harness/props/C15.py` (templated file vs hand-substituted file, bytes, all targets).
-/
namespace Atsim.C15
open Atsim

/-- defining variables does not change what any section contains: `for k in cp[section]` sees the section's own keys only -/
theorem C15_unused_neutral (secs : List (String × List KV)) (vars vars' : List KV) (s : String) :
    sectionKeys currentCfg ⟨secs, vars⟩ s = sectionKeys currentCfg ⟨secs, vars'⟩ s := by
  simp [sectionKeys, currentCfg]

/- FALSE: the hypothesis `h` is vacuous (it holds for every `secs`, see `assocGet_isSome_of_mem`) and does not exclude two
   sections with the same name.  `sectionKeys` looks a section up by NAME (first match), `listSectionItems` takes the VALUE from the
   entry it is iterating, so for a repeated name the keys of the first entry are looked up in the second one and fall through
   to `[Variables]`.  Counterexample (checked below by `decide +kernel`):
     secs = [("A", [("k","1")]), ("A", [])],  vars = [("k","x")],  vars' = []
     listSectionItems currentCfg ⟨secs, vars⟩  = [("A","k","1"), ("A","k","x")]
     listSectionItems currentCfg ⟨secs, vars'⟩ = [("A","k","1"), ("A","k","")]
   (`readIni` never produces a repeated section name – `seenSecs` – so the counterexample is not reachable from a file.)
   Replacements: `C15_items_neutral_partial` (pairwise distinct section names; `h` is not needed) and the more general
   `C15_items_neutral_of_own_partial`.

/-- … and every item listed by --list-items is unchanged too -/
theorem C15_items_neutral (secs : List (String × List KV)) (vars vars' : List KV)
    (h : ∀ p ∈ secs, ∀ k ∈ p.2.map (·.1), (assocGet p.2 k).isSome) :
    listSectionItems currentCfg ⟨secs, vars⟩ = listSectionItems currentCfg ⟨secs, vars'⟩ := by
  (no proof: the statement is false, see the counterexample below)
-/

/-- the counterexample to `C15_items_neutral` as stated: its hypothesis holds, its conclusion does not -/
example :
    (∀ p ∈ [("A", [("k", "1")]), ("A", ([] : List KV))], ∀ k ∈ p.2.map (·.1), (assocGet p.2 k).isSome) ∧
    listSectionItems currentCfg ⟨[("A", [("k", "1")]), ("A", [])], [("k", "x")]⟩ ≠
      listSectionItems currentCfg ⟨[("A", [("k", "1")]), ("A", [])], []⟩ := by
  decide +kernel

/-- a key of an association list is found in it (so the hypothesis `h` of `C15_items_neutral` always holds) -/
theorem assocGet_isSome_of_mem (l : List KV) (k : String) (hk : k ∈ l.map (·.1)) : (assocGet l k).isSome := by
  simp only [List.mem_map] at hk
  obtain ⟨p, hp, rfl⟩ := hk
  simp only [assocGet, Option.isSome_map, List.find?_isSome]
  exact ⟨p, hp, by simp⟩

/-- general form: `--list-items` is unchanged as soon as every key listed for an entry (by name look-up) is a key of that
    entry itself -/
theorem C15_items_neutral_of_own_partial (secs : List (String × List KV)) (vars vars' : List KV)
    (h : ∀ p ∈ secs, ∀ k ∈ sectionKeys currentCfg ⟨secs, []⟩ p.1, (assocGet p.2 k).isSome) :
    listSectionItems currentCfg ⟨secs, vars⟩ = listSectionItems currentCfg ⟨secs, vars'⟩ := by
  simp only [listSectionItems, List.flatMap]
  congr 1
  apply List.map_congr_left
  intro p hp
  obtain ⟨n, kvs⟩ := p
  simp only
  rw [C15_unused_neutral secs vars [] n, C15_unused_neutral secs vars' [] n]
  apply List.map_congr_left
  intro k hk
  have := h (n, kvs) hp k hk
  simp only at this
  cases hg : assocGet kvs k with
  | none => simp [hg] at this
  | some x => simp

/-- with pairwise distinct section names the look-up by name returns the entry itself -/
theorem find?_of_pairwise (secs : List (String × List KV)) (hd : secs.Pairwise (fun a b => a.1 ≠ b.1))
    (p : String × List KV) (hp : p ∈ secs) : secs.find? (fun q => q.1 == p.1) = some p := by
  induction secs with
  | nil => simp at hp
  | cons a rest ih =>
    rw [List.pairwise_cons] at hd
    rcases List.mem_cons.1 hp with rfl | hp'
    · simp
    · have hne : a.1 ≠ p.1 := hd.1 p hp'
      rw [List.find?_cons_of_neg (by simpa using hne)]
      exact ih hd.2 hp'

/-- … and every item listed by --list-items is unchanged too, PROVIDED section names are pairwise distinct (which `readIni`
    guarantees); the hypothesis `h` of the original statement is redundant and dropped -/
theorem C15_items_neutral_partial (secs : List (String × List KV)) (vars vars' : List KV)
    (hd : secs.Pairwise (fun a b => a.1 ≠ b.1)) :
    listSectionItems currentCfg ⟨secs, vars⟩ = listSectionItems currentCfg ⟨secs, vars'⟩ := by
  apply C15_items_neutral_of_own_partial
  intro p hp k hk
  simp only [sectionKeys, find?_of_pairwise secs hd p hp, currentCfg] at hk
  exact assocGet_isSome_of_mem _ _ (by simpa using hk)

/-- SHIPPED (regression witness): a variable appeared as a key of [Pair] – which then failed to parse as a species pair -/
theorem C15_shipped_leak_witness :
    sectionKeys shippedCfg ⟨[("Pair", [("A-B", "as.buck ${A} 0.3 0")])], [("A", "1000")]⟩ "Pair" = ["A-B", "A"] ∧
    sectionKeys currentCfg ⟨[("Pair", [("A-B", "as.buck ${A} 0.3 0")])], [("A", "1000")]⟩ "Pair" = ["A-B"] := by
  decide +kernel

/-- concatenation of literal parts -/
def litText : List String → String
  | [] => ""
  | s :: rest => s ++ litText rest

theorem resolveParts_lits (lower : String → TVal → Option String) (ini : TIni) (cur : String) (ss : List String) :
    resolveParts lower ini cur (ss.map .lit) = some (litText ss) := by
  induction ss with
  | nil => rfl
  | cons s rest ih => simp [resolveParts, ih, litText]

/-- a value without placeholders resolves to itself, whatever variables exist -/
theorem C15_resolve_literal (ini : TIni) (n : Nat) (cur : String) (ss : List String) :
    resolveVal ini (n + 1) cur (ss.map .lit) = some (litText ss) := by
  simp only [resolveVal]
  exact resolveParts_lits _ _ _ _

theorem resolveParts_subst (lower : String → TVal → Option String) (ini : TIni) (cur name t : String) (v : TVal)
    (pre post : TVal) (hv : tLookup ini cur name = some v) (ht : lower cur v = some t) :
    resolveParts lower ini cur (pre ++ .ref name :: post) = resolveParts lower ini cur (pre ++ .lit t :: post) := by
  induction pre with
  | nil =>
    simp only [List.nil_append, resolveParts, hv, ht]
    cases resolveParts lower ini cur post <;> simp
  | cons p pre ih =>
    cases p <;> simp only [List.cons_append, resolveParts, ih]

theorem resolveParts_subst_xref (lower : String → TVal → Option String) (ini : TIni) (cur sec name t : String) (v : TVal)
    (pre post : TVal) (hv : tLookupX ini sec name = some v) (ht : lower sec v = some t) :
    resolveParts lower ini cur (pre ++ .xref sec name :: post) = resolveParts lower ini cur (pre ++ .lit t :: post) := by
  induction pre with
  | nil =>
    simp only [List.nil_append, resolveParts, hv, ht]
    cases resolveParts lower ini cur post <;> simp
  | cons p pre ih =>
    cases p <;> simp only [List.cons_append, resolveParts, ih]

/-- **substitution by hand**: if `${name}` (looked up from section `cur`) stands for the text `t` one level deeper, then a value
    containing that placeholder resolves to the same text as the value in which the placeholder has been replaced by `t` -/
theorem C15_resolve_subst (ini : TIni) (n : Nat) (cur name t : String) (v : TVal) (pre post : TVal)
    (hv : tLookup ini cur name = some v) (ht : resolveVal ini n cur v = some t) :
    resolveVal ini (n + 1) cur (pre ++ .ref name :: post) = resolveVal ini (n + 1) cur (pre ++ .lit t :: post) := by
  simp only [resolveVal]
  exact resolveParts_subst _ ini cur name t v pre post hv ht

/-- the same for `${SECTION:KEY}` -/
theorem C15_resolve_subst_xref (ini : TIni) (n : Nat) (cur sec name t : String) (v : TVal) (pre post : TVal)
    (hv : tLookupX ini sec name = some v) (ht : resolveVal ini n sec v = some t) :
    resolveVal ini (n + 1) cur (pre ++ .xref sec name :: post) = resolveVal ini (n + 1) cur (pre ++ .lit t :: post) := by
  simp only [resolveVal]
  exact resolveParts_subst_xref _ ini cur sec name t v pre post hv ht

/-- a placeholder that names nothing is an error, not an empty string -/
theorem C15_unresolved (ini : TIni) (n : Nat) (cur name : String) (post : TVal) (h : tLookup ini cur name = none) :
    resolveVal ini (n + 1) cur (.ref name :: post) = none := by
  simp only [resolveVal, resolveParts, h]

/-- `${NAME}` prefers the current section's own key over a variable of the same name -/
theorem C15_section_shadows_variable :
    resolveVal ⟨[("Tabulation", [("cutoff", [.lit "6.5"]), ("dr", [.ref "cutoff"])])], [("cutoff", [.lit "99"])]⟩ 3 "Tabulation" [.ref "dr"] = some "6.5" := by
  decide +kernel

/-- non-vacuity: the documented example shape  A-B : as.buck ${A} ${rho} 0  with [Variables] A, rho -/
example : resolveVal ⟨[("Pair", [("A-B", [.lit "as.buck ", .ref "A", .lit " ", .ref "rho", .lit " 0"])])], [("A", [.lit "1000.0"]), ("rho", [.lit "0.3"])]⟩ 3 "Pair"
    [.lit "as.buck ", .ref "A", .lit " ", .ref "rho", .lit " 0"] = some "as.buck 1000.0 0.3 0" := by
  decide +kernel

/-! ## Code tie: what the repository's `_RawConfigParser` adds to the standard library's parser (regenerated from the source) -/


theorem filter_dropWhile_not {α : Type} (p : α → Bool) (l : List α) :
    (l.dropWhile p).filter (fun c => !p c) = l.filter (fun c => !p c) := by
  induction l with
  | nil => rfl
  | cons a l ih =>
    by_cases h : p a
    · simp [h, ih]
    · simp [h]

theorem filter_strip_list (l : List Char) :
    ((l.dropWhile isBlank).reverse.dropWhile isBlank).reverse.filter (fun c => !isBlank c) = l.filter (fun c => !isBlank c) := by
  rw [List.filter_reverse, filter_dropWhile_not, ← List.filter_reverse, List.reverse_reverse, filter_dropWhile_not]

theorem filter_blank_tab (l : List Char) :
    (l.filter (fun x => x != ' ')).filter (fun x => x != '\t') = l.filter (fun c => !isBlank c) := by
  rw [List.filter_filter]
  congr 1
  funext c
  by_cases h1 : c = ' ' <;> by_cases h2 : c = '\t' <;> simp [isBlank, bne, h1, h2, Bool.and_comm]

theorem find?_reverse_of_pairwise {α : Type} (q : α → Bool) (l : List α)
    (hd : l.Pairwise (fun a b => ¬ (q a = true ∧ q b = true))) :
    l.reverse.find? q = l.find? q := by
  induction l with
  | nil => rfl
  | cons a l ih =>
    rw [List.pairwise_cons] at hd
    rw [List.reverse_cons, List.find?_append, ih hd.2, List.find?_cons]
    cases h : q a with
    | true =>
      have hn : l.find? q = none := by
        rw [List.find?_eq_none]
        intro b hb hqb
        exact hd.1 b hb ⟨h, hqb⟩
      simp [hn, h]
    | false =>
      cases hf : l.find? q <;> simp [h, hf]

theorem lookupLast_eq_find {β : Type} (l : List (String × β)) (s : String)
    (hd : l.Pairwise (fun a b => a.1 ≠ b.1)) :
    Atsim.Gen.Logic.lookupLast l s = (l.find? (fun p => p.1 == s)).map (·.2) := by
  unfold Atsim.Gen.Logic.lookupLast
  rw [find?_reverse_of_pairwise]
  refine hd.imp ?_
  intro a b hab h
  simp only [beq_iff_eq] at h
  exact hab (h.1.trans h.2.symm)

open Atsim.Gen.Logic in
/-- **code tie**: `optionxform` (strip, then delete blanks and tabs) is the model's key normalisation `norm` -/
theorem C15_code_optionxform (k : String) : raw_optionxform Atsim.strip k = norm k := by
  simp only [raw_optionxform, removeChar, Atsim.strip, norm, String.toList_ofList]
  rw [filter_blank_tab, filter_strip_list]

open Atsim.Gen.Logic in
/-- **code tie**: `has_option` of a section other than `[Variables]` looks among that section's OWN entries only (`_own_option`, keys compared after `optionxform`) -
a variable is not an option of the other sections.  This is the premise of `C15_unused_neutral` ("a section lists its own keys only") for the code as written; for
`[Variables]` itself (and for an empty section name) the standard library's method answers (`superHasOption`, a parameter). -/
theorem C15_code_has_option (ini : Ini) (superHasOption : String → String → Bool) (s k : String)
    (hd : ini.sections.Pairwise (fun a b => a.1 ≠ b.1)) (hne : s ≠ "") (hv : s ≠ "Variables") :
    raw_has_option Atsim.strip superHasOption ini.sections "Variables" s k = hasOption currentCfg ini s k := by
  have h1 : (s != "") = true := by simpa using hne
  have h2 : (s == "Variables") = false := by simpa using hv
  simp only [raw_has_option, raw_own_option, hasOption, currentCfg, testKey, h1, h2, if_true,
    C15_code_optionxform, lookupLast_eq_find _ _ hd]
  cases hf : ini.sections.find? (fun p => p.1 == s) with
  | none => simp
  | some q => obtain ⟨n, kvs⟩ := q; simp

open Atsim.Gen.Logic in
theorem C15_code_has_option_default (ini : Ini) (superHasOption : String → String → Bool) (k : String) :
    raw_has_option Atsim.strip superHasOption ini.sections "Variables" "Variables" k = superHasOption "Variables" k ∧
    raw_has_option Atsim.strip superHasOption ini.sections "Variables" "" k = superHasOption "" k := by
  constructor <;> simp [raw_has_option]

open Atsim.Gen.Logic in
/-- **code tie**: `options` of a section other than `[Variables]` lists that section's OWN keys, in the order of its entries, and nothing of `[Variables]`
(the model's `sectionKeys` under `currentCfg`); a section that is absent is `NoSectionError`, never an empty list.  This is what `for k in cp[section]`,
`--list-items` and the duplicate check iterate over in the code as written. -/
theorem C15_code_options (ini : Ini) (s : String)
    (hd : ini.sections.Pairwise (fun a b => a.1 ≠ b.1)) (hv : s ≠ "Variables") :
    raw_options ini.sections ini.vars "Variables" s =
      (match ini.sections.find? (fun p => p.1 == s) with
       | some _ => .ok (sectionKeys currentCfg ini s)
       | none => .error RawErr.noSection) := by
  have h2 : (s == "Variables") = false := by simpa using hv
  simp only [raw_options, sectionKeys, currentCfg, h2, lookupLast_eq_find _ _ hd]
  cases hf : ini.sections.find? (fun p => p.1 == s) with
  | none => simp
  | some q => obtain ⟨n, kvs⟩ := q; simp

open Atsim.Gen.Logic in
/-- for `[Variables]` itself the keys are those of the default section, whatever the other sections hold -/
theorem C15_code_options_default (ini : Ini) :
    raw_options ini.sections ini.vars "Variables" "Variables" = .ok (ini.vars.map (·.1)) := by
  simp [raw_options]

open Atsim.Gen.Logic in
/-- corollary for the code as written: a key of `[Variables]` that no section repeats is not among the options of any other section -/
theorem C15_code_options_no_variable (ini : Ini) (s k : String) (ks : List String)
    (hd : ini.sections.Pairwise (fun a b => a.1 ≠ b.1)) (hv : s ≠ "Variables")
    (hk : ∀ sec ∈ ini.sections, ∀ kv ∈ sec.2, kv.1 ≠ k)
    (h : raw_options ini.sections ini.vars "Variables" s = .ok ks) : k ∉ ks := by
  rw [C15_code_options ini s hd hv] at h
  cases hf : ini.sections.find? (fun p => p.1 == s) with
  | none => rw [hf] at h; simp at h
  | some q =>
    rw [hf] at h
    obtain ⟨n, kvs⟩ := q
    have hm := List.mem_of_find?_eq_some hf
    simp only [sectionKeys, currentCfg, hf, if_true, Except.ok.injEq] at h
    subst h
    intro hin
    rw [List.mem_map] at hin
    obtain ⟨kv, hkv, rfl⟩ := hin
    exact hk _ hm kv hkv rfl

open Atsim.Gen.Logic in
/-- non-vacuity: a file with a variable `nr` and a `[Tabulation]` section that has its own `target` only -/
example : raw_options [("Tabulation", [("target", "LAMMPS")])] [("nr", "5")] "Variables" "Tabulation" = .ok ["target"] ∧
    raw_options [("Tabulation", [("target", "LAMMPS")])] [("nr", "5")] "Variables" "Pair" = .error RawErr.noSection := by
  constructor <;> simp [raw_options, lookupLast]

open Atsim.Gen.Logic in
/-- the two methods of the code as written agree: for a section other than `[Variables]`, `has_option(s, k)` holds exactly when `options(s)` succeeds and lists the
normalised key - what `--list-items` shows of a section is what `has_option` (and therefore the override / removal / addition rules of C14) accepts as its items. -/
theorem C15_code_has_option_iff_options (ini : Ini) (superHasOption : String → String → Bool) (s k : String)
    (hd : ini.sections.Pairwise (fun a b => a.1 ≠ b.1)) (hne : s ≠ "") (hv : s ≠ "Variables") :
    raw_has_option Atsim.strip superHasOption ini.sections "Variables" s k = true ↔
      ∃ ks, raw_options ini.sections ini.vars "Variables" s = .ok ks ∧ norm k ∈ ks := by
  rw [C15_code_has_option ini superHasOption s k hd hne hv, C15_code_options ini s hd hv]
  have h2 : (s == "Variables") = false := by simpa using hv
  simp only [hasOption, sectionKeys, currentCfg, testKey, h2]
  cases hf : ini.sections.find? (fun p => p.1 == s) with
  | none => simp
  | some q =>
    obtain ⟨n, kvs⟩ := q
    simp only [if_true, Bool.false_eq_true, if_false, Bool.not_true, Bool.false_and, Bool.or_false, List.any_eq_true, beq_iff_eq,
      Except.ok.injEq, exists_eq_left', List.mem_map]

/-- non-vacuity of the hypotheses of `C15_code_options` / `C15_code_has_option_iff_options`: a file with one `[Tabulation]` section meets them -/
example : ([("Tabulation", [("target", "LAMMPS")])] : List (String × List KV)).Pairwise (fun a b => a.1 ≠ b.1) ∧ "Tabulation" ≠ "" ∧ "Tabulation" ≠ "Variables" := by
  simp

end Atsim.C15
