import AtsimModel.Props.C09
import AtsimModel.Props.C05
import AtsimModel.Model.Eam
import AtsimModel.Gen.Logic
import AtsimModel.Lemmas.TokSem
/-!
# C12 — tabulation is deterministic; evaluation is pure

* `C12_purity`: the energy of a custom-form potential is independent of whatever the per-form symbol tables held before the call
  (all form sets, cyclic ones included) – proved in Props/C09.lean over the stateful evaluator `evalS`.
* element order of EAM tables: since the `fix:` commit the zero-filled species are appended in sorted order, so `eamBuild` has no
  order parameter at all; the shipped behaviour (`eamBuildWith` under the iteration order of a Python set) is kept with a witness that
  two iteration orders give two different files.
* lazily filled caches (`_potlist`, `_workbook`, `_inner_tabulation`) hold a value that is a function of the constructor arguments only.
Tie to the code: `harness/props/C12.py` (histories in one process, hash seeds across processes, static scan of set iterations).
-/
namespace Atsim.C12
open Atsim

/-- the energy at r is a function of the definition and r alone -/
theorem C12_purity (body : Nat → Ex) (fuel : Nat) (σ σ' : Tables) (f : Nat) (vals : List Rat) :
    energyS body fuel σ f vals = energyS body fuel σ' f vals :=
  C09.C12_eval_state_independent body fuel σ σ' f vals

/-- consequence: evaluating anything else in between (any sequence of other calls, which only changes the tables) changes nothing -/
theorem C12_interleaving (body : Nat → Ex) (fuel : Nat) (σ : Tables) (others : List (Nat × List Rat)) (f : Nat) (vals : List Rat) :
    energyS body fuel (others.foldl (fun τ c => match evalS body fuel c.1 (writeTable τ c.1 c.2) (body c.1) with
                                                 | some (_, τ') => τ'
                                                 | none => τ) σ) f vals
      = energyS body fuel σ f vals :=
  C12_purity body fuel _ σ f vals

/-! ### element order of under-specified EAM models -/

/-- shipped behaviour: the element order depends on the iteration order only through the zero-filled species it lists … -/
theorem C12_order_only_through_extras (embed dens : List (Sp × Fid)) (o o' : List Sp) (spMeta : Sp → Option (Int × Rat × Rat × String))
    (h : o.filter (fun s => (dens.map (·.1)).contains s && !(eraseDupsSp (embed.map (·.1))).contains s)
       = o'.filter (fun s => (dens.map (·.1)).contains s && !(eraseDupsSp (embed.map (·.1))).contains s)) :
    eamBuildWith embed dens o spMeta = eamBuildWith embed dens o' spMeta := by
  unfold eamBuildWith
  simp only [h]

def metaAll : Sp → Option (Int × Rat × Rat × String) := fun _ => some (1, 1, 0, "fcc")

/-- … and with two zero-filled species two iteration orders give two different element orders (the defect that was fixed) -/
theorem C12_set_order_witness :
    (eamBuildWith [("Fe", 1)] [("Fe", 2), ("Zn", 0), ("Sn", 0)] ["Zn", "Sn"] metaAll).map (fun l => l.map (·.sp)) = some ["Fe", "Zn", "Sn"] ∧
    (eamBuildWith [("Fe", 1)] [("Fe", 2), ("Zn", 0), ("Sn", 0)] ["Sn", "Zn"] metaAll).map (fun l => l.map (·.sp)) = some ["Fe", "Sn", "Zn"] := by
  decide +kernel

/-- current behaviour: the order is fixed by the file alone (sorted), whatever the declaration order of the density entries -/
theorem C12_sorted_order_example :
    (eamBuild [("Fe", 1)] [("Zn", 0), ("Fe", 2), ("Sn", 0)] metaAll).map (fun l => l.map (·.sp)) = some ["Fe", "Sn", "Zn"] ∧
    (eamBuild [("Fe", 1)] [("Sn", 0), ("Zn", 0), ("Fe", 2)] metaAll).map (fun l => l.map (·.sp)) = some ["Fe", "Sn", "Zn"] := by
  decide +kernel

/-! ### caches -/

/-- a lazily filled cache: `if self._x is None: self._x = build(); return self._x` -/
def cached {α : Type} (c : Option α) (build : Unit → α) : α × Option α :=
  match c with
  | some v => (v, some v)
  | none => (build (), some (build ()))

/-- a second read returns what the first read returned, and that is `build ()` whatever happened in between -/
theorem C12_cache_idempotent {α : Type} (build : Unit → α) :
    (cached none build).1 = build () ∧ (cached (cached none build).2 build).1 = build () := by
  simp [cached]

/-! ## The code itself: the potable EAM builder (`EAM_Potential_Builder._init_eampotentials` and the eleven methods it uses)

`Atsim.Gen.Logic.eam_init_potentials` and `eam_embed_species`, `eam_to_dict`, `eam_add_null_embed`, `eam_add_null_dens`, `eam_create_potential`, `eam_get_*` … are the
methods of `config/_eam_potential_builder.py` as regenerated on every run: sets are lists of distinct members with `^`, `-`, `|` as list operations, dictionaries
keep the position of a key that is assigned again, `sorted(...)` is the stable insertion sort, and - the point of this property - the ONE place where the code
iterates over a Python `set` (`for s in all_species` in `_add_null_density_functions`) runs over `setOrder all_species`, an ORDER HANDED IN.  The theorem holds for
every `setOrder` that returns a permutation: whatever order the hash seed produces, the elements built, their order and their functions are the model's `eamBuild`
(embedding species in file order, then the density-only species in sorted order, zero functions where nothing was declared, the last declaration of a species winning). -/
namespace BuilderTie
open Atsim.Gen.Logic Atsim.TokSem

/-- rows of `[EAM-Embed]` / `[EAM-Density]` as (species, function id) pairs, the form builder being `mkFn` -/
def rowsOf (mkFn : Pfi → FnRec) (rows : List EmbRow) : List (Sp × Fid) := rows.map fun r => (r.species, (mkFn r.pfi).fid)

/-- the reference data as the model's `spMeta`: atomic number and mass are required, lattice constant and type default to 0 and fcc -/
def metaOf (refMass : String → Option Rat) (refNumber : String → Option Int) (refLatticeConstant : String → Option Rat) (refLatticeType : String → Option String)
    (s : Sp) : Option (Int × Rat × Rat × String) :=
  match refNumber s, refMass s with
  | some z, some m => some (z, m, (refLatticeConstant s).getD 0, (refLatticeType s).getD "fcc")
  | _, _ => none

end BuilderTie

/-! ### helper lemmas for the code tie -/
namespace BuilderTie
open Atsim.Gen.Logic Atsim.TokSem

section dict
variable {β : Type}

theorem lookupLast_append_single (d : List (String × β)) (k : String) (v : β) (s : String) :
    lookupLast (d ++ [(k, v)]) s = if s = k then some v else lookupLast d s := by
  simp only [lookupLast, List.reverse_append, List.reverse_cons, List.reverse_nil, List.nil_append, List.singleton_append, List.find?_cons]
  by_cases h : s = k
  · subst h; simp
  · have : (k == s) = false := by simp [Ne.symm h]
    simp [this, h]

theorem lookupLast_eq_none (d : List (String × β)) (s : String) :
    lookupLast d s = none ↔ s ∉ d.map (·.1) := by
  simp only [lookupLast, Option.map_eq_none_iff, List.find?_eq_none, List.mem_reverse, List.mem_map, not_exists, not_and]
  constructor
  · intro h e he heq
    exact h e he (by simp [heq])
  · intro h e he heq
    exact h e he (by simpa using heq)

theorem find_map_set (k : String) (v : β) (s : String) (l : List (String × β)) :
    ((l.map (fun e => if e.1 == k then (k, v) else e)).find? (fun e => e.1 == s)).map (·.2)
      = if s = k then (l.find? (fun e => e.1 == s)).map (fun _ => v) else (l.find? (fun e => e.1 == s)).map (·.2) := by
  induction l with
  | nil => simp
  | cons e l ih =>
    simp only [List.map_cons, List.find?_cons]
    by_cases h1 : e.1 = k <;> by_cases h2 : s = k
    · subst h2; simp [h1]
    · have : (k == s) = false := by simp [Ne.symm h2]
      have h3 : (e.1 == s) = false := by simp [h1, Ne.symm h2]
      simpa [h1, this, h3, h2] using ih
    · subst h2
      have h3 : (e.1 == s) = false := by simp [h1]
      simpa [h3] using ih
    · have h3 : (e.1 == k) = false := by simp [h1]
      simp only [h3, Bool.false_eq_true, if_false]
      cases h4 : (e.1 == s)
      · simpa [h2] using ih
      · simp [h2]

theorem lookupLast_odictSet (d : List (String × β)) (k : String) (v : β) (s : String) :
    lookupLast (odictSet d k v) s = if s = k then some v else lookupLast d s := by
  unfold odictSet
  split
  · rename_i hany
    simp only [lookupLast, ← List.map_reverse, find_map_set]
    split
    · rename_i hs
      subst hs
      have : ∃ e, d.reverse.find? (fun e => e.1 == s) = some e := by
        rw [← Option.isSome_iff_exists, List.find?_isSome]
        simpa using hany
      obtain ⟨e, he⟩ := this
      simp [he]
    · rfl
  · exact lookupLast_append_single d k v s

theorem keys_odictSet (d : List (String × β)) (k : String) (v : β) :
    (odictSet d k v).map (·.1) = if (d.map (·.1)).contains k then d.map (·.1) else d.map (·.1) ++ [k] := by
  unfold odictSet
  have : d.any (fun e => e.1 == k) = (d.map (·.1)).contains k := by
    induction d with
    | nil => rfl
    | cons e d ih => simp only [List.any_cons, ih, List.map_cons, List.contains_cons]; rw [Bool.beq_comm]
  rw [this]
  split
  · rw [List.map_map]
    apply List.map_congr_left
    intro e _
    by_cases h : e.1 = k <;> simp [h]
  · simp

theorem lookupLast_odictSetDefault (d : List (String × β)) (k : String) (v : β) (s : String) :
    lookupLast (odictSetDefault d k v) s = match lookupLast d s with | some w => some w | none => if s = k then some v else none := by
  unfold odictSetDefault
  split
  · rename_i hany
    cases h : lookupLast d s with
    | some w => rfl
    | none =>
      have := (lookupLast_eq_none d s).1 h
      have hk : s ≠ k := by
        rintro rfl
        apply this
        simp at hany ⊢
        exact hany
      simp [hk]
  · rw [lookupLast_append_single]
    rename_i hany
    by_cases hk : s = k
    · subst hk
      have : lookupLast d s = none := by
        rw [lookupLast_eq_none]; simpa using hany
      simp [this]
    · simp only [hk, if_false]
      cases lookupLast d s <;> rfl

end dict

theorem to_dict_loop_eq (mkFn : Pfi → FnRec) (d : List (String × FnRec)) (u : Unit) (tl rows : List EmbRow) :
    eam_to_dict_loop1 mkFn d u tl rows = rows.foldl (fun d r => odictSet d r.species (mkFn r.pfi)) d := by
  induction rows generalizing d with
  | nil => rfl
  | cons r rows ih => simp only [eam_to_dict_loop1, List.foldl_cons]; exact ih _

theorem eraseDupsSp_append_single (l : List Sp) (x : Sp) :
    eraseDupsSp (l ++ [x]) = if (eraseDupsSp l).contains x then eraseDupsSp l else eraseDupsSp l ++ [x] := by
  unfold eraseDupsSp
  rw [List.foldl_append]
  rfl

theorem mem_eraseDupsSp (l : List Sp) (x : Sp) : x ∈ eraseDupsSp l ↔ x ∈ l := by
  induction l using List.reverseRecOn generalizing x with
  | nil => simp [eraseDupsSp]
  | append_singleton l y ih =>
    rw [eraseDupsSp_append_single]
    split
    · rename_i h
      have hy : y ∈ l := by simpa [ih] using h
      by_cases hxy : x = y
      · subst hxy; simp [ih, hy]
      · simp [ih, hxy]
    · simp [ih]

theorem nodup_eraseDupsSp (l : List Sp) : (eraseDupsSp l).Nodup := by
  induction l using List.reverseRecOn with
  | nil => simp [eraseDupsSp]
  | append_singleton l y ih =>
    rw [eraseDupsSp_append_single]
    split
    · exact ih
    · rename_i h
      rw [List.nodup_append]
      refine ⟨ih, by simp, ?_⟩
      intro a ha b hb
      simp at hb
      subst hb
      rintro rfl
      exact h (by simpa using ha)

theorem to_dict_keys (mkFn : Pfi → FnRec) (rows : List EmbRow) :
    (eam_to_dict mkFn rows ()).map (·.1) = eraseDupsSp (rows.map (·.species)) := by
  unfold eam_to_dict
  rw [to_dict_loop_eq]
  induction rows using List.reverseRecOn with
  | nil => rfl
  | append_singleton rows r ih =>
    rw [List.foldl_append, List.foldl_cons, List.foldl_nil, keys_odictSet, ih, List.map_append, List.map_singleton,
      eraseDupsSp_append_single]

theorem dictGet_eq_lookupLast (d : List (Sp × Fid)) (s : Sp) : dictGet d s = lookupLast d s := by
  unfold dictGet lookupLast
  cases List.find? _ _ <;> rfl

theorem to_dict_lookup (mkFn : Pfi → FnRec) (rows : List EmbRow) (s : String) :
    lookupLast (eam_to_dict mkFn rows ()) s = (dictGet (rowsOf mkFn rows) s).map FnRec.mk := by
  unfold eam_to_dict
  rw [to_dict_loop_eq, dictGet_eq_lookupLast]
  induction rows using List.reverseRecOn with
  | nil => rfl
  | append_singleton rows r ih =>
    rw [List.foldl_append, List.foldl_cons, List.foldl_nil, lookupLast_odictSet, ih]
    simp only [rowsOf, List.map_append, List.map_singleton]
    rw [lookupLast_append_single]
    split <;> simp

theorem rowsOf_keys (mkFn : Pfi → FnRec) (rows : List EmbRow) : (rowsOf mkFn rows).map (·.1) = rows.map (·.species) := by
  simp [rowsOf]

theorem mem_listToSet (l : List String) (x : String) : x ∈ listToSet l ↔ x ∈ l := by
  induction l with
  | nil => simp [listToSet]
  | cons y l ih =>
    simp only [listToSet, List.mem_cons, List.mem_filter, ih]
    by_cases h : x = y <;> simp [h]

theorem nodup_listToSet (l : List String) : (listToSet l).Nodup := by
  induction l with
  | nil => simp [listToSet]
  | cons y l ih =>
    simp only [listToSet, List.nodup_cons, List.mem_filter]
    exact ⟨by simp, ih.filter _⟩

theorem mem_setDiff (a b : List String) (x : String) : x ∈ setDiff a b ↔ x ∈ a ∧ x ∉ b := by
  simp [setDiff]

theorem null_embed_loop_eq (cp : CpEam) (defined : List String) (density : List EmbRow) (dd : List (String × FnRec)) (ds : List String)
    (E : List (String × FnRec)) (null : FnRec) (nes l : List String) :
    eam_add_null_embed_loop1 cp defined density dd ds E null nes l = l.foldl (fun E s => odictSet E s null) E := by
  induction l generalizing E with
  | nil => rfl
  | cons r rows ih => simp only [eam_add_null_embed_loop1, List.foldl_cons]; exact ih _

theorem foldl_odictSet_lookup {β : Type} (n : β) (l : List String) (E : List (String × β)) (s : String) :
    lookupLast (l.foldl (fun E s => odictSet E s n) E) s = if s ∈ l then some n else lookupLast E s := by
  induction l generalizing E with
  | nil => simp
  | cons x l ih =>
    rw [List.foldl_cons, ih, lookupLast_odictSet]
    by_cases h1 : s ∈ l <;> by_cases h2 : s = x <;> simp [h1, h2]

theorem foldl_odictSet_keys {β : Type} (n : β) (l : List String) (E : List (String × β)) (hnd : l.Nodup)
    (hdis : ∀ s ∈ l, s ∉ E.map (·.1)) :
    (l.foldl (fun E s => odictSet E s n) E).map (·.1) = E.map (·.1) ++ l := by
  induction l generalizing E with
  | nil => simp
  | cons x l ih =>
    rw [List.foldl_cons, ih _ (List.nodup_cons.1 hnd).2]
    · rw [keys_odictSet]
      have : ¬ ((E.map (·.1)).contains x) = true := by
        simpa using hdis x (by simp)
      rw [if_neg this]
      simp
    · intro s hs
      rw [keys_odictSet]
      have hx : s ≠ x := by rintro rfl; exact (List.nodup_cons.1 hnd).1 hs
      have := hdis s (by simp [hs])
      split
      · exact this
      · simp only [List.mem_append, List.mem_singleton, not_or]
        exact ⟨this, hx⟩

theorem leS_total' (a b : String) : (decide (a ≤ b)) = true ∨ (decide (b ≤ a)) = true := by
  simpa using le_total a b

theorem null_species_eq (densSp K : List String) :
    stableSortBy (fun a b => decide (a ≤ b)) (setDiff (listToSet densSp) K)
      = (sortSp (eraseDupsSp densSp)).filter (fun s => densSp.contains s && !K.contains s) := by
  apply Atsim.C05.TabeamWriter.stableSortBy_eq (fun a b : String => decide (a ≤ b))
  · intro a b; simpa using le_total a b
  · intro a b c; simpa using fun h1 h2 => le_trans h1 h2
  · intro a b; simpa using fun h1 h2 => le_antisymm h1 h2
  · rw [List.perm_ext_iff_of_nodup]
    · intro a
      rw [mem_setDiff, mem_listToSet, List.mem_filter, (C05.TabeamWriter.sortSp_perm _).mem_iff, mem_eraseDupsSp]
      simp
    · exact (nodup_listToSet _).filter _
    · exact (((C05.TabeamWriter.sortSp_perm _).nodup_iff).2 (nodup_eraseDupsSp _)).filter _
  · have := (C05.TabeamWriter.sortSp_sorted (eraseDupsSp densSp)).filter (fun s => densSp.contains s && !K.contains s)
    exact this.imp (by intro a b h; simpa using h)


/-- the zero-filled species of the model, for embedding keys `K` -/
def extrasOf (densSp K : List String) : List String :=
  (sortSp (eraseDupsSp densSp)).filter (fun s => densSp.contains s && !K.contains s)

theorem add_null_embed_keys (cp : CpEam) (E dd : List (String × FnRec)) :
    (eam_add_null_embed cp E dd).map (·.1) = E.map (·.1) ++ extrasOf (cp.eam_density.map (·.species)) (E.map (·.1)) := by
  unfold eam_add_null_embed eam_extract_density eam_density_species
  simp only []
  rw [null_embed_loop_eq, null_species_eq, foldl_odictSet_keys]
  · rfl
  · exact (((C05.TabeamWriter.sortSp_perm _).nodup_iff).2 (nodup_eraseDupsSp _)).filter _
  · intro s hs
    have := (List.mem_filter.1 hs).2
    simp only [Bool.and_eq_true, Bool.not_eq_true'] at this
    simpa using this.2

theorem add_null_embed_lookup (cp : CpEam) (E dd : List (String × FnRec)) (s : String) :
    lookupLast (eam_add_null_embed cp E dd) s
      = if s ∈ extrasOf (cp.eam_density.map (·.species)) (E.map (·.1)) then some zeroFn else lookupLast E s := by
  unfold eam_add_null_embed eam_extract_density eam_density_species
  simp only []
  rw [null_embed_loop_eq, null_species_eq, foldl_odictSet_lookup]
  rfl

theorem null_dens_loop_eq (setOrder : List String → List String) (all : List String) (cp : CpEam) (density : List EmbRow)
    (D : List (String × FnRec)) (ds : List String) (E : List (String × FnRec)) (es : List String) (null : FnRec) (l : List String) :
    eam_add_null_dens_loop1 setOrder all cp density D ds E es null l = l.foldl (fun D s => odictSetDefault D s null) D := by
  induction l generalizing D with
  | nil => rfl
  | cons r rows ih => simp only [eam_add_null_dens_loop1, List.foldl_cons]; exact ih _

theorem foldl_setDefault_lookup {β : Type} (n : β) (l : List String) (D : List (String × β)) (s : String) :
    lookupLast (l.foldl (fun D s => odictSetDefault D s n) D) s
      = match lookupLast D s with | some w => some w | none => if s ∈ l then some n else none := by
  induction l generalizing D with
  | nil => cases h : lookupLast D s <;> simp [h]
  | cons x l ih =>
    rw [List.foldl_cons, ih, lookupLast_odictSetDefault]
    cases lookupLast D s with
    | some w => rfl
    | none =>
      by_cases h2 : s = x
      · simp [h2]
      · simp [h2]

theorem add_null_dens_lookup (setOrder : List String → List String) (hperm : ∀ l, (setOrder l).Perm l) (cp : CpEam)
    (E D : List (String × FnRec)) (s : String) (hs : s ∈ E.map (·.1)) :
    lookupLast (eam_add_null_dens setOrder cp E D) s = some ((lookupLast D s).getD zeroFn) := by
  unfold eam_add_null_dens
  simp only []
  rw [null_dens_loop_eq, foldl_setDefault_lookup]
  have : s ∈ setOrder (setUnion (E.map fun e => e.1) (eam_density_species (eam_extract_density cp))) := by
    rw [(hperm _).mem_iff]
    unfold setUnion
    exact List.mem_append_left _ hs
  cases lookupLast D s with
  | some w => rfl
  | none => simp [this]

/-- the model's per-species constructor -/
def mkEl (embed dens : List (Sp × Fid)) (spMeta : Sp → Option (Int × Rat × Rat × String)) (s : Sp) : Option El :=
  match spMeta s with
  | none => none
  | some (z, m, a, l) =>
    some { sp := s, z := z, mass := m, a0 := a, lat := l, embed := (dictGet embed s).getD 0,
           dens := (dictGet dens s).getD 0, densTo := [] }

theorem eamBuild_eq (embed dens : List (Sp × Fid)) (spMeta : Sp → Option (Int × Rat × Rat × String)) :
    eamBuild embed dens spMeta
      = (eraseDupsSp (embed.map (·.1)) ++ extrasOf (dens.map (·.1)) (eraseDupsSp (embed.map (·.1)))).mapM (mkEl embed dens spMeta) := rfl

/-- what the per-species call has to deliver -/
def CreateOk (r : Except BuildErr EamRec) (m : Option El) : Prop :=
  match m with
  | some el => r = .ok (toEam el)
  | none => ∃ e, r = .error e ∧ (e = BuildErr.noAtomicNumber ∨ e = BuildErr.noMass)

theorem create_spec (refMass : String → Option Rat) (refNumber : String → Option Int) (refLatticeConstant : String → Option Rat)
    (refLatticeType : String → Option String) (embed dens : List (Sp × Fid)) (s : String) (E' D' : List (String × FnRec))
    (hE : lookupLast E' s = some ⟨(dictGet embed s).getD 0⟩) (hD : lookupLast D' s = some ⟨(dictGet dens s).getD 0⟩) :
    CreateOk (eam_create_potential refMass refNumber refLatticeConstant refLatticeType s E' D')
      (mkEl embed dens (metaOf refMass refNumber refLatticeConstant refLatticeType) s) := by
  unfold eam_create_potential mkEl metaOf eam_get_atomic_number eam_get_mass eam_get_lattice_constant eam_get_lattice_type
  rw [hE, hD]
  cases refNumber s with
  | none => simp [CreateOk, andThen]
  | some z =>
    cases refMass s with
    | none => simp [CreateOk, andThen]
    | some m =>
      cases refLatticeConstant s <;> cases refLatticeType s <;> simp [CreateOk, andThen, toEam]


/-- what the final loop has to deliver -/
def LoopOk (acc : List EamRec) (r : Except BuildErr (List EamRec)) (m : Option (List El)) : Prop :=
  match m with
  | some els => r = .ok (acc ++ els.map toEam)
  | none => ∃ e, r = .error e ∧ (e = BuildErr.noAtomicNumber ∨ e = BuildErr.noMass)

theorem loop1_spec (mkFn : Pfi → FnRec) (setOrder : List String → List String)
    (refMass : String → Option Rat) (refNumber : String → Option Int) (refLatticeConstant : String → Option Rat)
    (refLatticeType : String → Option String) (cp : CpEam) (density : List EmbRow) (D' : List (String × FnRec)) (ds diff : List String)
    (embed : List EmbRow) (E' : List (String × FnRec)) (es : List String) (b : Bool) (g : String → Option El) (l : List String)
    (h : ∀ s ∈ l, CreateOk (eam_create_potential refMass refNumber refLatticeConstant refLatticeType s E' D') (g s))
    (acc : List EamRec) :
    LoopOk acc (eam_init_potentials_loop1 mkFn setOrder refMass refNumber refLatticeConstant refLatticeType cp density D' ds diff embed E' es
      () () () acc b l) (l.mapM g) := by
  induction l generalizing acc with
  | nil => simp [eam_init_potentials_loop1, LoopOk]
  | cons x l ih =>
    have hx := h x (by simp)
    have ih' := fun acc => ih (fun s hs => h s (by simp [hs])) acc
    unfold eam_init_potentials_loop1
    rw [List.mapM_cons]
    cases hg : g x with
    | none =>
      rw [hg] at hx
      obtain ⟨e, he, hee⟩ := hx
      rw [he]
      exact ⟨e, rfl, hee⟩
    | some el =>
      rw [hg] at hx
      simp only [CreateOk] at hx
      rw [hx]
      simp only [andThen]
      have := ih' (acc ++ [toEam el])
      cases hm : l.mapM g with
      | none =>
        rw [hm] at this
        exact this
      | some els =>
        rw [hm] at this
        simp only [LoopOk] at this ⊢
        rw [this]
        simp

theorem loop3_eq_loop1 (mkFn : Pfi → FnRec) (setOrder : List String → List String)
    (refMass : String → Option Rat) (refNumber : String → Option Int) (refLatticeConstant : String → Option Rat)
    (refLatticeType : String → Option String) (cp : CpEam) (density : List EmbRow) (D' : List (String × FnRec)) (ds diff : List String)
    (embed : List EmbRow) (E' : List (String × FnRec)) (es : List String) (b : Bool) (l : List String) (acc : List EamRec) :
    eam_init_potentials_loop3 mkFn setOrder refMass refNumber refLatticeConstant refLatticeType cp density D' ds diff embed E' es () () () acc b l
      = eam_init_potentials_loop1 mkFn setOrder refMass refNumber refLatticeConstant refLatticeType cp density D' ds diff embed E' es () () () acc b l := by
  induction l generalizing acc with
  | nil => rfl
  | cons x l ih =>
    unfold eam_init_potentials_loop3 eam_init_potentials_loop1
    simp only [ih]


theorem builder_core (mkFn : Pfi → FnRec) (setOrder : List String → List String) (hperm : ∀ l, (setOrder l).Perm l)
    (refMass : String → Option Rat) (refNumber : String → Option Int) (refLatticeConstant : String → Option Rat)
    (refLatticeType : String → Option String) (cp : CpEam) (density embed : List EmbRow) (ds diff es : List String) (b : Bool) :
    LoopOk [] (eam_init_potentials_loop1 mkFn setOrder refMass refNumber refLatticeConstant refLatticeType cp density
        (eam_add_null_dens setOrder cp (eam_add_null_embed cp (eam_to_dict mkFn cp.eam_embed ()) (eam_to_dict mkFn cp.eam_density ()))
          (eam_to_dict mkFn cp.eam_density ()))
        ds diff embed (eam_add_null_embed cp (eam_to_dict mkFn cp.eam_embed ()) (eam_to_dict mkFn cp.eam_density ())) es () () () [] b
        ((eam_add_null_embed cp (eam_to_dict mkFn cp.eam_embed ()) (eam_to_dict mkFn cp.eam_density ())).map (·.1)))
      (eamBuild (rowsOf mkFn cp.eam_embed) (rowsOf mkFn cp.eam_density) (metaOf refMass refNumber refLatticeConstant refLatticeType)) := by
  rw [eamBuild_eq, rowsOf_keys, rowsOf_keys]
  have hkeys : (eam_add_null_embed cp (eam_to_dict mkFn cp.eam_embed ()) (eam_to_dict mkFn cp.eam_density ())).map (·.1)
      = eraseDupsSp (cp.eam_embed.map (·.species))
          ++ extrasOf (cp.eam_density.map (·.species)) (eraseDupsSp (cp.eam_embed.map (·.species))) := by
    rw [add_null_embed_keys, to_dict_keys]
  have hkeys' := hkeys
  rw [hkeys]
  apply loop1_spec
  intro s hs
  apply create_spec
  · rw [add_null_embed_lookup, to_dict_keys, to_dict_lookup]
    split
    · rename_i hex
      have hnot : s ∉ cp.eam_embed.map (·.species) := by
        have := (List.mem_filter.1 hex).2
        simp only [Bool.and_eq_true, Bool.not_eq_true'] at this
        have h2 : s ∉ eraseDupsSp (cp.eam_embed.map (·.species)) := by simpa using this.2
        rwa [mem_eraseDupsSp] at h2
      have : dictGet (rowsOf mkFn cp.eam_embed) s = none := by
        rw [dictGet_eq_lookupLast, lookupLast_eq_none, rowsOf_keys]
        exact hnot
      rw [this]
      rfl
    · rename_i hex
      have hin : s ∈ cp.eam_embed.map (·.species) := by
        rcases List.mem_append.1 hs with h | h
        · rwa [mem_eraseDupsSp] at h
        · exact absurd h hex
      cases hd : dictGet (rowsOf mkFn cp.eam_embed) s with
      | none =>
        rw [dictGet_eq_lookupLast, lookupLast_eq_none, rowsOf_keys] at hd
        exact absurd hin hd
      | some f => rfl
  · rw [add_null_dens_lookup setOrder hperm cp _ _ s (by rw [hkeys']; exact hs), to_dict_lookup]
    cases dictGet (rowsOf mkFn cp.eam_density) s <;> rfl


theorem init_eq_loop1 (mkFn : Pfi → FnRec) (setOrder : List String → List String)
    (refMass : String → Option Rat) (refNumber : String → Option Int) (refLatticeConstant : String → Option Rat)
    (refLatticeType : String → Option String) (cp : CpEam) :
    eam_init_potentials mkFn setOrder refMass refNumber refLatticeConstant refLatticeType true cp () ()
      = eam_init_potentials_loop1 mkFn setOrder refMass refNumber refLatticeConstant refLatticeType cp cp.eam_density
        (eam_add_null_dens setOrder cp (eam_add_null_embed cp (eam_to_dict mkFn cp.eam_embed ()) (eam_to_dict mkFn cp.eam_density ()))
          (eam_to_dict mkFn cp.eam_density ()))
        (eam_density_species cp.eam_density) (setSymDiff (eam_embed_species cp.eam_embed) (eam_density_species cp.eam_density)) cp.eam_embed
        (eam_add_null_embed cp (eam_to_dict mkFn cp.eam_embed ()) (eam_to_dict mkFn cp.eam_density ())) (eam_embed_species cp.eam_embed) () () () [] true
        ((eam_add_null_embed cp (eam_to_dict mkFn cp.eam_embed ()) (eam_to_dict mkFn cp.eam_density ())).map (·.1)) := by
  unfold eam_init_potentials eam_extract_embed eam_extract_density eam_embed_to_dict eam_density_to_dict
  simp only [if_true]
  split
  · rfl
  · exact loop3_eq_loop1 ..

theorem create_congr (refMass : String → Option Rat) (refNumber : String → Option Int) (refLatticeConstant : String → Option Rat)
    (refLatticeType : String → Option String) (s : String) (E' D1 D2 : List (String × FnRec)) (h : lookupLast D1 s = lookupLast D2 s) :
    eam_create_potential refMass refNumber refLatticeConstant refLatticeType s E' D1
      = eam_create_potential refMass refNumber refLatticeConstant refLatticeType s E' D2 := by
  unfold eam_create_potential
  rw [h]

theorem loop1_congr (mkFn : Pfi → FnRec) (o o' : List String → List String)
    (refMass : String → Option Rat) (refNumber : String → Option Int) (refLatticeConstant : String → Option Rat)
    (refLatticeType : String → Option String) (cp : CpEam) (density : List EmbRow) (D1 D2 : List (String × FnRec)) (ds diff : List String)
    (embed : List EmbRow) (E' : List (String × FnRec)) (es : List String) (b : Bool) (l : List String)
    (h : ∀ s ∈ l, lookupLast D1 s = lookupLast D2 s) (acc : List EamRec) :
    eam_init_potentials_loop1 mkFn o refMass refNumber refLatticeConstant refLatticeType cp density D1 ds diff embed E' es () () () acc b l
      = eam_init_potentials_loop1 mkFn o' refMass refNumber refLatticeConstant refLatticeType cp density D2 ds diff embed E' es () () () acc b l := by
  induction l generalizing acc with
  | nil => rfl
  | cons x l ih =>
    unfold eam_init_potentials_loop1
    rw [create_congr refMass refNumber refLatticeConstant refLatticeType x E' D1 D2 (h x (by simp))]
    have ih' := fun acc => ih (fun s hs => h s (by simp [hs])) acc
    simp only [ih']

theorem symDiff_nonempty (A B : List String) (s : String) (hs : (s ∈ A) ≠ (s ∈ B)) :
    (setSymDiff (listToSet A) (listToSet B)).isEmpty = false := by
  have hmem : s ∈ setSymDiff (listToSet A) (listToSet B) := by
    unfold setSymDiff
    rw [List.mem_append, mem_setDiff, mem_setDiff, mem_listToSet, mem_listToSet]
    by_cases hA : s ∈ A <;> by_cases hB : s ∈ B
    · exact absurd (propext (iff_of_true hA hB)) hs
    · exact Or.inl ⟨hA, hB⟩
    · exact Or.inr ⟨hB, hA⟩
    · exact absurd (propext (iff_of_false hA hB)) hs
  cases h : setSymDiff (listToSet A) (listToSet B) with
  | nil => rw [h] at hmem; simp at hmem
  | cons a t => rfl

end BuilderTie

open Atsim.Gen.Logic Atsim.TokSem BuilderTie in
/-- **code tie (zero-filling builder, any set iteration order)** -/
theorem C12_code_eam_builder (mkFn : Pfi → FnRec) (setOrder : List String → List String) (hperm : ∀ l, (setOrder l).Perm l)
    (refMass : String → Option Rat) (refNumber : String → Option Int) (refLatticeConstant : String → Option Rat) (refLatticeType : String → Option String)
    (cp : CpEam) :
    match eamBuild (rowsOf mkFn cp.eam_embed) (rowsOf mkFn cp.eam_density) (metaOf refMass refNumber refLatticeConstant refLatticeType) with
    | some els => eam_init_potentials mkFn setOrder refMass refNumber refLatticeConstant refLatticeType true cp () () = .ok (els.map toEam)
    | none => ∃ e, eam_init_potentials mkFn setOrder refMass refNumber refLatticeConstant refLatticeType true cp () () = .error e ∧
                   (e = BuildErr.noAtomicNumber ∨ e = BuildErr.noMass) := by
  rw [init_eq_loop1]
  have := builder_core mkFn setOrder hperm refMass refNumber refLatticeConstant refLatticeType cp cp.eam_density cp.eam_embed
    (eam_density_species cp.eam_density) (setSymDiff (eam_embed_species cp.eam_embed) (eam_density_species cp.eam_density))
    (eam_embed_species cp.eam_embed) true
  revert this
  cases eamBuild (rowsOf mkFn cp.eam_embed) (rowsOf mkFn cp.eam_density) (metaOf refMass refNumber refLatticeConstant refLatticeType) with
  | none => exact id
  | some els => intro h; simpa [LoopOk] using h

open Atsim.Gen.Logic Atsim.TokSem BuilderTie in
/-- hence the result does not depend on the iteration order of the set at all -/
theorem C12_code_eam_builder_order_free (mkFn : Pfi → FnRec) (o o' : List String → List String) (ho : ∀ l, (o l).Perm l) (ho' : ∀ l, (o' l).Perm l)
    (refMass : String → Option Rat) (refNumber : String → Option Int) (refLatticeConstant : String → Option Rat) (refLatticeType : String → Option String)
    (cp : CpEam) :
    eam_init_potentials mkFn o refMass refNumber refLatticeConstant refLatticeType true cp () () =
      eam_init_potentials mkFn o' refMass refNumber refLatticeConstant refLatticeType true cp () () := by
  rw [init_eq_loop1, init_eq_loop1]
  apply loop1_congr
  intro s hs
  rw [add_null_dens_lookup o ho cp _ _ s hs, add_null_dens_lookup o' ho' cp _ _ s hs]

open Atsim.Gen.Logic BuilderTie in
/-- without zero-filling (`add_undefined = False`) species present on one side only are refused -/
theorem C12_code_eam_builder_strict (mkFn : Pfi → FnRec) (setOrder : List String → List String)
    (refMass : String → Option Rat) (refNumber : String → Option Int) (refLatticeConstant : String → Option Rat) (refLatticeType : String → Option String)
    (cp : CpEam) (s : String) (hs : (s ∈ cp.eam_embed.map (·.species)) ≠ (s ∈ cp.eam_density.map (·.species))) :
    eam_init_potentials mkFn setOrder refMass refNumber refLatticeConstant refLatticeType false cp () () = .error BuildErr.speciesMismatch := by
  have := symDiff_nonempty _ _ s hs
  unfold eam_init_potentials eam_extract_embed eam_extract_density eam_embed_species eam_density_species
  simp only [this, Bool.not_false, if_true, Bool.false_eq_true, if_false]


end Atsim.C12
