import AtsimModel.Props.C09
import AtsimModel.Model.Eam
/-!
# C12 — tabulation is deterministic; evaluation is pure

* `C12_purity`: the energy of a custom-form potential is independent of whatever the per-form symbol tables held before the call
  (all form sets, cyclic ones included) – proved in Props/C09.lean over the stateful evaluator `evalS`.
* element order of EAM tables: since the `fix:` commit the zero-filled species are appended in sorted order, so `eamBuild` has no
  order parameter at all; the shipped behaviour (`eamBuildWith` under the iteration order of a Python set) is kept with a witness that
  two iteration orders give two different files.
* lazily filled caches (`_potlist`, `_workbook`, `_inner_tabulation`) hold a value that is a function of the constructor arguments only.
Tie to the code: `harness/props/C12.py` (histories in one process, hash seeds across processes, static scan of set iterations).
-/
namespace Atsim.C12
open Atsim

/-- the energy at r is a function of the definition and r alone -/
theorem C12_purity (body : Nat → Ex) (fuel : Nat) (σ σ' : Tables) (f : Nat) (vals : List Rat) :
    energyS body fuel σ f vals = energyS body fuel σ' f vals :=
  C09.C12_eval_state_independent body fuel σ σ' f vals

/-- consequence: evaluating anything else in between (any sequence of other calls, which only changes the tables) changes nothing -/
theorem C12_interleaving (body : Nat → Ex) (fuel : Nat) (σ : Tables) (others : List (Nat × List Rat)) (f : Nat) (vals : List Rat) :
    energyS body fuel (others.foldl (fun τ c => match evalS body fuel c.1 (writeTable τ c.1 c.2) (body c.1) with
                                                 | some (_, τ') => τ'
                                                 | none => τ) σ) f vals
      = energyS body fuel σ f vals :=
  C12_purity body fuel _ σ f vals

/-! ### element order of under-specified EAM models -/

/-- shipped behaviour: the element order depends on the iteration order only through the zero-filled species it lists … -/
theorem C12_order_only_through_extras (embed dens : List (Sp × Fid)) (o o' : List Sp) (spMeta : Sp → Option (Int × Rat × Rat × String))
    (h : o.filter (fun s => (dens.map (·.1)).contains s && !(eraseDupsSp (embed.map (·.1))).contains s)
       = o'.filter (fun s => (dens.map (·.1)).contains s && !(eraseDupsSp (embed.map (·.1))).contains s)) :
    eamBuildWith embed dens o spMeta = eamBuildWith embed dens o' spMeta := by
  unfold eamBuildWith
  simp only [h]

def metaAll : Sp → Option (Int × Rat × Rat × String) := fun _ => some (1, 1, 0, "fcc")

/-- … and with two zero-filled species two iteration orders give two different element orders (the defect that was fixed) -/
theorem C12_set_order_witness :
    (eamBuildWith [("Fe", 1)] [("Fe", 2), ("Zn", 0), ("Sn", 0)] ["Zn", "Sn"] metaAll).map (fun l => l.map (·.sp)) = some ["Fe", "Zn", "Sn"] ∧
    (eamBuildWith [("Fe", 1)] [("Fe", 2), ("Zn", 0), ("Sn", 0)] ["Sn", "Zn"] metaAll).map (fun l => l.map (·.sp)) = some ["Fe", "Sn", "Zn"] := by
  decide +kernel

/-- current behaviour: the order is fixed by the file alone (sorted), whatever the declaration order of the density entries -/
theorem C12_sorted_order_example :
    (eamBuild [("Fe", 1)] [("Zn", 0), ("Fe", 2), ("Sn", 0)] metaAll).map (fun l => l.map (·.sp)) = some ["Fe", "Sn", "Zn"] ∧
    (eamBuild [("Fe", 1)] [("Sn", 0), ("Zn", 0), ("Fe", 2)] metaAll).map (fun l => l.map (·.sp)) = some ["Fe", "Sn", "Zn"] := by
  decide +kernel

/-! ### caches -/

/-- a lazily filled cache: `if self._x is None: self._x = build(); return self._x` -/
def cached {α : Type} (c : Option α) (build : Unit → α) : α × Option α :=
  match c with
  | some v => (v, some v)
  | none => (build (), some (build ()))

/-- a second read returns what the first read returned, and that is `build ()` whatever happened in between -/
theorem C12_cache_idempotent {α : Type} (build : Unit → α) :
    (cached none build).1 = build () ∧ (cached (cached none build).2 build).1 = build () := by
  simp [cached]

end Atsim.C12
