import AtsimModel.Model.PairTables
import AtsimModel.Gen.Logic
import Mathlib.Tactic.Ring
import Mathlib.Tactic.FieldSimp
import Mathlib.Tactic.Linarith
import Mathlib.Tactic.NormNum
import Mathlib.Data.Rat.Defs
import Mathlib.Algebra.Order.Field.Rat
import Mathlib.Data.Real.Basic
import Mathlib.Tactic.Positivity
import Mathlib.Analysis.SpecialFunctions.Pow.Real
import AtsimModel.Lemmas.KernelQ
/-!
# C02 — DL_POLY TABLE: header, 4-per-record layout, energies and -r dU/dr faithful

Theorems about `Atsim.dlpolyTable`, the transcription of `_dlpoly_writeTABLE.writePotentials`.
Tied to the code by `harness/props/C02.py`.
-/
namespace Atsim.C02
open Atsim

/-- repeated addition lands on the multiples of the step (exact arithmetic; the floating-point
    accumulation error is tested to printed precision by the correspondence, not proved) -/
theorem C02_accum (step : Rat) (k : Nat) : accum step k = (k : Rat) * step := by
  induction k with
  | zero => simp [accum]
  | succ k ih => simp only [accum, ih]; push_cast; ring

/-- header: `delpot * (ngrid - 4) = cutoff`  -/
theorem C02_header (cut : Rat) (ngrid : Nat) (h : 4 < ngrid) :
    meshResolution cut ngrid * ((ngrid : Rat) - 4) = cut := by
  unfold meshResolution
  have : (4 : Rat) < (ngrid : Rat) := by exact_mod_cast h
  have hne : (ngrid : Rat) - 4 ≠ 0 := by linarith
  field_simp

theorem groupsOf4_spec : ∀ (m : Nat) (l : List Slot), l.length = 4 * m →
    (groupsOf4 l).flatten = l ∧ (groupsOf4 l).length = m ∧ ∀ g ∈ groupsOf4 l, g.length = 4 := by
  intro m
  induction m with
  | zero =>
    intro l hl
    have : l = [] := List.length_eq_zero_iff.mp (by omega)
    subst this
    simp [groupsOf4]
  | succ m ih =>
    intro l hl
    match l, hl with
    | a :: b :: c :: d :: rest, hl =>
      have hr : rest.length = 4 * m := by simp at hl; omega
      obtain ⟨h1, h2, h3⟩ := ih rest hr
      refine ⟨?_, ?_, ?_⟩
      · simp [groupsOf4, h1]
      · simp [groupsOf4, h2]
      · intro g hg
        simp only [groupsOf4, List.mem_cons] at hg
        rcases hg with rfl | hg
        · rfl
        · exact h3 g hg
    | [], hl => simp at hl
    | [_], hl => simp at hl; omega
    | [_, _], hl => simp at hl; omega
    | [_, _, _], hl => simp at hl; omega

/-- The property's predicate on one potential block. -/
def BlockOK (p : Pot) (cut : Rat) (ngrid : Nat) (b : DBlock) : Prop :=
  b.a = p.a ∧ b.b = p.b ∧
  -- exactly ngrid energies then exactly ngrid forces, in records of four, none partial
  (∀ g ∈ b.energies, g.length = 4) ∧ (∀ g ∈ b.forces, g.length = 4) ∧
  b.energies.flatten.length = ngrid ∧ b.forces.flatten.length = ngrid ∧
  -- k-th energy is V(k*delpot), k-th force value is -r dV/dr at r = k*delpot of the same V   (k = 1..ngrid)
  (∀ i (h : i < b.energies.flatten.length),
      b.energies.flatten[i] = Slot.val p.fid (((i + 1 : Nat) : Rat) * (cut / ((ngrid : Rat) - 4)))) ∧
  (∀ i (h : i < b.forces.flatten.length),
      b.forces.flatten[i] = Slot.val p.fid (((i + 1 : Nat) : Rat) * (cut / ((ngrid : Rat) - 4))))

theorem C02_block (p : Pot) (cut : Rat) (ngrid : Nat) (h4 : ngrid % 4 = 0) :
    BlockOK p cut ngrid (dlpolyBlock p ngrid (meshResolution cut ngrid)) := by
  obtain ⟨m, hm⟩ : ∃ m, ngrid = 4 * m := ⟨ngrid / 4, by omega⟩
  have hlen : ((List.range ngrid).map fun i => Slot.val p.fid (accum (meshResolution cut ngrid) (i + 1))).length = 4 * m := by
    simp [hm]
  obtain ⟨hf, _, hg⟩ := groupsOf4_spec m _ hlen
  refine ⟨rfl, rfl, ?_, ?_, ?_, ?_, ?_, ?_⟩
  · exact hg
  · exact hg
  · simp only [dlpolyBlock, hf]; simp
  · simp only [dlpolyBlock, hf]; simp
  · intro i hi
    simp only [dlpolyBlock, hf] at hi ⊢
    simp [C02_accum, meshResolution]
  · intro i hi
    simp only [dlpolyBlock, hf] at hi ⊢
    simp [C02_accum, meshResolution]

def C02_full : Prop :=
  ∀ (pots : List Pot) (cut : Rat) (ngrid : Nat), pots ≠ [] →
    -- a row count not divisible by four is rejected instead of producing a file
    (ngrid % 4 ≠ 0 → dlpolyTable pots cut ngrid = none) ∧
    (ngrid % 4 = 0 → ∃ t, dlpolyTable pots cut ngrid = some t ∧
        t.delpot = cut / ((ngrid : Rat) - 4) ∧ t.cutpot = cut ∧ t.ngrid = ngrid ∧
        t.blocks.length = pots.length ∧
        ∀ i (hi : i < pots.length) (hi' : i < t.blocks.length), BlockOK pots[i] cut ngrid t.blocks[i])

theorem C02_holds : C02_full := by
  intro pots cut ngrid hne
  have hemp : pots.isEmpty = false := by
    cases pots with
    | nil => exact absurd rfl hne
    | cons _ _ => rfl
  constructor
  · intro h
    simp [dlpolyTable, h, hemp]
  · intro h
    refine ⟨{ delpot := meshResolution cut ngrid, cutpot := cut, ngrid := ngrid,
              blocks := pots.map fun p => dlpolyBlock p ngrid (meshResolution cut ngrid) },
            by simp [dlpolyTable, h], rfl, rfl, rfl, by simp, ?_⟩
    intro i hi hi'
    simp only [List.getElem_map]
    exact C02_block _ cut ngrid h

/-- number of four-value records per block: `ngrid/4` energy records and `ngrid/4` force records -/
theorem C02_record_count (p : Pot) (cut : Rat) (ngrid : Nat) (h4 : ngrid % 4 = 0) :
    (dlpolyBlock p ngrid (meshResolution cut ngrid)).energies.length = ngrid / 4 ∧
    (dlpolyBlock p ngrid (meshResolution cut ngrid)).forces.length = ngrid / 4 := by
  have hlen : ((List.range ngrid).map fun i => Slot.val p.fid (accum (meshResolution cut ngrid) (i + 1))).length = 4 * (ngrid / 4) := by
    simp; omega
  obtain ⟨_, h2, _⟩ := groupsOf4_spec (ngrid / 4) _ hlen
  exact ⟨h2, h2⟩

/-! non-vacuity -/
example : (8 % 4 = 0) ∧ (dlpolyTable [⟨"A", "B", 1⟩] 1 8).isSome = true := by decide +kernel
example : dlpolyTable [⟨"A", "B", 1⟩] 1 7 = none := by decide +kernel
example : (dlpolyTable [⟨"A", "B", 1⟩] 1 8).map (fun t => (t.delpot, t.blocks.map fun b => b.energies.map fun g => g.length))
    = some (1/4, [[4, 4]]) := by decide +kernel

end Atsim.C02

/-! ## kernel ties: the arithmetic the code uses at these places, regenerated from the source on every run, is the model's -/
namespace Atsim.C02
open Atsim.Gen Atsim.E
set_option linter.unusedTactic false
set_option linter.unusedSimpArgs false
theorem C02_kernel_args (cut : Rat) (ngrid : Nat) : k_dlpoly_args.map (evalQ (envQ [cut, ngrid])) = [cut, (ngrid : Rat)] := by
  kernel_unfold [k_dlpoly_args]
  kernel_close
theorem C02_kernel_mesh (cut : Rat) (ngrid : Nat) : evalQ (envQ [cut, ngrid]) k_dlpoly_mesh = meshResolution cut ngrid := by
  kernel_unfold [k_dlpoly_mesh, meshResolution]
  kernel_close
/-- both loops advance the separation by `r += meshResolution`: the k-th abscissa is `accum mesh k` -/
theorem C02_kernel_step (mesh : Rat) (k : Nat) :
    evalQ (envQ [accum mesh k, mesh]) k_dlpoly_r_step = accum mesh (k + 1) ∧
    evalQ (envQ [accum mesh k, mesh]) k_dlpoly_r_step_force = accum mesh (k + 1) := by
  constructor
  · kernel_unfold [k_dlpoly_r_step, accum]
    kernel_close
  · kernel_unfold [k_dlpoly_r_step_force, accum]
    kernel_close
/-- the force column is `r * Potential.force(r)` = `-r dV/dr` -/
theorem C02_kernel_force (r f : Rat) : evalQ (envQ [r, f]) k_dlpoly_force = r * f := by
  kernel_unfold [k_dlpoly_force]
  kernel_close

/-! ## The grid in floating point: `r = 0.0; r += meshResolution` repeated

`C02_accum` is exact arithmetic.  In binary64 every `r += meshResolution` rounds.  Under the standard model of floating-point arithmetic - each addition
returns `(a + b)(1 + ε)` with `|ε| ≤ u` (for binary64 `u = 2⁻⁵³`, absent overflow and underflow) - the accumulated abscissa of the k-th row stays within
`k·δ·((1+u)^k − 1)` of `k·δ`, for EVERY step `δ ≥ 0` and EVERY row count; for `k·u ≤ 1` that is at most `2·k²·u·δ`, i.e. a relative error `≤ 2ku`
(`2.3e-10` for a million rows): far below the eight significant digits the header prints and the 1e-9 tolerance the real-function stream tests. -/

/-- `r_k` of the loop `r = 0.0; for i in range(k): r += delta` for ANY rounding function `fl` applied to each sum -/
noncomputable def accumFl (fl : ℝ → ℝ) (delta : ℝ) : Nat → ℝ
  | 0 => 0
  | k + 1 => fl (accumFl fl delta k + delta)

/-- **floating-point accumulation bound**: if every rounded result is within relative `u` of the exact one, the k-th abscissa is within `k·δ·((1+u)^k − 1)` of `k·δ` -/
theorem C02_accum_float (fl : ℝ → ℝ) (u : ℝ) (hu : 0 ≤ u) (hfl : ∀ x, |fl x - x| ≤ u * |x|) (delta : ℝ) (hd : 0 ≤ delta) (k : Nat) :
    |accumFl fl delta k - (k : ℝ) * delta| ≤ (k : ℝ) * delta * ((1 + u) ^ k - 1) := by
  induction k with
  | zero => simp [accumFl]
  | succ k ih =>
    have hP : (1 : ℝ) ≤ (1 + u) ^ k := one_le_pow₀ (by linarith)
    have hk0 : (0 : ℝ) ≤ (k : ℝ) := Nat.cast_nonneg k
    set r := accumFl fl delta k with hr
    set P := (1 + u) ^ k with hPdef
    have h1 := hfl (r + delta)
    have h2 : |r + delta| ≤ |r - (k : ℝ) * delta| + ((k : ℝ) + 1) * delta := by
      have : r + delta = (r - (k : ℝ) * delta) + ((k : ℝ) + 1) * delta := by ring
      rw [this]
      refine (abs_add_le _ _).trans ?_
      rw [abs_of_nonneg (a := ((k : ℝ) + 1) * delta) (by positivity)]
    have h3 : |fl (r + delta) - ((k : ℝ) + 1) * delta| ≤ |fl (r + delta) - (r + delta)| + |r - (k : ℝ) * delta| := by
      have : fl (r + delta) - ((k : ℝ) + 1) * delta = (fl (r + delta) - (r + delta)) + (r - (k : ℝ) * delta) := by ring
      rw [this]
      exact abs_add_le _ _
    have h4 : u * |r + delta| ≤ u * (|r - (k : ℝ) * delta| + ((k : ℝ) + 1) * delta) :=
      mul_le_mul_of_nonneg_left h2 hu
    have h5 : (1 + u) * |r - (k : ℝ) * delta| ≤ (1 + u) * ((k : ℝ) * delta * (P - 1)) :=
      mul_le_mul_of_nonneg_left ih (by linarith)
    have h6 : 0 ≤ delta * (1 + u) * (P - 1) := by
      have : 0 ≤ P - 1 := by linarith
      positivity
    show |fl (r + delta) - ((k + 1 : ℕ) : ℝ) * delta| ≤ ((k + 1 : ℕ) : ℝ) * delta * ((1 + u) ^ (k + 1) - 1)
    rw [pow_succ, ← hPdef]
    push_cast
    nlinarith [h1, h3, h4, h5, h6]

/-- for `k·u ≤ 1` the bound is at most `2·k·u` relative to `k·δ` -/
theorem C02_accum_float_rel (fl : ℝ → ℝ) (u : ℝ) (hu : 0 ≤ u) (hfl : ∀ x, |fl x - x| ≤ u * |x|) (delta : ℝ) (hd : 0 ≤ delta) (k : Nat) (hk : (k : ℝ) * u ≤ 1) :
    |accumFl fl delta k - (k : ℝ) * delta| ≤ 2 * ((k : ℝ) * u) * ((k : ℝ) * delta) := by
  have hpow : ∀ j : Nat, (j : ℝ) * u ≤ 1 → (1 + u) ^ j ≤ 1 + (j : ℝ) * u + ((j : ℝ) * u) ^ 2 := by
    intro j
    induction j with
    | zero => intro _; simp
    | succ j ih =>
      intro hj
      push_cast at hj ⊢
      have hj0 : (0 : ℝ) ≤ (j : ℝ) := Nat.cast_nonneg j
      have hju : (j : ℝ) * u ≤ 1 := by nlinarith
      have hju0 : 0 ≤ (j : ℝ) * u := by positivity
      have ih' := ih hju
      have h1 : (1 + u) ^ (j + 1) ≤ (1 + (j : ℝ) * u + ((j : ℝ) * u) ^ 2) * (1 + u) := by
        rw [pow_succ]
        exact mul_le_mul_of_nonneg_right ih' (by linarith)
      have h2 : 0 ≤ u ^ 2 * ((j : ℝ) * (1 - (j : ℝ) * u)) := by
        have : 0 ≤ 1 - (j : ℝ) * u := by linarith
        positivity
      nlinarith [h1, h2, sq_nonneg u]
  have h0 := C02_accum_float fl u hu hfl delta hd k
  have hk0 : (0 : ℝ) ≤ (k : ℝ) := Nat.cast_nonneg k
  have hku0 : 0 ≤ (k : ℝ) * u := by positivity
  have hp := hpow k hk
  have hsq : ((k : ℝ) * u) ^ 2 ≤ (k : ℝ) * u := by nlinarith
  have hb : (1 + u) ^ k - 1 ≤ 2 * ((k : ℝ) * u) := by linarith
  have hkd : 0 ≤ (k : ℝ) * delta := by positivity
  calc |accumFl fl delta k - (k : ℝ) * delta| ≤ (k : ℝ) * delta * ((1 + u) ^ k - 1) := h0
    _ ≤ (k : ℝ) * delta * (2 * ((k : ℝ) * u)) := mul_le_mul_of_nonneg_left hb hkd
    _ = 2 * ((k : ℝ) * u) * ((k : ℝ) * delta) := by ring

/-- binary64, a million rows: relative error of the accumulated abscissa below 2.3e-10 -/
theorem C02_accum_float_binary64 (fl : ℝ → ℝ) (hfl : ∀ x, |fl x - x| ≤ (2 : ℝ)⁻¹ ^ 53 * |x|) (delta : ℝ) (hd : 0 ≤ delta) (k : Nat) (hk : k ≤ 1000000) :
    |accumFl fl delta k - (k : ℝ) * delta| ≤ (23 / 100000000000 : ℝ) * ((k : ℝ) * delta) := by
  have hkR : (k : ℝ) ≤ 1000000 := by exact_mod_cast hk
  have hk0 : (0 : ℝ) ≤ (k : ℝ) := Nat.cast_nonneg k
  have hu : (0 : ℝ) ≤ (2 : ℝ)⁻¹ ^ 53 := by positivity
  have hku : (k : ℝ) * (2 : ℝ)⁻¹ ^ 53 ≤ 1000000 * (2 : ℝ)⁻¹ ^ 53 :=
    mul_le_mul_of_nonneg_right hkR hu
  have hc1 : (1000000 : ℝ) * (2 : ℝ)⁻¹ ^ 53 ≤ 1 := by norm_num
  have hc2 : 2 * ((1000000 : ℝ) * (2 : ℝ)⁻¹ ^ 53) ≤ 23 / 100000000000 := by norm_num
  have h := C02_accum_float_rel fl _ hu hfl delta hd k (hku.trans hc1)
  have hkd : 0 ≤ (k : ℝ) * delta := by positivity
  refine h.trans ?_
  exact mul_le_mul_of_nonneg_right (by linarith) hkd

/-! ## The code itself: the DL_POLY TABLE writer regenerated from the source

`Atsim.Gen.Logic.dlpoly_write_potentials / dlpoly_write_header / dlpoly_write_potential` are `_dlpoly_writeTABLE.writePotentials / _writeTableHeader /
_writePotential` as produced by `translator/py2lean_logic.py` on every run (one token per `write`, format text and arguments as in the source; the
`raise WritePotentialException` is `.error`).  `renderTable` is how the model's `DTable` reads in the same tokens.  `C02_code_writer`: for EVERY list of
potentials, cutoff, row count and prior stream content the code either raises exactly when the model rejects, or appends exactly the model's table:
the 80-blank line and header `(delpot, cutpot, ngrid)`, then per potential the label line, the energies in records of four, the `-r dU/dr` values in records of four,
each value passed through `_representable`, the abscissae accumulated by `r += meshResolution`. -/
namespace Writer
open Atsim.Gen.Logic

def toRec (p : Pot) : PotRec := ⟨p.a, p.b, p.fid⟩

def slotOV (what : String) : Slot → OV
  | .val fid x => .repr (.fn what fid x)
  | .zero => .repr (.num 0)

def dataTemplate : String := " % 14.7e % 14.7e % 14.7e % 14.7e\n"

def renderBlock (b : DBlock) : List Tok :=
  [⟨"%8s%8s\n", [.str b.a, .str b.b]⟩] ++ b.energies.map (fun g => ⟨dataTemplate, g.map (slotOV "energy")⟩) ++ b.forces.map (fun g => ⟨dataTemplate, g.map (slotOV "r*force")⟩)

def renderTable (t : DTable) : List Tok :=
  [⟨"                                                                                \n", []⟩,
   ⟨"%15.8e%15.8e%10d\n", [.num t.delpot, .num t.cutpot, .int t.ngrid]⟩] ++ t.blocks.flatMap renderBlock

end Writer

namespace Writer
open Atsim.Gen.Logic

/-- the slots the `r += meshResolution` loop visits when run over a list (the loop variable itself is unused) starting from `r` -/
def vals (fid : Fid) (mesh : Rat) : Rat → List Int → List Slot
  | _, [] => []
  | r, _ :: xs => Slot.val fid (r + mesh) :: vals fid mesh (r + mesh) xs

/-- one four-value record as the code writes it -/
def tokOf (what : String) (g : List Slot) : Tok := ⟨dataTemplate, g.map (slotOV what)⟩

@[simp] theorem toRec_fid (p : Pot) : (toRec p).fid = p.fid := rfl

theorem loop2_eq (p : Pot) (cut : Rat) (gp : Int) (mesh : Rat) (out : List Tok) :
    ∀ (xs : List Int) (ob : List Tok) (r : Rat),
      dlpoly_write_potential_loop2 cut gp [] mesh out ob (toRec p) r xs =
        .ok (out ++ (ob ++ (groupsOf4 (vals p.fid mesh r xs)).map (tokOf "r*force")))
  | [], ob, r => by simp [dlpoly_write_potential_loop2, vals, groupsOf4]
  | [_], ob, r => by simp [dlpoly_write_potential_loop2, vals, groupsOf4]
  | [_, _], ob, r => by simp [dlpoly_write_potential_loop2, vals, groupsOf4]
  | [_, _, _], ob, r => by simp [dlpoly_write_potential_loop2, vals, groupsOf4]
  | _ :: _ :: _ :: _ :: rest, ob, r => by
    simp [dlpoly_write_potential_loop2, vals, groupsOf4, loop2_eq p cut gp mesh out rest, tokOf, dataTemplate,
      slotOV, representable, rForceOf]

theorem loop1_eq (p : Pot) (cut : Rat) (gp : Int) (mesh : Rat) (out : List Tok) :
    ∀ (xs : List Int) (ob : List Tok) (r : Rat),
      dlpoly_write_potential_loop1 cut gp [] mesh out ob (toRec p) r xs =
        dlpoly_write_potential_loop2 cut gp [] mesh out (ob ++ (groupsOf4 (vals p.fid mesh r xs)).map (tokOf "energy"))
          (toRec p) 0 (intRange 0 gp)
  | [], ob, r => by simp [dlpoly_write_potential_loop1, vals, groupsOf4]
  | [_], ob, r => by simp [dlpoly_write_potential_loop1, vals, groupsOf4]
  | [_, _], ob, r => by simp [dlpoly_write_potential_loop1, vals, groupsOf4]
  | [_, _, _], ob, r => by simp [dlpoly_write_potential_loop1, vals, groupsOf4]
  | _ :: _ :: _ :: _ :: rest, ob, r => by
    simp [dlpoly_write_potential_loop1, vals, groupsOf4, loop1_eq p cut gp mesh out rest, tokOf, dataTemplate,
      slotOV, representable, energyOf]

theorem vals_eq (fid : Fid) (mesh : Rat) :
    ∀ (xs : List Int) (k : Nat),
      vals fid mesh (accum mesh k) xs = (List.range xs.length).map fun i => Slot.val fid (accum mesh (k + i + 1)) := by
  intro xs
  induction xs with
  | nil => intro k; simp [vals]
  | cons x xs ih =>
    intro k
    have h : accum mesh k + mesh = accum mesh (k + 1) := rfl
    simp only [vals, h, ih, List.length_cons, List.range_succ_eq_map, List.map_cons, List.map_map]
    refine congrArg₂ _ rfl (List.map_congr_left ?_)
    intro i _
    simp only [Function.comp]
    congr 2
    omega

theorem vals_intRange (fid : Fid) (mesh : Rat) (ngrid : Nat) :
    vals fid mesh 0 (intRange 0 (ngrid : Int)) = (List.range ngrid).map fun i => Slot.val fid (accum mesh (i + 1)) := by
  have h := vals_eq fid mesh (intRange 0 (ngrid : Int)) 0
  simpa [intRange, accum] using h

/-- `_writePotential` with a row count divisible by four appends the model's block -/
theorem potential_eq (p : Pot) (cut : Rat) (ngrid : Nat) (mesh : Rat) (out : List Tok) (h4 : ngrid % 4 = 0) :
    dlpoly_write_potential (toRec p) cut (ngrid : Int) mesh out = .ok (out ++ renderBlock (dlpolyBlock p ngrid mesh)) := by
  have hc : (!(((ngrid : Int) % (4 : Int)) == (0 : Int))) = false := by
    have : ((ngrid : Int) % 4) = 0 := by omega
    simp [this]
  simp only [dlpoly_write_potential, hc, Bool.false_eq_true, if_false]
  rw [loop1_eq, loop2_eq, vals_intRange]
  simp [renderBlock, dlpolyBlock, toRec]
  rfl

theorem potential_err (p : PotRec) (cut : Rat) (ngrid : Nat) (mesh : Rat) (out : List Tok) (h4 : ngrid % 4 ≠ 0) :
    dlpoly_write_potential p cut (ngrid : Int) mesh out = .error WErr.notMultipleOfFour := by
  have hc : (!(((ngrid : Int) % (4 : Int)) == (0 : Int))) = true := by
    have : ((ngrid : Int) % 4) ≠ 0 := by omega
    simp [this]
  simp only [dlpoly_write_potential, hc, if_true]

theorem potentials_loop_eq (cut : Rat) (ngrid : Nat) (mesh : Rat) (out : List Tok) (orig : List PotRec) (h4 : ngrid % 4 = 0) :
    ∀ (ps : List Pot) (ob : List Tok),
      dlpoly_write_potentials_loop1 cut (ngrid : Int) mesh out ob orig (ps.map toRec) =
        .ok (out ++ (ob ++ ps.flatMap fun p => renderBlock (dlpolyBlock p ngrid mesh))) := by
  intro ps
  induction ps with
  | nil => intro ob; simp [dlpoly_write_potentials_loop1]
  | cons p ps ih =>
    intro ob
    simp only [List.map_cons, dlpoly_write_potentials_loop1, potential_eq p cut ngrid mesh ob h4, andThen, ih,
      List.flatMap_cons, List.append_assoc]

end Writer

open Atsim.Gen.Logic in
/-- **code tie (whole table)** -/
theorem C02_code_writer (pots : List Pot) (cut : Rat) (ngrid : Nat) (out : List Tok) :
    dlpoly_write_potentials (pots.map Writer.toRec) cut (ngrid : Int) out =
      (match dlpolyTable pots cut ngrid with
       | none => .error WErr.notMultipleOfFour
       | some t => .ok (out ++ Writer.renderTable t)) := by
  have hmesh : cut / ((((ngrid : Nat) : Int) : Rat) - (4 : Rat)) = meshResolution cut ngrid := by
    simp [meshResolution]
  by_cases h4 : ngrid % 4 = 0
  · have hm : dlpolyTable pots cut ngrid = some ⟨meshResolution cut ngrid, cut, ngrid,
        pots.map fun p => dlpolyBlock p ngrid (meshResolution cut ngrid)⟩ := by
      simp [dlpolyTable, h4]
    rw [hm]
    simp only [dlpoly_write_potentials, hmesh]
    rw [Writer.potentials_loop_eq cut ngrid _ out _ h4]
    simp [Writer.renderTable, dlpoly_write_header, List.flatMap_map]
  · cases pots with
    | nil =>
      simp [dlpolyTable, dlpoly_write_potentials, dlpoly_write_potentials_loop1, dlpoly_write_header, Writer.renderTable,
        meshResolution]
    | cons p ps =>
      have hm : dlpolyTable (p :: ps) cut ngrid = none := by
        simp [dlpolyTable, h4]
      rw [hm]
      simp only [dlpoly_write_potentials, List.map_cons, dlpoly_write_potentials_loop1,
        Writer.potential_err _ cut ngrid _ _ h4, andThen]


open Atsim.Gen.Logic in
/-- **code tie (the tabulation object)**: `DLPoly_PairTabulation.write` hands `cutoff` and `nr` to the writer -/
theorem C02_code_tabulation_write (pots : List Pot) (cut : Rat) (ngrid : Nat) (out : List Tok) :
    dlpoly_tab_write ⟨(ngrid : Int), cut, pots.map Writer.toRec⟩ out =
      (match dlpolyTable pots cut ngrid with
       | none => .error WErr.notMultipleOfFour
       | some t => .ok (out ++ Writer.renderTable t)) := by
  simp only [dlpoly_tab_write]
  rw [C02_code_writer]
  cases dlpolyTable pots cut ngrid with
  | none => rfl
  | some t => rfl

end Atsim.C02
