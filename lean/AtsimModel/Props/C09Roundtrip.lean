import AtsimModel.Model.PotLang
/-!
# C09 (token level): parsing a rendered definition gives the definition back

For every well-formed definition tree (any nesting depth of modifiers, any number of ranges and arguments) and either
rendering choice for a leading default range, `parseDefinition (render m) = some m`.  Character-level matters (whitespace,
line continuation, `=` vs `:`) are outside the token model; they are checked by metamorphic correspondence on the real parser.
-/
namespace Atsim.C09
open Atsim

mutual
/-- well-formed: a multi-range has at least one piece; a modifier has at least one argument; recursively -/
def WFMulti : MultiRange → Prop
  | [] => False
  | [(_, p)] => WFPiece p
  | (_, p) :: rest => WFPiece p ∧ WFMulti rest
def WFPiece : Piece → Prop
  | .form _ _ => True
  | .modifier _ args => WFArgs args
def WFArgs : List MultiRange → Prop
  | [] => False
  | [m] => WFMulti m
  | m :: ms => WFMulti m ∧ WFArgs ms
end

/-! ## helper lemmas -/

/-- tokens that may follow a complete piece: anything but a number or an opening parenthesis
    (a `form` greedily takes numbers; an identifier followed by `(` is a modifier) -/
def okPiece : List Tok → Prop
  | .num _ :: _ => False
  | .lpar :: _ => False
  | _ => True

/-- tokens that may follow a complete multi-range: additionally not a range marker -/
def okMore : List Tok → Prop
  | .num _ :: _ => False
  | .lpar :: _ => False
  | .ge :: _ => False
  | .gt :: _ => False
  | _ => True

theorem okPiece_of_okMore {rest : List Tok} (h : okMore rest) : okPiece rest := by
  cases rest with
  | nil => trivial
  | cons t ts => cases t <;> simp_all [okMore, okPiece]

theorem WFMulti_cons (s : RStart) (p : Piece) (ms : MultiRange) :
    WFMulti ((s, p) :: ms) ↔ WFPiece p ∧ ∀ sp ∈ ms, WFPiece sp.2 := by
  induction ms generalizing s p with
  | nil => simp [WFMulti]
  | cons sp ms ih =>
    obtain ⟨s', p'⟩ := sp
    rw [WFMulti.eq_3 _ _ _ (by simp), ih]
    simp

theorem okPiece_renderRest (ms : MultiRange) {rest : List Tok} (h : okMore rest) :
    okPiece (renderRest ms ++ rest) := by
  cases ms with
  | nil => simpa [renderRest] using okPiece_of_okMore h
  | cons sp ms =>
    obtain ⟨⟨b, q⟩, p⟩ := sp
    cases b <;> simp [renderRest, renderStart, okPiece]

theorem takeWhile_nums (f : Tok → Bool) (hf : ∀ q, f (.num q) = true)
    (ps : List Rat) (rest : List Tok) (hr : ∀ t ts, rest = t :: ts → f t = false) :
    (ps.map Tok.num ++ rest).takeWhile f = ps.map Tok.num := by
  induction ps with
  | nil =>
    cases rest with
    | nil => simp
    | cons t ts => simp [hr t ts rfl]
  | cons q ps ih => simp [hf, ih]

theorem filterMap_nums (g : Tok → Option Rat) (hg : ∀ q, g (.num q) = some q) (ps : List Rat) :
    (ps.map Tok.num).filterMap g = ps := by
  induction ps with
  | nil => simp
  | cons q ps ih => simp [hg, ih]

theorem parsePiece_form (k : Nat) (l : String) (ps : List Rat) (rest : List Tok) (h : okPiece rest) :
    parsePiece (k + 1) (.ident l :: (ps.map Tok.num ++ rest)) = some (.form l ps, rest) := by
  have hne : ∀ r, ps.map Tok.num ++ rest ≠ .lpar :: r := by
    intro r hr
    cases ps with
    | nil => simp at hr; subst hr; simp [okPiece] at h
    | cons q ps => simp at hr
  rw [parsePiece.eq_3 _ _ _ (by intro r hr; exact hne r hr)]
  rw [takeWhile_nums _ (fun _ => rfl) ps rest (by
      intro t ts ht; subst ht
      cases t <;> simp_all [okPiece])]
  rw [filterMap_nums _ (fun _ => rfl)]
  simp

theorem parseMulti_ident (k : Nat) (l : String) (t : List Tok) (p : Piece) (r : List Tok)
    (h : parsePiece k (.ident l :: t) = some (p, r)) :
    parseMulti (k + 1) (.ident l :: t) = parseMore k r [(defaultStart, p)] := by
  simp [parseMulti, h]

theorem parseMulti_start (k : Nat) (s : RStart) (t : List Tok) (p : Piece) (r : List Tok)
    (h : parsePiece k t = some (p, r)) :
    parseMulti (k + 1) (renderStart s ++ t) = parseMore k r [(s, p)] := by
  obtain ⟨b, q⟩ := s
  cases b <;> simp [parseMulti, renderStart, h]

theorem parseMore_start (k : Nat) (s : RStart) (t : List Tok) (p : Piece) (r : List Tok) (acc : MultiRange)
    (h : parsePiece k t = some (p, r)) :
    parseMore (k + 1) (renderStart s ++ t) acc = parseMore k r (acc ++ [(s, p)]) := by
  obtain ⟨b, q⟩ := s
  cases b <;> simp [parseMore, renderStart, h]

theorem parseMore_done (k : Nat) (rest : List Tok) (acc : MultiRange) (h : okMore rest) :
    parseMore (k + 1) rest acc = some (acc, rest) := by
  cases rest with
  | nil => simp [parseMore]
  | cons t ts => cases t <;> simp_all [parseMore, okMore]

theorem renderPiece_head (p : Piece) : ∃ l t, renderPiece p = .ident l :: t := by
  cases p with
  | form l ps => exact ⟨l, ps.map .num, by simp [renderPiece]⟩
  | modifier l args => exact ⟨l, .lpar :: (renderArgs args ++ [.rpar]), by simp [renderPiece]⟩

theorem length_renderStart (s : RStart) : (renderStart s).length = 2 := by
  obtain ⟨b, q⟩ := s
  cases b <;> simp [renderStart]

/-- the generalised statements, by induction on the fuel -/
theorem main (n : Nat) :
    (∀ p rest, WFPiece p → okPiece rest → (renderPiece p).length ≤ n →
      parsePiece n (renderPiece p ++ rest) = some (p, rest)) ∧
    (∀ ms rest acc, (∀ sp ∈ ms, WFPiece sp.2) → okMore rest → (renderRest ms).length + 1 ≤ n →
      parseMore n (renderRest ms ++ rest) acc = some (acc ++ ms, rest)) ∧
    (∀ m e rest, WFMulti m → okMore rest → (renderMulti e m).length + 1 ≤ n →
      parseMulti n (renderMulti e m ++ rest) = some (m, rest)) ∧
    (∀ args rest acc, WFArgs args → (renderArgs args).length + 2 ≤ n →
      parseArgs n (renderArgs args ++ .rpar :: rest) acc = some (acc ++ args, rest)) := by
  induction n with
  | zero =>
    refine ⟨?_, ?_, ?_, ?_⟩
    · intro p rest _ _ hlen
      obtain ⟨l, t, ht⟩ := renderPiece_head p
      simp [ht] at hlen
    · intro ms rest acc _ _ hlen; omega
    · intro m e rest _ _ hlen; omega
    · intro args rest acc _ hlen; omega
  | succ k ih =>
    obtain ⟨ihP, ihR, ihM, ihA⟩ := ih
    refine ⟨?_, ?_, ?_, ?_⟩
    · -- piece
      intro p rest hwf hok hlen
      cases p with
      | form l ps =>
        simp only [renderPiece, List.cons_append]
        exact parsePiece_form k l ps rest hok
      | modifier l args =>
        have hwa : WFArgs args := by simpa [WFPiece] using hwf
        have hl : (renderArgs args).length + 2 ≤ k := by
          simp [renderPiece] at hlen; omega
        have := ihA args rest [] hwa hl
        simp [renderPiece, parsePiece, this]
    · -- more
      intro ms rest acc hwf hok hlen
      cases ms with
      | nil => simpa [renderRest] using parseMore_done k rest acc hok
      | cons sp ms =>
        obtain ⟨s, p⟩ := sp
        have hlen' : 2 + (renderPiece p).length + (renderRest ms).length + 1 ≤ k + 1 := by
          simp [renderRest, length_renderStart] at hlen; omega
        have hp := ihP p (renderRest ms ++ rest) (hwf (s, p) (by simp)) (okPiece_renderRest ms hok) (by omega)
        have hr := ihR ms rest (acc ++ [(s, p)]) (fun sp h => hwf sp (by simp [h])) hok (by omega)
        simp only [renderRest, List.append_assoc]
        rw [parseMore_start k s _ p _ acc hp, hr]
        simp
    · -- multi
      intro m e rest hwf hok hlen
      cases m with
      | nil => simp [WFMulti] at hwf
      | cons sp ms =>
        obtain ⟨s, p⟩ := sp
        rw [WFMulti_cons] at hwf
        obtain ⟨hwp, hwr⟩ := hwf
        have hlen' : (renderPiece p).length + (renderRest ms).length + 1 ≤ k + 1 := by
          simp [renderMulti] at hlen; omega
        have hp := ihP p (renderRest ms ++ rest) hwp (okPiece_renderRest ms hok) (by omega)
        have hr := ihR ms rest [(s, p)] hwr hok (by
          obtain ⟨l, t, ht⟩ := renderPiece_head p
          simp [ht] at hlen'; omega)
        by_cases hc : (e || s != defaultStart) = true
        · simp only [renderMulti, hc, if_true, List.append_assoc]
          rw [parseMulti_start k s _ p _ hp, hr]
          simp
        · have hc' : (e || s != defaultStart) = false := by simpa using hc
          have hs : s = defaultStart := by
            have h2 := hc'; simp at h2; exact h2.2
          simp only [renderMulti, hc', Bool.false_eq_true, ↓reduceIte, List.append_assoc, List.nil_append]
          obtain ⟨l, t, ht⟩ := renderPiece_head p
          rw [ht, List.cons_append] at hp ⊢
          rw [parseMulti_ident k l _ p _ hp, ← hs, hr]
          simp
    · -- args
      intro args rest acc hwf hlen
      match args, hwf, hlen with
      | [], hwf, _ => simp [WFArgs] at hwf
      | [m], hwf, hlen =>
        have hwm : WFMulti m := by simpa [WFArgs] using hwf
        have hm := ihM m false (.rpar :: rest) hwm (by simp [okMore]) (by
          simp [renderArgs] at hlen; omega)
        simp [renderArgs, parseArgs, hm]
      | m :: m' :: ms, hwf, hlen =>
        rw [WFArgs.eq_3 _ _ (by simp)] at hwf
        obtain ⟨hwm, hwa⟩ := hwf
        rw [renderArgs.eq_3 _ _ (by simp)] at hlen ⊢
        have hm := ihM m false (.comma :: (renderArgs (m' :: ms) ++ .rpar :: rest)) hwm (by simp [okMore]) (by
          simp at hlen; omega)
        have ha := ihA (m' :: ms) rest (acc ++ [m]) hwa (by simp at hlen; omega)
        simp only [List.append_assoc, List.cons_append, List.nil_append]
        simp [parseArgs, hm, ha]

theorem C09_roundtrip (m : MultiRange) (h : WFMulti m) (explicitFirst : Bool) :
    parseDefinition (renderMulti explicitFirst m) = some m := by
  have := (main (2 * (renderMulti explicitFirst m).length + 2)).2.2.1 m explicitFirst [] h trivial (by omega)
  rw [List.append_nil] at this
  simp [parseDefinition, this]

/-- non-vacuity: a nested, multi-range example -/
example : parseDefinition (renderMulti false
    [((false, 0), .modifier "sum" [[((false, 0), .form "as.buck" [1000, 1/5, 32])], [((true, 3/2), .form "as.zero" []), ((false, 4), .form "as.constant" [5])]]),
     ((true, 6), .form "as.zero" [])])
  = some [((false, 0), .modifier "sum" [[((false, 0), .form "as.buck" [1000, 1/5, 32])], [((true, 3/2), .form "as.zero" []), ((false, 4), .form "as.constant" [5])]]),
     ((true, 6), .form "as.zero" [])] := by
  rfl

end Atsim.C09
