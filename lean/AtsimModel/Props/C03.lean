import AtsimModel.Model.Eam
import Mathlib.Tactic.Ring
import Mathlib.Tactic.FieldSimp
import Mathlib.Tactic.Linarith
import Mathlib.Tactic.NormNum
import Mathlib.Data.Rat.Defs
import Mathlib.Algebra.Order.Field.Rat
import Mathlib.Data.String.Basic
import AtsimModel.Lemmas.KernelQ
import AtsimModel.Lemmas.TokSem
/-!
# C03 — setfl (eam/alloy): element blocks, grids, r*phi blocks, metadata

Theorems about `Atsim.setfl` (`_writeSetFL`), `setflTab` (the tabulation class), `pairBlocks`
(`_writeSetFLPairPots`) and `refResolve`/`resolveMeta` (reference data precedence).  They hold for
element lists of ANY length, not only 1..4.  Tie to the code: `harness/props/C03.py`.
-/
namespace Atsim.C03
open Atsim

/-! ### sampled functions -/

theorem sampled_length (f : Fid) (n : Nat) (step : Rat) : (sampled f n step).length = n := by
  simp [sampled]

/-- the `i`-th value of a sampled block is the function at `i * step`, `i = 0 .. n-1` -/
theorem sampled_get (f : Fid) (n : Nat) (step : Rat) (i : Nat) (h : i < (sampled f n step).length) :
    (sampled f n step)[i] = mkSlot f ((i : Rat) * step) := by
  simp [sampled]

/-! ### header and element blocks -/

/-- the header names each element once, in list order, and the count is right -/
theorem C03_header_names (fs : Bool) (nrho : Nat) (drho : Rat) (nr : Nat) (dr : Rat) (els : List El) (pairs : List PairDecl) :
    (setfl fs nrho drho nr dr els pairs).names = els.map (·.sp) ∧
    (setfl fs nrho drho nr dr els pairs).ntypes = els.length ∧
    ((els.map (·.sp)).Nodup → (setfl fs nrho drho nr dr els pairs).names.Nodup) := by
  simp [setfl]

/-- the header's grid numbers are the arguments -/
theorem C03_header_grid (fs : Bool) (nrho : Nat) (drho : Rat) (nr : Nat) (dr : Rat) (els : List El) (pairs : List PairDecl) :
    let f := setfl fs nrho drho nr dr els pairs
    f.nrho = nrho ∧ f.drho = drho ∧ f.nr = nr ∧ f.dr = dr := by
  simp [setfl]

/-- … and through the tabulation classes they are the tabulation grid: `drho * (nrho-1) = cutoff_rho`, `dr * (nr-1) = cutoff` -/
theorem C03_grid_tab (els : List El) (pairs : List PairDecl) (cut cutrho : Rat) (nr nrho : Nat) (hnr : 2 ≤ nr) (hnrho : 2 ≤ nrho) :
    let f := setflTab false els pairs cut nr cutrho nrho
    f.nrho = nrho ∧ f.nr = nr ∧ f.drho * ((nrho : Rat) - 1) = cutrho ∧ f.dr * ((nr : Rat) - 1) = cut := by
  have h1 : (2 : Rat) ≤ (nr : Rat) := by exact_mod_cast hnr
  have h2 : (2 : Rat) ≤ (nrho : Rat) := by exact_mod_cast hnrho
  have a1 : (nr : Rat) - 1 ≠ 0 := by linarith
  have a2 : (nrho : Rat) - 1 ≠ 0 := by linarith
  simp only [setflTab, setfl, tabStep]
  refine ⟨trivial, trivial, ?_, ?_⟩ <;> field_simp

/-- one element block per element, in header order, carrying that element's own metadata, exactly `Nrho`
    embedding values `F(i*drho)` and (conventional EAM) exactly `Nr` density values `rho(i*dr)` of its own functions -/
theorem C03_element_blocks (nrho : Nat) (drho : Rat) (nr : Nat) (dr : Rat) (els : List El) (pairs : List PairDecl) :
    (setfl false nrho drho nr dr els pairs).elements.length = els.length ∧
    ∀ i (h : i < els.length) (h' : i < (setfl false nrho drho nr dr els pairs).elements.length),
      let b := (setfl false nrho drho nr dr els pairs).elements[i]
      b.z = els[i].z ∧ b.mass = els[i].mass ∧ b.a0 = els[i].a0 ∧ b.lat = els[i].lat ∧
      b.embed = sampled els[i].embed nrho drho ∧ b.embed.length = nrho ∧
      b.dens = [sampled els[i].dens nr dr] := by
  refine ⟨by simp [setfl], ?_⟩
  intro i h h'
  simp [setfl, elBlock, sampled_length]

/-! ### pair blocks -/

theorem lowerTri_length (n : Nat) : (lowerTri n).length * 2 = n * (n + 1) := by
  unfold lowerTri
  induction n with
  | zero => simp
  | succ n ih =>
    rw [List.range_succ, List.flatMap_append, List.length_append]
    simp only [List.flatMap_cons, List.flatMap_nil, List.append_nil, List.length_map, List.length_range]
    have := ih
    nlinarith [ih]

/-- the lower-triangular enumeration lists exactly the index pairs `(i, j)` with `j ≤ i < n` -/
theorem lowerTri_mem (n i j : Nat) : (i, j) ∈ lowerTri n ↔ i < n ∧ j ≤ i := by
  unfold lowerTri
  simp only [List.mem_flatMap, List.mem_range, List.mem_map, Prod.mk.injEq]
  constructor
  · rintro ⟨a, ha, b, hb, rfl, rfl⟩
    exact ⟨ha, by omega⟩
  · rintro ⟨h1, h2⟩
    exact ⟨i, h1, j, by omega, rfl, rfl⟩

/-- … and in the order "for i ascending, for j = 0..i": the block of pair `(i, j)` is at position `i(i+1)/2 + j` -/
theorem lowerTri_succ (n : Nat) : lowerTri (n + 1) = lowerTri n ++ (List.range (n + 1)).map fun j => (n, j) := by
  unfold lowerTri
  rw [List.range_succ (n := n), List.flatMap_append]
  simp [List.range_succ]

/-- number of pair blocks is `n(n+1)/2` -/
theorem C03_pair_count (scale : Bool) (els : List El) (pairs : List PairDecl) (nr : Nat) (dr : Rat) :
    (pairBlocks scale els pairs nr dr).length * 2 = els.length * (els.length + 1) := by
  simp [pairBlocks, lowerTri_length]

theorem pairKey_comm (a b : Sp) : pairKey a b = pairKey b a := by
  unfold pairKey
  by_cases h1 : a ≤ b <;> by_cases h2 : b ≤ a
  · have : a = b := le_antisymm h1 h2
    subst this; rfl
  · simp [h1, h2]
  · simp [h1, h2]
  · exact absurd (le_total a b) (by simp [h1, h2])

/-- the looked-up function is the one declared for that unordered pair – whichever way round it was declared –
    provided exactly that one declaration exists for the pair (C20 owns duplicates) -/
theorem C03_pair_lookup_found (pre post : List PairDecl) (p : PairDecl) (x y : Sp)
    (hp : pairKey p.a p.b = pairKey x y)
    (hpost : ∀ q ∈ post, pairKey q.a q.b ≠ pairKey x y) :
    pairLookup (pre ++ p :: post) (pairKey x y) = p.fid ∧ pairLookup (pre ++ p :: post) (pairKey y x) = p.fid := by
  have key : pairLookup (pre ++ p :: post) (pairKey x y) = p.fid := by
    unfold pairLookup
    rw [List.reverse_append, List.reverse_cons, List.append_assoc, List.find?_append]
    have hnone : post.reverse.find? (fun q => pairKey q.a q.b == pairKey x y) = none := by
      rw [List.find?_eq_none]
      intro q hq
      have := hpost q (List.mem_reverse.mp hq)
      simpa using this
    rw [hnone]
    simp [hp]
  exact ⟨key, by rw [pairKey_comm y x]; exact key⟩

/-- identically zero when no pair potential was declared for the pair -/
theorem C03_pair_lookup_missing (pairs : List PairDecl) (x y : Sp)
    (h : ∀ q ∈ pairs, pairKey q.a q.b ≠ pairKey x y) : pairLookup pairs (pairKey x y) = 0 := by
  unfold pairLookup
  have hnone : pairs.reverse.find? (fun q => pairKey q.a q.b == pairKey x y) = none := by
    rw [List.find?_eq_none]
    intro q hq
    have := h q (List.mem_reverse.mp hq)
    simpa using this
  rw [hnone]

/-- `Nr` values of `r * phi(r)` at `r = k*dr`, `k = 0..Nr-1` (the `k = 0` value is the literal zero), all zero for the zero function -/
theorem C03_pair_slots (f : Fid) (nr : Nat) (dr : Rat) :
    (pairSlots true f nr dr).length = nr ∧
    ∀ k (h : k < (pairSlots true f nr dr).length),
      (pairSlots true f nr dr)[k] = if k = 0 then Slot.zero else mkSlot f ((k : Rat) * dr) := by
  refine ⟨by simp [pairSlots], ?_⟩
  intro k h
  simp [pairSlots]

theorem C03_zero_pair (scale : Bool) (nr : Nat) (dr : Rat) : ∀ s ∈ pairSlots scale 0 nr dr, s = Slot.zero := by
  intro s hs
  simp only [pairSlots, List.mem_map, List.mem_range] at hs
  obtain ⟨k, _, rfl⟩ := hs
  simp [mkSlot]

/-- block `(i, j)` of the pair section holds `r*phi` of the potential looked up for `{els[i], els[j]}` -/
theorem C03_pair_block (els : List El) (pairs : List PairDecl) (nr : Nat) (dr : Rat) (idx : Nat)
    (h : idx < (pairBlocks true els pairs nr dr).length) (h' : idx < (lowerTri els.length).length) :
    ∃ (hi : (lowerTri els.length)[idx].1 < els.length) (hj : (lowerTri els.length)[idx].2 < els.length),
      (pairBlocks true els pairs nr dr)[idx] =
        pairSlots true (pairLookup pairs (pairKey els[(lowerTri els.length)[idx].1].sp els[(lowerTri els.length)[idx].2].sp)) nr dr := by
  have hm : (lowerTri els.length)[idx] ∈ lowerTri els.length := List.getElem_mem h'
  generalize hp : (lowerTri els.length)[idx] = p at hm
  obtain ⟨i, j⟩ := p
  obtain ⟨hi, hj⟩ := (lowerTri_mem els.length i j).mp hm
  have hj' : j < els.length := by omega
  refine ⟨hi, hj', ?_⟩
  simp only [pairBlocks, List.getElem_map, hp]
  rw [List.getElem?_eq_getElem hi, List.getElem?_eq_getElem hj']

/-! ### metadata precedence: `[Species]` override, else built-in table, else documented default -/

theorem C03_metadata_precedence {α : Type} (e b d : Option α) :
    refResolve e b d = (match e, b with
      | some v, _ => some v
      | none, some v => some v
      | none, none => d) := by
  cases e <;> cases b <;> rfl

/-- lattice constant and lattice type fall back on the documented defaults `0.0` / `fcc`; atomic number and mass have none -/
theorem C03_metadata_defaults (extra builtin : Sp → SpMeta) (s : Sp)
    (hz : (extra s).z = none) (hz' : (builtin s).z = none) : resolveMeta extra builtin s = none := by
  simp [resolveMeta, refResolve, hz, hz']

theorem C03_metadata_ok (extra builtin : Sp → SpMeta) (s : Sp) (z : Int) (m : Rat)
    (hz : refResolve (extra s).z (builtin s).z none = some z) (hm : refResolve (extra s).mass (builtin s).mass none = some m)
    (ha : (extra s).a0 = none) (ha' : (builtin s).a0 = none) (hl : (extra s).lat = none) (hl' : (builtin s).lat = none) :
    resolveMeta extra builtin s = some (z, m, 0, "fcc") := by
  unfold resolveMeta
  rw [hz, hm, ha, ha', hl, hl']
  rfl

/-! ### non-vacuity: a three-element model with reversed and missing declarations -/

def exEls : List El :=
  [⟨"Zr", 40, 91, 3, "hcp", 1, 2, []⟩, ⟨"Al", 13, 27, 4, "fcc", 3, 4, []⟩, ⟨"Cu", 29, 63, 0, "fcc", 5, 6, []⟩]

example : (setfl false 3 1 2 (1/2) exEls [⟨"Al", "Zr", 7⟩, ⟨"Cu", "Cu", 8⟩]).pairs
    = [[.zero, .zero], [.zero, .val 7 (1/2)], [.zero, .zero], [.zero, .zero], [.zero, .zero], [.zero, .val 8 (1/2)]] := by
  decide +kernel

example : (lowerTri 3) = [(0,0), (1,0), (1,1), (2,0), (2,1), (2,2)] := by decide

end Atsim.C03

/-! ## kernel ties: the arithmetic the code uses at these places, regenerated from the source on every run, is the model's -/
namespace Atsim.C03
open Atsim.Gen Atsim.E
set_option linter.unusedTactic false
set_option linter.unusedSimpArgs false
theorem C03_kernel_steps (cut cutrho : Rat) (nr nrho : Nat) :
    evalQ (envQ [cut, nr]) k_pair_dr = tabStep cut nr ∧ evalQ (envQ [cutrho, nrho]) k_eam_drho = tabStep cutrho nrho := by
  constructor
  · kernel_unfold [k_pair_dr, tabStep]
    kernel_close
  · kernel_unfold [k_eam_drho, tabStep]
    kernel_close
/-- `SetFL_EAMTabulation.write` hands (nrho, drho, nr, dr) to `writeSetFL` in that order, unchanged -/
theorem C03_kernel_args (nrho : Nat) (drho : Rat) (nr : Nat) (dr : Rat) :
    k_setfl_args.map (evalQ (envQ [nrho, drho, nr, dr])) = [(nrho : Rat), drho, (nr : Rat), dr] := by
  kernel_unfold [k_setfl_args]
  kernel_close
/-- sample points of the embedding, density and pair loops, and the `r * phi` scaling -/
theorem C03_kernel_samples (i : Nat) (step v r : Rat) :
    evalQ (envQ [i, step]) k_setfl_rho = (i : Rat) * step ∧ evalQ (envQ [i, step]) k_setfl_dens_r = (i : Rat) * step ∧
    evalQ (envQ [i, step]) k_setfl_pair_r = (i : Rat) * step ∧ evalQ (envQ [v, r]) k_setfl_pair_scale = v * r := by
  refine ⟨?_, ?_, ?_, ?_⟩
  · kernel_unfold [k_setfl_rho]
    kernel_close
  · kernel_unfold [k_setfl_dens_r]
    kernel_close
  · kernel_unfold [k_setfl_pair_r]
    kernel_close
  · kernel_unfold [k_setfl_pair_scale]
    kernel_close

end Atsim.C03
