import AtsimModel.Model.Eam
import Mathlib.Tactic.Ring
import Mathlib.Tactic.FieldSimp
import Mathlib.Tactic.Linarith
import Mathlib.Tactic.NormNum
import Mathlib.Data.Rat.Defs
import Mathlib.Algebra.Order.Field.Rat
import Mathlib.Data.String.Basic
import AtsimModel.Lemmas.KernelQ
import AtsimModel.Lemmas.TokSem
/-!
# C03 — setfl (eam/alloy): element blocks, grids, r*phi blocks, metadata

Theorems about `Atsim.setfl` (`_writeSetFL`), `setflTab` (the tabulation class), `pairBlocks`
(`_writeSetFLPairPots`) and `refResolve`/`resolveMeta` (reference data precedence).  They hold for
element lists of ANY length, not only 1..4.  Tie to the code: `harness/props/C03.py`.
-/
namespace Atsim.C03
open Atsim

/-! ### sampled functions -/

theorem sampled_length (f : Fid) (n : Nat) (step : Rat) : (sampled f n step).length = n := by
  simp [sampled]

/-- the `i`-th value of a sampled block is the function at `i * step`, `i = 0 .. n-1` -/
theorem sampled_get (f : Fid) (n : Nat) (step : Rat) (i : Nat) (h : i < (sampled f n step).length) :
    (sampled f n step)[i] = mkSlot f ((i : Rat) * step) := by
  simp [sampled]

/-! ### header and element blocks -/

/-- the header names each element once, in list order, and the count is right -/
theorem C03_header_names (fs : Bool) (nrho : Nat) (drho : Rat) (nr : Nat) (dr : Rat) (els : List El) (pairs : List PairDecl) :
    (setfl fs nrho drho nr dr els pairs).names = els.map (·.sp) ∧
    (setfl fs nrho drho nr dr els pairs).ntypes = els.length ∧
    ((els.map (·.sp)).Nodup → (setfl fs nrho drho nr dr els pairs).names.Nodup) := by
  simp [setfl]

/-- the header's grid numbers are the arguments -/
theorem C03_header_grid (fs : Bool) (nrho : Nat) (drho : Rat) (nr : Nat) (dr : Rat) (els : List El) (pairs : List PairDecl) :
    let f := setfl fs nrho drho nr dr els pairs
    f.nrho = nrho ∧ f.drho = drho ∧ f.nr = nr ∧ f.dr = dr := by
  simp [setfl]

/-- … and through the tabulation classes they are the tabulation grid: `drho * (nrho-1) = cutoff_rho`, `dr * (nr-1) = cutoff` -/
theorem C03_grid_tab (els : List El) (pairs : List PairDecl) (cut cutrho : Rat) (nr nrho : Nat) (hnr : 2 ≤ nr) (hnrho : 2 ≤ nrho) :
    let f := setflTab false els pairs cut nr cutrho nrho
    f.nrho = nrho ∧ f.nr = nr ∧ f.drho * ((nrho : Rat) - 1) = cutrho ∧ f.dr * ((nr : Rat) - 1) = cut := by
  have h1 : (2 : Rat) ≤ (nr : Rat) := by exact_mod_cast hnr
  have h2 : (2 : Rat) ≤ (nrho : Rat) := by exact_mod_cast hnrho
  have a1 : (nr : Rat) - 1 ≠ 0 := by linarith
  have a2 : (nrho : Rat) - 1 ≠ 0 := by linarith
  simp only [setflTab, setfl, tabStep]
  refine ⟨trivial, trivial, ?_, ?_⟩ <;> field_simp

/-- one element block per element, in header order, carrying that element's own metadata, exactly `Nrho`
    embedding values `F(i*drho)` and (conventional EAM) exactly `Nr` density values `rho(i*dr)` of its own functions -/
theorem C03_element_blocks (nrho : Nat) (drho : Rat) (nr : Nat) (dr : Rat) (els : List El) (pairs : List PairDecl) :
    (setfl false nrho drho nr dr els pairs).elements.length = els.length ∧
    ∀ i (h : i < els.length) (h' : i < (setfl false nrho drho nr dr els pairs).elements.length),
      let b := (setfl false nrho drho nr dr els pairs).elements[i]
      b.z = els[i].z ∧ b.mass = els[i].mass ∧ b.a0 = els[i].a0 ∧ b.lat = els[i].lat ∧
      b.embed = sampled els[i].embed nrho drho ∧ b.embed.length = nrho ∧
      b.dens = [sampled els[i].dens nr dr] := by
  refine ⟨by simp [setfl], ?_⟩
  intro i h h'
  simp [setfl, elBlock, sampled_length]

/-! ### pair blocks -/

theorem lowerTri_length (n : Nat) : (lowerTri n).length * 2 = n * (n + 1) := by
  unfold lowerTri
  induction n with
  | zero => simp
  | succ n ih =>
    rw [List.range_succ, List.flatMap_append, List.length_append]
    simp only [List.flatMap_cons, List.flatMap_nil, List.append_nil, List.length_map, List.length_range]
    have := ih
    nlinarith [ih]

/-- the lower-triangular enumeration lists exactly the index pairs `(i, j)` with `j ≤ i < n` -/
theorem lowerTri_mem (n i j : Nat) : (i, j) ∈ lowerTri n ↔ i < n ∧ j ≤ i := by
  unfold lowerTri
  simp only [List.mem_flatMap, List.mem_range, List.mem_map, Prod.mk.injEq]
  constructor
  · rintro ⟨a, ha, b, hb, rfl, rfl⟩
    exact ⟨ha, by omega⟩
  · rintro ⟨h1, h2⟩
    exact ⟨i, h1, j, by omega, rfl, rfl⟩

/-- … and in the order "for i ascending, for j = 0..i": the block of pair `(i, j)` is at position `i(i+1)/2 + j` -/
theorem lowerTri_succ (n : Nat) : lowerTri (n + 1) = lowerTri n ++ (List.range (n + 1)).map fun j => (n, j) := by
  unfold lowerTri
  rw [List.range_succ (n := n), List.flatMap_append]
  simp [List.range_succ]

/-- number of pair blocks is `n(n+1)/2` -/
theorem C03_pair_count (scale : Bool) (els : List El) (pairs : List PairDecl) (nr : Nat) (dr : Rat) :
    (pairBlocks scale els pairs nr dr).length * 2 = els.length * (els.length + 1) := by
  simp [pairBlocks, lowerTri_length]

theorem pairKey_comm (a b : Sp) : pairKey a b = pairKey b a := by
  unfold pairKey
  by_cases h1 : a ≤ b <;> by_cases h2 : b ≤ a
  · have : a = b := le_antisymm h1 h2
    subst this; rfl
  · simp [h1, h2]
  · simp [h1, h2]
  · exact absurd (le_total a b) (by simp [h1, h2])

/-- the looked-up function is the one declared for that unordered pair – whichever way round it was declared –
    provided exactly that one declaration exists for the pair (C20 owns duplicates) -/
theorem C03_pair_lookup_found (pre post : List PairDecl) (p : PairDecl) (x y : Sp)
    (hp : pairKey p.a p.b = pairKey x y)
    (hpost : ∀ q ∈ post, pairKey q.a q.b ≠ pairKey x y) :
    pairLookup (pre ++ p :: post) (pairKey x y) = p.fid ∧ pairLookup (pre ++ p :: post) (pairKey y x) = p.fid := by
  have key : pairLookup (pre ++ p :: post) (pairKey x y) = p.fid := by
    unfold pairLookup
    rw [List.reverse_append, List.reverse_cons, List.append_assoc, List.find?_append]
    have hnone : post.reverse.find? (fun q => pairKey q.a q.b == pairKey x y) = none := by
      rw [List.find?_eq_none]
      intro q hq
      have := hpost q (List.mem_reverse.mp hq)
      simpa using this
    rw [hnone]
    simp [hp]
  exact ⟨key, by rw [pairKey_comm y x]; exact key⟩

/-- identically zero when no pair potential was declared for the pair -/
theorem C03_pair_lookup_missing (pairs : List PairDecl) (x y : Sp)
    (h : ∀ q ∈ pairs, pairKey q.a q.b ≠ pairKey x y) : pairLookup pairs (pairKey x y) = 0 := by
  unfold pairLookup
  have hnone : pairs.reverse.find? (fun q => pairKey q.a q.b == pairKey x y) = none := by
    rw [List.find?_eq_none]
    intro q hq
    have := h q (List.mem_reverse.mp hq)
    simpa using this
  rw [hnone]

/-- `Nr` values of `r * phi(r)` at `r = k*dr`, `k = 0..Nr-1` (the `k = 0` value is the literal zero), all zero for the zero function -/
theorem C03_pair_slots (f : Fid) (nr : Nat) (dr : Rat) :
    (pairSlots true f nr dr).length = nr ∧
    ∀ k (h : k < (pairSlots true f nr dr).length),
      (pairSlots true f nr dr)[k] = if k = 0 then Slot.zero else mkSlot f ((k : Rat) * dr) := by
  refine ⟨by simp [pairSlots], ?_⟩
  intro k h
  simp [pairSlots]

theorem C03_zero_pair (scale : Bool) (nr : Nat) (dr : Rat) : ∀ s ∈ pairSlots scale 0 nr dr, s = Slot.zero := by
  intro s hs
  simp only [pairSlots, List.mem_map, List.mem_range] at hs
  obtain ⟨k, _, rfl⟩ := hs
  simp [mkSlot]

/-- block `(i, j)` of the pair section holds `r*phi` of the potential looked up for `{els[i], els[j]}` -/
theorem C03_pair_block (els : List El) (pairs : List PairDecl) (nr : Nat) (dr : Rat) (idx : Nat)
    (h : idx < (pairBlocks true els pairs nr dr).length) (h' : idx < (lowerTri els.length).length) :
    ∃ (hi : (lowerTri els.length)[idx].1 < els.length) (hj : (lowerTri els.length)[idx].2 < els.length),
      (pairBlocks true els pairs nr dr)[idx] =
        pairSlots true (pairLookup pairs (pairKey els[(lowerTri els.length)[idx].1].sp els[(lowerTri els.length)[idx].2].sp)) nr dr := by
  have hm : (lowerTri els.length)[idx] ∈ lowerTri els.length := List.getElem_mem h'
  generalize hp : (lowerTri els.length)[idx] = p at hm
  obtain ⟨i, j⟩ := p
  obtain ⟨hi, hj⟩ := (lowerTri_mem els.length i j).mp hm
  have hj' : j < els.length := by omega
  refine ⟨hi, hj', ?_⟩
  simp only [pairBlocks, List.getElem_map, hp]
  rw [List.getElem?_eq_getElem hi, List.getElem?_eq_getElem hj']

/-! ### metadata precedence: `[Species]` override, else built-in table, else documented default -/

theorem C03_metadata_precedence {α : Type} (e b d : Option α) :
    refResolve e b d = (match e, b with
      | some v, _ => some v
      | none, some v => some v
      | none, none => d) := by
  cases e <;> cases b <;> rfl

/-- lattice constant and lattice type fall back on the documented defaults `0.0` / `fcc`; atomic number and mass have none -/
theorem C03_metadata_defaults (extra builtin : Sp → SpMeta) (s : Sp)
    (hz : (extra s).z = none) (hz' : (builtin s).z = none) : resolveMeta extra builtin s = none := by
  simp [resolveMeta, refResolve, hz, hz']

theorem C03_metadata_ok (extra builtin : Sp → SpMeta) (s : Sp) (z : Int) (m : Rat)
    (hz : refResolve (extra s).z (builtin s).z none = some z) (hm : refResolve (extra s).mass (builtin s).mass none = some m)
    (ha : (extra s).a0 = none) (ha' : (builtin s).a0 = none) (hl : (extra s).lat = none) (hl' : (builtin s).lat = none) :
    resolveMeta extra builtin s = some (z, m, 0, "fcc") := by
  unfold resolveMeta
  rw [hz, hm, ha, ha', hl, hl']
  rfl

/-! ### non-vacuity: a three-element model with reversed and missing declarations -/

def exEls : List El :=
  [⟨"Zr", 40, 91, 3, "hcp", 1, 2, []⟩, ⟨"Al", 13, 27, 4, "fcc", 3, 4, []⟩, ⟨"Cu", 29, 63, 0, "fcc", 5, 6, []⟩]

example : (setfl false 3 1 2 (1/2) exEls [⟨"Al", "Zr", 7⟩, ⟨"Cu", "Cu", 8⟩]).pairs
    = [[.zero, .zero], [.zero, .val 7 (1/2)], [.zero, .zero], [.zero, .zero], [.zero, .zero], [.zero, .val 8 (1/2)]] := by
  decide +kernel

example : (lowerTri 3) = [(0,0), (1,0), (1,1), (2,0), (2,1), (2,2)] := by decide

end Atsim.C03

/-! ## kernel ties: the arithmetic the code uses at these places, regenerated from the source on every run, is the model's -/
namespace Atsim.C03
open Atsim.Gen Atsim.E
set_option linter.unusedTactic false
set_option linter.unusedSimpArgs false
theorem C03_kernel_steps (cut cutrho : Rat) (nr nrho : Nat) :
    evalQ (envQ [cut, nr]) k_pair_dr = tabStep cut nr ∧ evalQ (envQ [cutrho, nrho]) k_eam_drho = tabStep cutrho nrho := by
  constructor
  · kernel_unfold [k_pair_dr, tabStep]
    kernel_close
  · kernel_unfold [k_eam_drho, tabStep]
    kernel_close
/-- `SetFL_EAMTabulation.write` hands (nrho, drho, nr, dr) to `writeSetFL` in that order, unchanged -/
theorem C03_kernel_args (nrho : Nat) (drho : Rat) (nr : Nat) (dr : Rat) :
    k_setfl_args.map (evalQ (envQ [nrho, drho, nr, dr])) = [(nrho : Rat), drho, (nr : Rat), dr] := by
  kernel_unfold [k_setfl_args]
  kernel_close
/-- sample points of the embedding, density and pair loops, and the `r * phi` scaling -/
theorem C03_kernel_samples (i : Nat) (step v r : Rat) :
    evalQ (envQ [i, step]) k_setfl_rho = (i : Rat) * step ∧ evalQ (envQ [i, step]) k_setfl_dens_r = (i : Rat) * step ∧
    evalQ (envQ [i, step]) k_setfl_pair_r = (i : Rat) * step ∧ evalQ (envQ [v, r]) k_setfl_pair_scale = v * r := by
  refine ⟨?_, ?_, ?_, ?_⟩
  · kernel_unfold [k_setfl_rho]
    kernel_close
  · kernel_unfold [k_setfl_dens_r]
    kernel_close
  · kernel_unfold [k_setfl_pair_r]
    kernel_close
  · kernel_unfold [k_setfl_pair_scale]
    kernel_close

/-! ## The code itself: the setfl writer's pieces regenerated from the source

`Atsim.Gen.Logic.setfl_element_header / setfl_embedding / setfl_density_function / setfl_density / setfl_pair_pots / setfl_write` are
`_lammpsWriteEAM._writeSetFLElementHeader / _writeSetFLEmbeddingFunction / _writeDensityFunction / _writeSetFLDensityFunction / _writeSetFLPairPots / _writeSetFL`
as produced by `translator/py2lean_logic.py` on every run.  The theorems state, for EVERY element list, pair declarations, grid and prior stream content and under
every interpretation of the callables that maps function id 0 to zero, that what the code writes means what the model `setfl` says (`Lemmas/TokSem.lean`):
one `%d %20.16e %20.16e %s` element line with the element's own metadata, `nrho` embedding values at `i*drho`, `nr` density values at `i*dr`, and for every
pair `(i, j <= i)` in header order `nr` values of `r*phi(r)` with `phi` found whichever way round it was declared (last declaration wins) and zero when undeclared. -/
namespace SetflWriter
open Atsim.Gen.Logic Atsim.TokSem

/-- the one-number line the loops emit -/
def numTok (v : OV) : Tok := ⟨"% 20.16e\n", [v]⟩

theorem intRange_zero (n : Nat) : intRange 0 (n : Int) = (List.range n).map fun (k : Nat) => (k : Int) := by
  simp [intRange]

theorem intRange_zero_succ (n : Nat) : intRange 0 ((n : Int) + 1) = (List.range (n + 1)).map fun (k : Nat) => (k : Int) := by
  have := intRange_zero (n + 1)
  simpa using this

theorem flatMap_congr' {α β : Type} {l : List α} {f g : α → List β} (h : ∀ x ∈ l, f x = g x) : l.flatMap f = l.flatMap g := by
  induction l with
  | nil => rfl
  | cons a l ih =>
    simp only [List.flatMap_cons]
    rw [h a (by simp), ih (fun x hx => h x (by simp [hx]))]

theorem flatten_flatMap' {α β : Type} (l : List α) (f : α → List (List β)) : (l.flatMap f).flatten = l.flatMap fun a => (f a).flatten := by
  induction l with
  | nil => rfl
  | cons a l ih => simp [List.flatMap_cons, List.flatten_append, ih]

theorem streamSem_append (I : String → Nat → Rat → Rat) (a b : List Tok) : streamSem I (a ++ b) = streamSem I a ++ streamSem I b := by
  simp [streamSem]

theorem streamSem_nil (I : String → Nat → Rat → Rat) : streamSem I [] = [] := rfl

/-- a plain function value: the model's slot (function id 0 is the zero function) -/
theorem tokSem_value (I : String → Nat → Rat → Rat) (hI : ZeroFn I) (f : Nat) (x : Rat) :
    tokSem I (numTok (.fn "value" f x)) = numLine (slotVal I "value" (mkSlot f x)) := by
  unfold mkSlot
  split
  · next h => subst h; simp [tokSem, numTok, numLine, slotVal, ovEval, hI "value" x]
  · simp [tokSem, numTok, numLine, slotVal, ovEval]

theorem embedding_loop_eq (drho : Rat) (e : EamRec) (nrho : Int) (out : List Tok) :
    ∀ (xs : List Int) (wk : List Tok),
      setfl_embedding_loop1 drho e nrho out wk xs = out ++ (wk ++ xs.map fun (i : Int) => numTok (embedOf e ((i : Rat) * drho))) := by
  intro xs
  induction xs with
  | nil => intro wk; simp [setfl_embedding_loop1]
  | cons i is ih =>
    intro wk
    simp only [setfl_embedding_loop1, ih, List.map_cons, numTok]
    simp [List.append_assoc]

theorem density_function_loop_eq (dr : Rat) (f : FnRec) (nr : Int) :
    ∀ (xs : List Int) (out : List Tok),
      setfl_density_function_loop1 dr f nr out xs = out ++ xs.map fun (i : Int) => numTok (evalFnOV f ((i : Rat) * dr)) := by
  intro xs
  induction xs with
  | nil => intro out; simp [setfl_density_function_loop1]
  | cons i is ih =>
    intro out
    simp only [setfl_density_function_loop1, ih, List.map_cons, numTok]
    simp [List.append_assoc]

theorem density_function_sem (I : String → Nat → Rat → Rat) (hI : ZeroFn I) (f : Nat) (nr : Nat) (dr : Rat) (out : List Tok) :
    streamSem I (setfl_density_function ⟨f⟩ (nr : Int) dr out) =
      streamSem I out ++ (sampled f nr dr).map (fun s => numLine (slotVal I "value" s)) := by
  unfold setfl_density_function
  rw [density_function_loop_eq, streamSem_append, intRange_zero]
  congr 1
  simp only [streamSem, sampled, List.map_map]
  apply List.map_congr_left
  intro k _
  simp only [Function.comp, evalFnOV, Int.cast_natCast]
  exact tokSem_value I hI f _


/-! #### pair blocks -/

theorem pairkey_eq (a b : String) : setfl_pairkey a b = if a ≤ b then [a, b] else [b, a] := by
  simp [setfl_pairkey, stableSortBy, insertBy]

theorem pairkey_beq (a b c d : String) : (setfl_pairkey a b == setfl_pairkey c d) = (pairKey a b == pairKey c d) := by
  rw [pairkey_eq, pairkey_eq]
  unfold pairKey
  by_cases h1 : a ≤ b <;> by_cases h2 : c ≤ d <;> (rw [Bool.eq_iff_iff]; simp [h1, h2])

/-- the dictionary the writer builds: one binding per declaration, in order -/
def dictOf (ps : List PotRec) : List (List String × PotRec) := ps.map fun p => (setfl_pairkey p.a p.b, p)

theorem lookup_eq (pairs : List PairDecl) (a b : String) :
    lookupLast (dictOf (pairs.map toPot)) (setfl_pairkey a b) = (pairs.reverse.find? fun p => pairKey p.a p.b == pairKey a b).map toPot := by
  unfold lookupLast dictOf
  rw [List.map_map, ← List.map_reverse, List.find?_map, Option.map_map]
  have : ((fun e : List String × PotRec => e.1 == setfl_pairkey a b) ∘ ((fun p : PotRec => (setfl_pairkey p.a p.b, p)) ∘ toPot))
      = fun p : PairDecl => pairKey p.a p.b == pairKey a b := by
    funext p
    simp only [Function.comp, toPot]
    exact pairkey_beq _ _ _ _
  rw [this]
  cases pairs.reverse.find? fun p => pairKey p.a p.b == pairKey a b <;> simp [Function.comp]

/-- the value the inner loop writes at grid index `k` -/
def pairTok (scale : Bool) (pp : Option PotRec) (dr : Rat) (k : Int) : Tok :=
  numTok (if scale then .scaled ((k : Rat) * dr) (energyOfOpt pp ((k : Rat) * dr)) else energyOfOpt pp ((k : Rat) * dr))

theorem loop4_eq (dr : Rat) (els : List EamRec) (i j nr : Int) (out : List Tok) (pps : List PotRec) (dict : List (List String × PotRec))
    (pp : Option PotRec) (scale : Bool) :
    ∀ (xs : List Int) (wk : List Tok),
      setfl_pair_pots_loop4 dr els i j nr out pps dict pp scale wk xs = wk ++ xs.map (pairTok scale pp dr) := by
  intro xs
  induction xs with
  | nil => intro wk; simp [setfl_pair_pots_loop4]
  | cons k ks ih =>
    intro wk
    cases scale <;> simp [setfl_pair_pots_loop4, ih, pairTok, numTok, List.append_assoc]

/-- the block written for the pair of element indices `(i, j)` -/
def pairBlockToks (scale : Bool) (els : List EamRec) (dict : List (List String × PotRec)) (nr : Int) (dr : Rat) (i j : Int) : List Tok :=
  (intRange 0 nr).map (pairTok scale (lookupLast dict (setfl_pairkey (listGet els i).species (listGet els j).species)) dr)

theorem loop3_eq (dr : Rat) (els : List EamRec) (i nr : Int) (out : List Tok) (pps : List PotRec) (dict : List (List String × PotRec)) (scale : Bool) :
    ∀ (xs : List Int) (wk : List Tok),
      setfl_pair_pots_loop3 dr els i nr out pps dict scale wk xs = wk ++ xs.flatMap (pairBlockToks scale els dict nr dr i) := by
  intro xs
  induction xs with
  | nil => intro wk; simp [setfl_pair_pots_loop3]
  | cons j js ih =>
    intro wk
    simp only [setfl_pair_pots_loop3, loop4_eq, ih, List.flatMap_cons, pairBlockToks, List.append_assoc]

theorem loop2_eq (dr : Rat) (els : List EamRec) (nr : Int) (out : List Tok) (pps : List PotRec) (dict : List (List String × PotRec)) (scale : Bool) :
    ∀ (xs : List Int) (wk : List Tok),
      setfl_pair_pots_loop2 dr els nr out pps dict scale wk xs =
        wk ++ xs.flatMap fun (i : Int) => (intRange 0 (i + 1)).flatMap (pairBlockToks scale els dict nr dr i) := by
  intro xs
  induction xs with
  | nil => intro wk; simp [setfl_pair_pots_loop2]
  | cons i is ih =>
    intro wk
    simp only [setfl_pair_pots_loop2, loop3_eq, ih, List.flatMap_cons, List.append_assoc]

theorem loop1_eq (dr : Rat) (els : List EamRec) (nr : Int) (out : List Tok) (pps : List PotRec) (scale : Bool) (wk : List Tok) :
    ∀ (ps : List PotRec) (dict : List (List String × PotRec)),
      setfl_pair_pots_loop1 dr els nr out pps dict scale wk ps =
        out ++ (wk ++ (intRange 0 (els.length : Int)).flatMap fun (i : Int) =>
          (intRange 0 (i + 1)).flatMap (pairBlockToks scale els (dict ++ dictOf ps) nr dr i)) := by
  intro ps
  induction ps with
  | nil => intro dict; simp [setfl_pair_pots_loop1, loop2_eq, dictOf]
  | cons p ps ih =>
    intro dict
    simp only [setfl_pair_pots_loop1, ih, dictOf, List.map_cons, List.append_assoc, List.cons_append, List.nil_append]

theorem listGet_species (els : List El) (i : Nat) (h : i < els.length) : (listGet (els.map toEam) (i : Int)).species = els[i].sp := by
  simp [listGet, h, toEam]

/-- one value of a pair block means what the model's slot says -/
theorem tokSem_pair (I : String → Nat → Rat → Rat) (hI : ZeroFn I) (scale : Bool) (po : Option PairDecl) (dr : Rat) (k : Nat) :
    tokSem I (pairTok scale (po.map toPot) dr (k : Int)) =
      numLine (pairSlotVal I scale (if scale && k == 0 then Slot.zero else mkSlot (match po with | some p => p.fid | none => 0) ((k : Rat) * dr))) := by
  cases scale
  · cases po with
    | none => simp [pairTok, numTok, tokSem, numLine, energyOfOpt, ovEval, mkSlot, pairSlotVal]
    | some p =>
      by_cases hf : p.fid = 0
      · simp [pairTok, numTok, tokSem, numLine, energyOfOpt, ovEval, mkSlot, pairSlotVal, toPot, hf, hI "energy"]
      · simp [pairTok, numTok, tokSem, numLine, energyOfOpt, ovEval, mkSlot, pairSlotVal, toPot, hf]
  · by_cases hk : k = 0
    · subst hk
      simp [pairTok, numTok, tokSem, numLine, ovEval, pairSlotVal]
    · cases po with
      | none => simp [pairTok, numTok, tokSem, numLine, energyOfOpt, ovEval, mkSlot, pairSlotVal, hk]
      | some p =>
        by_cases hf : p.fid = 0
        · simp [pairTok, numTok, tokSem, numLine, energyOfOpt, ovEval, mkSlot, pairSlotVal, toPot, hf, hk, hI "energy"]
        · simp [pairTok, numTok, tokSem, numLine, energyOfOpt, ovEval, mkSlot, pairSlotVal, toPot, hf, hk]

/-- the block of the pair `(i, j)`, both in range, is the model's -/
theorem pairBlock_sem (I : String → Nat → Rat → Rat) (hI : ZeroFn I) (els : List El) (pairs : List PairDecl) (nr : Nat) (dr : Rat) (scale : Bool)
    (i j : Nat) (hi : i < els.length) (hj : j < els.length) :
    streamSem I (pairBlockToks scale (els.map toEam) (dictOf (pairs.map toPot)) (nr : Int) dr (i : Int) (j : Int)) =
      (pairSlots scale (pairLookup pairs (pairKey els[i].sp els[j].sp)) nr dr).map (fun s => numLine (pairSlotVal I scale s)) := by
  unfold pairBlockToks pairSlots pairLookup
  rw [listGet_species els i hi, listGet_species els j hj, lookup_eq, intRange_zero]
  simp only [streamSem, List.map_map]
  apply List.map_congr_left
  intro k _
  simp only [Function.comp]
  exact tokSem_pair I hI scale _ dr k

end SetflWriter

open Atsim.Gen.Logic Atsim.TokSem in
/-- **code tie**: the element line carries the element's own atomic number, mass, lattice constant and lattice type -/
theorem C03_code_element_header (e : El) (out : List Tok) :
    setfl_element_header (toEam e) out = out ++ [⟨"%d %20.16e %20.16e %s\n", [.int e.z, .num e.mass, .num e.a0, .str e.lat]⟩] := by
  simp [setfl_element_header, toEam]

open Atsim.Gen.Logic Atsim.TokSem in
/-- **code tie**: exactly `nrho` embedding values, the i-th one the element's own embedding function at `i*drho` -/
theorem C03_code_embedding (I : String → Nat → Rat → Rat) (hI : ZeroFn I) (e : El) (nrho : Nat) (drho : Rat) (out : List Tok) :
    streamSem I (setfl_embedding (nrho : Int) drho (toEam e) out) =
      streamSem I out ++ (sampled e.embed nrho drho).map (fun s => numLine (slotVal I "value" s)) := by
  unfold setfl_embedding
  rw [SetflWriter.embedding_loop_eq, SetflWriter.streamSem_append, SetflWriter.intRange_zero]
  congr 1
  simp only [streamSem, sampled, List.map_map, List.nil_append]
  apply List.map_congr_left
  intro k _
  simp only [Function.comp, embedOf, toEam, Int.cast_natCast]
  exact SetflWriter.tokSem_value I hI e.embed _

open Atsim.Gen.Logic Atsim.TokSem in
/-- **code tie**: exactly `nr` density values, the i-th one the element's own density function at `i*dr` -/
theorem C03_code_density (I : String → Nat → Rat → Rat) (hI : ZeroFn I) (e : El) (els : List El) (nr : Nat) (dr : Rat) (out : List Tok) :
    streamSem I (setfl_density (toEam e) (els.map toEam) (nr : Int) dr out) =
      streamSem I out ++ (sampled e.dens nr dr).map (fun s => numLine (slotVal I "value" s)) := by
  unfold setfl_density
  rw [SetflWriter.streamSem_append]
  congr 1
  have := SetflWriter.density_function_sem I hI e.dens nr dr []
  simpa [SetflWriter.streamSem_nil, toEam] using this


open Atsim.Gen.Logic Atsim.TokSem in
/-- **code tie (pair blocks)**: for every pair `(i, j <= i)` in header order, `nr` values of `r*phi(r)` (or `phi(r)` when unscaled), `phi` looked up under the sorted pair of labels
    (either declaration order, the last declaration winning) and zero when undeclared - exactly the model's `pairBlocks` -/
theorem C03_code_pair_pots (I : String → Nat → Rat → Rat) (hI : ZeroFn I) (els : List El) (pairs : List PairDecl) (nr : Nat) (dr : Rat) (scale : Bool) (out : List Tok) :
    streamSem I (setfl_pair_pots (nr : Int) dr (els.map toEam) (pairs.map toPot) out scale) =
      streamSem I out ++ ((pairBlocks scale els pairs nr dr).flatten).map (fun s => numLine (pairSlotVal I scale s)) := by
  unfold setfl_pair_pots
  rw [SetflWriter.loop1_eq, SetflWriter.streamSem_append]
  congr 1
  simp only [List.nil_append, List.length_map, SetflWriter.intRange_zero, List.flatMap_map, SetflWriter.intRange_zero_succ]
  unfold pairBlocks lowerTri
  simp only [streamSem, List.map_flatMap, List.map_map, SetflWriter.flatten_flatMap', ← List.flatMap_def]
  apply SetflWriter.flatMap_congr'
  intro i hi
  apply SetflWriter.flatMap_congr'
  intro j hj
  have hi' : i < els.length := by simpa using hi
  have hj' : j < els.length := by
    have : j < i + 1 := by simpa using hj
    omega
  have := SetflWriter.pairBlock_sem I hI els pairs nr dr scale i j hi' hj'
  simp only [streamSem] at this
  simp [this, hi', hj']


namespace SetflWriter
open Atsim.Gen.Logic Atsim.TokSem

/-- what one element block means -/
def elSem (I : String → Nat → Rat → Rat) (b : ElBlock) : List (String × List (Option String × Rat)) :=
  [("%d %20.16e %20.16e %s\n", [(none, (b.z : Rat)), (none, b.mass), (none, b.a0), (some b.lat, 0)])] ++
    (b.embed.map fun s => numLine (slotVal I "value" s)) ++ (b.dens.flatten.map fun s => numLine (slotVal I "value" s))

theorem write_loop_sem (I : String → Nat → Rat → Rat) (hI : ZeroFn I)
    (nrho : Nat) (drho : Rat) (nr : Nat) (dr cutoff : Rat) (els : List El) (pairs : List PairDecl) (comments : List String) (out : List Tok) :
    ∀ (xs : List El) (wk : List Tok),
      streamSem I (setfl_write_loop1 comments cutoff dr drho (els.map toEam) (nr : Int) (nrho : Int) out (pairs.map toPot) wk setfl_density (xs.map toEam)) =
        streamSem I out ++ streamSem I wk ++ (xs.flatMap fun e => elSem I (elBlock false els nrho drho nr dr e)) ++
          ((pairBlocks true els pairs nr dr).flatten).map (fun s => numLine (pairSlotVal I true s)) := by
  intro xs
  induction xs with
  | nil =>
    intro wk
    simp only [List.map_nil, setfl_write_loop1, streamSem_append, C03_code_pair_pots I hI, List.flatMap_nil, List.append_nil, List.append_assoc]
  | cons e es ih =>
    intro wk
    simp only [List.map_cons, setfl_write_loop1, ih, streamSem_append, C03_code_density I hI, C03_code_embedding I hI, C03_code_element_header,
      List.flatMap_cons, List.nil_append, List.append_assoc, elSem, elBlock]
    simp [streamSem, tokSem, ovEval]

end SetflWriter

namespace SetflWriter

theorem flatMap_single {α β : Type} (l : List α) (g : α → β) : l.flatMap (fun a => [g a]) = l.map g := by
  induction l with
  | nil => rfl
  | cons a l ih => simp [List.flatMap_cons, ih]

end SetflWriter

open Atsim.Gen.Logic Atsim.TokSem in
/-- **code tie (header)**: `_writeSetFLHeader` writes the three comment lines, then `ntypes` with the element names in the order given, then `nrho drho nr dr cutoff` -/
theorem C03_code_header (I : String → Nat → Rat → Rat) (nrho nr : Nat) (drho dr cutoff : Rat) (els : List El) (pairs : List PairDecl) (fs : Bool)
    (comments : List String) (out : List Tok) :
    streamSem I (setfl_header (nrho : Int) drho (nr : Int) dr cutoff (els.map toEam) comments out) =
      streamSem I out ++ setflHeaderSem comments cutoff (setfl fs nrho drho nr dr els pairs) := by
  unfold setfl_header
  simp only [List.nil_append, SetflWriter.streamSem_append]
  congr 1
  have hpad : (comments ++ ["", "", ""]).take 3 = pad3 comments := rfl
  rw [hpad]
  simp only [setflHeaderSem, setfl, streamSem, tokSem, tokSuffix, joinToks, ovEval, List.map_cons, List.map_nil, List.map_map,
    List.flatMap_map, List.cons_append, List.nil_append, List.flatMap_cons, List.length_map, Function.comp_def, SetflWriter.flatMap_single,
    Int.cast_natCast, toEam]

namespace SetflWriter
open Atsim.Gen.Logic Atsim.TokSem

/-- `write_loop_sem` for any density writer `wd` that means the density part of the model's element block (`fs` selects the model's variant) -/
theorem write_loop_sem_gen (I : String → Nat → Rat → Rat) (hI : ZeroFn I) (fs : Bool)
    (nrho : Nat) (drho : Rat) (nr : Nat) (dr cutoff : Rat) (els : List El) (pairs : List PairDecl) (comments : List String) (out : List Tok)
    (wd : EamRec → List EamRec → Int → Rat → List Tok → List Tok)
    (hwd : ∀ (e : El) (o : List Tok), streamSem I (wd (toEam e) (els.map toEam) (nr : Int) dr o) =
      streamSem I o ++ ((elBlock fs els nrho drho nr dr e).dens.flatten).map (fun s => numLine (slotVal I "value" s))) :
    ∀ (xs : List El) (wk : List Tok),
      streamSem I (setfl_write_loop1 comments cutoff dr drho (els.map toEam) (nr : Int) (nrho : Int) out (pairs.map toPot) wk wd (xs.map toEam)) =
        streamSem I out ++ streamSem I wk ++ (xs.flatMap fun e => elSem I (elBlock fs els nrho drho nr dr e)) ++
          ((pairBlocks true els pairs nr dr).flatten).map (fun s => numLine (pairSlotVal I true s)) := by
  intro xs
  induction xs with
  | nil =>
    intro wk
    simp only [List.map_nil, setfl_write_loop1, streamSem_append, C03_code_pair_pots I hI, List.flatMap_nil, List.append_nil, List.append_assoc]
  | cons e es ih =>
    intro wk
    simp only [List.map_cons, setfl_write_loop1, ih, streamSem_append, hwd, C03_code_embedding I hI, C03_code_element_header,
      List.flatMap_cons, List.nil_append, List.append_assoc, elSem]
    simp [streamSem, tokSem, ovEval, elBlock]

/-- the whole of `_writeSetFL` for such a density writer: the generated header, then the loop -/
theorem write_sem_gen (I : String → Nat → Rat → Rat) (hI : ZeroFn I) (fs : Bool)
    (nrho : Nat) (drho : Rat) (nr : Nat) (dr cutoff : Rat) (els : List El) (pairs : List PairDecl) (comments : List String) (out : List Tok)
    (wd : EamRec → List EamRec → Int → Rat → List Tok → List Tok)
    (hwd : ∀ (e : El) (o : List Tok), streamSem I (wd (toEam e) (els.map toEam) (nr : Int) dr o) =
      streamSem I o ++ ((elBlock fs els nrho drho nr dr e).dens.flatten).map (fun s => numLine (slotVal I "value" s))) :
    streamSem I (setfl_write (nrho : Int) drho (nr : Int) dr cutoff (els.map toEam) (pairs.map toPot) comments out wd) =
      streamSem I out ++ setflSem I comments cutoff (setfl fs nrho drho nr dr els pairs) := by
  unfold setfl_write
  rw [write_loop_sem_gen I hI fs nrho drho nr dr cutoff els pairs comments out wd hwd, C03_code_header I nrho nr drho dr cutoff els pairs fs]
  simp only [setflSem, setflBodySem, streamSem_nil, List.nil_append, List.append_assoc]
  simp only [setfl, List.flatMap_map, elSem, List.append_assoc]

/-- `writeSetFL` / `writeSetFLFinnisSinclair`: the cutoff handed on is the one given, or `nr*dr` when none (or zero) is given -/
theorem write_cutoff_sem (I : String → Nat → Rat → Rat) (hI : ZeroFn I) (fs : Bool)
    (nrho : Nat) (drho : Rat) (nr : Nat) (dr : Rat) (cutoff : Option Rat) (els : List El) (pairs : List PairDecl) (comments : List String) (out : List Tok)
    (wd : EamRec → List EamRec → Int → Rat → List Tok → List Tok)
    (hwd : ∀ (e : El) (o : List Tok), streamSem I (wd (toEam e) (els.map toEam) (nr : Int) dr o) =
      streamSem I o ++ ((elBlock fs els nrho drho nr dr e).dens.flatten).map (fun s => numLine (slotVal I "value" s))) :
    streamSem I (match cutoff with
      | some c => (if c != 0 then setfl_write (nrho : Int) drho (nr : Int) dr c (els.map toEam) (pairs.map toPot) comments out wd
          else setfl_write (nrho : Int) drho (nr : Int) dr ((((nr : Nat) : Int) : Rat) * dr) (els.map toEam) (pairs.map toPot) comments out wd)
      | none => setfl_write (nrho : Int) drho (nr : Int) dr ((((nr : Nat) : Int) : Rat) * dr) (els.map toEam) (pairs.map toPot) comments out wd) =
      streamSem I out ++ setflSem I comments (effCutoff cutoff nr dr) (setfl fs nrho drho nr dr els pairs) := by
  cases cutoff with
  | none => simp only [effCutoff, Int.cast_natCast]; exact write_sem_gen I hI fs nrho drho nr dr _ els pairs comments out wd hwd
  | some c =>
    by_cases hc : c = 0
    · subst hc
      simp only [effCutoff, bne_self_eq_false, Bool.false_eq_true, if_false, if_true, Int.cast_natCast]
      exact write_sem_gen I hI fs nrho drho nr dr _ els pairs comments out wd hwd
    · have hb : (c != 0) = true := by simpa using hc
      simp only [effCutoff, hb, if_true, hc, if_false]
      exact write_sem_gen I hI fs nrho drho nr dr _ els pairs comments out wd hwd

end SetflWriter

open Atsim.Gen.Logic Atsim.TokSem in
/-- **code tie (whole file, eam/alloy)**: the header, then for each element in header order its line, its `nrho` embedding values and its `nr` density values, then
    the pair blocks: the model's `setfl false` -/
theorem C03_code_setfl_write (I : String → Nat → Rat → Rat) (hI : ZeroFn I)
    (nrho : Nat) (drho : Rat) (nr : Nat) (dr cutoff : Rat) (els : List El) (pairs : List PairDecl) (comments : List String) (out : List Tok) :
    streamSem I (setfl_write (nrho : Int) drho (nr : Int) dr cutoff (els.map toEam) (pairs.map toPot) comments out setfl_density) =
      streamSem I out ++ setflSem I comments cutoff (setfl false nrho drho nr dr els pairs) := by
  apply SetflWriter.write_sem_gen I hI false
  intro e o
  rw [C03_code_density I hI]
  simp [elBlock]

open Atsim.Gen.Logic Atsim.TokSem in
/-- **code tie (the public function)**: `writeSetFL` - the cutoff written is the one given, or `nr*dr` when none (or zero) is given -/
theorem C03_code_write_alloy (I : String → Nat → Rat → Rat) (hI : ZeroFn I)
    (nrho : Nat) (drho : Rat) (nr : Nat) (dr : Rat) (cutoff : Option Rat) (els : List El) (pairs : List PairDecl) (comments : List String) (out : List Tok) :
    streamSem I (setfl_write_alloy (nrho : Int) drho (nr : Int) dr (els.map toEam) (pairs.map toPot) out comments cutoff) =
      streamSem I out ++ setflSem I comments (effCutoff cutoff nr dr) (setfl false nrho drho nr dr els pairs) := by
  have := SetflWriter.write_cutoff_sem I hI false nrho drho nr dr cutoff els pairs comments out setfl_density
    (by intro e o; rw [C03_code_density I hI]; simp [elBlock])
  rw [← this]
  unfold setfl_write_alloy
  rfl

open Atsim.Gen.Logic in
/-- the `dr` property of the tabulation object is the model's step -/
theorem eamtab_dr_eq (nr nrho : Nat) (cut cutrho : Rat) (a : List EamRec) (b c d : List PotRec) :
    eamtab_dr ⟨(nr : Int), cut, (nrho : Int), cutrho, a, b, c, d⟩ = tabStep cut nr := by
  simp only [eamtab_dr, tabStep]
  push_cast
  rfl

open Atsim.Gen.Logic in
/-- the `drho` property of the tabulation object is the model's step -/
theorem eamtab_drho_eq (nr nrho : Nat) (cut cutrho : Rat) (a : List EamRec) (b c d : List PotRec) :
    eamtab_drho ⟨(nr : Int), cut, (nrho : Int), cutrho, a, b, c, d⟩ = tabStep cutrho nrho := by
  simp only [eamtab_drho, tabStep]
  push_cast
  rfl

open Atsim.Gen.Logic Atsim.TokSem in
/-- **code tie (the tabulation object)**: `SetFL_EAMTabulation.write` as regenerated (`nrho`, the `drho` property, `nr`, the `dr` property, the two lists, default
    comments and cutoff) writes the model's `setflTab false`: steps `cutoff_rho/(nrho-1)` and `cutoff/(nr-1)`, three empty comment lines, cutoff field `nr*dr` -/
theorem C03_code_tabulation_write (I : String → Nat → Rat → Rat) (hI : ZeroFn I) (els : List El) (pairs dip quad : List PairDecl)
    (cut : Rat) (nr : Nat) (cutrho : Rat) (nrho : Nat) (out : List Tok) :
    streamSem I (setfl_tab_write ⟨(nr : Int), cut, (nrho : Int), cutrho, els.map toEam, pairs.map toPot, dip.map toPot, quad.map toPot⟩ out) =
      streamSem I out ++ setflSem I ["", "", ""] ((nr : Rat) * tabStep cut nr) (setflTab false els pairs cut nr cutrho nrho) := by
  unfold setfl_tab_write
  simp only [eamtab_dr_eq, eamtab_drho_eq]
  rw [C03_code_write_alloy I hI]
  rfl

end Atsim.C03
