import AtsimModel.Model.TableReader
import Mathlib.Tactic.Ring
import Mathlib.Tactic.FieldSimp
import Mathlib.Tactic.Linarith
import Mathlib.Data.Rat.Defs
import Mathlib.Algebra.Order.Field.Rat
import Mathlib.Data.List.Sort
import AtsimModel.Lemmas.KernelQ
import AtsimModel.Gen.Logic
/-!
# C18 — tabulated input is reproduced at its data points and is zero outside its range

Theorems about the legacy `TableReader` (`getValue` on the sorted rows), the `xy` / `x`,`y` equivalence and `plotToFile`.
The cubic-spline table form wraps SciPy; its contract is tested by `harness/props/C18.py`, not proved here.
-/
namespace Atsim.C18
open Atsim

/-- a table whose x values are strictly increasing (what `results.sort()` yields when no x is repeated) -/
def StrictX (tbl : List Row) : Prop := List.Pairwise (fun a b : Row => a.1 < b.1) tbl

/-- `bisectLeft` characterised: the index `k` such that all rows before `k` are below `x` and row `k` is not -/
theorem bisectLeft_eq (tbl : List Row) (x : Rat) (k : Nat) (hk : k ≤ tbl.length)
    (h1 : ∀ j (hj : j < tbl.length), j < k → (tbl[j]).1 < x)
    (h2 : ∀ (hk : k < tbl.length), ¬ (tbl[k]).1 < x) : bisectLeft tbl x = k := by
  induction tbl generalizing k with
  | nil => simp at hk; subst hk; simp [bisectLeft]
  | cons a t ih =>
    cases k with
    | zero =>
      have := h2 (by simp)
      simp at this
      simp [bisectLeft, this]
    | succ k =>
      have ha := h1 0 (by simp) (by omega)
      simp at ha
      have := ih k (by simpa using hk)
        (fun j hj hjk => h1 (j + 1) (by simpa using hj) (by omega))
        (fun hk' => h2 (by simpa using hk'))
      simp only [bisectLeft] at this ⊢
      simp [ha, this]

theorem strictX_lt {tbl : List Row} (h : StrictX tbl) {i j : Nat} (hi : i < tbl.length) (hj : j < tbl.length)
    (hij : i < j) : (tbl[i]).1 < (tbl[j]).1 :=
  List.pairwise_iff_getElem.mp h i j hi hj hij

theorem strictX_le {tbl : List Row} (h : StrictX tbl) {i j : Nat} (hi : i < tbl.length) (hj : j < tbl.length)
    (hij : i ≤ j) : (tbl[i]).1 ≤ (tbl[j]).1 := by
  rcases Nat.eq_or_lt_of_le hij with rfl | hlt
  · exact le_refl _
  · exact le_of_lt (strictX_lt h hi hj hlt)

theorem bisectLeft_at (tbl : List Row) (h : StrictX tbl) (i : Nat) (hi : i < tbl.length) :
    bisectLeft tbl (tbl[i]).1 = i :=
  bisectLeft_eq tbl _ i (le_of_lt hi) (fun _ hj hji => strictX_lt h hj hi hji) (fun _ => lt_irrefl _)

theorem bisectLeft_between (tbl : List Row) (h : StrictX tbl) (i : Nat) (hi : i + 1 < tbl.length) (x : Rat)
    (hlo : (tbl[i]'(by omega)).1 < x) (hhi : x < (tbl[i + 1]).1) : bisectLeft tbl x = i + 1 :=
  bisectLeft_eq tbl _ (i + 1) (le_of_lt hi)
    (fun j hj hji => lt_of_le_of_lt (strictX_le h hj (by omega) (by omega)) hlo)
    (fun _ => not_lt.mpr (le_of_lt hhi))

theorem head?_eq_getElem {α} (tbl : List α) (h : 0 < tbl.length) : tbl.head? = some tbl[0] := by
  cases tbl with
  | nil => simp at h
  | cons a t => simp

theorem getLast?_eq_getElem' {α} (tbl : List α) (h : 0 < tbl.length) :
    tbl.getLast? = some (tbl[tbl.length - 1]'(by omega)) := by
  rw [List.getLast?_eq_getElem?, List.getElem?_eq_getElem]

/-- inside the tabulated range `findIndex` does the bisection -/
theorem findIndex_inside (tbl : List Row) (x : Rat) (hpos : 0 < tbl.length)
    (hlo : (tbl[0]).1 ≤ x) (hhi : x ≤ (tbl[tbl.length - 1]'(by omega)).1) :
    findIndex tbl x =
      (match tbl[bisectLeft tbl x]? with
        | some r => if r.1 == x then some (bisectLeft tbl x) else some (bisectLeft tbl x - 1)
        | none => some (bisectLeft tbl x - 1)) := by
  unfold findIndex
  rw [head?_eq_getElem tbl hpos, getLast?_eq_getElem' tbl hpos]
  have h1 : ¬ x < (tbl[0]).1 := not_lt.mpr hlo
  have h2 : ¬ x > (tbl[tbl.length - 1]'(by omega)).1 := not_lt.mpr hhi
  simp only [h1, h2, decide_false, Bool.or_self, Bool.false_eq_true, if_false]
  cases tbl[bisectLeft tbl x]? <;> rfl

/-- at every tabulated x the tabulated y is returned -/
theorem C18_at_points (tbl : List Row) (h : StrictX tbl) (i : Nat) (hi : i < tbl.length) :
    getValue tbl (tbl[i]).1 = (tbl[i]).2 := by
  have hfi : findIndex tbl (tbl[i]).1 = some i := by
    rw [findIndex_inside tbl _ (by omega) (strictX_le h _ _ (by omega)) (strictX_le h _ _ (by omega)),
      bisectLeft_at tbl h i hi]
    simp [List.getElem?_eq_getElem hi]
  unfold getValue
  rw [hfi]
  simp [List.getElem?_eq_getElem hi]

/-- strictly between two neighbouring data points the value is their linear interpolant … -/
theorem C18_between (tbl : List Row) (h : StrictX tbl) (i : Nat) (hi : i + 1 < tbl.length) (x : Rat)
    (hlo : (tbl[i]'(by omega)).1 < x) (hhi : x < (tbl[i + 1]).1) :
    getValue tbl x = (tbl[i]'(by omega)).2 + (x - (tbl[i]'(by omega)).1) * ((tbl[i + 1]).2 - (tbl[i]'(by omega)).2) / ((tbl[i + 1]).1 - (tbl[i]'(by omega)).1) := by
  have hi' : i < tbl.length := by omega
  have hne1 : ¬ (tbl[i + 1]).1 = x := ne_of_gt hhi
  have hne0 : ¬ (tbl[i]).1 = x := ne_of_lt hlo
  have hfi : findIndex tbl x = some i := by
    rw [findIndex_inside tbl _ (by omega)
      (le_trans (strictX_le h _ _ (by omega)) (le_of_lt hlo))
      (le_trans (le_of_lt hhi) (strictX_le h _ _ (by omega))),
      bisectLeft_between tbl h i hi x hlo hhi]
    simp [List.getElem?_eq_getElem hi, hne1]
  unfold getValue
  rw [hfi]
  simp only [List.getElem?_eq_getElem hi', List.getElem?_eq_getElem hi]
  have hd : (tbl[i + 1]).1 - (tbl[i]).1 ≠ 0 := by
    have := lt_trans hlo hhi
    intro h0; linarith
  rcases h0 : tbl[i] with ⟨lx, ly⟩
  rcases h1 : tbl[i + 1] with ⟨hx, hy⟩
  simp only [h0, h1] at hne0 hd
  simp only [beq_iff_eq, hne0, if_false]
  field_simp
  try ring

/-- … hence lies between the two neighbouring y values -/
theorem C18_between_bounds (x0 y0 x1 y1 x : Rat) (hx : x0 < x) (hx' : x < x1) :
    min y0 y1 ≤ y0 + (x - x0) * (y1 - y0) / (x1 - x0) ∧ y0 + (x - x0) * (y1 - y0) / (x1 - x0) ≤ max y0 y1 := by
  have hd : 0 < x1 - x0 := by linarith
  have he : y0 + (x - x0) * (y1 - y0) / (x1 - x0) = ((x1 - x) * y0 + (x - x0) * y1) / (x1 - x0) := by
    field_simp
    ring
  rw [he]
  have ha : 0 < x1 - x := by linarith
  have hb : 0 < x - x0 := by linarith
  constructor
  · rw [le_div_iff₀ hd]
    have h0 : min y0 y1 ≤ y0 := min_le_left _ _
    have h1 : min y0 y1 ≤ y1 := min_le_right _ _
    nlinarith [mul_le_mul_of_nonneg_left h0 ha.le, mul_le_mul_of_nonneg_left h1 hb.le]
  · rw [div_le_iff₀ hd]
    have h0 : y0 ≤ max y0 y1 := le_max_left _ _
    have h1 : y1 ≤ max y0 y1 := le_max_right _ _
    nlinarith [mul_le_mul_of_nonneg_left h0 ha.le, mul_le_mul_of_nonneg_left h1 hb.le]

/-- outside the tabulated range the value is 0 -/
theorem C18_outside (tbl : List Row) (h : StrictX tbl) (f l : Row) (hf : tbl.head? = some f) (hl : tbl.getLast? = some l) (x : Rat)
    (hx : x < f.1 ∨ l.1 < x) : getValue tbl x = 0 := by
  have _ := h -- (not needed: the range test alone decides)
  have hfi : findIndex tbl x = none := by
    unfold findIndex
    rw [hf, hl]
    have : (decide (x < f.1) || decide (x > l.1)) = true := by
      rcases hx with hx | hx <;> simp [hx]
    simp only [this, if_true]
  unfold getValue
  rw [hfi]

theorem insertRow_perm (r : Row) (l : List Row) : (insertRow r l).Perm (r :: l) := by
  induction l with
  | nil => simp [insertRow]
  | cons s rest ih =>
    unfold insertRow
    split
    · exact List.Perm.refl _
    · exact (List.Perm.cons s ih).trans (List.Perm.swap r s rest)

/-- the order of the rows in the file is irrelevant: sorting is a permutation-invariant normal form -/
theorem sortRows_perm (l : List Row) : (sortRows l).Perm l := by
  induction l with
  | nil => simp [sortRows]
  | cons a t ih =>
    have : sortRows (a :: t) = insertRow a (sortRows t) := rfl
    rw [this]
    exact (insertRow_perm a _).trans (List.Perm.cons a ih)

theorem insertRow_strict (r : Row) (l : List Row) (hl : StrictX l) (hr : ∀ s ∈ l, r.1 ≠ s.1) :
    StrictX (insertRow r l) := by
  induction l with
  | nil => simp [insertRow, StrictX]
  | cons s rest ih =>
    have hs : StrictX rest := (List.pairwise_cons.mp hl).2
    have hsr : ∀ b ∈ rest, s.1 < b.1 := (List.pairwise_cons.mp hl).1
    have hne : r.1 ≠ s.1 := hr s (by simp)
    unfold insertRow
    split
    · rename_i hle
      have hlt : r.1 < s.1 := by
        simp only [rowLe, Bool.or_eq_true, Bool.and_eq_true, decide_eq_true_eq, beq_iff_eq] at hle
        rcases hle with hle | hle
        · exact hle
        · exact absurd hle.1 hne
      refine List.pairwise_cons.mpr ⟨?_, hl⟩
      intro b hb
      rcases List.mem_cons.mp hb with rfl | hb
      · exact hlt
      · exact lt_trans hlt (hsr b hb)
    · rename_i hle
      have hlt : s.1 < r.1 := by
        simp only [rowLe, Bool.or_eq_true, Bool.and_eq_true, decide_eq_true_eq, beq_iff_eq, not_or] at hle
        exact lt_of_le_of_ne (not_lt.mp hle.1) (Ne.symm hne)
      refine List.pairwise_cons.mpr ⟨?_, ih hs (fun b hb => hr b (List.mem_cons_of_mem _ hb))⟩
      intro b hb
      rcases List.mem_cons.mp ((insertRow_perm r rest).mem_iff.mp hb) with rfl | hb
      · exact hlt
      · exact hsr b hb

/-- with pairwise distinct x values the sorted table is strictly increasing in x -/
theorem sortRows_strict (l : List Row) (hd : List.Pairwise (fun a b : Row => a.1 ≠ b.1) l) : StrictX (sortRows l) := by
  induction l with
  | nil => simp [sortRows, StrictX]
  | cons a t ih =>
    have : sortRows (a :: t) = insertRow a (sortRows t) := rfl
    rw [this]
    have hd' := List.pairwise_cons.mp hd
    exact insertRow_strict a _ (ih hd'.2) (fun s hs => hd'.1 s ((sortRows_perm t).mem_iff.mp hs))

theorem C18_unsorted_ok (l l' : List Row) (h : l.Perm l') (hd : List.Pairwise (fun a b : Row => a.1 ≠ b.1) l) (x : Rat) :
    tableReader l x = tableReader l' x := by
  have hd' : List.Pairwise (fun a b : Row => a.1 ≠ b.1) l' :=
    (List.Perm.pairwise_iff (fun hxy => Ne.symm hxy) h).mp hd
  have heq : sortRows l = sortRows l' :=
    List.Perm.eq_of_pairwise (le := fun a b : Row => a.1 < b.1)
      (fun a b _ _ hab hba => absurd hba (lt_asymm hab))
      (sortRows_strict l hd) (sortRows_strict l' hd')
      (((sortRows_perm l).trans h).trans (sortRows_perm l').symm)
  unfold tableReader
  rw [heq]

/-- `xy` pairs and `x` / `y` lists describe the same data -/
theorem C18_xy_equiv (xs ys : List Rat) (h : xs.length = ys.length) : deinterleave (interleave xs ys) = (xs, ys) := by
  induction xs generalizing ys with
  | nil =>
    cases ys with
    | nil => simp [interleave, deinterleave]
    | cons b ys => simp at h
  | cons a xs ih =>
    cases ys with
    | nil => simp at h
    | cons b ys =>
      have := ih ys (by simpa using h)
      simp [interleave, deinterleave, this]

/-- `plotToFile` writes exactly `steps` rows at x_i = lowx + i*(highx - lowx)/steps -/
theorem C18_plot (lowx highx : Rat) (steps : Nat) :
    (plotXs lowx highx steps).length = steps ∧
    ∀ i (h : i < (plotXs lowx highx steps).length), (plotXs lowx highx steps)[i] = lowx + (i : Rat) * (highx - lowx) / (steps : Rat) := by
  refine ⟨by simp [plotXs], ?_⟩
  intro i hi
  simp only [plotXs, List.getElem_map, List.getElem_range]
  rw [mul_div_assoc]

/-! non-vacuity -/
example : StrictX [(0, 0), (1, 10), (2, 25)] := by
  unfold StrictX
  decide +kernel
example : tableReader [(2, 25), (0, 0), (1, 10)] (3/2) = 35/2 ∧ tableReader [(2, 25), (0, 0), (1, 10)] 2 = 25 ∧ tableReader [(2, 25), (0, 0), (1, 10)] 3 = 0 := by
  decide +kernel

end Atsim.C18

/-! ## kernel ties: the arithmetic the code uses at these places, regenerated from the source on every run, is the model's -/
namespace Atsim.C18
open Atsim.Gen Atsim.E
set_option linter.unusedTactic false
set_option linter.unusedSimpArgs false
/-- `plotToFile`: the i-th abscissa computed from the regenerated `step` and `v` expressions is the i-th element of `plotXs` -/
theorem C18_kernel_plot (lowx highx : Rat) (steps i : Nat) (h : i < steps) :
    (plotXs lowx highx steps)[i]? = some (evalQ (envQ [lowx, i, evalQ (envQ [lowx, highx, steps]) k_plot_step]) k_plot_v) := by
  simp only [plotXs, List.getElem?_map, List.getElem?_range h, Option.map_some, Option.some.injEq]
  kernel_unfold [k_plot_step, k_plot_v]
  kernel_close

/-! ### `xy` data, regenerated from `_TableFormSection._parse_xy` -/

theorem parse_xy_loop_eq (orig : List Rat) : ∀ (l x y : List Rat),
    Atsim.Gen.Logic.parse_xy_loop1 true x orig y l = .ok (x ++ (deinterleave l).1, y ++ (deinterleave l).2)
  | [], x, y => by simp [Atsim.Gen.Logic.parse_xy_loop1, deinterleave]
  | [a], x, y => by simp [Atsim.Gen.Logic.parse_xy_loop1, deinterleave]
  | a :: b :: rest, x, y => by
    simp [Atsim.Gen.Logic.parse_xy_loop1, deinterleave, parse_xy_loop_eq orig rest]

/-- **code tie**: `_parse_xy` rejects an odd number of values and otherwise splits the values pairwise exactly as the model's `deinterleave` does -
    wherever the line breaks of the entry were -/
theorem C18_code_parse_xy (xy : List Rat) :
    Atsim.Gen.Logic.parse_xy xy = (if xy.length % 2 = 0 then .ok (deinterleave xy) else .error Atsim.Gen.Logic.TableErr.oddCount) := by
  unfold Atsim.Gen.Logic.parse_xy
  by_cases h : xy.length % 2 = 0
  · have h' : ((xy.length : Int) % 2) = 0 := by omega
    simp [h, h', parse_xy_loop_eq]
  · have h' : ¬ (((xy.length : Int) % 2) = 0) := by omega
    simp [h, h']

/-- hence `x`/`y` lists and `xy` pairs are the same data for the code as written: interleaving two lists of equal length and parsing them as `xy` gives them back -/
theorem C18_code_xy_equiv (xs ys : List Rat) (h : xs.length = ys.length) :
    Atsim.Gen.Logic.parse_xy (interleave xs ys) = .ok (xs, ys) := by
  have hlen : ∀ (xs ys : List Rat), xs.length = ys.length → (interleave xs ys).length % 2 = 0 := by
    intro xs
    induction xs with
    | nil => intro ys _; cases ys <;> simp [interleave]
    | cons a xs ih =>
      intro ys h
      cases ys with
      | nil => simp at h
      | cons b ys =>
        have := ih ys (by simpa using h)
        simp only [interleave, List.length_cons]
        omega
  rw [C18_code_parse_xy, if_pos (hlen xs ys h), C18_xy_equiv xs ys h]

/-! ## The code itself: `TableReaderBase._findIndex` / `getValue` regenerated from the source

`Atsim.Gen.Logic.find_index / get_value` are the two methods as `translator/py2lean_logic.py` produces them on every run (the object is its list of `(x, y)` rows;
`bisect.bisect_left(self.xproxy, x)` is an operation handed in - here the model's `bisectLeft`, the number of leading rows with a smaller abscissa, which is what
`bisect_left` returns on the sorted rows `_populate` leaves).  For EVERY table and abscissa they compute the model's `findIndex` / `getValue`, the functions
`C18_at_points`, `C18_between` and `C18_outside` are about; and every list index the code uses is inside the table (no `IndexError` is hidden by the translation's total
`listGet`). -/

/-- the element at the position where `takeWhile` stops does not satisfy the predicate -/
theorem tw_not {α : Type} (p : α → Bool) (l : List α) (r : α)
    (h : l[(l.takeWhile p).length]? = some r) : p r = false := by
  induction l with
  | nil => simp at h
  | cons a t ih =>
    by_cases hp : p a = true
    · simp [List.takeWhile, hp] at h
      exact ih h
    · simp [List.takeWhile, hp] at h
      subst h; simpa using hp

/-- `takeWhile` that keeps everything: every element satisfies the predicate -/
theorem tw_all {α : Type} (p : α → Bool) (l : List α)
    (h : (l.takeWhile p).length = l.length) : ∀ a ∈ l, p a = true := by
  induction l with
  | nil => simp
  | cons a t ih =>
    by_cases hp : p a = true
    · simp [List.takeWhile, hp] at h
      intro b hb
      rcases List.mem_cons.mp hb with rfl | hb
      · exact hp
      · exact ih h b hb
    · simp [List.takeWhile, hp] at h

/-- inside the range test the `bisect_left` result is a valid index, its row is not below `x`, and it is positive unless row 0 is at `x` -/
theorem bisect_facts (a : Row) (t : List Row) (x : Rat)
    (h1 : ¬ x < a.1) (h2 : ¬ x > ((a :: t).getLast (by simp)).1) :
    ∃ (h : bisectLeft (a :: t) x < (a :: t).length),
      (¬ ((a :: t)[bisectLeft (a :: t) x]).1 = x → 1 ≤ bisectLeft (a :: t) x) := by
  have hle : bisectLeft (a :: t) x ≤ (a :: t).length := (List.takeWhile_sublist _).length_le
  have hlt : bisectLeft (a :: t) x < (a :: t).length := by
    rcases Nat.lt_or_ge (bisectLeft (a :: t) x) (a :: t).length with h | h
    · exact h
    · have hall := tw_all _ _ (Nat.le_antisymm hle h) _ (List.getLast_mem (l := a :: t) (by simp))
      simp only [decide_eq_true_eq] at hall
      exact absurd hall h2
  refine ⟨hlt, ?_⟩
  intro hne
  rcases Nat.eq_zero_or_pos (bisectLeft (a :: t) x) with h0 | h0
  · exfalso
    have hn := tw_not (fun r : Row => decide (r.1 < x)) (a :: t) _ (List.getElem?_eq_getElem hlt)
    simp only [decide_eq_false_iff_not] at hn
    apply hne
    have : (a :: t)[bisectLeft (a :: t) x] = a := by simp [h0]
    rw [this] at hn ⊢
    exact le_antisymm (not_lt.mp h1) (not_lt.mp hn)
  · exact h0

open Atsim.Gen.Logic in
theorem listGet_nat_lt (l : List Row) (n : Nat) (h : n < l.length) : listGet l ((n : Nat) : Int) = l[n] := by
  simp only [listGet, Int.toNat_natCast, List.getD_eq_getElem?_getD, List.getElem?_eq_getElem h, Option.getD_some]

open Atsim.Gen.Logic in
/-- `_findIndex` on a non-empty table with the two boundary subscripts resolved -/
theorem find_index_cons (B : List Row → Rat → Int) (a : Row) (t : List Row) (x : Rat) :
    find_index B (a :: t) x =
      if x < a.1 then none else if x > ((a :: t).getLast (by simp)).1 then none
      else if (listGet (a :: t) (B (a :: t) x)).1 == x then some (B (a :: t) x) else some (B (a :: t) x - 1) := by
  have hlast : listGet (a :: t) ((((a :: t).length : Nat) : Int) - 1) = (a :: t).getLast (by simp) := by
    have : ((((a :: t).length : Nat) : Int) - 1).toNat = (a :: t).length - 1 := by simp
    simp only [listGet, this, List.getD_eq_getElem?_getD]
    rw [← List.getLast?_eq_getElem?, List.getLast?_eq_some_getLast (by simp)]
    rfl
  have hfirst : listGet (a :: t) (0 : Int) = a := by simp [listGet]
  have hlen : ((((a :: t).length : Nat) : Int) == (0 : Int)) = false := by simp; omega
  unfold find_index
  simp only [hlen, hfirst, hlast]
  by_cases h1 : x < a.1
  · simp [h1]
  by_cases h2 : x > ((a :: t).getLast (by simp)).1
  · simp [h1, h2]
  simp [h1, h2]

open Atsim.Gen.Logic in
/-- **code tie**: `_findIndex` -/
theorem C18_code_find_index (tbl : List Row) (x : Rat) :
    find_index (fun t y => ((bisectLeft t y : Nat) : Int)) tbl x = (findIndex tbl x).map (fun (n : Nat) => (n : Int)) := by
  cases tbl with
  | nil => simp [find_index, findIndex]
  | cons a t =>
    rw [find_index_cons]
    unfold findIndex
    simp only [List.head?_cons, List.getLast?_eq_some_getLast (l := a :: t) (by simp)]
    by_cases h1 : x < a.1
    · simp [h1]
    by_cases h2 : x > ((a :: t).getLast (by simp)).1
    · simp [h1, h2]
    obtain ⟨hlt, hpos⟩ := bisect_facts a t x h1 h2
    simp only [h1, h2, listGet_nat_lt _ _ hlt, List.getElem?_eq_getElem hlt]
    by_cases he : ((a :: t)[bisectLeft (a :: t) x]).1 = x
    · simp [he]
    · have := hpos he
      simp [he]
      omega

open Atsim.Gen.Logic in
/-- the index `_findIndex` returns is a valid index, and so is the `bisect_left` result the code subscripts with on the way -/
theorem C18_code_index_in_range (tbl : List Row) (x : Rat) (i : Int)
    (h : find_index (fun t y => ((bisectLeft t y : Nat) : Int)) tbl x = some i) :
    0 ≤ i ∧ i < (tbl.length : Int) ∧ bisectLeft tbl x < tbl.length := by
  cases tbl with
  | nil => simp [find_index] at h
  | cons a t =>
    rw [find_index_cons] at h
    by_cases h1 : x < a.1
    · simp [h1] at h
    by_cases h2 : x > ((a :: t).getLast (by simp)).1
    · simp [h1, h2] at h
    obtain ⟨hlt, hpos⟩ := bisect_facts a t x h1 h2
    simp only [h1, h2, if_false, listGet_nat_lt _ _ hlt] at h
    by_cases he : ((a :: t)[bisectLeft (a :: t) x]).1 = x
    · simp [he] at h
      subst h
      exact ⟨by omega, by omega, hlt⟩
    · have := hpos he
      simp [he] at h
      subst h
      exact ⟨by omega, by omega, hlt⟩

open Atsim.Gen.Logic in
/-- **code tie**: `getValue` -/
theorem C18_code_get_value (tbl : List Row) (x : Rat) :
    get_value (fun t y => ((bisectLeft t y : Nat) : Int)) tbl x = getValue tbl x := by
  unfold get_value getValue
  have hfi := C18_code_find_index tbl x
  cases hn : findIndex tbl x with
  | none => rw [hn] at hfi; simp [hfi]
  | some n =>
    rw [hn] at hfi
    simp only [Option.map_some] at hfi
    have hr := C18_code_index_in_range tbl x _ hfi
    have hnlt : n < tbl.length := by omega
    simp only [hfi, listGet_nat_lt _ _ hnlt, List.getElem?_eq_getElem hnlt]
    by_cases he : (tbl[n]).1 = x
    · simp [he]
    · by_cases hlast : n + 1 = tbl.length
      · have hi : (((n : Int) + 1) == ((tbl.length : Nat) : Int)) = true := by simp; omega
        have hnone : tbl[n + 1]? = none := by simp; omega
        simp [he, hi, hnone]
      · have hi : (((n : Int) + 1) == ((tbl.length : Nat) : Int)) = false := by simp; omega
        have hlt' : n + 1 < tbl.length := by omega
        have hg : listGet tbl ((n : Int) + 1) = tbl[n + 1] := by
          have := listGet_nat_lt tbl (n + 1) hlt'
          simpa using this
        simp [he, hi, hg, List.getElem?_eq_getElem hlt']


open Atsim.Gen.Logic in
theorem plot_loop_eq (f : FnRec) (hi lo step : Rat) (n : Int) (xs : List Int) (out : List Tok) :
    plot_to_file_loop1 out f hi lo step n xs =
      out ++ xs.map fun i => Tok.mk "{} {}\n" [OV.num (lo + ((i : Int) : Rat) * step), OV.fn "value" f.fid (lo + ((i : Int) : Rat) * step)] := by
  induction xs generalizing out with
  | nil => simp [plot_to_file_loop1]
  | cons x xs ih => simp [plot_to_file_loop1, ih, evalFnOV]

open Atsim.Gen.Logic in
/-- **code tie**: `plotToFile` as regenerated writes exactly `steps` rows `x f(x)` at the model's `plotXs` (the step is computed once, `x_i = lowx + i*step`),
    each row in its own `write` call -/
theorem C18_code_plot (out : List Tok) (lowx highx : Rat) (f : Nat) (steps : Nat) :
    plot_to_file out lowx highx ⟨f⟩ (steps : Int) =
      out ++ (plotXs lowx highx steps).map fun x => Tok.mk "{} {}\n" [OV.num x, OV.fn "value" f x] := by
  have hr : intRange (0 : Int) (steps : Int) = (List.range steps).map fun (k : Nat) => (k : Int) := by
    simp [intRange]
  simp only [plot_to_file, plot_loop_eq, hr, plotXs, List.map_map]
  congr 1


end Atsim.C18
