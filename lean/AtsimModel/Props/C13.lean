import AtsimModel.Model.Filter
import AtsimModel.Gen.Logic
/-!
# C13 — species filtering equals deleting the unwanted interactions from the file

`filteredView` is the implementation (`_check_tuple` transcribed with its early returns), `deleteByHand` the specification.
Tie to the code: `harness/props/C13.py` (views, view sequences on one parser, tabulated bytes against the hand-edited file).
-/
namespace Atsim.C13
open Atsim

/-- `_check_tuple` keeps an entry iff, include mode: all its species are listed; exclude mode: none of them is -/
theorem checkTuple_spec (exclude : Bool) (S : List Sp) (spp : List Sp) :
    checkTuple exclude S spp = (if exclude then spp.all (fun s => !S.contains s) else spp.all (fun s => S.contains s)) := by
  induction spp with
  | nil => cases exclude <;> simp [checkTuple]
  | cons v rest ih =>
    cases exclude <;> cases hv : S.contains v <;> simp_all [checkTuple]

/-- **the filtered view is the hand-edited list** – for every entry list, every species set (empty, partial, full, with unknown labels), both modes -/
theorem C13_filter_eq_delete (exclude : Bool) (S : List Sp) (entries : List Entry) :
    filteredView exclude S entries = deleteByHand exclude S entries := by
  unfold filteredView deleteByHand
  apply List.filter_congr
  intro e _
  exact checkTuple_spec exclude S e.species

/-- entries that survive are unchanged and keep their relative order -/
theorem C13_sublist (exclude : Bool) (S : List Sp) (entries : List Entry) :
    (filteredView exclude S entries).Sublist entries := by
  exact List.filter_sublist

/-- an empty include set keeps nothing that mentions a species; an empty exclude set keeps everything -/
theorem C13_empty_exclude (entries : List Entry) : filteredView true [] entries = entries := by
  unfold filteredView
  rw [List.filter_eq_self]
  intro e _
  rw [checkTuple_spec]
  simp
theorem C13_empty_include (entries : List Entry) (h : ∀ e ∈ entries, e.species ≠ []) : filteredView false [] entries = [] := by
  unfold filteredView
  rw [List.filter_eq_nil_iff]
  intro e he
  rw [checkTuple_spec]
  have := h e he
  cases hs : e.species with
  | nil => exact absurd hs this
  | cons a l => simp

/-- labels that occur in no entry are irrelevant -/
theorem C13_unknown_labels (exclude : Bool) (S : List Sp) (x : Sp) (entries : List Entry) (h : ∀ e ∈ entries, x ∉ e.species) :
    filteredView exclude (x :: S) entries = filteredView exclude S entries := by
  unfold filteredView
  apply List.filter_congr
  intro e he
  have hx := h e he
  rw [checkTuple_spec, checkTuple_spec]
  have key : ∀ s ∈ e.species, (x :: S).contains s = S.contains s := by
    intro s hs
    have hne : s ≠ x := fun heq => hx (heq ▸ hs)
    simp [hne]
  have all_mem : ∀ (f g : Sp → Bool), (∀ s ∈ e.species, f s = g s) → e.species.all f = e.species.all g := by
    intro f g hfg
    rw [Bool.eq_iff_iff, List.all_eq_true, List.all_eq_true]
    constructor
    · intro hf s hs; rw [← hfg s hs]; exact hf s hs
    · intro hf s hs; rw [hfg s hs]; exact hf s hs
  cases exclude
  · simp only [Bool.false_eq_true, if_false]
    exact all_mem _ _ (fun s hs => key s hs)
  · simp only [if_true]
    exact all_mem _ _ (fun s hs => by rw [key s hs])

/-- constructor (current): `exclude=[]` or no argument at all filters nothing; `include=S` is include mode -/
theorem C13_mode_current :
    modeCurrent (some []) none = (true, []) ∧ modeCurrent none none = (true, []) ∧
    (∀ S, modeCurrent none (some S) = (false, S)) ∧ (∀ x xs inc, modeCurrent (some (x :: xs)) inc = (true, x :: xs)) := by
  refine ⟨rfl, rfl, ?_, ?_⟩
  · intro S; rfl
  · intro x xs inc; rfl

/-- SHIPPED constructor (regression witness): `exclude=[]` fell into include mode with an empty list, which keeps nothing -/
theorem C13_mode_shipped_witness :
    modeShipped (some []) none = (false, []) ∧ filteredView false [] [⟨["A", "B"], 1⟩] = [] ∧ deleteByHand true [] [⟨["A", "B"], 1⟩] = [⟨["A", "B"], 1⟩] := by
  refine ⟨rfl, by decide, by decide⟩

/-- tabulating the view equals tabulating the edited file: any builder that reads the parser only through the filtered lists
    gets equal inputs, hence produces equal output -/
theorem C13_output_eq {β : Type} (build : List Entry → List Entry → List Entry → β) (exclude : Bool) (S : List Sp) (pairs embed dens : List Entry) :
    build (filteredView exclude S pairs) (filteredView exclude S embed) (filteredView exclude S dens)
      = build (deleteByHand exclude S pairs) (deleteByHand exclude S embed) (deleteByHand exclude S dens) := by
  simp only [C13_filter_eq_delete]

/-! ### independence of views -/

theorem stepPerView_append (entries : List Entry) (vs : List (Bool × List Sp)) (op : ViewOp) :
    ∃ l, (stepPerView entries vs op).1 = vs ++ l := by
  cases op with
  | create ex S => exact ⟨[(ex, S)], rfl⟩
  | read i => exact ⟨[], by simp [stepPerView]⟩

theorem foldl_stepPerView_append (entries : List Entry) (ops : List ViewOp) (vs : List (Bool × List Sp)) :
    ∃ l, ops.foldl (fun vs op => (stepPerView entries vs op).1) vs = vs ++ l := by
  induction ops generalizing vs with
  | nil => exact ⟨[], by simp⟩
  | cons op ops ih =>
    obtain ⟨l1, h1⟩ := stepPerView_append entries vs op
    obtain ⟨l2, h2⟩ := ih (vs ++ l1)
    exact ⟨l1 ++ l2, by simp only [List.foldl_cons, h1, h2, List.append_assoc]⟩

/-- reading view `i` after ANY sequence of operations returns the filter of its own settings: other views, created before or after, do not matter -/
theorem C13_views_independent (entries : List Entry) (views : List (Bool × List Sp)) (ops : List ViewOp) (i : Nat) (v : Bool × List Sp)
    (hv : views[i]? = some v) :
    let final := ops.foldl (fun vs op => (stepPerView entries vs op).1) views
    (stepPerView entries final (.read i)).2 = some (filteredView v.1 v.2 entries) := by
  intro final
  obtain ⟨l, hl⟩ := foldl_stepPerView_append entries ops views
  have hi : i < views.length := by
    rcases Nat.lt_or_ge i views.length with h | h
    · exact h
    · rw [List.getElem?_eq_none h] at hv; cases hv
  have : final[i]? = some v := by
    show (ops.foldl (fun vs op => (stepPerView entries vs op).1) views)[i]? = some v
    rw [hl, List.getElem?_append_left hi, hv]
  simp [stepPerView, this]

/-- SHIPPED (settings on the wrapped parser): creating a second view changes what the first returns -/
theorem C13_shared_state_witness :
    runShared [⟨["A"], 1⟩, ⟨["B"], 2⟩] [.create false ["A"], .read 0, .create true ["A"], .read 0] = [none, some [⟨["A"], 1⟩], none, some [⟨["B"], 2⟩]] ∧
    runPerView [⟨["A"], 1⟩, ⟨["B"], 2⟩] [.create false ["A"], .read 0, .create true ["A"], .read 0] = [none, some [⟨["A"], 1⟩], none, some [⟨["A"], 1⟩]] := by
  refine ⟨by decide, by decide⟩

/-! ## The code itself: `_check_tuple` regenerated from the source

`Atsim.Gen.Logic.check_tuple` is produced by `translator/py2lean_logic.py` from the text of
`FilteredConfigParser._check_tuple` on every run (loop with early returns → structural recursion; the two attributes it reads are parameters).
The hand-written `checkTuple` of `Model/Filter.lean` IS that function, so every theorem above holds of the code as it is written now. -/
namespace CodeTie
open Atsim.Gen.Logic

theorem check_tuple_loop_eq (S : List Sp) (ex : Bool) (orig t : List Sp) :
    check_tuple_loop1 orig ex S t = checkTuple ex S t := by
  induction t with
  | nil => simp [check_tuple_loop1, checkTuple]
  | cons v rest ih =>
    simp only [check_tuple_loop1, checkTuple, ih]
    cases ex <;> cases S.contains v <;> simp

end CodeTie

/-- **code tie**: the regenerated `_check_tuple` is the model's `checkTuple`, for every species list, mode and tuple -/
theorem C13_code_check_tuple (S : List Sp) (ex : Bool) (t : List Sp) :
    Atsim.Gen.Logic.check_tuple S ex t = checkTuple ex S t := by
  unfold Atsim.Gen.Logic.check_tuple
  exact CodeTie.check_tuple_loop_eq S ex t t

/-- hence the property's statement about the code's own function: an entry is kept iff (include) all / (exclude) none of its species are listed -/
theorem C13_code_check_tuple_spec (S : List Sp) (ex : Bool) (t : List Sp) :
    Atsim.Gen.Logic.check_tuple S ex t = (if ex then t.all (fun s => !S.contains s) else t.all (fun s => S.contains s)) := by
  rw [C13_code_check_tuple, checkTuple_spec]

/-! ### the constructor's choice of mode, regenerated from `FilteredConfigParser.__init__` -/

/-- **code tie**: for every combination of `exclude` / `include` (absent, empty, non-empty) the constructor either raises (both given and non-empty) or stores
    exactly the species list and mode of the model's `modeCurrent` -/
theorem C13_code_filter_init (excl incl : Option (List Sp)) :
    Atsim.Gen.Logic.filter_init () excl incl =
      (if (match excl with | some (_ :: _) => true | _ => false) && (match incl with | some (_ :: _) => true | _ => false)
       then .error Atsim.Gen.Logic.FilterErr.bothGiven
       else .ok ((modeCurrent excl incl).2, (modeCurrent excl incl).1)) := by
  rcases excl with _ | _ | ⟨a, as⟩ <;> rcases incl with _ | _ | ⟨b, bs⟩ <;>
    simp [Atsim.Gen.Logic.filter_init, modeCurrent]

/-! ## The code itself: the four filtered views

`Atsim.Gen.Logic.filter_pair / filter_eam_embed / filter_eam_density / filter_eam_density_fs` are the four properties of `FilteredConfigParser` as regenerated on every
run: each keeps the entries of the wrapped parser for which `_check_tuple` accepts the species the entry mentions - the pair of a `[Pair]` entry, the one species of an
`[EAM-Embed]` / `[EAM-Density]` entry (as the one-element tuple `(p.species,)`), the (central, neighbour) pair of a Finnis-Sinclair density. -/
namespace ViewTie
open Atsim.Gen.Logic

def ofPair (e : PairEnt) : Entry := ⟨e.species, e.id⟩
def ofEl (e : ElEnt) : Entry := ⟨[e.species], e.id⟩

end ViewTie

open Atsim.Gen.Logic ViewTie in
/-- **code tie**: all four views are the model's `filteredView` (and hence `deleteByHand`: `C13_filter_eq_delete`), in the wrapped parser's order -/
theorem C13_code_views (S : List Sp) (ex : Bool) (pairs : List PairEnt) (els : List ElEnt) :
    (filter_pair S ex pairs).map ofPair = filteredView ex S (pairs.map ofPair) ∧
    (filter_eam_embed S ex els).map ofEl = filteredView ex S (els.map ofEl) ∧
    (filter_eam_density S ex els).map ofEl = filteredView ex S (els.map ofEl) ∧
    (filter_eam_density_fs S ex pairs).map ofPair = filteredView ex S (pairs.map ofPair) := by
  refine ⟨?_, ?_, ?_, ?_⟩ <;>
    simp [filter_pair, filter_eam_embed, filter_eam_density, filter_eam_density_fs, filteredView, List.filter_map, C13_code_check_tuple, ofPair, ofEl, Function.comp_def]


end Atsim.C13

/-! ### the command line's choice of species list and mode, regenerated from potable's `_do_tabulation` (up to the call of `_make_config_parser`) -/
namespace Atsim.C13
open Atsim Atsim.Gen.Logic

/-- what a potable run filters with: `_make_config_parser` wraps the parser in a view only when a species list was chosen, with `exclude=` or `include=` by the flag
(`C13_code_filter_init` gives the constructor's reading of that); `none` = no view at all -/
def cliView (args : CliArgs) : Option (Bool × List Sp) :=
  match cli_species_choice () args with
  | (none, _) => none
  | (some S, true) => some (modeCurrent (some S) none)
  | (some S, false) => some (modeCurrent none (some S))

/-- **code tie**: `--include-species` - also when given without any label, which keeps nothing - decides; otherwise a non-empty `--exclude-species` list is excluded; otherwise
nothing is filtered -/
theorem C13_code_cli_species (args : CliArgs) :
    cliView args =
      (match args.include_species, args.exclude_species with
       | some inc, _ => some (false, inc)
       | none, some (x :: xs) => some (true, x :: xs)
       | none, _ => none) := by
  rcases args with ⟨inc, exc⟩
  rcases inc with _ | inc <;> rcases exc with _ | _ | ⟨x, xs⟩ <;>
    simp [cliView, cli_species_choice, modeCurrent]

/-- the label-less `--include-species` is include-mode with the empty set (which keeps only entries that name no species at all - there are none in a model: `C13_holds`
gives the hand-edit reading); without any species option there is no view and every entry is kept -/
theorem C13_code_cli_corner (exc : Option (List String)) :
    cliView ⟨some [], exc⟩ = some (false, []) ∧ cliView ⟨none, none⟩ = none ∧ cliView ⟨none, some []⟩ = none := by
  refine ⟨?_, ?_, ?_⟩ <;> simp [C13_code_cli_species]

end Atsim.C13
