import AtsimModel.Model.Eam
import Mathlib.Data.String.Basic
import AtsimModel.Lemmas.KernelQ
import AtsimModel.Lemmas.TokSem
import AtsimModel.Props.C03
import AtsimModel.Props.C05
/-!
# C04 — Finnis-Sinclair densities land in the slot the consumer reads for that pair

`dens α β` below always means: the function the MODEL declares for "central species α, neighbouring
species β" (`EAMPotential(α).electronDensityFunction[β]`, potable `[EAM-Density] α->β`).

The consumer rules are part of the specification (written from the repository's documentation of
`EAMPotential`, of `[EAM-Density] A->B` and of the LAMMPS `eam/fs` / DL_POLY EEAM formats):

* LAMMPS `eam/fs` (setfl): in the element block of element `I`, the `j`-th density function is the
  density contributed BY an `I` atom AT a site of the `j`-th element of the header.
* DL_POLY EEAM (TABEAM): block `dens A B` is the density at an `A` site from a `B` neighbour.
* Excel: column `A->B` likewise.

Tie to the code: `harness/props/C04.py`.
-/
namespace Atsim.C04
open Atsim

/-- density function a model element declares towards a neighbour species (zero when undeclared) -/
def densOf (e : El) (β : Sp) : Fid := (dictGet e.densTo β).getD 0

/-- LAMMPS eam/fs consumer: density at an `α` site contributed by a `β` neighbour = the (index of α)-th density
    list in the block of element β -/
def consumerLAMMPS (f : SetflFile) (α β : Sp) : Option (List Slot) :=
  match f.elements[f.names.idxOf β]? with
  | none => none
  | some blk => blk.dens[f.names.idxOf α]?

/-- setfl_fs: for any element list without repeated names, any two listed elements: the consumer reads exactly the
    sampled function the model declares for (central α, neighbour β) -/
theorem C04_setfl_slot (nrho : Nat) (drho : Rat) (nr : Nat) (dr : Rat) (els : List El) (pairs : List PairDecl)
    (hnd : (els.map (·.sp)).Nodup) (i j : Nat) (hi : i < els.length) (hj : j < els.length) :
    consumerLAMMPS (setfl true nrho drho nr dr els pairs) els[i].sp els[j].sp
      = some (sampled (densOf els[i] els[j].sp) nr dr) := by
  have hidx : ∀ (k : Nat) (hk : k < els.length), (els.map (·.sp)).idxOf els[k].sp = k := by
    intro k hk
    have h := hnd.idxOf_getElem k (by simpa using hk)
    simpa using h
  unfold consumerLAMMPS
  simp only [setfl, hidx i hi, hidx j hj]
  rw [List.getElem?_eq_getElem (by simpa using hj)]
  simp only [List.getElem_map, elBlock, if_true]
  rw [List.getElem?_eq_getElem (by simpa using hi)]
  simp [densOf]

/-- a writer that transposes the routing is refuted on a fully asymmetric two-species model (non-vacuity of the slot theorem) -/
def exFS : List El :=
  [⟨"Al", 13, 27, 4, "fcc", 1, 0, [("Al", 11), ("Cu", 12)]⟩, ⟨"Cu", 29, 63, 3, "fcc", 2, 0, [("Al", 21), ("Cu", 22)]⟩]

example : consumerLAMMPS (setfl true 2 1 2 1 exFS []) "Al" "Cu" = some [.val 12 0, .val 12 1] := by decide +kernel
example : consumerLAMMPS (setfl true 2 1 2 1 exFS []) "Cu" "Al" = some [.val 21 0, .val 21 1] := by decide +kernel

/-- DL_POLY EEAM: the `dens` blocks are exactly one block per (element a, listed species β), labelled `a β`, carrying `dens a β` -/
theorem C04_tabeam_slot (nrho : Nat) (drho : Rat) (nr : Nat) (dr : Rat) (els : List El) (pairs : List PairDecl) :
    (tabeam true nrho drho nr dr els pairs).blocks.filter (fun b => b.kw == "dens") =
      els.flatMap fun a => (sortSp (els.map (·.sp))).map fun β => tblock "dens" [a.sp, β] (densOf a β) nr dr := by
  have h1 : (tabeamPairs els pairs nr dr).filter (fun b => b.kw == "dens") = [] := by
    rw [List.filter_eq_nil_iff]
    intro b hb
    unfold tabeamPairs at hb
    rw [List.mem_map] at hb
    obtain ⟨k, _, rfl⟩ := hb
    split <;> simp [tblock]
  have h2 : (els.map fun e => tblock "embe" [e.sp] e.embed nrho drho).filter (fun b => b.kw == "dens") = [] := by
    rw [List.filter_eq_nil_iff]
    intro b hb
    rw [List.mem_map] at hb
    obtain ⟨k, _, rfl⟩ := hb
    simp [tblock]
  have h3 : (els.flatMap fun a => (sortSp (els.map (·.sp))).map fun β =>
      tblock "dens" [a.sp, β] (densOf a β) nr dr).filter (fun b => b.kw == "dens")
      = els.flatMap fun a => (sortSp (els.map (·.sp))).map fun β => tblock "dens" [a.sp, β] (densOf a β) nr dr := by
    rw [List.filter_eq_self]
    intro b hb
    rw [List.mem_flatMap] at hb
    obtain ⟨a, _, hb⟩ := hb
    rw [List.mem_map] at hb
    obtain ⟨k, _, rfl⟩ := hb
    simp [tblock]
  simp only [tabeam, if_true, List.filter_append, h1, h2, List.nil_append]
  exact h3

/-- Excel: the density sheet's columns are built from exactly the labelled functions `"a->t" ↦ dens a t` -/
theorem C04_excel_cols (els : List El) (pairs : List PairDecl) (cut : Rat) (nr : Nat) (cutrho : Rat) (nrho : Nat) :
    (excelEam true els pairs cut nr cutrho nrho)[1]? =
      some (sheet "EAM-Density" "r" nr cut (els.flatMap fun e => e.densTo.map fun (t, f) => (e.sp ++ "->" ++ t, f))) := by
  simp [excelEam]

theorem mapM_some_forall2 {α β : Type} (f : α → Option β) :
    ∀ (l : List α) (r : List β), l.mapM f = some r → List.Forall₂ (fun s e => f s = some e) l r := by
  intro l
  induction l with
  | nil => intro r h; simp at h; subst h; exact .nil
  | cons a l ih =>
    intro r h
    rw [List.mapM_cons] at h
    cases hfa : f a with
    | none => simp [hfa] at h
    | some b =>
      cases hl : l.mapM f with
      | none => simp [hfa, hl] at h
      | some bs =>
        simp [hfa, hl] at h
        subst h
        exact .cons hfa (ih bs hl)

theorem forall2_mem_right {α β : Type} {R : α → β → Prop} {l : List α} {r : List β}
    (h : List.Forall₂ R l r) : ∀ e ∈ r, ∃ s ∈ l, R s e := by
  induction h with
  | nil => intro e he; simp at he
  | cons hab _ ih =>
    intro e he
    rcases List.mem_cons.mp he with rfl | he
    · exact ⟨_, List.mem_cons_self, hab⟩
    · obtain ⟨s, hs, hr⟩ := ih e he
      exact ⟨s, List.mem_cons_of_mem _ hs, hr⟩

theorem forall2_map_eq {α β : Type} {R : α → β → Prop} {l : List α} {r : List β} (g : β → α)
    (h : List.Forall₂ R l r) (hg : ∀ s e, R s e → g e = s) : r.map g = l := by
  induction h with
  | nil => rfl
  | cons hab _ ih => simp [hg _ _ hab, ih]

/-- lookup in a dict built as `{o : g o for o in l}` -/
theorem dictGet_map_self (l : List Sp) (g : Sp → Fid) (o : Sp) (ho : o ∈ l) :
    dictGet (l.map fun o => (o, g o)) o = some (g o) := by
  unfold dictGet
  cases hf : (l.map fun o => (o, g o)).reverse.find? (fun p => p.1 == o) with
  | none =>
    rw [List.find?_eq_none] at hf
    have := hf (o, g o) (List.mem_reverse.mpr (List.mem_map.mpr ⟨o, ho, rfl⟩))
    simp at this
  | some p =>
    have hp := List.find?_some hf
    have hm := List.mem_of_find?_eq_some hf
    simp only [List.mem_reverse, List.mem_map] at hm
    obtain ⟨q, _, rfl⟩ := hm
    simp at hp
    subst hp
    rfl

/-- potable builder: the entry `A->B : f` is stored as the density of central A towards neighbour B, whatever the order of
    the entries; combinations that were not declared are zero -/
theorem C04_builder (embed : List (Sp × Fid)) (dens : List (Sp × Sp × Fid)) (extraOrder : List Sp)
    (spMeta : Sp → Option (Int × Rat × Rat × String)) (els : List El) (h : eamBuildFSWith embed dens extraOrder spMeta = some els) :
    ∀ e ∈ els, ∀ o ∈ els.map (·.sp),
      densOf e o = (match dens.find? (fun d => d.1 == e.sp && d.2.1 == o) with
                    | some d => d.2.2
                    | none => 0) := by
  have hF := mapM_some_forall2 _ _ _ h
  have hsp : els.map (·.sp) = _ := forall2_map_eq (·.sp) hF (by
    intro s e hse
    split at hse
    · cases hse
    · cases hse; rfl)
  intro e he o ho
  rw [hsp] at ho
  obtain ⟨s, _, hse⟩ := forall2_mem_right hF e he
  split at hse
  · cases hse
  · cases hse
    have key := congrArg (fun x => Option.getD x 0)
      (dictGet_map_self _ (fun o => match dens.find? (fun d => d.1 == s && d.2.1 == o) with
        | some d => d.2.2
        | none => 0) o ho)
    exact key

/-- zero fill: an undeclared combination reads as the zero function in the setfl file -/
theorem C04_zero_fill (f : Fid) (n : Nat) (step : Rat) (h : f = 0) : ∀ s ∈ sampled f n step, s = Slot.zero := by
  subst h
  intro s hs
  unfold sampled at hs
  rw [List.mem_map] at hs
  obtain ⟨k, _, rfl⟩ := hs
  simp [mkSlot]

/-- cluster statement: the per-neighbour density terms of an `α` atom, read from the setfl file by the consumer rule,
    are term by term those computed directly from the model -/
theorem C04_cluster (nrho : Nat) (drho : Rat) (nr : Nat) (dr : Rat) (els : List El) (pairs : List PairDecl)
    (hnd : (els.map (·.sp)).Nodup) (i : Nat) (hi : i < els.length) (neigh : List (Fin els.length × Fin nr)) :
    neigh.map (fun (nb : Fin els.length × Fin nr) =>
        ((consumerLAMMPS (setfl true nrho drho nr dr els pairs) els[i].sp els[nb.1].sp).getD [])[nb.2.val]?)
      = neigh.map (fun (nb : Fin els.length × Fin nr) => some (mkSlot (densOf els[i] els[nb.1].sp) ((nb.2.val : Rat) * dr))) := by
  apply List.map_congr_left
  intro nb _
  simp only [Fin.getElem_fin]
  rw [C04_setfl_slot nrho drho nr dr els pairs hnd i nb.1.val hi nb.1.isLt]
  simp only [Option.getD_some, sampled]
  rw [List.getElem?_eq_getElem (by simp)]
  simp

end Atsim.C04

/-! ## kernel ties: the arithmetic the code uses at these places, regenerated from the source on every run, is the model's -/
namespace Atsim.C04
open Atsim.Gen Atsim.E
set_option linter.unusedTactic false
set_option linter.unusedSimpArgs false
theorem C04_kernel_args (nrho : Nat) (drho : Rat) (nr : Nat) (dr : Rat) :
    k_setfl_fs_args.map (evalQ (envQ [nrho, drho, nr, dr])) = [(nrho : Rat), drho, (nr : Rat), dr] ∧
    k_tabeam_fs_args.map (evalQ (envQ [nrho, drho, nr, dr])) = [(nrho : Rat), drho, (nr : Rat), dr] := by
  constructor
  · kernel_unfold [k_setfl_fs_args]
    kernel_close
  · kernel_unfold [k_tabeam_fs_args]
    kernel_close

/-! ## The code itself: Finnis-Sinclair density routing in the setfl writer, regenerated from the source

`Atsim.Gen.Logic.setfl_density_fs` is `_lammpsWriteEAM._writeSetFLDensityFunctionFinnisSinclair` as produced by `translator/py2lean_logic.py` on every run. -/

namespace SetflFsWriter
open Atsim.Gen.Logic Atsim.TokSem

/-- the one-number line the loops emit -/
def numTok (v : OV) : Tok := ⟨"% 20.16e\n", [v]⟩

theorem intRange_zero (n : Nat) : intRange 0 (n : Int) = (List.range n).map fun (k : Nat) => (k : Int) := by
  simp [intRange]

theorem streamSem_append (I : String → Nat → Rat → Rat) (a b : List Tok) : streamSem I (a ++ b) = streamSem I a ++ streamSem I b := by
  simp [streamSem]

/-- a plain function value: the model's slot (function id 0 is the zero function) -/
theorem tokSem_value (I : String → Nat → Rat → Rat) (hI : ZeroFn I) (f : Nat) (x : Rat) :
    tokSem I (numTok (.fn "value" f x)) = numLine (slotVal I "value" (mkSlot f x)) := by
  unfold mkSlot
  split
  · next h => subst h; simp [tokSem, numTok, numLine, slotVal, ovEval, hI "value" x]
  · simp [tokSem, numTok, numLine, slotVal, ovEval]

theorem density_function_loop_eq (dr : Rat) (f : FnRec) (nr : Int) :
    ∀ (xs : List Int) (out : List Tok),
      setfl_density_function_loop1 dr f nr out xs = out ++ xs.map fun (i : Int) => numTok (evalFnOV f ((i : Rat) * dr)) := by
  intro xs
  induction xs with
  | nil => intro out; simp [setfl_density_function_loop1]
  | cons i is ih =>
    intro out
    simp only [setfl_density_function_loop1, ih, List.map_cons, numTok]
    simp [List.append_assoc]

theorem density_function_sem (I : String → Nat → Rat → Rat) (hI : ZeroFn I) (f : Nat) (nr : Nat) (dr : Rat) (out : List Tok) :
    streamSem I (setfl_density_function ⟨f⟩ (nr : Int) dr out) =
      streamSem I out ++ (sampled f nr dr).map (fun s => numLine (slotVal I "value" s)) := by
  unfold setfl_density_function
  rw [density_function_loop_eq, streamSem_append, intRange_zero]
  congr 1
  simp only [streamSem, sampled, List.map_map]
  apply List.map_congr_left
  intro k _
  simp only [Function.comp, evalFnOV, Int.cast_natCast]
  exact tokSem_value I hI f _

/-- `otherpot.electronDensityFunction[species]` read from the writer's record is the model's dictionary look-up (absent = zero function) -/
theorem densOf_toEam (o : El) (sp : String) : Atsim.Gen.Logic.densOf (toEam o) sp = ⟨(dictGet o.densTo sp).getD 0⟩ := by
  unfold Atsim.Gen.Logic.densOf dictGet toEam
  simp only [← List.map_reverse, List.find?_map]
  have hfun : ((fun e : String × FnRec => e.1 == sp) ∘ fun p : Sp × Fid => (p.1, (⟨p.2⟩ : FnRec))) = fun p : Sp × Fid => p.1 == sp := rfl
  rw [hfun]
  cases o.densTo.reverse.find? (fun p : Sp × Fid => p.1 == sp) <;> simp

theorem density_fs_loop_sem (I : String → Nat → Rat → Rat) (hI : ZeroFn I) (e : El) (els : List EamRec) (nr : Nat) (dr : Rat) (out : List Tok) :
    ∀ (xs : List El) (wk : List Tok),
      streamSem I (setfl_density_fs_loop1 dr (toEam e) els (nr : Int) out wk (xs.map toEam)) =
        streamSem I out ++ streamSem I wk ++
          ((xs.map fun other => sampled ((dictGet other.densTo e.sp).getD 0) nr dr).flatten).map (fun s => numLine (slotVal I "value" s)) := by
  intro xs
  induction xs with
  | nil => intro wk; simp [setfl_density_fs_loop1, streamSem]
  | cons o os ih =>
    intro wk
    simp only [List.map_cons, setfl_density_fs_loop1, ih, densOf_toEam, density_function_sem I hI,
      List.flatten_cons, List.map_append, List.append_assoc]
    simp [toEam]

end SetflFsWriter

open Atsim.Gen.Logic Atsim.TokSem in
/-- **code tie (routing)**: in the block of element `e` the writer emits, for each element `other` in header order, `nr` values of
    `other.electronDensityFunction[e.species]` (zero when that entry is absent) at `i*dr` - exactly the model's `elBlock true`, the block `C04_setfl_slot` is about -/
theorem C04_code_density_fs (I : String → Nat → Rat → Rat) (hI : ZeroFn I) (e : El) (els : List El) (nr : Nat) (dr : Rat) (out : List Tok) :
    streamSem I (setfl_density_fs (toEam e) (els.map toEam) (nr : Int) dr out) =
      streamSem I out ++ ((elBlock true els 0 0 nr dr e).dens.flatten).map (fun s => numLine (slotVal I "value" s)) := by
  unfold setfl_density_fs
  rw [SetflFsWriter.density_fs_loop_sem I hI]
  simp [elBlock, streamSem]

/-! ## The code itself: the whole extended-EAM TABEAM file (`writeTABEAMFinnisSinclair`)

`Atsim.Gen.Logic.tabeam_write_fs` is the function as regenerated on every run: `numpots = 3n(n+1)/2`, the common part, then for every element A (in the order given) and
every label B of the SORTED label list the look-up `A.electronDensityFunction[B]` - a `KeyError` becomes the writer's error - written under the header `dens A B`. -/

namespace TabeamFsWriter
open Atsim.Gen.Logic Atsim.TokSem Atsim.C05 Atsim.C05.TabeamWriter

/-- `eamPotential.electronDensityFunction[speciesB]` read from the writer's record is the model's dictionary look-up, absent keys included -/
theorem densOfOpt_toEam (a : El) (b : String) : densOfOpt (toEam a) b = (dictGet a.densTo b).map FnRec.mk := by
  unfold densOfOpt dictGet toEam
  simp only [← List.map_reverse, List.find?_map]
  have hfun : ((fun e : String × FnRec => e.1 == b) ∘ fun p : Sp × Fid => (p.1, (⟨p.2⟩ : FnRec))) = fun p : Sp × Fid => p.1 == b := rfl
  rw [hfun]
  cases a.densTo.reverse.find? (fun p : Sp × Fid => p.1 == b) <;> simp

theorem leS_total (a b : String) : leS a b = true ∨ leS b a = true := by
  simpa [leS] using String.le_total a b

theorem leS_trans (a b c : String) : leS a b = true → leS b c = true → leS a c = true := by
  simp only [leS, decide_eq_true_eq]
  exact String.le_trans

theorem leS_antisymm (a b : String) : leS a b = true → leS b a = true → a = b := by
  simp only [leS, decide_eq_true_eq]
  exact String.le_antisymm

/-- `sorted(ep.species for ep in eampots)` is the model's sorted label list -/
theorem species_sorted_eq (els : List El) :
    stableSortBy (fun a b => decide (a ≤ b)) ((els.map toEam).map fun ep => ep.species) = sortSp (els.map (·.sp)) := by
  have hm : ((els.map toEam).map fun ep => ep.species) = els.map (·.sp) := by
    rw [List.map_map]; rfl
  rw [hm]
  apply stableSortBy_eq leS leS_total leS_trans leS_antisymm _ _ (sortSp_perm _).symm
  exact (sortSp_sorted _).imp (fun h => decide_eq_true h)

/-- inner loop, every look-up succeeds: one `dens A B` block per label, in the order of the label list -/
theorem fs_loop2_sem (I : String → Nat → Rat → Rat) (hI : ZeroFn I) (dr drho : Rat) (a : El) (ha : a.sp ≠ "") (E : List EamRec) (nr : Nat) (nrho : Int)
    (numpots : Rat) (out0 : List Tok) (PP : List PotRec) (SL : List String) (title : String) :
    ∀ (bs : List String) (out : List Tok), (∀ b ∈ bs, b ≠ "" ∧ (dictGet a.densTo b).isSome) →
      ∃ r, tabeam_write_fs_loop2 dr drho (toEam a) E (nr : Int) nrho numpots out0 out PP a.sp SL title bs = .ok r ∧
        streamSem I r = streamSem I out ++
          (bs.map fun b => tblock "dens" [a.sp, b] ((dictGet a.densTo b).getD 0) nr dr).flatMap (tblockSem I)
  | [], out, _ => ⟨out, rfl, by simp⟩
  | b :: bs, out, h => by
    obtain ⟨hb, hs⟩ := h b List.mem_cons_self
    obtain ⟨f, hf⟩ := Option.isSome_iff_exists.1 hs
    have hd : densOfOpt (toEam a) b = some ⟨f⟩ := by rw [densOfOpt_toEam, hf]; rfl
    obtain ⟨r, hr, hsem⟩ := fs_loop2_sem I hI dr drho a ha E nr nrho numpots out0 PP SL title bs
      (tabeam_density a.sp (some b) ⟨f⟩ (nr : Int) dr out) (fun b' hb' => h b' (List.mem_cons_of_mem _ hb'))
    refine ⟨r, ?_, ?_⟩
    · simp only [tabeam_write_fs_loop2, hd]
      exact hr
    · rw [hsem, C05_code_density_pair I hI a.sp b ha hb, rowLine_eq]
      simp [hf, tblockSem, tblock, List.append_assoc]

/-- outer loop, every look-up succeeds: for every element in the order given, its blocks for the label list -/
theorem fs_loop1_sem (I : String → Nat → Rat → Rat) (hI : ZeroFn I) (dr drho : Rat) (E : List EamRec) (nr : Nat) (nrho : Int)
    (numpots : Rat) (out0 : List Tok) (PP : List PotRec) (SL : List String) (title : String) (hSL : ∀ b ∈ SL, b ≠ "") :
    ∀ (els : List El) (out : List Tok), (∀ a ∈ els, a.sp ≠ "" ∧ ∀ b ∈ SL, (dictGet a.densTo b).isSome) →
      ∃ r, tabeam_write_fs_loop1 dr drho E (nr : Int) nrho numpots out0 out PP SL title (els.map toEam) = .ok r ∧
        streamSem I r = streamSem I out ++
          (els.flatMap fun a => SL.map fun b => tblock "dens" [a.sp, b] ((dictGet a.densTo b).getD 0) nr dr).flatMap (tblockSem I)
  | [], out, _ => ⟨out, rfl, by simp⟩
  | a :: els, out, h => by
    obtain ⟨ha, hs⟩ := h a List.mem_cons_self
    obtain ⟨r2, hr2, hsem2⟩ := fs_loop2_sem I hI dr drho a ha E nr nrho numpots out0 PP SL title SL out
      (fun b hb => ⟨hSL b hb, hs b hb⟩)
    obtain ⟨r, hr, hsem⟩ := fs_loop1_sem I hI dr drho E nr nrho numpots out0 PP SL title hSL els r2
      (fun a' ha' => h a' (List.mem_cons_of_mem _ ha'))
    refine ⟨r, ?_, ?_⟩
    · simp only [List.map_cons, tabeam_write_fs_loop1]
      have hsp : (toEam a).species = a.sp := rfl
      rw [hsp, hr2]
      exact hr
    · rw [hsem, hsem2]
      simp [List.append_assoc]

/-- the inner loop raises nothing but the missing-entry error -/
theorem fs_loop2_ok_or (dr drho : Rat) (p : EamRec) (E : List EamRec) (nr nrho : Int) (numpots : Rat) (out0 : List Tok) (PP : List PotRec)
    (A : String) (SL : List String) (title : String) :
    ∀ (bs : List String) (out : List Tok),
      (∃ r, tabeam_write_fs_loop2 dr drho p E nr nrho numpots out0 out PP A SL title bs = .ok r) ∨
        tabeam_write_fs_loop2 dr drho p E nr nrho numpots out0 out PP A SL title bs = .error WErr.missingDensity
  | [], out => Or.inl ⟨out, rfl⟩
  | b :: bs, out => by
    simp only [tabeam_write_fs_loop2]
    cases densOfOpt p b with
    | none => exact Or.inr rfl
    | some f => exact fs_loop2_ok_or dr drho p E nr nrho numpots out0 PP A SL title bs _

/-- inner loop, an entry is missing for some label of the list: the error -/
theorem fs_loop2_missing (dr drho : Rat) (p : EamRec) (E : List EamRec) (nr nrho : Int) (numpots : Rat) (out0 : List Tok) (PP : List PotRec)
    (A : String) (SL : List String) (title : String) (b : String) (hmiss : densOfOpt p b = none) :
    ∀ (bs : List String) (out : List Tok), b ∈ bs →
      tabeam_write_fs_loop2 dr drho p E nr nrho numpots out0 out PP A SL title bs = .error WErr.missingDensity
  | [], _, h => by simp at h
  | x :: bs, out, h => by
    simp only [tabeam_write_fs_loop2]
    cases hx : densOfOpt p x with
    | none => rfl
    | some f =>
      rcases List.mem_cons.1 h with rfl | h'
      · rw [hmiss] at hx; cases hx
      · exact fs_loop2_missing dr drho p E nr nrho numpots out0 PP A SL title b hmiss bs _ h'

/-- outer loop, some element of the list lacks an entry for some label: the error -/
theorem fs_loop1_missing (dr drho : Rat) (E : List EamRec) (nr nrho : Int) (numpots : Rat) (out0 : List Tok) (PP : List PotRec)
    (SL : List String) (title : String) (p : EamRec) (b : String) (hb : b ∈ SL) (hmiss : densOfOpt p b = none) :
    ∀ (ps : List EamRec) (out : List Tok), p ∈ ps →
      tabeam_write_fs_loop1 dr drho E nr nrho numpots out0 out PP SL title ps = .error WErr.missingDensity
  | [], _, h => by simp at h
  | x :: ps, out, h => by
    simp only [tabeam_write_fs_loop1]
    rcases List.mem_cons.1 h with rfl | h'
    · rw [fs_loop2_missing dr drho p E nr nrho numpots out0 PP p.species SL title b hmiss SL out hb]
      rfl
    · rcases fs_loop2_ok_or dr drho x E nr nrho numpots out0 PP x.species SL title SL out with ⟨r, hr⟩ | he
      · rw [hr]
        exact fs_loop1_missing dr drho E nr nrho numpots out0 PP SL title p b hb hmiss ps r h'
      · rw [he]
        rfl

/-- the declared count `3n(n+1)/2` is a whole number: the model's ℕ division is exact -/
theorem count_fs (n : Nat) : ((3 * n * (n + 1) / 2 : Nat) : Rat) = ((3 : Rat) * (n : Rat)) * ((n : Rat) + 1) / 2 := by
  have h1 : 2 ∣ 3 * n * (n + 1) := by
    rcases Nat.even_or_odd n with ⟨k, hk⟩ | ⟨k, hk⟩
    · exact ⟨3 * k * (n + 1), by rw [hk]; ring⟩
    · exact ⟨3 * n * (k + 1), by rw [hk]; ring⟩
  rw [Nat.cast_div h1 (by norm_num)]
  push_cast
  rfl

end TabeamFsWriter

open Atsim.Gen.Logic Atsim.TokSem in
/-- **code tie (routing)**: when every element's dictionary has an entry for every label, the file is the model's `tabeam true …`: the block headed `dens A B` holds
    the values of A's dictionary entry for B, for every ordered pair, A in element order and B in sorted order -/
theorem C04_code_tabeam_fs (I : String → Nat → Rat → Rat) (hI : ZeroFn I) (els : List El) (pairs : List PairDecl)
    (hnd : (els.map (·.sp)).Nodup) (hne : ∀ e ∈ els, e.sp ≠ "")
    (hfull : ∀ a ∈ els, ∀ b ∈ els, (dictGet a.densTo b.sp).isSome)
    (nrho nr : Nat) (drho dr : Rat) (title : String) (out : List Tok) :
    (tabeam_write_fs (nrho : Int) drho (nr : Int) dr (els.map toEam) (pairs.map toPot) out title).map (streamSem I) =
      .ok (streamSem I out ++ tabeamSem I title (tabeam true nrho drho nr dr els pairs)) := by
  unfold tabeam_write_fs
  simp only []
  rw [TabeamFsWriter.species_sorted_eq]
  have hmemS : ∀ b, b ∈ sortSp (els.map (·.sp)) → ∃ e ∈ els, e.sp = b := by
    intro b hb
    rw [(Atsim.C05.TabeamWriter.sortSp_perm _).mem_iff, List.mem_map] at hb
    exact hb
  obtain ⟨r, hr, hsem⟩ := TabeamFsWriter.fs_loop1_sem I hI dr drho (els.map toEam) nr (nrho : Int)
    ((((3 : Rat) * (((((els.map toEam).length : Nat) : Int) : Int) : Rat)) * ((((((els.map toEam).length : Nat) : Int) : Int) : Rat) + (1 : Rat))) / (2 : Rat))
    out (pairs.map toPot) (sortSp (els.map (·.sp))) title
    (by intro b hb; obtain ⟨e, he, rfl⟩ := hmemS b hb; exact hne e he)
    els
    (tabeam_except_density (nrho : Int) drho (nr : Int) dr (els.map toEam) (pairs.map toPot) title
      ((((3 : Rat) * (((((els.map toEam).length : Nat) : Int) : Int) : Rat)) * ((((((els.map toEam).length : Nat) : Int) : Int) : Rat) + (1 : Rat))) / (2 : Rat)) [])
    (by
      intro a ha
      refine ⟨hne a ha, ?_⟩
      intro b hb
      obtain ⟨e, he, rfl⟩ := hmemS b hb
      exact hfull a ha e he)
  rw [hr]
  simp only [andThen, Except.map]
  rw [Atsim.C05.TabeamWriter.streamSem_append, hsem, Atsim.C05.C05_code_except_density I hI els pairs hnd]
  simp only [tabeamSem, tabeam, if_true, TabeamFsWriter.count_fs, List.length_map, Int.cast_natCast, List.flatMap_append,
    List.append_assoc]
  simp [streamSem]

open Atsim.Gen.Logic Atsim.TokSem in
/-- **code tie (no silent substitution)**: when some element's dictionary lacks an entry for some label, nothing is written: the writer raises -/
theorem C04_code_tabeam_fs_missing (els : List El) (pairs : List PairDecl) (a b : El) (ha : a ∈ els) (hb : b ∈ els)
    (hmiss : dictGet a.densTo b.sp = none)
    (nrho nr : Nat) (drho dr : Rat) (title : String) (out : List Tok) :
    tabeam_write_fs (nrho : Int) drho (nr : Int) dr (els.map toEam) (pairs.map toPot) out title = .error WErr.missingDensity := by
  unfold tabeam_write_fs
  simp only []
  rw [TabeamFsWriter.species_sorted_eq]
  have hb' : b.sp ∈ sortSp (els.map (·.sp)) := by
    rw [(Atsim.C05.TabeamWriter.sortSp_perm _).mem_iff]
    exact List.mem_map.2 ⟨b, hb, rfl⟩
  have hm : densOfOpt (toEam a) b.sp = none := by
    rw [TabeamFsWriter.densOfOpt_toEam, hmiss]; rfl
  rw [TabeamFsWriter.fs_loop1_missing dr drho _ _ _ _ _ _ _ _ (toEam a) b.sp hb' hm _ _ (List.mem_map.2 ⟨a, ha, rfl⟩)]
  rfl


/-! ## The code itself: the whole Finnis-Sinclair setfl file (`writeSetFLFinnisSinclair`) -/

open Atsim.Gen.Logic Atsim.TokSem in
/-- **code tie (whole file, eam/fs)**: header as for eam/alloy; in the block of element `e`, for each element `other` in header order, the `nr` values of
    `other`'s dictionary entry for `e` - the model's `setfl true` (the slot `C04_setfl_slot` is about) -/
theorem C04_code_write_fs (I : String → Nat → Rat → Rat) (hI : ZeroFn I)
    (nrho : Nat) (drho : Rat) (nr : Nat) (dr : Rat) (cutoff : Option Rat) (els : List El) (pairs : List PairDecl) (comments : List String) (out : List Tok) :
    streamSem I (setfl_write_fs (nrho : Int) drho (nr : Int) dr (els.map toEam) (pairs.map toPot) out comments cutoff) =
      streamSem I out ++ setflSem I comments (effCutoff cutoff nr dr) (setfl true nrho drho nr dr els pairs) := by
  have := Atsim.C03.SetflWriter.write_cutoff_sem I hI true nrho drho nr dr cutoff els pairs comments out setfl_density_fs
    (by intro e o; rw [C04_code_density_fs I hI]; simp [elBlock])
  rw [← this]
  unfold setfl_write_fs
  rfl


open Atsim.Gen.Logic Atsim.TokSem in
/-- **code tie (the tabulation objects)**: `SetFL_FS_EAMTabulation.write` writes `setflTab true` -/
theorem C04_code_tabulation_write_setfl (I : String → Nat → Rat → Rat) (hI : ZeroFn I) (els : List El) (pairs dip quad : List PairDecl)
    (cut : Rat) (nr : Nat) (cutrho : Rat) (nrho : Nat) (out : List Tok) :
    streamSem I (setfl_fs_tab_write ⟨(nr : Int), cut, (nrho : Int), cutrho, els.map toEam, pairs.map toPot, dip.map toPot, quad.map toPot⟩ out) =
      streamSem I out ++ setflSem I ["", "", ""] ((nr : Rat) * tabStep cut nr) (setflTab true els pairs cut nr cutrho nrho) := by
  unfold setfl_fs_tab_write
  simp only [Atsim.C03.eamtab_dr_eq, Atsim.C03.eamtab_drho_eq]
  rw [C04_code_write_fs I hI]
  rfl

open Atsim.Gen.Logic Atsim.TokSem in
/-- … and `TABEAM_FinnisSinclair_EAMTabulation.write` writes `tabeamTab true` (empty title) -/
theorem C04_code_tabulation_write_tabeam (I : String → Nat → Rat → Rat) (hI : ZeroFn I) (els : List El) (pairs dip quad : List PairDecl)
    (hnd : (els.map (·.sp)).Nodup) (hne : ∀ e ∈ els, e.sp ≠ "") (hfull : ∀ a ∈ els, ∀ b ∈ els, (dictGet a.densTo b.sp).isSome)
    (cut : Rat) (nr : Nat) (cutrho : Rat) (nrho : Nat) (out : List Tok) :
    (tabeam_fs_tab_write ⟨(nr : Int), cut, (nrho : Int), cutrho, els.map toEam, pairs.map toPot, dip.map toPot, quad.map toPot⟩ out).map (streamSem I) =
      .ok (streamSem I out ++ tabeamSem I "" (tabeamTab true els pairs cut nr cutrho nrho)) := by
  have h := C04_code_tabeam_fs I hI els pairs hnd hne hfull nrho nr (tabStep cutrho nrho) (tabStep cut nr) "" out
  unfold tabeam_fs_tab_write
  simp only [Atsim.C03.eamtab_dr_eq, Atsim.C03.eamtab_drho_eq]
  revert h
  cases tabeam_write_fs (nrho : Int) (tabStep cutrho nrho) (nr : Int) (tabStep cut nr) (els.map toEam) (pairs.map toPot) out "" with
  | error e => intro h; simp [Except.map] at h
  | ok v => intro h; simpa [andThen, Except.map, tabeamTab] using h

end Atsim.C04

/-! ## Code tie: the potable Finnis-Sinclair builder (`EAM_Potential_Builder_FS`), regenerated from the source for objects of the subclass -/
namespace Atsim.C04
open Atsim

namespace FSTie
open Atsim.Gen.Logic

/-- rows `A->B : definition` of `[EAM-Density]` as (from, to, function id), the form builder being `mkFn` -/
def fsRowsOf (mkFn : Pfi → FnRec) (rows : List FsRow) : List (Sp × Sp × Fid) :=
  rows.map fun r => (r.species.from_species, r.species.to_species, (mkFn r.pfi).fid)

/-- rows of `[EAM-Embed]` as (species, function id) pairs, the form builder being `mkFn` (as in the C12 builder tie) -/
def rowsOf (mkFn : Pfi → FnRec) (rows : List EmbRow) : List (Sp × Fid) := rows.map fun r => (r.species, (mkFn r.pfi).fid)

/-- the reference data as the model's `spMeta`: atomic number and mass are required, lattice constant and type default to 0 and fcc -/
def metaOf (refMass : String → Option Rat) (refNumber : String → Option Int) (refLatticeConstant : String → Option Rat) (refLatticeType : String → Option String)
    (s : Sp) : Option (Int × Rat × Rat × String) :=
  match refNumber s, refMass s with
  | some z, some m => some (z, m, (refLatticeConstant s).getD 0, (refLatticeType s).getD "fcc")
  | _, _ => none

/-- no `A->B` is declared twice -/
def NoDupDecl (rows : List FsRow) : Prop := (rows.map fun r => (r.species.from_species, r.species.to_species)).Nodup

/-- an element as built by the code and the model's element: same species, reference data and embedding function, and the SAME FUNCTION UNDER EVERY NEIGHBOUR SPECIES
(the order in which the code's inner dictionary lists the neighbours is not compared: every consumer looks the neighbour up by name) -/
def SameEl (r : EamRec) (e : El) : Prop :=
  r.species = e.sp ∧ r.atomicNumber = e.z ∧ r.mass = e.mass ∧ r.latticeConstant = e.a0 ∧ r.latticeType = e.lat ∧ r.embed = ⟨e.embed⟩ ∧
  ∀ o : String, (lookupLast r.densFS o).map (·.fid) = dictGet e.densTo o

/-! ### helper lemmas for the code tie (dictionary, set and sorting lemmas as in the C12 builder tie) -/
theorem rev_ind {α : Type} {motive : List α → Prop} (nil : motive []) (append_singleton : ∀ l x, motive l → motive (l ++ [x]))
    (l : List α) : motive l := by
  have h : ∀ l : List α, motive l.reverse := by
    intro l
    induction l with
    | nil => exact nil
    | cons x l ih => rw [List.reverse_cons]; exact append_singleton _ _ ih
  simpa using h l.reverse

section dict
variable {β : Type}

theorem lookupLast_append_single (d : List (String × β)) (k : String) (v : β) (s : String) :
    lookupLast (d ++ [(k, v)]) s = if s = k then some v else lookupLast d s := by
  simp only [lookupLast, List.reverse_append, List.reverse_cons, List.reverse_nil, List.nil_append, List.singleton_append, List.find?_cons]
  by_cases h : s = k
  · subst h; simp
  · have : (k == s) = false := by simp [Ne.symm h]
    simp [this, h]

theorem lookupLast_eq_none (d : List (String × β)) (s : String) :
    lookupLast d s = none ↔ s ∉ d.map (·.1) := by
  simp only [lookupLast, Option.map_eq_none_iff, List.find?_eq_none, List.mem_reverse, List.mem_map, not_exists, not_and]
  constructor
  · intro h e he heq
    exact h e he (by simp [heq])
  · intro h e he heq
    exact h e he (by simpa using heq)

theorem find_map_set (k : String) (v : β) (s : String) (l : List (String × β)) :
    ((l.map (fun e => if e.1 == k then (k, v) else e)).find? (fun e => e.1 == s)).map (·.2)
      = if s = k then (l.find? (fun e => e.1 == s)).map (fun _ => v) else (l.find? (fun e => e.1 == s)).map (·.2) := by
  induction l with
  | nil => simp
  | cons e l ih =>
    simp only [List.map_cons, List.find?_cons]
    by_cases h1 : e.1 = k <;> by_cases h2 : s = k
    · subst h2; simp [h1]
    · have : (k == s) = false := by simp [Ne.symm h2]
      have h3 : (e.1 == s) = false := by simp [h1, Ne.symm h2]
      simpa [h1, this, h3, h2] using ih
    · subst h2
      have h3 : (e.1 == s) = false := by simp [h1]
      simpa [h3] using ih
    · have h3 : (e.1 == k) = false := by simp [h1]
      simp only [h3, Bool.false_eq_true, if_false]
      cases h4 : (e.1 == s)
      · simpa [h2] using ih
      · simp [h2]

theorem lookupLast_odictSet (d : List (String × β)) (k : String) (v : β) (s : String) :
    lookupLast (odictSet d k v) s = if s = k then some v else lookupLast d s := by
  unfold odictSet
  split
  · rename_i hany
    simp only [lookupLast, ← List.map_reverse, find_map_set]
    split
    · rename_i hs
      subst hs
      have : ∃ e, d.reverse.find? (fun e => e.1 == s) = some e := by
        rw [← Option.isSome_iff_exists, List.find?_isSome]
        simpa using hany
      obtain ⟨e, he⟩ := this
      simp [he]
    · rfl
  · exact lookupLast_append_single d k v s

theorem keys_odictSet (d : List (String × β)) (k : String) (v : β) :
    (odictSet d k v).map (·.1) = if (d.map (·.1)).contains k then d.map (·.1) else d.map (·.1) ++ [k] := by
  unfold odictSet
  have : d.any (fun e => e.1 == k) = (d.map (·.1)).contains k := by
    induction d with
    | nil => rfl
    | cons e d ih => simp only [List.any_cons, ih, List.map_cons, List.contains_cons]; rw [Bool.beq_comm]
  rw [this]
  split
  · rw [List.map_map]
    apply List.map_congr_left
    intro e _
    by_cases h : e.1 = k <;> simp [h]
  · simp

theorem lookupLast_odictSetDefault (d : List (String × β)) (k : String) (v : β) (s : String) :
    lookupLast (odictSetDefault d k v) s = match lookupLast d s with | some w => some w | none => if s = k then some v else none := by
  unfold odictSetDefault
  split
  · rename_i hany
    cases h : lookupLast d s with
    | some w => rfl
    | none =>
      have := (lookupLast_eq_none d s).1 h
      have hk : s ≠ k := by
        rintro rfl
        apply this
        simp at hany ⊢
        exact hany
      simp [hk]
  · rw [lookupLast_append_single]
    rename_i hany
    by_cases hk : s = k
    · subst hk
      have : lookupLast d s = none := by
        rw [lookupLast_eq_none]; simpa using hany
      simp [this]
    · simp only [hk, if_false]
      cases lookupLast d s <;> rfl

end dict
theorem to_dict_loop_eq (mkFn : Pfi → FnRec) (d : List (String × FnRec)) (u : Unit) (tl rows : List EmbRow) :
    eam_to_dict_loop1 mkFn d u tl rows = rows.foldl (fun d r => odictSet d r.species (mkFn r.pfi)) d := by
  induction rows generalizing d with
  | nil => rfl
  | cons r rows ih => simp only [eam_to_dict_loop1, List.foldl_cons]; exact ih _

theorem eraseDupsSp_append_single (l : List Sp) (x : Sp) :
    eraseDupsSp (l ++ [x]) = if (eraseDupsSp l).contains x then eraseDupsSp l else eraseDupsSp l ++ [x] := by
  unfold eraseDupsSp
  rw [List.foldl_append]
  rfl

theorem mem_eraseDupsSp (l : List Sp) (x : Sp) : x ∈ eraseDupsSp l ↔ x ∈ l := by
  induction l using rev_ind generalizing x with
  | nil => simp [eraseDupsSp]
  | append_singleton l y ih =>
    rw [eraseDupsSp_append_single]
    split
    · rename_i h
      have hy : y ∈ l := by simpa [ih] using h
      by_cases hxy : x = y
      · subst hxy; simp [ih, hy]
      · simp [ih, hxy]
    · simp [ih]

theorem nodup_eraseDupsSp (l : List Sp) : (eraseDupsSp l).Nodup := by
  induction l using rev_ind with
  | nil => simp [eraseDupsSp]
  | append_singleton l y ih =>
    rw [eraseDupsSp_append_single]
    split
    · exact ih
    · rename_i h
      rw [List.nodup_append]
      refine ⟨ih, by simp, ?_⟩
      intro a ha b hb
      simp at hb
      subst hb
      rintro rfl
      exact h (by simpa using ha)

theorem to_dict_keys (mkFn : Pfi → FnRec) (rows : List EmbRow) :
    (eam_to_dict mkFn rows ()).map (·.1) = eraseDupsSp (rows.map (·.species)) := by
  unfold eam_to_dict
  rw [to_dict_loop_eq]
  induction rows using rev_ind with
  | nil => rfl
  | append_singleton rows r ih =>
    rw [List.foldl_append, List.foldl_cons, List.foldl_nil, keys_odictSet, ih, List.map_append, List.map_singleton,
      eraseDupsSp_append_single]

theorem dictGet_eq_lookupLast (d : List (Sp × Fid)) (s : Sp) : dictGet d s = lookupLast d s := by
  unfold dictGet lookupLast
  cases List.find? _ _ <;> rfl

theorem to_dict_lookup (mkFn : Pfi → FnRec) (rows : List EmbRow) (s : String) :
    lookupLast (eam_to_dict mkFn rows ()) s = (dictGet (rowsOf mkFn rows) s).map FnRec.mk := by
  unfold eam_to_dict
  rw [to_dict_loop_eq, dictGet_eq_lookupLast]
  induction rows using rev_ind with
  | nil => rfl
  | append_singleton rows r ih =>
    rw [List.foldl_append, List.foldl_cons, List.foldl_nil, lookupLast_odictSet, ih]
    simp only [rowsOf, List.map_append, List.map_singleton]
    rw [lookupLast_append_single]
    split <;> simp

theorem rowsOf_keys (mkFn : Pfi → FnRec) (rows : List EmbRow) : (rowsOf mkFn rows).map (·.1) = rows.map (·.species) := by
  simp [rowsOf]

theorem mem_listToSet (l : List String) (x : String) : x ∈ listToSet l ↔ x ∈ l := by
  induction l with
  | nil => simp [listToSet]
  | cons y l ih =>
    simp only [listToSet, List.mem_cons, List.mem_filter, ih]
    by_cases h : x = y <;> simp [h]

theorem nodup_listToSet (l : List String) : (listToSet l).Nodup := by
  induction l with
  | nil => simp [listToSet]
  | cons y l ih =>
    simp only [listToSet, List.nodup_cons, List.mem_filter]
    exact ⟨by simp, ih.filter _⟩

theorem mem_setDiff (a b : List String) (x : String) : x ∈ setDiff a b ↔ x ∈ a ∧ x ∉ b := by
  simp [setDiff]
theorem foldl_odictSet_lookup {β : Type} (n : β) (l : List String) (E : List (String × β)) (s : String) :
    lookupLast (l.foldl (fun E s => odictSet E s n) E) s = if s ∈ l then some n else lookupLast E s := by
  induction l generalizing E with
  | nil => simp
  | cons x l ih =>
    rw [List.foldl_cons, ih, lookupLast_odictSet]
    by_cases h1 : s ∈ l <;> by_cases h2 : s = x <;> simp [h1, h2]

theorem foldl_odictSet_keys {β : Type} (n : β) (l : List String) (E : List (String × β)) (hnd : l.Nodup)
    (hdis : ∀ s ∈ l, s ∉ E.map (·.1)) :
    (l.foldl (fun E s => odictSet E s n) E).map (·.1) = E.map (·.1) ++ l := by
  induction l generalizing E with
  | nil => simp
  | cons x l ih =>
    rw [List.foldl_cons, ih _ (List.nodup_cons.1 hnd).2]
    · rw [keys_odictSet]
      have : ¬ ((E.map (·.1)).contains x) = true := by
        simpa using hdis x (by simp)
      rw [if_neg this]
      simp
    · intro s hs
      rw [keys_odictSet]
      have hx : s ≠ x := by rintro rfl; exact (List.nodup_cons.1 hnd).1 hs
      have := hdis s (by simp [hs])
      split
      · exact this
      · simp only [List.mem_append, List.mem_singleton, not_or]
        exact ⟨this, hx⟩

theorem leS_total' (a b : String) : (decide (a ≤ b)) = true ∨ (decide (b ≤ a)) = true := by
  simpa using le_total a b

theorem null_species_eq (densSp K : List String) :
    stableSortBy (fun a b => decide (a ≤ b)) (setDiff (listToSet densSp) K)
      = (sortSp (eraseDupsSp densSp)).filter (fun s => densSp.contains s && !K.contains s) := by
  apply Atsim.C05.TabeamWriter.stableSortBy_eq (fun a b : String => decide (a ≤ b))
  · intro a b; simpa using le_total a b
  · intro a b c; simpa using fun h1 h2 => le_trans h1 h2
  · intro a b; simpa using fun h1 h2 => le_antisymm h1 h2
  · rw [List.perm_ext_iff_of_nodup]
    · intro a
      rw [mem_setDiff, mem_listToSet, List.mem_filter, (C05.TabeamWriter.sortSp_perm _).mem_iff, mem_eraseDupsSp]
      simp
    · exact (nodup_listToSet _).filter _
    · exact (((C05.TabeamWriter.sortSp_perm _).nodup_iff).2 (nodup_eraseDupsSp _)).filter _
  · have := (C05.TabeamWriter.sortSp_sorted (eraseDupsSp densSp)).filter (fun s => densSp.contains s && !K.contains s)
    exact this.imp (by intro a b h; simpa using h)


/-- the zero-filled species of the model, for embedding keys `K` -/
def extrasOf (densSp K : List String) : List String :=
  (sortSp (eraseDupsSp densSp)).filter (fun s => densSp.contains s && !K.contains s)
theorem foldl_setDefault_lookup {β : Type} (n : β) (l : List String) (D : List (String × β)) (s : String) :
    lookupLast (l.foldl (fun D s => odictSetDefault D s n) D) s
      = match lookupLast D s with | some w => some w | none => if s ∈ l then some n else none := by
  induction l generalizing D with
  | nil => cases h : lookupLast D s <;> simp [h]
  | cons x l ih =>
    rw [List.foldl_cons, ih, lookupLast_odictSetDefault]
    cases lookupLast D s with
    | some w => rfl
    | none =>
      by_cases h2 : s = x
      · simp [h2]
      · simp [h2]


/-! ### the Finnis-Sinclair parts -/

/-- the from- and to-species of all rows, in row order -/
def fsSpecies (rows : List FsRow) : List String := rows.flatMap fun r => [r.species.from_species, r.species.to_species]

theorem density_species_loop_eq (density : List FsRow) (acc : List String) (rows : List FsRow) :
    eam_density_species_fs_loop1 density acc rows = listToSet (acc ++ fsSpecies rows) := by
  induction rows generalizing acc with
  | nil => simp [eam_density_species_fs_loop1, fsSpecies]
  | cons r rows ih =>
    simp only [eam_density_species_fs_loop1]
    rw [ih]
    simp [fsSpecies]

theorem density_species_eq (rows : List FsRow) : eam_density_species_fs rows = listToSet (fsSpecies rows) := by
  unfold eam_density_species_fs
  rw [density_species_loop_eq]
  rfl

theorem fsRowsOf_species (mkFn : Pfi → FnRec) (rows : List FsRow) :
    ((fsRowsOf mkFn rows).flatMap fun d => [d.1, d.2.1]) = fsSpecies rows := by
  simp [fsRowsOf, fsSpecies, List.flatMap_map]

/-- look-up in a dictionary of dictionaries -/
def get2 (D : List (String × List (String × FnRec))) (a b : String) : Option FnRec :=
  match lookupLast D a with
  | some d => lookupLast d b
  | none => none

/-- one pass of the body of `_density_to_potential_form_dict`, without the guard -/
def densStep (D : List (String × List (String × FnRec))) (f t : String) (v : FnRec) : List (String × List (String × FnRec)) :=
  odictSet (odictSetDefault D f []) f (odictSet ((lookupLast (odictSetDefault D f []) f).getD []) t v)

theorem lookupLast_setDefault_self {β : Type} (D : List (String × β)) (k : String) (v : β) :
    lookupLast (odictSetDefault D k v) k = some ((lookupLast D k).getD v) := by
  rw [lookupLast_odictSetDefault]
  cases lookupLast D k <;> simp

theorem get2_densStep (D : List (String × List (String × FnRec))) (f t : String) (v : FnRec) (a b : String) :
    get2 (densStep D f t v) a b = if a = f ∧ b = t then some v else get2 D a b := by
  unfold get2 densStep
  rw [lookupLast_odictSet, lookupLast_setDefault_self]
  by_cases ha : a = f
  · subst ha
    simp only [if_true, true_and, lookupLast_odictSet]
    by_cases hb : b = t
    · simp [hb]
    · simp only [hb, if_false]
      cases lookupLast D a <;> simp [lookupLast]
  · simp only [ha, if_false, false_and]
    rw [lookupLast_odictSetDefault]
    cases lookupLast D a <;> simp [ha]

/-- the guard `if t_species in add_to` looks at `get2` -/
theorem guard_eq (D : List (String × List (String × FnRec))) (f t : String) :
    (((lookupLast (odictSetDefault D f []) f).getD []).any fun e => e.1 == t) = (get2 D f t).isSome := by
  rw [lookupLast_setDefault_self]
  unfold get2
  have key : ∀ d : List (String × FnRec), (d.any fun e => e.1 == t) = (lookupLast d t).isSome := by
    intro d
    cases h : lookupLast d t with
    | none =>
      have := (lookupLast_eq_none d t).1 h
      simp only [Option.isSome_none]
      rw [Bool.eq_false_iff]
      intro hany
      apply this
      simp at hany ⊢
      exact hany
    | some w =>
      simp only [Option.isSome_some]
      by_contra hc
      have hn : lookupLast d t = none := by
        rw [lookupLast_eq_none]
        simp at hc ⊢
        exact hc
      rw [hn] at h
      exact absurd h (by simp)
  cases h : lookupLast D f with
  | none => simp
  | some d => simpa using key d

theorem to_dict_fs_loop_cons (mkFn : Pfi → FnRec) (density : List FsRow) (D : List (String × List (String × FnRec))) (r : FsRow) (rows : List FsRow) :
    eam_density_to_dict_fs_loop1 mkFn density D () (r :: rows)
      = if (get2 D r.species.from_species r.species.to_species).isSome then .error BuildErr.duplicateDensity
        else eam_density_to_dict_fs_loop1 mkFn density (densStep D r.species.from_species r.species.to_species (mkFn r.pfi)) () rows := by
  rw [eam_density_to_dict_fs_loop1]
  simp only [guard_eq]
  rfl

/-- the rows' keys -/
def fsKeys (rows : List FsRow) : List (String × String) := rows.map fun r => (r.species.from_species, r.species.to_species)

/-- the declared function of `a->b` -/
def declOf (mkFn : Pfi → FnRec) (rows : List FsRow) (a b : String) : Option FnRec :=
  (rows.find? fun r => r.species.from_species == a && r.species.to_species == b).map fun r => mkFn r.pfi

theorem declOf_none (mkFn : Pfi → FnRec) (rows : List FsRow) (a b : String) (h : (a, b) ∉ fsKeys rows) : declOf mkFn rows a b = none := by
  unfold declOf
  rw [Option.map_eq_none_iff, List.find?_eq_none]
  intro r hr hc
  apply h
  simp only [Bool.and_eq_true, beq_iff_eq] at hc
  simp only [fsKeys, List.mem_map]
  exact ⟨r, hr, by rw [hc.1, hc.2]⟩

theorem to_dict_fs_ok (mkFn : Pfi → FnRec) (density : List FsRow) (rows : List FsRow) (D : List (String × List (String × FnRec)))
    (hnd : (fsKeys rows).Nodup) (hfresh : ∀ r ∈ rows, get2 D r.species.from_species r.species.to_species = none) :
    ∃ D', eam_density_to_dict_fs_loop1 mkFn density D () rows = .ok D' ∧
      ∀ a b, get2 D' a b = match declOf mkFn rows a b with | some v => some v | none => get2 D a b := by
  induction rows generalizing D with
  | nil => exact ⟨D, rfl, fun a b => rfl⟩
  | cons r rows ih =>
    rw [to_dict_fs_loop_cons, hfresh r (by simp)]
    simp only [Option.isSome_none, Bool.false_eq_true, if_false]
    have hnd' : (r.species.from_species, r.species.to_species) ∉ fsKeys rows ∧ (fsKeys rows).Nodup := by
      have := hnd
      unfold fsKeys at this ⊢
      rw [List.map_cons, List.nodup_cons] at this
      exact this
    have hnotin : (r.species.from_species, r.species.to_species) ∉ fsKeys rows := hnd'.1
    obtain ⟨D', hD', hget⟩ := ih (densStep D r.species.from_species r.species.to_species (mkFn r.pfi)) hnd'.2 (by
      intro r' hr'
      rw [get2_densStep]
      have hne : ¬ (r'.species.from_species = r.species.from_species ∧ r'.species.to_species = r.species.to_species) := by
        rintro ⟨h1, h2⟩
        apply hnotin
        simp only [fsKeys, List.mem_map]
        exact ⟨r', hr', by rw [h1, h2]⟩
      rw [if_neg hne]
      exact hfresh r' (by simp [hr']))
    refine ⟨D', hD', ?_⟩
    intro a b
    rw [hget, get2_densStep]
    by_cases hab : a = r.species.from_species ∧ b = r.species.to_species
    · obtain ⟨ha, hb⟩ := hab
      subst ha hb
      rw [declOf_none mkFn rows _ _ hnotin]
      simp [declOf]
    · rw [if_neg hab]
      have : declOf mkFn (r :: rows) a b = declOf mkFn rows a b := by
        unfold declOf
        rw [List.find?_cons]
        have : (r.species.from_species == a && r.species.to_species == b) = false := by
          rw [Bool.eq_false_iff]
          intro hc
          simp only [Bool.and_eq_true, beq_iff_eq] at hc
          exact hab ⟨hc.1.symm, hc.2.symm⟩
        rw [this]
      rw [this]

theorem to_dict_fs_dup (mkFn : Pfi → FnRec) (density : List FsRow) (rows : List FsRow) (D : List (String × List (String × FnRec)))
    (h : ¬ (fsKeys rows).Nodup ∨ ∃ r ∈ rows, get2 D r.species.from_species r.species.to_species ≠ none) :
    eam_density_to_dict_fs_loop1 mkFn density D () rows = .error BuildErr.duplicateDensity := by
  induction rows generalizing D with
  | nil =>
    rcases h with h | ⟨r, hr, _⟩
    · exact absurd (by simp [fsKeys]) h
    · simp at hr
  | cons r rows ih =>
    rw [to_dict_fs_loop_cons]
    split
    · rfl
    · rename_i hguard
      have hg : get2 D r.species.from_species r.species.to_species = none := by
        cases hh : get2 D r.species.from_species r.species.to_species with
        | none => rfl
        | some w => rw [hh] at hguard; simp at hguard
      apply ih
      rcases h with h | ⟨r', hr', hne⟩
      · have : ¬ ((r.species.from_species, r.species.to_species) ∉ fsKeys rows ∧ (fsKeys rows).Nodup) := by
          intro hc
          apply h
          unfold fsKeys at hc ⊢
          rw [List.map_cons, List.nodup_cons]
          exact hc
        by_cases hn : (fsKeys rows).Nodup
        · right
          have hin : (r.species.from_species, r.species.to_species) ∈ fsKeys rows := by
            by_contra hc
            exact this ⟨hc, hn⟩
          simp only [fsKeys, List.mem_map] at hin
          obtain ⟨r', hr', heq⟩ := hin
          refine ⟨r', hr', ?_⟩
          rw [get2_densStep]
          have h1 : r'.species.from_species = r.species.from_species := (Prod.mk.inj heq).1
          have h2 : r'.species.to_species = r.species.to_species := (Prod.mk.inj heq).2
          simp [h1, h2]
        · exact Or.inl hn
      · right
        rcases List.mem_cons.1 hr' with rfl | hr''
        · exact absurd hg hne
        · refine ⟨r', hr'', ?_⟩
          rw [get2_densStep]
          split
          · simp
          · exact hne


/-! #### zero-filling of the embedding dictionary -/

theorem null_embed_fs_loop_eq (cp : CpEamFS) (defined : List String) (density : List FsRow) (dd : List (String × List (String × FnRec))) (ds : List String)
    (E : List (String × FnRec)) (null : FnRec) (nes l : List String) :
    eam_add_null_embed_fs_loop1 cp defined density dd ds E null nes l = l.foldl (fun E s => odictSet E s null) E := by
  induction l generalizing E with
  | nil => rfl
  | cons r rows ih => simp only [eam_add_null_embed_fs_loop1, List.foldl_cons]; exact ih _

theorem add_null_embed_fs_keys (cp : CpEamFS) (E : List (String × FnRec)) (dd : List (String × List (String × FnRec))) :
    (eam_add_null_embed_fs cp E dd).map (·.1) = E.map (·.1) ++ extrasOf (fsSpecies cp.eam_density_fs) (E.map (·.1)) := by
  unfold eam_add_null_embed_fs eam_extract_density_fs
  simp only []
  rw [null_embed_fs_loop_eq, density_species_eq, null_species_eq, foldl_odictSet_keys]
  · rfl
  · exact (((C05.TabeamWriter.sortSp_perm _).nodup_iff).2 (nodup_eraseDupsSp _)).filter _
  · intro s hs
    have := (List.mem_filter.1 hs).2
    simp only [Bool.and_eq_true, Bool.not_eq_true'] at this
    simpa using this.2

theorem add_null_embed_fs_lookup (cp : CpEamFS) (E : List (String × FnRec)) (dd : List (String × List (String × FnRec))) (s : String) :
    lookupLast (eam_add_null_embed_fs cp E dd) s
      = if s ∈ extrasOf (fsSpecies cp.eam_density_fs) (E.map (·.1)) then some zeroFn else lookupLast E s := by
  unfold eam_add_null_embed_fs eam_extract_density_fs
  simp only []
  rw [null_embed_fs_loop_eq, density_species_eq, null_species_eq, foldl_odictSet_lookup]
  rfl

theorem mem_extrasOf (densSp K : List String) (s : String) : s ∈ extrasOf densSp K ↔ s ∈ densSp ∧ s ∉ K := by
  unfold extrasOf
  rw [List.mem_filter, (C05.TabeamWriter.sortSp_perm _).mem_iff, mem_eraseDupsSp]
  simp

/-! #### zero-filling of the density dictionaries -/

/-- the inner loop: every species of `order` gets the zero function unless it has one -/
def fillD (order : List String) (d : List (String × FnRec)) : List (String × FnRec) :=
  order.foldl (fun d o => odictSetDefault d o zeroFn) d

theorem null_dens_fs_loop2_eq (setOrder : List String → List String) (all : List String) (cp : CpEamFS) (density : List FsRow)
    (D : List (String × List (String × FnRec))) (ds : List String) (E : List (String × FnRec)) (es : List String) (d : List (String × FnRec))
    (s : String) (l : List String) :
    eam_add_null_dens_fs_loop2 setOrder all cp density D ds E es zeroFn d s l = fillD l d := by
  unfold fillD
  induction l generalizing d with
  | nil => rfl
  | cons r rows ih => simp only [eam_add_null_dens_fs_loop2, List.foldl_cons]; exact ih _

/-- the body of the outer loop -/
def outerStep (order : List String) (D : List (String × List (String × FnRec))) (s : String) : List (String × List (String × FnRec)) :=
  odictSet (odictSetDefault D s []) s (fillD order ((lookupLast (odictSetDefault D s []) s).getD []))

theorem null_dens_fs_loop1_eq (setOrder : List String → List String) (all : List String) (cp : CpEamFS) (density : List FsRow)
    (D : List (String × List (String × FnRec))) (ds : List String) (E : List (String × FnRec)) (es : List String) (l : List String) :
    eam_add_null_dens_fs_loop1 setOrder all cp density D ds E es zeroFn l = l.foldl (outerStep (setOrder all)) D := by
  induction l generalizing D with
  | nil => rfl
  | cons r rows ih =>
    simp only [eam_add_null_dens_fs_loop1, List.foldl_cons, null_dens_fs_loop2_eq]
    exact ih _

/-- what the inner loop does to a look-up -/
def fillLk (order : List String) (x : Option FnRec) (o : String) : Option FnRec :=
  match x with
  | some w => some w
  | none => if o ∈ order then some zeroFn else none

theorem fillLk_idem (order : List String) (x : Option FnRec) (o : String) : fillLk order (fillLk order x o) o = fillLk order x o := by
  cases x with
  | some w => rfl
  | none => by_cases h : o ∈ order <;> simp [fillLk, h]

theorem lookup_outerStep (order : List String) (D : List (String × List (String × FnRec))) (x a : String) :
    lookupLast (outerStep order D x) a = if a = x then some (fillD order ((lookupLast D x).getD [])) else lookupLast D a := by
  unfold outerStep
  rw [lookupLast_odictSet, lookupLast_setDefault_self]
  by_cases ha : a = x
  · simp [ha]
  · simp only [ha, if_false]
    rw [lookupLast_odictSetDefault]
    cases lookupLast D a <;> simp [ha]

theorem get2_outerStep (order : List String) (D : List (String × List (String × FnRec))) (x a b : String) :
    get2 (outerStep order D x) a b = if a = x then fillLk order (get2 D a b) b else get2 D a b := by
  unfold get2
  rw [lookup_outerStep]
  by_cases ha : a = x
  · subst ha
    simp only [if_true]
    unfold fillD
    rw [foldl_setDefault_lookup]
    cases lookupLast D a with
    | none => simp [fillLk, lookupLast]
    | some d => simp only [Option.getD_some]; cases lookupLast d b <;> simp [fillLk]
  · simp only [ha, if_false]

theorem get2_foldl_outerStep (order : List String) (l : List String) (D : List (String × List (String × FnRec))) (a b : String) :
    get2 (l.foldl (outerStep order) D) a b = if a ∈ l then fillLk order (get2 D a b) b else get2 D a b := by
  induction l generalizing D with
  | nil => simp
  | cons x l ih =>
    rw [List.foldl_cons, ih, get2_outerStep]
    by_cases h1 : a = x <;> by_cases h2 : a ∈ l <;> simp [h1, h2, fillLk_idem]

theorem isSome_foldl_outerStep (order : List String) (l : List String) (D : List (String × List (String × FnRec))) (a : String)
    (h : a ∈ l ∨ (lookupLast D a).isSome) : (lookupLast (l.foldl (outerStep order) D) a).isSome := by
  induction l generalizing D with
  | nil =>
    rcases h with h | h
    · simp at h
    · exact h
  | cons x l ih =>
    rw [List.foldl_cons]
    apply ih
    rw [lookup_outerStep]
    by_cases hax : a = x
    · right; simp [hax]
    · rcases h with h | h
      · left
        rcases List.mem_cons.1 h with h | h
        · exact absurd h hax
        · exact h
      · right; simpa [hax] using h

theorem add_null_dens_fs_spec (setOrder : List String → List String) (hperm : ∀ l, (setOrder l).Perm l) (cp : CpEamFS)
    (E : List (String × FnRec)) (D : List (String × List (String × FnRec))) (s : String) (hs : s ∈ E.map (·.1))
    (hsub : ∀ x ∈ fsSpecies cp.eam_density_fs, x ∈ E.map (·.1)) :
    ∃ found, lookupLast (eam_add_null_dens_fs setOrder cp E D) s = some found ∧
      ∀ o, lookupLast found o = match get2 D s o with | some w => some w | none => if o ∈ E.map (·.1) then some zeroFn else none := by
  have hmem : ∀ x, x ∈ setOrder (setUnion (E.map fun e => e.1) (eam_density_species_fs (eam_extract_density_fs cp))) ↔ x ∈ E.map (·.1) := by
    intro x
    rw [(hperm _).mem_iff]
    unfold setUnion eam_extract_density_fs
    rw [List.mem_append, mem_setDiff, density_species_eq, mem_listToSet]
    constructor
    · rintro (h | ⟨h, _⟩)
      · exact h
      · exact hsub x h
    · exact Or.inl
  unfold eam_add_null_dens_fs
  simp only []
  rw [null_dens_fs_loop1_eq]
  have hsome := isSome_foldl_outerStep (setOrder (setUnion (E.map fun e => e.1) (eam_density_species_fs (eam_extract_density_fs cp))))
    (setOrder (setUnion (E.map fun e => e.1) (eam_density_species_fs (eam_extract_density_fs cp)))) D s (Or.inl ((hmem s).2 hs))
  obtain ⟨found, hfound⟩ := Option.isSome_iff_exists.1 hsome
  refine ⟨found, hfound, ?_⟩
  intro o
  have := get2_foldl_outerStep (setOrder (setUnion (E.map fun e => e.1) (eam_density_species_fs (eam_extract_density_fs cp))))
    (setOrder (setUnion (E.map fun e => e.1) (eam_density_species_fs (eam_extract_density_fs cp)))) D s o
  rw [if_pos ((hmem s).2 hs)] at this
  unfold get2 at this
  rw [hfound] at this
  simp only [] at this
  rw [this]
  unfold fillLk get2
  cases hD : lookupLast D s with
  | none =>
    simp only []
    by_cases ho : o ∈ E.map (·.1)
    · rw [if_pos ((hmem o).2 ho), if_pos ho]
    · rw [if_neg (fun h => ho ((hmem o).1 h)), if_neg ho]
  | some d =>
    simp only []
    cases lookupLast d o with
    | some w => rfl
    | none =>
      simp only []
      by_cases ho : o ∈ E.map (·.1)
      · rw [if_pos ((hmem o).2 ho), if_pos ho]
      · rw [if_neg (fun h => ho ((hmem o).1 h)), if_neg ho]


/-! #### the model's elements, the per-species call and the final loop -/

/-- the model's dictionary `{neighbour : function}` of central species `s` over the species `all` -/
def modelDensTo (dens : List (Sp × Sp × Fid)) (all : List Sp) (s : Sp) : List (Sp × Fid) :=
  all.map fun o => (o, match dens.find? (fun d => d.1 == s && d.2.1 == o) with
                       | some d => d.2.2
                       | none => 0)

/-- the model's per-species constructor -/
def mkElFS (embed : List (Sp × Fid)) (dens : List (Sp × Sp × Fid)) (all : List Sp) (spMeta : Sp → Option (Int × Rat × Rat × String)) (s : Sp) : Option El :=
  match spMeta s with
  | none => none
  | some (z, m, a, l) =>
    some { sp := s, z := z, mass := m, a0 := a, lat := l, embed := (dictGet embed s).getD 0, dens := 0, densTo := modelDensTo dens all s }

/-- the model's species list -/
def allOf (embed : List (Sp × Fid)) (dens : List (Sp × Sp × Fid)) : List Sp :=
  eraseDupsSp (embed.map (·.1)) ++ extrasOf (dens.flatMap fun d => [d.1, d.2.1]) (eraseDupsSp (embed.map (·.1)))

theorem eamBuildFS_eq (embed : List (Sp × Fid)) (dens : List (Sp × Sp × Fid)) (spMeta : Sp → Option (Int × Rat × Rat × String)) :
    eamBuildFS embed dens spMeta = (allOf embed dens).mapM (mkElFS embed dens (allOf embed dens) spMeta) := rfl

theorem dictGet_map_self (f : Sp → Fid) (l : List Sp) (o : Sp) :
    dictGet (l.map fun o => (o, f o)) o = if o ∈ l then some (f o) else none := by
  rw [dictGet_eq_lookupLast]
  induction l using rev_ind with
  | nil => simp [lookupLast]
  | append_singleton l x ih =>
    rw [List.map_append, List.map_singleton, lookupLast_append_single, ih]
    by_cases h : o = x
    · subst h; simp
    · simp [h]

/-- what the per-species call has to deliver -/
def CreateOk (r : Except BuildErr EamRec) (m : Option El) : Prop :=
  match m with
  | some el => ∃ rec, r = .ok rec ∧ SameEl rec el
  | none => ∃ e, r = .error e ∧ (e = BuildErr.noAtomicNumber ∨ e = BuildErr.noMass)

theorem create_fs_spec (refMass : String → Option Rat) (refNumber : String → Option Int) (refLatticeConstant : String → Option Rat)
    (refLatticeType : String → Option String) (embed : List (Sp × Fid)) (dens : List (Sp × Sp × Fid)) (all : List Sp) (s : String)
    (E' : List (String × FnRec)) (D' : List (String × List (String × FnRec)))
    (hE : lookupLast E' s = some ⟨(dictGet embed s).getD 0⟩)
    (hD : ∃ found, lookupLast D' s = some found ∧ ∀ o, (lookupLast found o).map (·.fid) = dictGet (modelDensTo dens all s) o) :
    CreateOk (eam_create_potential_fs refMass refNumber refLatticeConstant refLatticeType s E' D')
      (mkElFS embed dens all (metaOf refMass refNumber refLatticeConstant refLatticeType) s) := by
  obtain ⟨found, hfound, hlk⟩ := hD
  unfold eam_create_potential_fs mkElFS metaOf eam_get_atomic_number eam_get_mass eam_get_lattice_constant eam_get_lattice_type
  rw [hE, hfound]
  cases refNumber s with
  | none => simp [CreateOk, andThen]
  | some z =>
    cases refMass s with
    | none => simp [CreateOk, andThen]
    | some m =>
      cases refLatticeConstant s <;> cases refLatticeType s <;> simp [CreateOk, andThen, SameEl, hlk]

/-- what the final loop has to deliver -/
def LoopOk (acc : List EamRec) (r : Except BuildErr (List EamRec)) (m : Option (List El)) : Prop :=
  match m with
  | some els => ∃ recs, r = .ok (acc ++ recs) ∧ List.Forall₂ SameEl recs els
  | none => ∃ e, r = .error e ∧ (e = BuildErr.noAtomicNumber ∨ e = BuildErr.noMass)

theorem loop1_fs_spec (mkFn : Pfi → FnRec) (setOrder : List String → List String)
    (refMass : String → Option Rat) (refNumber : String → Option Int) (refLatticeConstant : String → Option Rat)
    (refLatticeType : String → Option String) (cp : CpEamFS) (density : List FsRow) (D' : List (String × List (String × FnRec))) (ds diff : List String)
    (embed : List EmbRow) (E' : List (String × FnRec)) (es : List String) (b : Bool) (g : String → Option El) (l : List String)
    (h : ∀ s ∈ l, CreateOk (eam_create_potential_fs refMass refNumber refLatticeConstant refLatticeType s E' D') (g s))
    (acc : List EamRec) :
    LoopOk acc (eam_init_potentials_fs_loop1 mkFn setOrder refMass refNumber refLatticeConstant refLatticeType cp density D' ds diff embed E' es
      () () () acc b l) (l.mapM g) := by
  induction l generalizing acc with
  | nil => exact ⟨[], by simp [eam_init_potentials_fs_loop1], List.Forall₂.nil⟩
  | cons x l ih =>
    have hx := h x (by simp)
    have ih' := fun acc => ih (fun s hs => h s (by simp [hs])) acc
    unfold eam_init_potentials_fs_loop1
    rw [List.mapM_cons]
    cases hg : g x with
    | none =>
      rw [hg] at hx
      obtain ⟨e, he, hee⟩ := hx
      rw [he]
      exact ⟨e, rfl, hee⟩
    | some el =>
      rw [hg] at hx
      obtain ⟨rec, hrec, hsame⟩ := hx
      rw [hrec]
      simp only [andThen]
      have := ih' (acc ++ [rec])
      cases hm : l.mapM g with
      | none =>
        rw [hm] at this
        exact this
      | some els =>
        rw [hm] at this
        obtain ⟨recs, hrecs, hall⟩ := this
        refine ⟨rec :: recs, ?_, List.Forall₂.cons hsame hall⟩
        rw [hrecs]
        simp

theorem loop3_fs_eq_loop1 (mkFn : Pfi → FnRec) (setOrder : List String → List String)
    (refMass : String → Option Rat) (refNumber : String → Option Int) (refLatticeConstant : String → Option Rat)
    (refLatticeType : String → Option String) (cp : CpEamFS) (density : List FsRow) (D' : List (String × List (String × FnRec))) (ds diff : List String)
    (embed : List EmbRow) (E' : List (String × FnRec)) (es : List String) (b : Bool) (l : List String) (acc : List EamRec) :
    eam_init_potentials_fs_loop3 mkFn setOrder refMass refNumber refLatticeConstant refLatticeType cp density D' ds diff embed E' es () () () acc b l
      = eam_init_potentials_fs_loop1 mkFn setOrder refMass refNumber refLatticeConstant refLatticeType cp density D' ds diff embed E' es () () () acc b l := by
  induction l generalizing acc with
  | nil => rfl
  | cons x l ih =>
    unfold eam_init_potentials_fs_loop3 eam_init_potentials_fs_loop1
    simp only [ih]

/-- with zero-filling on, the builder is: the density dictionaries, then (both branches of the species comparison being the same code) the final loop over the zero-filled dictionaries -/
theorem init_fs_eq_loop1 (mkFn : Pfi → FnRec) (setOrder : List String → List String)
    (refMass : String → Option Rat) (refNumber : String → Option Int) (refLatticeConstant : String → Option Rat)
    (refLatticeType : String → Option String) (cp : CpEamFS) :
    eam_init_potentials_fs mkFn setOrder refMass refNumber refLatticeConstant refLatticeType true cp () ()
      = andThen (eam_density_to_dict_fs mkFn cp.eam_density_fs ()) fun D0 =>
        eam_init_potentials_fs_loop1 mkFn setOrder refMass refNumber refLatticeConstant refLatticeType cp cp.eam_density_fs
          (eam_add_null_dens_fs setOrder cp (eam_add_null_embed_fs cp (eam_to_dict mkFn cp.eam_embed ()) D0) D0)
          (eam_density_species_fs cp.eam_density_fs) (setSymDiff (eam_embed_species cp.eam_embed) (eam_density_species_fs cp.eam_density_fs)) cp.eam_embed
          (eam_add_null_embed_fs cp (eam_to_dict mkFn cp.eam_embed ()) D0) (eam_embed_species cp.eam_embed) () () () [] true
          ((eam_add_null_embed_fs cp (eam_to_dict mkFn cp.eam_embed ()) D0).map (·.1)) := by
  unfold eam_init_potentials_fs eam_extract_embed_fs eam_extract_density_fs eam_embed_to_dict
  simp only [if_true]
  split
  · rfl
  · congr 1
    funext D0
    exact loop3_fs_eq_loop1 ..

theorem find_fsRowsOf (mkFn : Pfi → FnRec) (rows : List FsRow) (s o : String) :
    (fsRowsOf mkFn rows).find? (fun d => d.1 == s && d.2.1 == o)
      = (rows.find? fun r => r.species.from_species == s && r.species.to_species == o).map
          fun r => (r.species.from_species, r.species.to_species, (mkFn r.pfi).fid) := by
  unfold fsRowsOf
  rw [List.find?_map]
  rfl

theorem builder_core_fs (mkFn : Pfi → FnRec) (setOrder : List String → List String) (hperm : ∀ l, (setOrder l).Perm l)
    (refMass : String → Option Rat) (refNumber : String → Option Int) (refLatticeConstant : String → Option Rat)
    (refLatticeType : String → Option String) (cp : CpEamFS) (density : List FsRow) (embed : List EmbRow) (ds diff es : List String) (b : Bool)
    (D0 : List (String × List (String × FnRec))) (hD0 : ∀ a o, get2 D0 a o = declOf mkFn cp.eam_density_fs a o) :
    LoopOk [] (eam_init_potentials_fs_loop1 mkFn setOrder refMass refNumber refLatticeConstant refLatticeType cp density
        (eam_add_null_dens_fs setOrder cp (eam_add_null_embed_fs cp (eam_to_dict mkFn cp.eam_embed ()) D0) D0)
        ds diff embed (eam_add_null_embed_fs cp (eam_to_dict mkFn cp.eam_embed ()) D0) es () () () [] b
        ((eam_add_null_embed_fs cp (eam_to_dict mkFn cp.eam_embed ()) D0).map (·.1)))
      (eamBuildFS (rowsOf mkFn cp.eam_embed) (fsRowsOf mkFn cp.eam_density_fs) (metaOf refMass refNumber refLatticeConstant refLatticeType)) := by
  rw [eamBuildFS_eq]
  have hall : allOf (rowsOf mkFn cp.eam_embed) (fsRowsOf mkFn cp.eam_density_fs)
      = eraseDupsSp (cp.eam_embed.map (·.species))
          ++ extrasOf (fsSpecies cp.eam_density_fs) (eraseDupsSp (cp.eam_embed.map (·.species))) := by
    unfold allOf
    rw [rowsOf_keys, fsRowsOf_species]
  have hkeys : (eam_add_null_embed_fs cp (eam_to_dict mkFn cp.eam_embed ()) D0).map (·.1)
      = allOf (rowsOf mkFn cp.eam_embed) (fsRowsOf mkFn cp.eam_density_fs) := by
    rw [add_null_embed_fs_keys, to_dict_keys, hall]
  have hsub : ∀ x ∈ fsSpecies cp.eam_density_fs, x ∈ allOf (rowsOf mkFn cp.eam_embed) (fsRowsOf mkFn cp.eam_density_fs) := by
    intro x hx
    rw [hall, List.mem_append, mem_extrasOf]
    by_cases hk : x ∈ eraseDupsSp (cp.eam_embed.map (·.species))
    · exact Or.inl hk
    · exact Or.inr ⟨hx, hk⟩
  rw [hkeys]
  apply loop1_fs_spec
  intro s hs
  apply create_fs_spec
  · rw [add_null_embed_fs_lookup, to_dict_keys, to_dict_lookup]
    split
    · rename_i hex
      have hnot : s ∉ cp.eam_embed.map (·.species) := by
        have h2 := ((mem_extrasOf _ _ _).1 hex).2
        rwa [mem_eraseDupsSp] at h2
      have : dictGet (rowsOf mkFn cp.eam_embed) s = none := by
        rw [dictGet_eq_lookupLast, lookupLast_eq_none, rowsOf_keys]
        exact hnot
      rw [this]
      rfl
    · rename_i hex
      have hin : s ∈ cp.eam_embed.map (·.species) := by
        rw [hall] at hs
        rcases List.mem_append.1 hs with h | h
        · rwa [mem_eraseDupsSp] at h
        · exact absurd h hex
      cases hd : dictGet (rowsOf mkFn cp.eam_embed) s with
      | none =>
        rw [dictGet_eq_lookupLast, lookupLast_eq_none, rowsOf_keys] at hd
        exact absurd hin hd
      | some f => rfl
  · obtain ⟨found, hfound, hlk⟩ := add_null_dens_fs_spec setOrder hperm cp
      (eam_add_null_embed_fs cp (eam_to_dict mkFn cp.eam_embed ()) D0) D0 s (by rw [hkeys]; exact hs) (by rw [hkeys]; exact hsub)
    refine ⟨found, hfound, ?_⟩
    intro o
    rw [hlk, hkeys, hD0]
    unfold modelDensTo
    rw [dictGet_map_self]
    rw [find_fsRowsOf]
    unfold declOf
    cases hf : cp.eam_density_fs.find? (fun r => r.species.from_species == s && r.species.to_species == o) with
    | none =>
      by_cases ho : o ∈ allOf (rowsOf mkFn cp.eam_embed) (fsRowsOf mkFn cp.eam_density_fs)
      · simp [ho, zeroFn]
      · simp [ho]
    | some r =>
      have hr := List.mem_of_find?_eq_some hf
      have hp := List.find?_some hf
      simp only [Bool.and_eq_true, beq_iff_eq] at hp
      have ho : o ∈ allOf (rowsOf mkFn cp.eam_embed) (fsRowsOf mkFn cp.eam_density_fs) := by
        apply hsub
        unfold fsSpecies
        rw [List.mem_flatMap]
        exact ⟨r, hr, by simp [hp.2]⟩
      simp [ho]

end FSTie

open Atsim.Gen.Logic FSTie in
/-- **code tie (Finnis-Sinclair zero-filling builder, any set iteration order)**: for a model that declares no `A->B` twice, the regenerated builder returns the model's
elements, in the model's order, each holding under every neighbour species B the function of the entry `A->B` (zero when undeclared) - whatever order the two set loops
of `_add_null_density_functions` run in; when the reference data lacks an atomic number or a mass it fails with that error -/
theorem C04_code_eam_builder_fs (mkFn : Pfi → FnRec) (setOrder : List String → List String) (hperm : ∀ l, (setOrder l).Perm l)
    (refMass : String → Option Rat) (refNumber : String → Option Int) (refLatticeConstant : String → Option Rat) (refLatticeType : String → Option String)
    (cp : CpEamFS) (hnd : NoDupDecl cp.eam_density_fs) :
    match eamBuildFS (rowsOf mkFn cp.eam_embed) (fsRowsOf mkFn cp.eam_density_fs) (metaOf refMass refNumber refLatticeConstant refLatticeType) with
    | some els => ∃ recs, eam_init_potentials_fs mkFn setOrder refMass refNumber refLatticeConstant refLatticeType true cp () () = .ok recs ∧
                   List.Forall₂ SameEl recs els
    | none => ∃ e, eam_init_potentials_fs mkFn setOrder refMass refNumber refLatticeConstant refLatticeType true cp () () = .error e ∧
                   (e = BuildErr.noAtomicNumber ∨ e = BuildErr.noMass) := by
  rw [init_fs_eq_loop1]
  obtain ⟨D0, hD0, hget⟩ := to_dict_fs_ok mkFn cp.eam_density_fs cp.eam_density_fs [] hnd (fun _ _ => rfl)
  have hD0' : eam_density_to_dict_fs mkFn cp.eam_density_fs () = .ok D0 := hD0
  rw [hD0']
  simp only [andThen]
  have hget' : ∀ a o, get2 D0 a o = declOf mkFn cp.eam_density_fs a o := by
    intro a o
    rw [hget]
    cases declOf mkFn cp.eam_density_fs a o <;> rfl
  have := builder_core_fs mkFn setOrder hperm refMass refNumber refLatticeConstant refLatticeType cp cp.eam_density_fs cp.eam_embed
    (eam_density_species_fs cp.eam_density_fs) (setSymDiff (eam_embed_species cp.eam_embed) (eam_density_species_fs cp.eam_density_fs))
    (eam_embed_species cp.eam_embed) true D0 hget'
  revert this
  cases eamBuildFS (rowsOf mkFn cp.eam_embed) (fsRowsOf mkFn cp.eam_density_fs) (metaOf refMass refNumber refLatticeConstant refLatticeType) with
  | none => exact id
  | some els => intro h; simpa [LoopOk] using h

open Atsim.Gen.Logic FSTie in
/-- an `A->B` declared twice is refused (the configuration parser refuses it earlier: C20; this is the builder's own guard) -/
theorem C04_code_eam_builder_fs_duplicate (mkFn : Pfi → FnRec) (setOrder : List String → List String)
    (refMass : String → Option Rat) (refNumber : String → Option Int) (refLatticeConstant : String → Option Rat) (refLatticeType : String → Option String)
    (cp : CpEamFS) (hd : ¬ NoDupDecl cp.eam_density_fs) :
    eam_init_potentials_fs mkFn setOrder refMass refNumber refLatticeConstant refLatticeType true cp () () = .error BuildErr.duplicateDensity := by
  rw [init_fs_eq_loop1]
  have : eam_density_to_dict_fs mkFn cp.eam_density_fs () = .error BuildErr.duplicateDensity :=
    to_dict_fs_dup mkFn cp.eam_density_fs cp.eam_density_fs [] (Or.inl hd)
  rw [this]
  rfl

end Atsim.C04

/-! ## Code tie: the key of a Finnis-Sinclair `[EAM-Density]` entry (`_parse_eam_fs_density_line.species_func`, regenerated) -/
namespace Atsim.C04
open Atsim Atsim.Gen.Logic

namespace FsKey

theorem split_none : ∀ l : List Char, '>' ∉ l → splitChars2 '-' '>' l = [l]
  | [], _ => rfl
  | [_], _ => rfl
  | x :: y :: rest, h => by
    have hy : y ≠ '>' := by
      intro e; apply h; simp [e]
    have ih := split_none (y :: rest) (by
      intro hm; apply h; exact List.mem_cons_of_mem _ hm)
    rw [splitChars2, ih]
    simp [hy]

theorem split_arrow : ∀ a b : List Char, '>' ∉ a → '>' ∉ b →
    splitChars2 '-' '>' (a ++ '-' :: '>' :: b) = [a, b]
  | [], b, _, hb => by
    simp [splitChars2, split_none b hb]
  | [x], b, _, hb => by
    have ih := split_arrow [] b (by simp) hb
    simp only [List.nil_append] at ih
    simp only [List.cons_append, List.nil_append]
    rw [splitChars2, ih]
    simp
  | x :: z :: a', b, ha, hb => by
    have hz : z ≠ '>' := by
      intro e; apply ha; simp [e]
    have ih := split_arrow (z :: a') b (by
      intro hm; apply ha; exact List.mem_cons_of_mem _ hm) hb
    simp only [List.cons_append] at ih ⊢
    rw [splitChars2, ih]
    simp [hz]

end FsKey

/-- `"A->B".split("->")`: when neither label holds a `>` the two pieces are the labels, in the order written -/
theorem C04_code_fs_key_split (a b : String) (ha : '>' ∉ a.toList) (hb : '>' ∉ b.toList) :
    pySplit2 (a ++ "->" ++ b) '-' '>' = [a, b] := by
  have h2 : ("->" : String).toList = ['-', '>'] := by decide
  unfold pySplit2
  rw [String.toList_append, String.toList_append, h2, List.append_assoc]
  show List.map String.ofList (splitChars2 '-' '>' (a.toList ++ '-' :: '>' :: b.toList)) = [a, b]
  rw [FsKey.split_arrow _ _ ha hb]
  simp

/-- **code tie**: the key `A->B` is read as (from = A, to = B): the text BEFORE the arrow is the central species whose density dictionary gets the entry, the text after it
the neighbour under which it is stored (`C04_builder`, `C04_code_eam_builder_fs`); labels may hold `-` and digits (`O2-->U4+`); blank labels are refused -/
theorem C04_code_fs_key (a b : String) (ha : '>' ∉ a.toList) (hb : '>' ∉ b.toList) :
    fs_species_func Atsim.strip (a ++ "->" ++ b) =
      (if Atsim.strip a ≠ "" ∧ Atsim.strip b ≠ "" then .ok (Atsim.strip a, Atsim.strip b) else .error CfgErr.blankSpecies) := by
  unfold fs_species_func
  rw [C04_code_fs_key_split a b ha hb]
  by_cases h1 : Atsim.strip a = "" <;> by_cases h2 : Atsim.strip b = "" <;> simp [h1, h2]

/-- a key without an arrow, or with more than one, is refused -/
theorem C04_code_fs_key_arity (k : String) (h : (pySplit2 k '-' '>').length ≠ 2) :
    fs_species_func Atsim.strip k = .error CfgErr.notTwoParts := by
  unfold fs_species_func
  have h' : ¬ (((pySplit2 k '-' '>').length : Nat) : Int) = 2 := by
    intro e; apply h; exact_mod_cast e
  simp [h']

end Atsim.C04

namespace Atsim.C04
open Atsim Atsim.Gen.Logic

namespace FsKey

theorem split_ne_nil (a b : Char) : ∀ l : List Char, splitChars2 a b l ≠ []
  | [] => by simp [splitChars2]
  | [_] => by simp [splitChars2]
  | x :: y :: rest => by
    rw [splitChars2]
    split
    · simp
    · split <;> simp

theorem split_length_pos (a b : Char) (l : List Char) : 1 ≤ (splitChars2 a b l).length :=
  List.length_pos_iff.mpr (split_ne_nil a b l)

theorem split_length_skip (a b x y : Char) (rest : List Char) (h : ¬ ((x == a && y == b) = true)) :
    (splitChars2 a b (x :: y :: rest)).length = (splitChars2 a b (y :: rest)).length := by
  rw [splitChars2, if_neg h]
  cases hs : splitChars2 a b (y :: rest) with
  | nil => exact absurd hs (split_ne_nil a b _)
  | cons p ps => simp

theorem contains_iff : ∀ l : List Char,
    charsContain ['-', '>'] l = true ↔ 2 ≤ (splitChars2 '-' '>' l).length
  | [] => by simp [charsContain, splitChars2]
  | [x] => by simp [charsContain, splitChars2, List.isPrefixOf]
  | x :: y :: rest => by
    by_cases hm : (x == '-' && y == '>') = true
    · have hp := split_length_pos '-' '>' rest
      have hl : charsContain ['-', '>'] (x :: y :: rest) = true := by
        rw [charsContain]
        simp only [Bool.and_eq_true, beq_iff_eq] at hm
        simp [List.isPrefixOf, hm.1, hm.2]
      have hr : (splitChars2 '-' '>' (x :: y :: rest)).length = (splitChars2 '-' '>' rest).length + 1 := by
        rw [splitChars2, if_pos hm]; simp
      rw [hr]
      constructor
      · intro _; omega
      · intro _; exact hl
    · rw [split_length_skip _ _ _ _ _ hm, ← contains_iff (y :: rest)]
      have hpre : List.isPrefixOf ['-', '>'] (x :: y :: rest) = false := by
        simp only [Bool.and_eq_true, beq_iff_eq, not_and] at hm
        simp only [List.isPrefixOf, Bool.and_true]
        by_cases hx : x = '-'
        · have := hm hx
          simp [hx, Ne.symm this]
        · simp [Ne.symm hx]
      conv_lhs => rw [charsContain, hpre, Bool.false_or]

end FsKey

/-- **code tie (the two arrow tests agree)**: `parsed_sections` chooses the Finnis-Sinclair flavour of `[EAM-Density]` by `"->" in key`, the line parser splits the key at `"->"`:
the key holds the arrow exactly when the split gives at least two pieces -/
theorem C04_code_fs_key_has_arrow (k : String) :
    strContains k "->" = true ↔ 2 ≤ (pySplit2 k '-' '>').length := by
  have h2 : ("->" : String).toList = ['-', '>'] := by decide
  unfold strContains pySplit2
  rw [h2, List.length_map]
  exact FsKey.contains_iff k.toList

/-- a key without the arrow (a plain EAM density key) is never read as a Finnis-Sinclair key -/
theorem C04_code_fs_key_no_arrow (k : String) (h : strContains k "->" = false) :
    fs_species_func Atsim.strip k = .error CfgErr.notTwoParts := by
  apply C04_code_fs_key_arity
  intro e
  have := (C04_code_fs_key_has_arrow k).mpr (by omega)
  rw [h] at this
  exact Bool.noConfusion this

end Atsim.C04
