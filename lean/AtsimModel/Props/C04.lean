import AtsimModel.Model.Eam
import Mathlib.Data.String.Basic
import AtsimModel.Lemmas.KernelQ
import AtsimModel.Lemmas.TokSem
import AtsimModel.Props.C03
import AtsimModel.Props.C05
/-!
# C04 — Finnis-Sinclair densities land in the slot the consumer reads for that pair

`dens α β` below always means: the function the MODEL declares for "central species α, neighbouring
species β" (`EAMPotential(α).electronDensityFunction[β]`, potable `[EAM-Density] α->β`).

The consumer rules are part of the specification (written from the repository's documentation of
`EAMPotential`, of `[EAM-Density] A->B` and of the LAMMPS `eam/fs` / DL_POLY EEAM formats):

* LAMMPS `eam/fs` (setfl): in the element block of element `I`, the `j`-th density function is the
  density contributed BY an `I` atom AT a site of the `j`-th element of the header.
* DL_POLY EEAM (TABEAM): block `dens A B` is the density at an `A` site from a `B` neighbour.
* Excel: column `A->B` likewise.

Tie to the code: `harness/props/C04.py`.
-/
namespace Atsim.C04
open Atsim

/-- density function a model element declares towards a neighbour species (zero when undeclared) -/
def densOf (e : El) (β : Sp) : Fid := (dictGet e.densTo β).getD 0

/-- LAMMPS eam/fs consumer: density at an `α` site contributed by a `β` neighbour = the (index of α)-th density
    list in the block of element β -/
def consumerLAMMPS (f : SetflFile) (α β : Sp) : Option (List Slot) :=
  match f.elements[f.names.idxOf β]? with
  | none => none
  | some blk => blk.dens[f.names.idxOf α]?

/-- setfl_fs: for any element list without repeated names, any two listed elements: the consumer reads exactly the
    sampled function the model declares for (central α, neighbour β) -/
theorem C04_setfl_slot (nrho : Nat) (drho : Rat) (nr : Nat) (dr : Rat) (els : List El) (pairs : List PairDecl)
    (hnd : (els.map (·.sp)).Nodup) (i j : Nat) (hi : i < els.length) (hj : j < els.length) :
    consumerLAMMPS (setfl true nrho drho nr dr els pairs) els[i].sp els[j].sp
      = some (sampled (densOf els[i] els[j].sp) nr dr) := by
  have hidx : ∀ (k : Nat) (hk : k < els.length), (els.map (·.sp)).idxOf els[k].sp = k := by
    intro k hk
    have h := hnd.idxOf_getElem k (by simpa using hk)
    simpa using h
  unfold consumerLAMMPS
  simp only [setfl, hidx i hi, hidx j hj]
  rw [List.getElem?_eq_getElem (by simpa using hj)]
  simp only [List.getElem_map, elBlock, if_true]
  rw [List.getElem?_eq_getElem (by simpa using hi)]
  simp [densOf]

/-- a writer that transposes the routing is refuted on a fully asymmetric two-species model (non-vacuity of the slot theorem) -/
def exFS : List El :=
  [⟨"Al", 13, 27, 4, "fcc", 1, 0, [("Al", 11), ("Cu", 12)]⟩, ⟨"Cu", 29, 63, 3, "fcc", 2, 0, [("Al", 21), ("Cu", 22)]⟩]

example : consumerLAMMPS (setfl true 2 1 2 1 exFS []) "Al" "Cu" = some [.val 12 0, .val 12 1] := by decide +kernel
example : consumerLAMMPS (setfl true 2 1 2 1 exFS []) "Cu" "Al" = some [.val 21 0, .val 21 1] := by decide +kernel

/-- DL_POLY EEAM: the `dens` blocks are exactly one block per (element a, listed species β), labelled `a β`, carrying `dens a β` -/
theorem C04_tabeam_slot (nrho : Nat) (drho : Rat) (nr : Nat) (dr : Rat) (els : List El) (pairs : List PairDecl) :
    (tabeam true nrho drho nr dr els pairs).blocks.filter (fun b => b.kw == "dens") =
      els.flatMap fun a => (sortSp (els.map (·.sp))).map fun β => tblock "dens" [a.sp, β] (densOf a β) nr dr := by
  have h1 : (tabeamPairs els pairs nr dr).filter (fun b => b.kw == "dens") = [] := by
    rw [List.filter_eq_nil_iff]
    intro b hb
    unfold tabeamPairs at hb
    rw [List.mem_map] at hb
    obtain ⟨k, _, rfl⟩ := hb
    split <;> simp [tblock]
  have h2 : (els.map fun e => tblock "embe" [e.sp] e.embed nrho drho).filter (fun b => b.kw == "dens") = [] := by
    rw [List.filter_eq_nil_iff]
    intro b hb
    rw [List.mem_map] at hb
    obtain ⟨k, _, rfl⟩ := hb
    simp [tblock]
  have h3 : (els.flatMap fun a => (sortSp (els.map (·.sp))).map fun β =>
      tblock "dens" [a.sp, β] (densOf a β) nr dr).filter (fun b => b.kw == "dens")
      = els.flatMap fun a => (sortSp (els.map (·.sp))).map fun β => tblock "dens" [a.sp, β] (densOf a β) nr dr := by
    rw [List.filter_eq_self]
    intro b hb
    rw [List.mem_flatMap] at hb
    obtain ⟨a, _, hb⟩ := hb
    rw [List.mem_map] at hb
    obtain ⟨k, _, rfl⟩ := hb
    simp [tblock]
  simp only [tabeam, if_true, List.filter_append, h1, h2, List.nil_append]
  exact h3

/-- Excel: the density sheet's columns are built from exactly the labelled functions `"a->t" ↦ dens a t` -/
theorem C04_excel_cols (els : List El) (pairs : List PairDecl) (cut : Rat) (nr : Nat) (cutrho : Rat) (nrho : Nat) :
    (excelEam true els pairs cut nr cutrho nrho)[1]? =
      some (sheet "EAM-Density" "r" nr cut (els.flatMap fun e => e.densTo.map fun (t, f) => (e.sp ++ "->" ++ t, f))) := by
  simp [excelEam]

theorem mapM_some_forall2 {α β : Type} (f : α → Option β) :
    ∀ (l : List α) (r : List β), l.mapM f = some r → List.Forall₂ (fun s e => f s = some e) l r := by
  intro l
  induction l with
  | nil => intro r h; simp at h; subst h; exact .nil
  | cons a l ih =>
    intro r h
    rw [List.mapM_cons] at h
    cases hfa : f a with
    | none => simp [hfa] at h
    | some b =>
      cases hl : l.mapM f with
      | none => simp [hfa, hl] at h
      | some bs =>
        simp [hfa, hl] at h
        subst h
        exact .cons hfa (ih bs hl)

theorem forall2_mem_right {α β : Type} {R : α → β → Prop} {l : List α} {r : List β}
    (h : List.Forall₂ R l r) : ∀ e ∈ r, ∃ s ∈ l, R s e := by
  induction h with
  | nil => intro e he; simp at he
  | cons hab _ ih =>
    intro e he
    rcases List.mem_cons.mp he with rfl | he
    · exact ⟨_, List.mem_cons_self, hab⟩
    · obtain ⟨s, hs, hr⟩ := ih e he
      exact ⟨s, List.mem_cons_of_mem _ hs, hr⟩

theorem forall2_map_eq {α β : Type} {R : α → β → Prop} {l : List α} {r : List β} (g : β → α)
    (h : List.Forall₂ R l r) (hg : ∀ s e, R s e → g e = s) : r.map g = l := by
  induction h with
  | nil => rfl
  | cons hab _ ih => simp [hg _ _ hab, ih]

/-- lookup in a dict built as `{o : g o for o in l}` -/
theorem dictGet_map_self (l : List Sp) (g : Sp → Fid) (o : Sp) (ho : o ∈ l) :
    dictGet (l.map fun o => (o, g o)) o = some (g o) := by
  unfold dictGet
  cases hf : (l.map fun o => (o, g o)).reverse.find? (fun p => p.1 == o) with
  | none =>
    rw [List.find?_eq_none] at hf
    have := hf (o, g o) (List.mem_reverse.mpr (List.mem_map.mpr ⟨o, ho, rfl⟩))
    simp at this
  | some p =>
    have hp := List.find?_some hf
    have hm := List.mem_of_find?_eq_some hf
    simp only [List.mem_reverse, List.mem_map] at hm
    obtain ⟨q, _, rfl⟩ := hm
    simp at hp
    subst hp
    rfl

/-- potable builder: the entry `A->B : f` is stored as the density of central A towards neighbour B, whatever the order of
    the entries; combinations that were not declared are zero -/
theorem C04_builder (embed : List (Sp × Fid)) (dens : List (Sp × Sp × Fid)) (extraOrder : List Sp)
    (spMeta : Sp → Option (Int × Rat × Rat × String)) (els : List El) (h : eamBuildFSWith embed dens extraOrder spMeta = some els) :
    ∀ e ∈ els, ∀ o ∈ els.map (·.sp),
      densOf e o = (match dens.find? (fun d => d.1 == e.sp && d.2.1 == o) with
                    | some d => d.2.2
                    | none => 0) := by
  have hF := mapM_some_forall2 _ _ _ h
  have hsp : els.map (·.sp) = _ := forall2_map_eq (·.sp) hF (by
    intro s e hse
    split at hse
    · cases hse
    · cases hse; rfl)
  intro e he o ho
  rw [hsp] at ho
  obtain ⟨s, _, hse⟩ := forall2_mem_right hF e he
  split at hse
  · cases hse
  · cases hse
    have key := congrArg (fun x => Option.getD x 0)
      (dictGet_map_self _ (fun o => match dens.find? (fun d => d.1 == s && d.2.1 == o) with
        | some d => d.2.2
        | none => 0) o ho)
    exact key

/-- zero fill: an undeclared combination reads as the zero function in the setfl file -/
theorem C04_zero_fill (f : Fid) (n : Nat) (step : Rat) (h : f = 0) : ∀ s ∈ sampled f n step, s = Slot.zero := by
  subst h
  intro s hs
  unfold sampled at hs
  rw [List.mem_map] at hs
  obtain ⟨k, _, rfl⟩ := hs
  simp [mkSlot]

/-- cluster statement: the per-neighbour density terms of an `α` atom, read from the setfl file by the consumer rule,
    are term by term those computed directly from the model -/
theorem C04_cluster (nrho : Nat) (drho : Rat) (nr : Nat) (dr : Rat) (els : List El) (pairs : List PairDecl)
    (hnd : (els.map (·.sp)).Nodup) (i : Nat) (hi : i < els.length) (neigh : List (Fin els.length × Fin nr)) :
    neigh.map (fun (nb : Fin els.length × Fin nr) =>
        ((consumerLAMMPS (setfl true nrho drho nr dr els pairs) els[i].sp els[nb.1].sp).getD [])[nb.2.val]?)
      = neigh.map (fun (nb : Fin els.length × Fin nr) => some (mkSlot (densOf els[i] els[nb.1].sp) ((nb.2.val : Rat) * dr))) := by
  apply List.map_congr_left
  intro nb _
  simp only [Fin.getElem_fin]
  rw [C04_setfl_slot nrho drho nr dr els pairs hnd i nb.1.val hi nb.1.isLt]
  simp only [Option.getD_some, sampled]
  rw [List.getElem?_eq_getElem (by simp)]
  simp

end Atsim.C04

/-! ## kernel ties: the arithmetic the code uses at these places, regenerated from the source on every run, is the model's -/
namespace Atsim.C04
open Atsim.Gen Atsim.E
set_option linter.unusedTactic false
set_option linter.unusedSimpArgs false
theorem C04_kernel_args (nrho : Nat) (drho : Rat) (nr : Nat) (dr : Rat) :
    k_setfl_fs_args.map (evalQ (envQ [nrho, drho, nr, dr])) = [(nrho : Rat), drho, (nr : Rat), dr] ∧
    k_tabeam_fs_args.map (evalQ (envQ [nrho, drho, nr, dr])) = [(nrho : Rat), drho, (nr : Rat), dr] := by
  constructor
  · kernel_unfold [k_setfl_fs_args]
    kernel_close
  · kernel_unfold [k_tabeam_fs_args]
    kernel_close

/-! ## The code itself: Finnis-Sinclair density routing in the setfl writer, regenerated from the source

`Atsim.Gen.Logic.setfl_density_fs` is `_lammpsWriteEAM._writeSetFLDensityFunctionFinnisSinclair` as produced by `translator/py2lean_logic.py` on every run. -/

namespace SetflFsWriter
open Atsim.Gen.Logic Atsim.TokSem

/-- the one-number line the loops emit -/
def numTok (v : OV) : Tok := ⟨"% 20.16e\n", [v]⟩

theorem intRange_zero (n : Nat) : intRange 0 (n : Int) = (List.range n).map fun (k : Nat) => (k : Int) := by
  simp [intRange]

theorem streamSem_append (I : String → Nat → Rat → Rat) (a b : List Tok) : streamSem I (a ++ b) = streamSem I a ++ streamSem I b := by
  simp [streamSem]

/-- a plain function value: the model's slot (function id 0 is the zero function) -/
theorem tokSem_value (I : String → Nat → Rat → Rat) (hI : ZeroFn I) (f : Nat) (x : Rat) :
    tokSem I (numTok (.fn "value" f x)) = numLine (slotVal I "value" (mkSlot f x)) := by
  unfold mkSlot
  split
  · next h => subst h; simp [tokSem, numTok, numLine, slotVal, ovEval, hI "value" x]
  · simp [tokSem, numTok, numLine, slotVal, ovEval]

theorem density_function_loop_eq (dr : Rat) (f : FnRec) (nr : Int) :
    ∀ (xs : List Int) (out : List Tok),
      setfl_density_function_loop1 dr f nr out xs = out ++ xs.map fun (i : Int) => numTok (evalFnOV f ((i : Rat) * dr)) := by
  intro xs
  induction xs with
  | nil => intro out; simp [setfl_density_function_loop1]
  | cons i is ih =>
    intro out
    simp only [setfl_density_function_loop1, ih, List.map_cons, numTok]
    simp [List.append_assoc]

theorem density_function_sem (I : String → Nat → Rat → Rat) (hI : ZeroFn I) (f : Nat) (nr : Nat) (dr : Rat) (out : List Tok) :
    streamSem I (setfl_density_function ⟨f⟩ (nr : Int) dr out) =
      streamSem I out ++ (sampled f nr dr).map (fun s => numLine (slotVal I "value" s)) := by
  unfold setfl_density_function
  rw [density_function_loop_eq, streamSem_append, intRange_zero]
  congr 1
  simp only [streamSem, sampled, List.map_map]
  apply List.map_congr_left
  intro k _
  simp only [Function.comp, evalFnOV, Int.cast_natCast]
  exact tokSem_value I hI f _

/-- `otherpot.electronDensityFunction[species]` read from the writer's record is the model's dictionary look-up (absent = zero function) -/
theorem densOf_toEam (o : El) (sp : String) : Atsim.Gen.Logic.densOf (toEam o) sp = ⟨(dictGet o.densTo sp).getD 0⟩ := by
  unfold Atsim.Gen.Logic.densOf dictGet toEam
  simp only [← List.map_reverse, List.find?_map]
  have hfun : ((fun e : String × FnRec => e.1 == sp) ∘ fun p : Sp × Fid => (p.1, (⟨p.2⟩ : FnRec))) = fun p : Sp × Fid => p.1 == sp := rfl
  rw [hfun]
  cases o.densTo.reverse.find? (fun p : Sp × Fid => p.1 == sp) <;> simp

theorem density_fs_loop_sem (I : String → Nat → Rat → Rat) (hI : ZeroFn I) (e : El) (els : List EamRec) (nr : Nat) (dr : Rat) (out : List Tok) :
    ∀ (xs : List El) (wk : List Tok),
      streamSem I (setfl_density_fs_loop1 dr (toEam e) els (nr : Int) out wk (xs.map toEam)) =
        streamSem I out ++ streamSem I wk ++
          ((xs.map fun other => sampled ((dictGet other.densTo e.sp).getD 0) nr dr).flatten).map (fun s => numLine (slotVal I "value" s)) := by
  intro xs
  induction xs with
  | nil => intro wk; simp [setfl_density_fs_loop1, streamSem]
  | cons o os ih =>
    intro wk
    simp only [List.map_cons, setfl_density_fs_loop1, ih, densOf_toEam, density_function_sem I hI,
      List.flatten_cons, List.map_append, List.append_assoc]
    simp [toEam]

end SetflFsWriter

open Atsim.Gen.Logic Atsim.TokSem in
/-- **code tie (routing)**: in the block of element `e` the writer emits, for each element `other` in header order, `nr` values of
    `other.electronDensityFunction[e.species]` (zero when that entry is absent) at `i*dr` - exactly the model's `elBlock true`, the block `C04_setfl_slot` is about -/
theorem C04_code_density_fs (I : String → Nat → Rat → Rat) (hI : ZeroFn I) (e : El) (els : List El) (nr : Nat) (dr : Rat) (out : List Tok) :
    streamSem I (setfl_density_fs (toEam e) (els.map toEam) (nr : Int) dr out) =
      streamSem I out ++ ((elBlock true els 0 0 nr dr e).dens.flatten).map (fun s => numLine (slotVal I "value" s)) := by
  unfold setfl_density_fs
  rw [SetflFsWriter.density_fs_loop_sem I hI]
  simp [elBlock, streamSem]

/-! ## The code itself: the whole extended-EAM TABEAM file (`writeTABEAMFinnisSinclair`)

`Atsim.Gen.Logic.tabeam_write_fs` is the function as regenerated on every run: `numpots = 3n(n+1)/2`, the common part, then for every element A (in the order given) and
every label B of the SORTED label list the look-up `A.electronDensityFunction[B]` - a `KeyError` becomes the writer's error - written under the header `dens A B`. -/

namespace TabeamFsWriter
open Atsim.Gen.Logic Atsim.TokSem Atsim.C05 Atsim.C05.TabeamWriter

/-- `eamPotential.electronDensityFunction[speciesB]` read from the writer's record is the model's dictionary look-up, absent keys included -/
theorem densOfOpt_toEam (a : El) (b : String) : densOfOpt (toEam a) b = (dictGet a.densTo b).map FnRec.mk := by
  unfold densOfOpt dictGet toEam
  simp only [← List.map_reverse, List.find?_map]
  have hfun : ((fun e : String × FnRec => e.1 == b) ∘ fun p : Sp × Fid => (p.1, (⟨p.2⟩ : FnRec))) = fun p : Sp × Fid => p.1 == b := rfl
  rw [hfun]
  cases a.densTo.reverse.find? (fun p : Sp × Fid => p.1 == b) <;> simp

theorem leS_total (a b : String) : leS a b = true ∨ leS b a = true := by
  simpa [leS] using String.le_total a b

theorem leS_trans (a b c : String) : leS a b = true → leS b c = true → leS a c = true := by
  simp only [leS, decide_eq_true_eq]
  exact String.le_trans

theorem leS_antisymm (a b : String) : leS a b = true → leS b a = true → a = b := by
  simp only [leS, decide_eq_true_eq]
  exact String.le_antisymm

/-- `sorted(ep.species for ep in eampots)` is the model's sorted label list -/
theorem species_sorted_eq (els : List El) :
    stableSortBy (fun a b => decide (a ≤ b)) ((els.map toEam).map fun ep => ep.species) = sortSp (els.map (·.sp)) := by
  have hm : ((els.map toEam).map fun ep => ep.species) = els.map (·.sp) := by
    rw [List.map_map]; rfl
  rw [hm]
  apply stableSortBy_eq leS leS_total leS_trans leS_antisymm _ _ (sortSp_perm _).symm
  exact (sortSp_sorted _).imp (fun h => decide_eq_true h)

/-- inner loop, every look-up succeeds: one `dens A B` block per label, in the order of the label list -/
theorem fs_loop2_sem (I : String → Nat → Rat → Rat) (hI : ZeroFn I) (dr drho : Rat) (a : El) (ha : a.sp ≠ "") (E : List EamRec) (nr : Nat) (nrho : Int)
    (numpots : Rat) (out0 : List Tok) (PP : List PotRec) (SL : List String) (title : String) :
    ∀ (bs : List String) (out : List Tok), (∀ b ∈ bs, b ≠ "" ∧ (dictGet a.densTo b).isSome) →
      ∃ r, tabeam_write_fs_loop2 dr drho (toEam a) E (nr : Int) nrho numpots out0 out PP a.sp SL title bs = .ok r ∧
        streamSem I r = streamSem I out ++
          (bs.map fun b => tblock "dens" [a.sp, b] ((dictGet a.densTo b).getD 0) nr dr).flatMap (tblockSem I)
  | [], out, _ => ⟨out, rfl, by simp⟩
  | b :: bs, out, h => by
    obtain ⟨hb, hs⟩ := h b List.mem_cons_self
    obtain ⟨f, hf⟩ := Option.isSome_iff_exists.1 hs
    have hd : densOfOpt (toEam a) b = some ⟨f⟩ := by rw [densOfOpt_toEam, hf]; rfl
    obtain ⟨r, hr, hsem⟩ := fs_loop2_sem I hI dr drho a ha E nr nrho numpots out0 PP SL title bs
      (tabeam_density a.sp (some b) ⟨f⟩ (nr : Int) dr out) (fun b' hb' => h b' (List.mem_cons_of_mem _ hb'))
    refine ⟨r, ?_, ?_⟩
    · simp only [tabeam_write_fs_loop2, hd]
      exact hr
    · rw [hsem, C05_code_density_pair I hI a.sp b ha hb, rowLine_eq]
      simp [hf, tblockSem, tblock, List.append_assoc]

/-- outer loop, every look-up succeeds: for every element in the order given, its blocks for the label list -/
theorem fs_loop1_sem (I : String → Nat → Rat → Rat) (hI : ZeroFn I) (dr drho : Rat) (E : List EamRec) (nr : Nat) (nrho : Int)
    (numpots : Rat) (out0 : List Tok) (PP : List PotRec) (SL : List String) (title : String) (hSL : ∀ b ∈ SL, b ≠ "") :
    ∀ (els : List El) (out : List Tok), (∀ a ∈ els, a.sp ≠ "" ∧ ∀ b ∈ SL, (dictGet a.densTo b).isSome) →
      ∃ r, tabeam_write_fs_loop1 dr drho E (nr : Int) nrho numpots out0 out PP SL title (els.map toEam) = .ok r ∧
        streamSem I r = streamSem I out ++
          (els.flatMap fun a => SL.map fun b => tblock "dens" [a.sp, b] ((dictGet a.densTo b).getD 0) nr dr).flatMap (tblockSem I)
  | [], out, _ => ⟨out, rfl, by simp⟩
  | a :: els, out, h => by
    obtain ⟨ha, hs⟩ := h a List.mem_cons_self
    obtain ⟨r2, hr2, hsem2⟩ := fs_loop2_sem I hI dr drho a ha E nr nrho numpots out0 PP SL title SL out
      (fun b hb => ⟨hSL b hb, hs b hb⟩)
    obtain ⟨r, hr, hsem⟩ := fs_loop1_sem I hI dr drho E nr nrho numpots out0 PP SL title hSL els r2
      (fun a' ha' => h a' (List.mem_cons_of_mem _ ha'))
    refine ⟨r, ?_, ?_⟩
    · simp only [List.map_cons, tabeam_write_fs_loop1]
      have hsp : (toEam a).species = a.sp := rfl
      rw [hsp, hr2]
      exact hr
    · rw [hsem, hsem2]
      simp [List.append_assoc]

/-- the inner loop raises nothing but the missing-entry error -/
theorem fs_loop2_ok_or (dr drho : Rat) (p : EamRec) (E : List EamRec) (nr nrho : Int) (numpots : Rat) (out0 : List Tok) (PP : List PotRec)
    (A : String) (SL : List String) (title : String) :
    ∀ (bs : List String) (out : List Tok),
      (∃ r, tabeam_write_fs_loop2 dr drho p E nr nrho numpots out0 out PP A SL title bs = .ok r) ∨
        tabeam_write_fs_loop2 dr drho p E nr nrho numpots out0 out PP A SL title bs = .error WErr.missingDensity
  | [], out => Or.inl ⟨out, rfl⟩
  | b :: bs, out => by
    simp only [tabeam_write_fs_loop2]
    cases densOfOpt p b with
    | none => exact Or.inr rfl
    | some f => exact fs_loop2_ok_or dr drho p E nr nrho numpots out0 PP A SL title bs _

/-- inner loop, an entry is missing for some label of the list: the error -/
theorem fs_loop2_missing (dr drho : Rat) (p : EamRec) (E : List EamRec) (nr nrho : Int) (numpots : Rat) (out0 : List Tok) (PP : List PotRec)
    (A : String) (SL : List String) (title : String) (b : String) (hmiss : densOfOpt p b = none) :
    ∀ (bs : List String) (out : List Tok), b ∈ bs →
      tabeam_write_fs_loop2 dr drho p E nr nrho numpots out0 out PP A SL title bs = .error WErr.missingDensity
  | [], _, h => by simp at h
  | x :: bs, out, h => by
    simp only [tabeam_write_fs_loop2]
    cases hx : densOfOpt p x with
    | none => rfl
    | some f =>
      rcases List.mem_cons.1 h with rfl | h'
      · rw [hmiss] at hx; cases hx
      · exact fs_loop2_missing dr drho p E nr nrho numpots out0 PP A SL title b hmiss bs _ h'

/-- outer loop, some element of the list lacks an entry for some label: the error -/
theorem fs_loop1_missing (dr drho : Rat) (E : List EamRec) (nr nrho : Int) (numpots : Rat) (out0 : List Tok) (PP : List PotRec)
    (SL : List String) (title : String) (p : EamRec) (b : String) (hb : b ∈ SL) (hmiss : densOfOpt p b = none) :
    ∀ (ps : List EamRec) (out : List Tok), p ∈ ps →
      tabeam_write_fs_loop1 dr drho E nr nrho numpots out0 out PP SL title ps = .error WErr.missingDensity
  | [], _, h => by simp at h
  | x :: ps, out, h => by
    simp only [tabeam_write_fs_loop1]
    rcases List.mem_cons.1 h with rfl | h'
    · rw [fs_loop2_missing dr drho p E nr nrho numpots out0 PP p.species SL title b hmiss SL out hb]
      rfl
    · rcases fs_loop2_ok_or dr drho x E nr nrho numpots out0 PP x.species SL title SL out with ⟨r, hr⟩ | he
      · rw [hr]
        exact fs_loop1_missing dr drho E nr nrho numpots out0 PP SL title p b hb hmiss ps r h'
      · rw [he]
        rfl

/-- the declared count `3n(n+1)/2` is a whole number: the model's ℕ division is exact -/
theorem count_fs (n : Nat) : ((3 * n * (n + 1) / 2 : Nat) : Rat) = ((3 : Rat) * (n : Rat)) * ((n : Rat) + 1) / 2 := by
  have h1 : 2 ∣ 3 * n * (n + 1) := by
    rcases Nat.even_or_odd n with ⟨k, hk⟩ | ⟨k, hk⟩
    · exact ⟨3 * k * (n + 1), by rw [hk]; ring⟩
    · exact ⟨3 * n * (k + 1), by rw [hk]; ring⟩
  rw [Nat.cast_div h1 (by norm_num)]
  push_cast
  rfl

end TabeamFsWriter

open Atsim.Gen.Logic Atsim.TokSem in
/-- **code tie (routing)**: when every element's dictionary has an entry for every label, the file is the model's `tabeam true …`: the block headed `dens A B` holds
    the values of A's dictionary entry for B, for every ordered pair, A in element order and B in sorted order -/
theorem C04_code_tabeam_fs (I : String → Nat → Rat → Rat) (hI : ZeroFn I) (els : List El) (pairs : List PairDecl)
    (hnd : (els.map (·.sp)).Nodup) (hne : ∀ e ∈ els, e.sp ≠ "")
    (hfull : ∀ a ∈ els, ∀ b ∈ els, (dictGet a.densTo b.sp).isSome)
    (nrho nr : Nat) (drho dr : Rat) (title : String) (out : List Tok) :
    (tabeam_write_fs (nrho : Int) drho (nr : Int) dr (els.map toEam) (pairs.map toPot) out title).map (streamSem I) =
      .ok (streamSem I out ++ tabeamSem I title (tabeam true nrho drho nr dr els pairs)) := by
  unfold tabeam_write_fs
  simp only []
  rw [TabeamFsWriter.species_sorted_eq]
  have hmemS : ∀ b, b ∈ sortSp (els.map (·.sp)) → ∃ e ∈ els, e.sp = b := by
    intro b hb
    rw [(Atsim.C05.TabeamWriter.sortSp_perm _).mem_iff, List.mem_map] at hb
    exact hb
  obtain ⟨r, hr, hsem⟩ := TabeamFsWriter.fs_loop1_sem I hI dr drho (els.map toEam) nr (nrho : Int)
    ((((3 : Rat) * (((((els.map toEam).length : Nat) : Int) : Int) : Rat)) * ((((((els.map toEam).length : Nat) : Int) : Int) : Rat) + (1 : Rat))) / (2 : Rat))
    out (pairs.map toPot) (sortSp (els.map (·.sp))) title
    (by intro b hb; obtain ⟨e, he, rfl⟩ := hmemS b hb; exact hne e he)
    els
    (tabeam_except_density (nrho : Int) drho (nr : Int) dr (els.map toEam) (pairs.map toPot) title
      ((((3 : Rat) * (((((els.map toEam).length : Nat) : Int) : Int) : Rat)) * ((((((els.map toEam).length : Nat) : Int) : Int) : Rat) + (1 : Rat))) / (2 : Rat)) [])
    (by
      intro a ha
      refine ⟨hne a ha, ?_⟩
      intro b hb
      obtain ⟨e, he, rfl⟩ := hmemS b hb
      exact hfull a ha e he)
  rw [hr]
  simp only [andThen, Except.map]
  rw [Atsim.C05.TabeamWriter.streamSem_append, hsem, Atsim.C05.C05_code_except_density I hI els pairs hnd]
  simp only [tabeamSem, tabeam, if_true, TabeamFsWriter.count_fs, List.length_map, Int.cast_natCast, List.flatMap_append,
    List.append_assoc]
  simp [streamSem]

open Atsim.Gen.Logic Atsim.TokSem in
/-- **code tie (no silent substitution)**: when some element's dictionary lacks an entry for some label, nothing is written: the writer raises -/
theorem C04_code_tabeam_fs_missing (els : List El) (pairs : List PairDecl) (a b : El) (ha : a ∈ els) (hb : b ∈ els)
    (hmiss : dictGet a.densTo b.sp = none)
    (nrho nr : Nat) (drho dr : Rat) (title : String) (out : List Tok) :
    tabeam_write_fs (nrho : Int) drho (nr : Int) dr (els.map toEam) (pairs.map toPot) out title = .error WErr.missingDensity := by
  unfold tabeam_write_fs
  simp only []
  rw [TabeamFsWriter.species_sorted_eq]
  have hb' : b.sp ∈ sortSp (els.map (·.sp)) := by
    rw [(Atsim.C05.TabeamWriter.sortSp_perm _).mem_iff]
    exact List.mem_map.2 ⟨b, hb, rfl⟩
  have hm : densOfOpt (toEam a) b.sp = none := by
    rw [TabeamFsWriter.densOfOpt_toEam, hmiss]; rfl
  rw [TabeamFsWriter.fs_loop1_missing dr drho _ _ _ _ _ _ _ _ (toEam a) b.sp hb' hm _ _ (List.mem_map.2 ⟨a, ha, rfl⟩)]
  rfl


/-! ## The code itself: the whole Finnis-Sinclair setfl file (`writeSetFLFinnisSinclair`) -/

open Atsim.Gen.Logic Atsim.TokSem in
/-- **code tie (whole file, eam/fs)**: header as for eam/alloy; in the block of element `e`, for each element `other` in header order, the `nr` values of
    `other`'s dictionary entry for `e` - the model's `setfl true` (the slot `C04_setfl_slot` is about) -/
theorem C04_code_write_fs (I : String → Nat → Rat → Rat) (hI : ZeroFn I)
    (nrho : Nat) (drho : Rat) (nr : Nat) (dr : Rat) (cutoff : Option Rat) (els : List El) (pairs : List PairDecl) (comments : List String) (out : List Tok) :
    streamSem I (setfl_write_fs (nrho : Int) drho (nr : Int) dr (els.map toEam) (pairs.map toPot) out comments cutoff) =
      streamSem I out ++ setflSem I comments (effCutoff cutoff nr dr) (setfl true nrho drho nr dr els pairs) := by
  have := Atsim.C03.SetflWriter.write_cutoff_sem I hI true nrho drho nr dr cutoff els pairs comments out setfl_density_fs
    (by intro e o; rw [C04_code_density_fs I hI]; simp [elBlock])
  rw [← this]
  unfold setfl_write_fs
  rfl


open Atsim.Gen.Logic Atsim.TokSem in
/-- **code tie (the tabulation objects)**: `SetFL_FS_EAMTabulation.write` writes `setflTab true` -/
theorem C04_code_tabulation_write_setfl (I : String → Nat → Rat → Rat) (hI : ZeroFn I) (els : List El) (pairs dip quad : List PairDecl)
    (cut : Rat) (nr : Nat) (cutrho : Rat) (nrho : Nat) (out : List Tok) :
    streamSem I (setfl_fs_tab_write ⟨(nr : Int), cut, (nrho : Int), cutrho, els.map toEam, pairs.map toPot, dip.map toPot, quad.map toPot⟩ out) =
      streamSem I out ++ setflSem I ["", "", ""] ((nr : Rat) * tabStep cut nr) (setflTab true els pairs cut nr cutrho nrho) := by
  unfold setfl_fs_tab_write
  simp only [Atsim.C03.eamtab_dr_eq, Atsim.C03.eamtab_drho_eq]
  rw [C04_code_write_fs I hI]
  rfl

open Atsim.Gen.Logic Atsim.TokSem in
/-- … and `TABEAM_FinnisSinclair_EAMTabulation.write` writes `tabeamTab true` (empty title) -/
theorem C04_code_tabulation_write_tabeam (I : String → Nat → Rat → Rat) (hI : ZeroFn I) (els : List El) (pairs dip quad : List PairDecl)
    (hnd : (els.map (·.sp)).Nodup) (hne : ∀ e ∈ els, e.sp ≠ "") (hfull : ∀ a ∈ els, ∀ b ∈ els, (dictGet a.densTo b.sp).isSome)
    (cut : Rat) (nr : Nat) (cutrho : Rat) (nrho : Nat) (out : List Tok) :
    (tabeam_fs_tab_write ⟨(nr : Int), cut, (nrho : Int), cutrho, els.map toEam, pairs.map toPot, dip.map toPot, quad.map toPot⟩ out).map (streamSem I) =
      .ok (streamSem I out ++ tabeamSem I "" (tabeamTab true els pairs cut nr cutrho nrho)) := by
  have h := C04_code_tabeam_fs I hI els pairs hnd hne hfull nrho nr (tabStep cutrho nrho) (tabStep cut nr) "" out
  unfold tabeam_fs_tab_write
  simp only [Atsim.C03.eamtab_dr_eq, Atsim.C03.eamtab_drho_eq]
  revert h
  cases tabeam_write_fs (nrho : Int) (tabStep cutrho nrho) (nr : Int) (tabStep cut nr) (els.map toEam) (pairs.map toPot) out "" with
  | error e => intro h; simp [Except.map] at h
  | ok v => intro h; simpa [andThen, Except.map, tabeamTab] using h

end Atsim.C04
