import AtsimModel.Lemmas.ExprReal
import AtsimModel.Lemmas.PolyReal
import AtsimModel.Gen.Forms
import AtsimModel.Gen.Combinators
import Mathlib.Tactic.NormNum
import Mathlib.Tactic.Positivity
/-!
# C07 — offered first/second derivatives are the true derivatives of the energy

All terms `Atsim.Gen.*` are REGENERATED from /repo's current source on every run (translator/py2lean.py), so these
theorems are re-checked against what the code says now.  Statements are over ℝ (binary64 rounding is not modelled).
-/
set_option linter.unusedVariables false
set_option linter.unusedTactic false
set_option linter.unusedSimpArgs false
namespace Atsim.C07
open Atsim Atsim.E Atsim.Gen Atsim.Poly Real

/-- abbreviation: value of a generated term with parameters `ps` at separation `x` -/
noncomputable abbrev ev (ps : List ℝ) (e : E) (x : ℝ) : ℝ := evalR (envOf ps) noSyms x e

/-! ## built-in forms: `deriv` is the derivative of `__call__`, `deriv2` the derivative of `deriv` -/

theorem C07_buck_d1 (A rho C r : ℝ) (hr : 0 < r) (hrho : rho ≠ 0) :
    HasDerivAt (ev [A, rho, C] buck_call) (ev [A, rho, C] buck_deriv r) r := by
  have h := hasDerivAt_evalR (envOf [A, rho, C]) noSyms buck_call r
    (by simp [Dom, evalR, buck_call, envOf, hrho, hr.ne'])
  refine h.congr_deriv ?_
  simp only [ev, evalR, D, envOf, buck_call, buck_deriv, List.getD_cons_succ, List.getD_cons_zero]
  deriv_close
theorem C07_buck_d2 (A rho C r : ℝ) (hr : 0 < r) (hrho : rho ≠ 0) :
    HasDerivAt (ev [A, rho, C] buck_deriv) (ev [A, rho, C] buck_deriv2 r) r := by
  have h := hasDerivAt_evalR (envOf [A, rho, C]) noSyms buck_deriv r
    (by simp [Dom, evalR, buck_deriv, envOf, hrho, hr.ne'])
  refine h.congr_deriv ?_
  simp only [ev, evalR, D, envOf, buck_deriv, buck_deriv2, List.getD_cons_succ, List.getD_cons_zero]
  deriv_close

theorem C07_bornmayer_d1 (A rho r : ℝ) (hr : 0 < r) (hrho : rho ≠ 0) :
    HasDerivAt (ev [A, rho] bornmayer_call) (ev [A, rho] bornmayer_deriv r) r := by
  have h := hasDerivAt_evalR (envOf [A, rho]) noSyms bornmayer_call r
    (by simp [Dom, evalR, bornmayer_call, envOf, hrho, hr.ne'])
  refine h.congr_deriv ?_
  simp only [ev, evalR, D, envOf, bornmayer_call, bornmayer_deriv, List.getD_cons_succ, List.getD_cons_zero]
  deriv_close
theorem C07_bornmayer_d2 (A rho r : ℝ) (hr : 0 < r) (hrho : rho ≠ 0) :
    HasDerivAt (ev [A, rho] bornmayer_deriv) (ev [A, rho] bornmayer_deriv2 r) r := by
  have h := hasDerivAt_evalR (envOf [A, rho]) noSyms bornmayer_deriv r
    (by simp [Dom, evalR, bornmayer_deriv, envOf, hrho, hr.ne'])
  refine h.congr_deriv ?_
  simp only [ev, evalR, D, envOf, bornmayer_deriv, bornmayer_deriv2, List.getD_cons_succ, List.getD_cons_zero]
  deriv_close

theorem C07_constant_d1 (c r : ℝ) : HasDerivAt (ev [c] constant_call) (ev [c] constant_deriv r) r := by
  have h := hasDerivAt_evalR (envOf [c]) noSyms constant_call r (by simp [Dom, constant_call])
  refine h.congr_deriv ?_
  simp only [ev, evalR, D, constant_call, constant_deriv]
theorem C07_constant_d2 (c r : ℝ) : HasDerivAt (ev [c] constant_deriv) (ev [c] constant_deriv2 r) r := by
  have h := hasDerivAt_evalR (envOf [c]) noSyms constant_deriv r (by simp [Dom, constant_deriv])
  refine h.congr_deriv ?_
  simp only [ev, evalR, D, constant_deriv, constant_deriv2]
theorem C07_zero_d1 (r : ℝ) : HasDerivAt (ev [] zero_call) (ev [] zero_deriv r) r := by
  have h := hasDerivAt_evalR (envOf []) noSyms zero_call r (by simp [Dom, zero_call])
  refine h.congr_deriv ?_
  simp only [ev, evalR, D, zero_call, zero_deriv]
theorem C07_zero_d2 (r : ℝ) : HasDerivAt (ev [] zero_deriv) (ev [] zero_deriv2 r) r := by
  have h := hasDerivAt_evalR (envOf []) noSyms zero_deriv r (by simp [Dom, zero_deriv])
  refine h.congr_deriv ?_
  simp only [ev, evalR, D, zero_deriv, zero_deriv2]

theorem C07_exponential_d1 (A n r : ℝ) (hr : 0 < r) :
    HasDerivAt (ev [A, n] exponential_call) (ev [A, n] exponential_deriv r) r := by
  have h := hasDerivAt_evalR (envOf [A, n]) noSyms exponential_call r
    (by simp [Dom, evalR, exponential_call, envOf, hr])
  refine h.congr_deriv ?_
  simp only [ev, evalR, D, envOf, exponential_call, exponential_deriv, List.getD_cons_succ, List.getD_cons_zero]
  norm_num
  rw [Real.rpow_sub_one hr.ne']
  field_simp
theorem C07_exponential_d2 (A n r : ℝ) (hr : 0 < r) :
    HasDerivAt (ev [A, n] exponential_deriv) (ev [A, n] exponential_deriv2 r) r := by
  have h := hasDerivAt_evalR (envOf [A, n]) noSyms exponential_deriv r
    (by simp [Dom, evalR, exponential_deriv, envOf, hr])
  refine h.congr_deriv ?_
  simp only [ev, evalR, D, envOf, exponential_deriv, exponential_deriv2, List.getD_cons_succ, List.getD_cons_zero]
  norm_num
  have : n - 2 = (n - 1) - 1 := by ring
  rw [this, Real.rpow_sub_one hr.ne' (n - 1)]
  field_simp

/-- the guards `if n == 0: return 0.0` (deriv) and `if n == 0 or n == 1: return 0.0` (deriv2) placed before the formulas since the fix of the `ZeroDivisionError`
    at r = 0: the value returned IS the formula's value for that exponent, for every A and r (over ℝ, where `0 * r^(-1) = 0`), so the guards only extend the
    formulas to the point where the floating-point expression `0.0 ** -1.0` raises -/
theorem C07_exponential_guards (A n r : ℝ) :
    (∀ g ∈ exponential_deriv_guards, ev [A, n] g.1 r = ev [A, n] g.2 r) ∧
    (∀ g ∈ exponential_deriv2_guards, ev [A, n] g.1 r = ev [A, n] g.2 r) := by
  constructor <;> intro g hg <;>
    simp only [exponential_deriv_guards, exponential_deriv2_guards, List.mem_cons, List.mem_singleton, List.not_mem_nil, or_false] at hg <;>
    (try rcases hg with rfl | rfl) <;> (try subst hg) <;>
    simp [ev, evalR, envOf]

theorem C07_hbnd_d1 (A B r : ℝ) (hr : 0 < r) : HasDerivAt (ev [A, B] hbnd_call) (ev [A, B] hbnd_deriv r) r := by
  have h := hasDerivAt_evalR (envOf [A, B]) noSyms hbnd_call r
    (by simp [Dom, evalR, hbnd_call, envOf, hr.ne'])
  refine h.congr_deriv ?_
  simp only [ev, evalR, D, envOf, hbnd_call, hbnd_deriv, List.getD_cons_succ, List.getD_cons_zero]
  deriv_close
theorem C07_hbnd_d2 (A B r : ℝ) (hr : 0 < r) : HasDerivAt (ev [A, B] hbnd_deriv) (ev [A, B] hbnd_deriv2 r) r := by
  have h := hasDerivAt_evalR (envOf [A, B]) noSyms hbnd_deriv r
    (by simp [Dom, evalR, hbnd_deriv, envOf, hr.ne'])
  refine h.congr_deriv ?_
  simp only [ev, evalR, D, envOf, hbnd_deriv, hbnd_deriv2, List.getD_cons_succ, List.getD_cons_zero]
  deriv_close

theorem C07_lj_d1 (eps sigma r : ℝ) (hr : 0 < r) : HasDerivAt (ev [eps, sigma] lj_call) (ev [eps, sigma] lj_deriv r) r := by
  have h := hasDerivAt_evalR (envOf [eps, sigma]) noSyms lj_call r
    (by simp [Dom, evalR, lj_call, envOf, hr.ne'])
  refine h.congr_deriv ?_
  simp only [ev, evalR, D, envOf, lj_call, lj_deriv, List.getD_cons_succ, List.getD_cons_zero]
  deriv_close
theorem C07_lj_d2 (eps sigma r : ℝ) (hr : 0 < r) : HasDerivAt (ev [eps, sigma] lj_deriv) (ev [eps, sigma] lj_deriv2 r) r := by
  have h := hasDerivAt_evalR (envOf [eps, sigma]) noSyms lj_deriv r
    (by simp [Dom, evalR, lj_deriv, envOf, hr.ne'])
  refine h.congr_deriv ?_
  simp only [ev, evalR, D, envOf, lj_deriv, lj_deriv2, List.getD_cons_succ, List.getD_cons_zero]
  deriv_close

theorem C07_morse_d1 (gamma rstar Dp r : ℝ) :
    HasDerivAt (ev [gamma, rstar, Dp] morse_call) (ev [gamma, rstar, Dp] morse_deriv r) r := by
  have h := hasDerivAt_evalR (envOf [gamma, rstar, Dp]) noSyms morse_call r
    (by simp [Dom, evalR, morse_call, envOf])
  refine h.congr_deriv ?_
  simp only [ev, evalR, D, envOf, morse_call, morse_deriv, List.getD_cons_succ, List.getD_cons_zero]
  push_cast
  ring
theorem C07_morse_d2 (gamma rstar Dp r : ℝ) :
    HasDerivAt (ev [gamma, rstar, Dp] morse_deriv) (ev [gamma, rstar, Dp] morse_deriv2 r) r := by
  have h := hasDerivAt_evalR (envOf [gamma, rstar, Dp]) noSyms morse_deriv r
    (by simp [Dom, evalR, morse_deriv, envOf])
  refine h.congr_deriv ?_
  simp only [ev, evalR, D, envOf, morse_deriv, morse_deriv2, List.getD_cons_succ, List.getD_cons_zero]
  norm_num
  ring

theorem C07_sqrt_d1 (G r : ℝ) (hr : 0 < r) : HasDerivAt (ev [G] sqrt_call) (ev [G] sqrt_deriv r) r := by
  have h := hasDerivAt_evalR (envOf [G]) noSyms sqrt_call r
    (by simp [Dom, evalR, sqrt_call, envOf, hr])
  refine h.congr_deriv ?_
  simp only [ev, evalR, D, envOf, sqrt_call, sqrt_deriv, List.getD_cons_succ, List.getD_cons_zero]
  have hs : Real.sqrt r ≠ 0 := (Real.sqrt_pos.mpr hr).ne'
  deriv_close
theorem C07_sqrt_d2 (G r : ℝ) (hr : 0 < r) : HasDerivAt (ev [G] sqrt_deriv) (ev [G] sqrt_deriv2 r) r := by
  have hs : Real.sqrt r ≠ 0 := (Real.sqrt_pos.mpr hr).ne'
  have h := hasDerivAt_evalR (envOf [G]) noSyms sqrt_deriv r
    (by simp [Dom, evalR, sqrt_deriv, envOf, hr, hs])
  refine h.congr_deriv ?_
  simp only [ev, evalR, D, envOf, sqrt_deriv, sqrt_deriv2, List.getD_cons_succ, List.getD_cons_zero]
  have h32 : r ^ ((3 : ℝ) / 2) = r * Real.sqrt r := by
    rw [Real.sqrt_eq_rpow, show (3 : ℝ) / 2 = 1 + 1 / 2 by norm_num, Real.rpow_add hr, Real.rpow_one]
  have hsq : Real.sqrt r ^ 2 = r := Real.sq_sqrt hr.le
  norm_num
  rw [h32, hsq]
  deriv_close

theorem C07_exp_spline_d1 (B0 B1 B2 B3 B4 B5 C r : ℝ) :
    HasDerivAt (ev [B0, B1, B2, B3, B4, B5, C] exp_spline_call) (ev [B0, B1, B2, B3, B4, B5, C] exp_spline_deriv r) r := by
  have h := hasDerivAt_evalR (envOf [B0, B1, B2, B3, B4, B5, C]) noSyms exp_spline_call r
    (by simp [Dom, evalR, exp_spline_call, envOf])
  refine h.congr_deriv ?_
  simp only [ev, evalR, D, envOf, exp_spline_call, exp_spline_deriv, List.getD_cons_succ, List.getD_cons_zero]
  have e : B0 + r * (B1 + r * (B2 + r * (B3 + r * (B4 + B5 * r))))
      = B0 + B1 * r + B2 * r ^ 2 + B3 * r ^ 3 + B4 * r ^ 4 + B5 * r ^ 5 := by ring
  rw [e]
  norm_num
  ring
theorem C07_exp_spline_d2 (B0 B1 B2 B3 B4 B5 C r : ℝ) :
    HasDerivAt (ev [B0, B1, B2, B3, B4, B5, C] exp_spline_deriv) (ev [B0, B1, B2, B3, B4, B5, C] exp_spline_deriv2 r) r := by
  have h := hasDerivAt_evalR (envOf [B0, B1, B2, B3, B4, B5, C]) noSyms exp_spline_deriv r
    (by simp [Dom, evalR, exp_spline_deriv, envOf])
  refine h.congr_deriv ?_
  simp only [ev, evalR, D, envOf, exp_spline_deriv, exp_spline_deriv2, List.getD_cons_succ, List.getD_cons_zero]
  have e : B0 + r * (B1 + r * (B2 + r * (B3 + r * (B4 + B5 * r))))
      = B0 + B1 * r + B2 * r ^ 2 + B3 * r ^ 3 + B4 * r ^ 4 + B5 * r ^ 5 := by ring
  rw [e]
  norm_num
  ring

/-! ### Coulomb: the code's derivative literal `45.2374059061957` stands for `1/(4*0.0055264)`.
    `deriv` is the exact derivative of `__call__` up to the factor `κ` by which that literal departs from its closed form,
    and `κ` is within 1e-14 of 1; `deriv2` is the exact derivative of `deriv`. -/
noncomputable def coulKappa : ℝ := (452374059061957 / 10^13 : ℝ) * (4 * (55264 / 10^7))

theorem C07_coul_kappa : |coulKappa - 1| ≤ 1 / 10^14 := by
  unfold coulKappa
  rw [abs_le]
  constructor <;> norm_num

theorem C07_coul_d1 (qi qj r : ℝ) (hr : 0 < r) :
    HasDerivAt (ev [qi, qj] coul_call) (ev [qi, qj] coul_deriv r / coulKappa) r := by
  have h := hasDerivAt_evalR (envOf [qi, qj]) noSyms coul_call r
    (by simp [Dom, evalR, coul_call, hr.ne', Real.pi_ne_zero])
  refine h.congr_deriv ?_
  simp only [ev, evalR, D, envOf, coul_call, coul_deriv, coulKappa, List.getD_cons_succ, List.getD_cons_zero]
  have := Real.pi_ne_zero
  deriv_close
theorem C07_coul_d2 (qi qj r : ℝ) (hr : 0 < r) :
    HasDerivAt (ev [qi, qj] coul_deriv) (ev [qi, qj] coul_deriv2 r) r := by
  have h := hasDerivAt_evalR (envOf [qi, qj]) noSyms coul_deriv r
    (by simp [Dom, evalR, coul_deriv, hr.ne', Real.pi_ne_zero])
  refine h.congr_deriv ?_
  simp only [ev, evalR, D, envOf, coul_deriv, coul_deriv2, List.getD_cons_succ, List.getD_cons_zero]
  have := Real.pi_ne_zero
  deriv_close

/-! ### ZBL: `deriv` is written with the literal `2.13503407300877` for `1/(0.8854*0.529)`.
    It is the exact derivative of the ZBL energy in which the screening-length constant is that literal (`zblK K`),
    `__call__` is `zblK (1/(0.8854*0.529))`, and the two constants agree to 1e-14 relative. -/
noncomputable def zblK (K z1 z2 r : ℝ) : ℝ :=
  (1439942 / 10^5 : ℝ) * (z1 * z2) / r *
    ( (1818 / 10^4 : ℝ) * Real.exp (-( (32 / 10 : ℝ) * r) * (K * (z1 ^ (23 / 100 : ℝ) + z2 ^ (23 / 100 : ℝ))))
    + (5099 / 10^4 : ℝ) * Real.exp (-( (9423 / 10^4 : ℝ) * r) * (K * (z1 ^ (23 / 100 : ℝ) + z2 ^ (23 / 100 : ℝ))))
    + (2802 / 10^4 : ℝ) * Real.exp (-( (4029 / 10^4 : ℝ) * r) * (K * (z1 ^ (23 / 100 : ℝ) + z2 ^ (23 / 100 : ℝ))))
    + (2817 / 10^5 : ℝ) * Real.exp (-( (2016 / 10^4 : ℝ) * r) * (K * (z1 ^ (23 / 100 : ℝ) + z2 ^ (23 / 100 : ℝ)))) )

noncomputable def zblKcode : ℝ := 213503407300877 / 10^14
noncomputable def zblKexact : ℝ := 1 / ((8854 / 10^4 : ℝ) * (529 / 10^3))

theorem C07_zbl_kappa : |zblKcode / zblKexact - 1| ≤ 1 / 10^14 := by
  unfold zblKcode zblKexact
  rw [abs_le]
  constructor <;> norm_num

theorem C07_zbl_call (z1 z2 r : ℝ) (hr : 0 < r) (h1 : 0 < z1) (h2 : 0 < z2) :
    ev [z1, z2] zbl_call r = zblK zblKexact z1 z2 r := by
  simp only [ev, evalR, envOf, zbl_call, zblK, zblKexact, List.getD_cons_succ, List.getD_cons_zero]
  have hS : 0 < z1 ^ ((23:ℝ) / 100) + z2 ^ ((23:ℝ) / 100) :=
    add_pos (Real.rpow_pos_of_pos h1 _) (Real.rpow_pos_of_pos h2 _)
  push_cast
  generalize z1 ^ ((23:ℝ) / 100) + z2 ^ ((23:ℝ) / 100) = S at hS ⊢
  have hS' : S ≠ 0 := hS.ne'
  have e : ∀ b : ℝ, (-b * r) / ((4427 / 5000 : ℝ) * (529 / 1000) / S)
      = -(b * r) * (1 / ((8854 / 10 ^ 4 : ℝ) * (529 / 10 ^ 3)) * S) := by
    intro b; field_simp; ring
  rw [e, e, e, e]
  norm_num

/-- four screened-Coulomb terms, exponentials factored the way the code writes them (helper for `C07_zbl_d1`) -/
theorem zbl_abs (c κ S a1 a2 a3 a4 b1 b2 b3 b4 r : ℝ) (hr : r ≠ 0) :
    HasDerivAt (fun x => c / x *
        ( a1 * Real.exp (-(b1 * x) * (κ * S)) + a2 * Real.exp (-(b2 * x) * (κ * S))
        + a3 * Real.exp (-(b3 * x) * (κ * S)) + a4 * Real.exp (-(b4 * x) * (κ * S))))
      (-c * ( a1 * Real.exp (κ * r * S * (b2 + b3 + b4)) + a2 * Real.exp (κ * r * S * (b1 + b3 + b4))
            + a3 * Real.exp (κ * r * S * (b1 + b2 + b4)) + a4 * Real.exp (κ * r * S * (b1 + b2 + b3))
            + κ * r * S * ( b1 * a1 * Real.exp (κ * r * S * (b2 + b3 + b4)) + b2 * a2 * Real.exp (κ * r * S * (b1 + b3 + b4))
                          + b3 * a3 * Real.exp (κ * r * S * (b1 + b2 + b4)) + b4 * a4 * Real.exp (κ * r * S * (b1 + b2 + b3))))
          * Real.exp (-κ * r * S * (b1 + b2 + b3 + b4)) / r ^ 2) r := by
  have h1 : HasDerivAt (fun x : ℝ => c / x) (-c / r^2) r := by
    have := (hasDerivAt_inv hr).const_mul c
    simpa [div_eq_mul_inv, neg_mul, mul_neg] using this
  have h2 : ∀ B : ℝ, HasDerivAt (fun x : ℝ => Real.exp (-(B * x) * (κ * S)))
      (Real.exp (-(B * r) * (κ * S)) * (-(B) * (κ * S))) r := by
    intro B
    have : HasDerivAt (fun x : ℝ => -(B * x) * (κ * S)) (-(B) * (κ * S)) r := by
      have := ((hasDerivAt_id' r).const_mul B).neg.mul_const (κ * S)
      simpa using this
    exact this.exp
  have hsum := ((((h2 b1).const_mul a1).fun_add ((h2 b2).const_mul a2)).fun_add ((h2 b3).const_mul a3)).fun_add
    ((h2 b4).const_mul a4)
  refine (h1.fun_mul hsum).congr_deriv ?_
  -- name the four positive exponentials e_i = exp(κ r S b_i)
  have hE : ∀ B : ℝ, Real.exp (-(B * r) * (κ * S)) = (Real.exp (κ * r * S * B))⁻¹ := by
    intro B; rw [← Real.exp_neg]; congr 1; ring
  have hs3 : ∀ x y z : ℝ, Real.exp (κ * r * S * (x + y + z))
      = Real.exp (κ * r * S * x) * Real.exp (κ * r * S * y) * Real.exp (κ * r * S * z) := by
    intro x y z; rw [← Real.exp_add, ← Real.exp_add]; congr 1; ring
  have hs4 : Real.exp (-κ * r * S * (b1 + b2 + b3 + b4))
      = (Real.exp (κ * r * S * b1) * Real.exp (κ * r * S * b2) * Real.exp (κ * r * S * b3)
          * Real.exp (κ * r * S * b4))⁻¹ := by
    rw [← Real.exp_add, ← Real.exp_add, ← Real.exp_add, ← Real.exp_neg]; congr 1; ring
  rw [hE, hE, hE, hE, hs3, hs3, hs3, hs3, hs4]
  have p1 := Real.exp_ne_zero (κ * r * S * b1)
  have p2 := Real.exp_ne_zero (κ * r * S * b2)
  have p3 := Real.exp_ne_zero (κ * r * S * b3)
  have p4 := Real.exp_ne_zero (κ * r * S * b4)
  generalize Real.exp (κ * r * S * b1) = e1 at *
  generalize Real.exp (κ * r * S * b2) = e2 at *
  generalize Real.exp (κ * r * S * b3) = e3 at *
  generalize Real.exp (κ * r * S * b4) = e4 at *
  deriv_close

/-- four screened-Coulomb terms, the derivative written term by term with negative exponents only - the form the code has since the fix of the
    `OverflowError` (the earlier form factored out `exp(-κ r S Σb)` and evaluated POSITIVE exponents, which overflow inside 30 Å for heavy pairs) -/
theorem zbl_abs2 (c κS a1 a2 a3 a4 b1 b2 b3 b4 r : ℝ) (hr : r ≠ 0) :
    HasDerivAt (fun x => c / x *
        ( a1 * Real.exp (-(b1 * x) * κS) + a2 * Real.exp (-(b2 * x) * κS)
        + a3 * Real.exp (-(b3 * x) * κS) + a4 * Real.exp (-(b4 * x) * κS)))
      (-c * ( a1 * (1 + b1 * κS * r) * Real.exp (-b1 * κS * r) + a2 * (1 + b2 * κS * r) * Real.exp (-b2 * κS * r)
            + a3 * (1 + b3 * κS * r) * Real.exp (-b3 * κS * r) + a4 * (1 + b4 * κS * r) * Real.exp (-b4 * κS * r)) / r ^ 2) r := by
  have h1 : HasDerivAt (fun x : ℝ => c / x) (-c / r^2) r := by
    have := (hasDerivAt_inv hr).const_mul c
    simpa [div_eq_mul_inv, neg_mul, mul_neg] using this
  have h2 : ∀ B : ℝ, HasDerivAt (fun x : ℝ => Real.exp (-(B * x) * κS))
      (Real.exp (-(B * r) * κS) * (-(B) * κS)) r := by
    intro B
    have : HasDerivAt (fun x : ℝ => -(B * x) * κS) (-(B) * κS) r := by
      have := ((hasDerivAt_id' r).const_mul B).neg.mul_const κS
      simpa using this
    exact this.exp
  have hsum := ((((h2 b1).const_mul a1).fun_add ((h2 b2).const_mul a2)).fun_add ((h2 b3).const_mul a3)).fun_add
    ((h2 b4).const_mul a4)
  refine (h1.fun_mul hsum).congr_deriv ?_
  have hE : ∀ B : ℝ, Real.exp (-(B * r) * κS) = Real.exp (-B * κS * r) := by
    intro B; congr 1; ring
  rw [hE, hE, hE, hE]
  generalize Real.exp (-b1 * κS * r) = e1
  generalize Real.exp (-b2 * κS * r) = e2
  generalize Real.exp (-b3 * κS * r) = e3
  generalize Real.exp (-b4 * κS * r) = e4
  deriv_close

theorem C07_zbl_d1 (z1 z2 r : ℝ) (hr : 0 < r) (h1 : 0 < z1) (h2 : 0 < z2) :
    HasDerivAt (zblK zblKcode z1 z2) (ev [z1, z2] zbl_deriv r) r := by
  have h := zbl_abs2 ((1439942 / 10^5 : ℝ) * (z1 * z2)) (zblKcode * (z1 ^ (23 / 100 : ℝ) + z2 ^ (23 / 100 : ℝ)))
    (1818 / 10^4) (5099 / 10^4) (2802 / 10^4) (2817 / 10^5) (32 / 10) (9423 / 10^4) (4029 / 10^4) (2016 / 10^4) r hr.ne'
  have hf : zblK zblKcode z1 z2 = fun x => (1439942 / 10^5 : ℝ) * (z1 * z2) / x *
        ( (1818 / 10^4 : ℝ) * Real.exp (-((32 / 10 : ℝ) * x) * (zblKcode * (z1 ^ (23 / 100 : ℝ) + z2 ^ (23 / 100 : ℝ))))
        + (5099 / 10^4 : ℝ) * Real.exp (-((9423 / 10^4 : ℝ) * x) * (zblKcode * (z1 ^ (23 / 100 : ℝ) + z2 ^ (23 / 100 : ℝ))))
        + (2802 / 10^4 : ℝ) * Real.exp (-((4029 / 10^4 : ℝ) * x) * (zblKcode * (z1 ^ (23 / 100 : ℝ) + z2 ^ (23 / 100 : ℝ))))
        + (2817 / 10^5 : ℝ) * Real.exp (-((2016 / 10^4 : ℝ) * x) * (zblKcode * (z1 ^ (23 / 100 : ℝ) + z2 ^ (23 / 100 : ℝ))))) := by
    funext x; rfl
  rw [hf]
  refine h.congr_deriv ?_
  simp only [ev, evalR, envOf, zbl_deriv, List.getD_cons_succ, List.getD_cons_zero]
  have hK : ((213503407300877 : ℕ) : ℝ) / ((100000000000000 : ℕ) : ℝ) = zblKcode := by
    unfold zblKcode; norm_num
  rw [hK]
  push_cast
  generalize zblKcode * (z1 ^ ((23:ℝ) / 100) + z2 ^ ((23:ℝ) / 100)) = KS
  have hE : ∀ B : ℝ, Real.exp (-B * KS * r) = Real.exp (-(B * KS * r)) := by
    intro B; congr 1; ring
  norm_num [hE]
  ring_nf

/-! ### ZBL second derivative

`zbl.deriv2` is a machine-expanded expression in which the product `14.39942 * K^2` (K = the code's screening-length literal 2.13503407300877)
appears as the separate 15-digit literal `65.6378912429954`, and `2 * 14.39942` as `28.79884`.  So `deriv2` is not exactly the derivative of
`deriv`; it is the exact second derivative with that ONE coefficient replaced by a literal that agrees with the closed form to better than
1e-13 relative (`C07_zbl_d2_shape`, `C07_zbl_d2_exact`, `C07_zbl_d2_kappa`). -/

/-- second derivative of the four-term screened Coulomb energy `zblK K` with the coefficient of the `1/r` term (`c * K^2` in the exact
    derivative, `c = 14.39942`) left as a parameter `c2` -/
noncomputable def zblD2 (c2 K z1 z2 r : ℝ) : ℝ :=
  let S := z1 ^ (23 / 100 : ℝ) + z2 ^ (23 / 100 : ℝ)
  let e := fun B : ℝ => Real.exp (-(K * B * r * S))
  let B1 : ℝ := 32 / 10
  let B2 : ℝ := 9423 / 10 ^ 4
  let B3 : ℝ := 4029 / 10 ^ 4
  let B4 : ℝ := 2016 / 10 ^ 4
  let C1 : ℝ := 1818 / 10 ^ 4
  let C2 : ℝ := 5099 / 10 ^ 4
  let C3 : ℝ := 2802 / 10 ^ 4
  let C4 : ℝ := 2817 / 10 ^ 5
  z1 * z2 * (c2 * S ^ 2 * (B1 ^ 2 * C1 * e B1 + B2 ^ 2 * C2 * e B2 + B3 ^ 2 * C3 * e B3 + B4 ^ 2 * C4 * e B4)
    + 2 * (1439942 / 10 ^ 5) * (K * S) * (B1 * C1 * e B1 + B2 * C2 * e B2 + B3 * C3 * e B3 + B4 * C4 * e B4) / r
    + 2 * (1439942 / 10 ^ 5) * (C1 * e B1 + C2 * e B2 + C3 * e B3 + C4 * e B4) / r ^ 2) / r

/-- the literal the code uses for `14.39942 * K^2` -/
noncomputable def zblC2code : ℝ := 656378912429954 / 10 ^ 13


/-- one screened-Coulomb term and its first two derivatives (`w = K * S`) -/
noncomputable def zT0 (c b w x : ℝ) : ℝ := c / x * Real.exp (-(b * x) * w)
noncomputable def zT1 (c b w x : ℝ) : ℝ := c * (-(1 / x ^ 2) - b * w / x) * Real.exp (-(b * x) * w)
noncomputable def zT2 (c b w x : ℝ) : ℝ := c * (2 / x ^ 3 + 2 * (b * w) / x ^ 2 + (b * w) ^ 2 / x) * Real.exp (-(b * x) * w)

theorem zexp_deriv (b w r : ℝ) :
    HasDerivAt (fun x : ℝ => Real.exp (-(b * x) * w)) (Real.exp (-(b * r) * w) * (-b * w)) r := by
  have : HasDerivAt (fun x : ℝ => -(b * x) * w) (-b * w) r := by
    have := ((hasDerivAt_id' r).const_mul b).neg.mul_const w
    simpa using this
  exact this.exp

theorem zT0_deriv (c b w r : ℝ) (hr : r ≠ 0) : HasDerivAt (zT0 c b w) (zT1 c b w r) r := by
  have h1 : HasDerivAt (fun x : ℝ => c / x) (-c / r ^ 2) r := by
    have := (hasDerivAt_inv hr).const_mul c
    simpa [div_eq_mul_inv, neg_mul, mul_neg] using this
  have h := h1.fun_mul (zexp_deriv b w r)
  unfold zT0 zT1
  refine h.congr_deriv ?_
  generalize Real.exp (-(b * r) * w) = e
  field_simp
  ring

theorem zT1_deriv (c b w r : ℝ) (hr : r ≠ 0) : HasDerivAt (zT1 c b w) (zT2 c b w r) r := by
  have hinv : HasDerivAt (fun x : ℝ => 1 / x) (-1 / r ^ 2) r := by
    have := hasDerivAt_inv hr
    simpa [div_eq_mul_inv] using this
  have hsq : HasDerivAt (fun x : ℝ => 1 / x ^ 2) (-2 / r ^ 3) r := by
    have := hinv.fun_mul hinv
    have h2 : (fun x : ℝ => 1 / x ^ 2) = fun x : ℝ => 1 / x * (1 / x) := by
      funext x; rw [pow_two, one_div, one_div, mul_inv]
    rw [h2]
    refine this.congr_deriv ?_
    field_simp
    ring
  have hb : HasDerivAt (fun x : ℝ => b * w / x) (-(b * w) / r ^ 2) r := by
    have := hinv.const_mul (b * w)
    have h2 : (fun x : ℝ => b * w / x) = fun x : ℝ => b * w * (1 / x) := by
      funext x; rw [mul_one_div]
    rw [h2]
    refine this.congr_deriv ?_
    ring
  have h := ((hsq.fun_neg.fun_sub hb).const_mul c).fun_mul (zexp_deriv b w r)
  unfold zT1 zT2
  refine h.congr_deriv ?_
  generalize Real.exp (-(b * r) * w) = e
  field_simp
  ring

/-- the code's `deriv2` is `zblD2` with the literal coefficient (all z1, z2 > 0 and r > 0; the powers `z ** 0.23` are real powers) -/
theorem C07_zbl_d2_shape (z1 z2 r : ℝ) (hr : 0 < r) (h1 : 0 < z1) (h2 : 0 < z2) :
    ev [z1, z2] zbl_deriv2 r = zblD2 zblC2code zblKcode z1 z2 r := by
  simp only [ev, evalR, envOf, zbl_deriv2, zblD2, zblC2code, zblKcode, List.getD_cons_zero, List.getD_cons_succ]
  push_cast
  generalize z1 ^ ((23:ℝ) / 100) = p1
  generalize z2 ^ ((23:ℝ) / 100) = p2
  have e1 : -(213503407300877 / 100000000000000 : ℝ) * (16 / 5) * r * (p1 + p2)
      = -(213503407300877 / 10 ^ 14 * (32 / 10) * r * (p1 + p2)) := by ring
  have e2 : -(213503407300877 / 100000000000000 : ℝ) * (9423 / 10000) * r * (p1 + p2)
      = -(213503407300877 / 10 ^ 14 * (9423 / 10 ^ 4) * r * (p1 + p2)) := by ring
  have e3 : -(213503407300877 / 100000000000000 : ℝ) * (4029 / 10000) * r * (p1 + p2)
      = -(213503407300877 / 10 ^ 14 * (4029 / 10 ^ 4) * r * (p1 + p2)) := by ring
  have e4 : -(213503407300877 / 100000000000000 : ℝ) * (126 / 625) * r * (p1 + p2)
      = -(213503407300877 / 10 ^ 14 * (2016 / 10 ^ 4) * r * (p1 + p2)) := by ring
  rw [e1, e2, e3, e4]
  generalize Real.exp (-(213503407300877 / 10 ^ 14 * (32 / 10) * r * (p1 + p2))) = x1
  generalize Real.exp (-(213503407300877 / 10 ^ 14 * (9423 / 10 ^ 4) * r * (p1 + p2))) = x2
  generalize Real.exp (-(213503407300877 / 10 ^ 14 * (4029 / 10 ^ 4) * r * (p1 + p2))) = x3
  generalize Real.exp (-(213503407300877 / 10 ^ 14 * (2016 / 10 ^ 4) * r * (p1 + p2))) = x4
  ring

/-- the true derivative of the code's `deriv` is `zblD2` with the closed-form coefficient `14.39942 * K^2` -/
theorem C07_zbl_d2_exact (z1 z2 r : ℝ) (hr : 0 < r) (h1 : 0 < z1) (h2 : 0 < z2) :
    HasDerivAt (fun x => ev [z1, z2] zbl_deriv x) (zblD2 ((1439942 / 10 ^ 5) * zblKcode ^ 2) zblKcode z1 z2 r) r := by
  have hS : ∃ S : ℝ, S = z1 ^ (23 / 100 : ℝ) + z2 ^ (23 / 100 : ℝ) := ⟨_, rfl⟩
  obtain ⟨S, hSdef⟩ := hS
  -- the first-derivative function in closed form
  have hg : ∀ x : ℝ, 0 < x → ev [z1, z2] zbl_deriv x
      = zT1 ((1439942 / 10 ^ 5 : ℝ) * (z1 * z2) * (1818 / 10 ^ 4)) (32 / 10) (zblKcode * S) x
      + zT1 ((1439942 / 10 ^ 5 : ℝ) * (z1 * z2) * (5099 / 10 ^ 4)) (9423 / 10 ^ 4) (zblKcode * S) x
      + zT1 ((1439942 / 10 ^ 5 : ℝ) * (z1 * z2) * (2802 / 10 ^ 4)) (4029 / 10 ^ 4) (zblKcode * S) x
      + zT1 ((1439942 / 10 ^ 5 : ℝ) * (z1 * z2) * (2817 / 10 ^ 5)) (2016 / 10 ^ 4) (zblKcode * S) x := by
    intro x hx
    have hd := C07_zbl_d1 z1 z2 x hx h1 h2
    have hf : zblK zblKcode z1 z2 = fun y =>
        zT0 ((1439942 / 10 ^ 5 : ℝ) * (z1 * z2) * (1818 / 10 ^ 4)) (32 / 10) (zblKcode * S) y
      + zT0 ((1439942 / 10 ^ 5 : ℝ) * (z1 * z2) * (5099 / 10 ^ 4)) (9423 / 10 ^ 4) (zblKcode * S) y
      + zT0 ((1439942 / 10 ^ 5 : ℝ) * (z1 * z2) * (2802 / 10 ^ 4)) (4029 / 10 ^ 4) (zblKcode * S) y
      + zT0 ((1439942 / 10 ^ 5 : ℝ) * (z1 * z2) * (2817 / 10 ^ 5)) (2016 / 10 ^ 4) (zblKcode * S) y := by
      funext y
      simp only [zblK, zT0, ← hSdef]
      ring
    rw [hf] at hd
    exact hd.unique ((((zT0_deriv _ _ _ x hx.ne').fun_add (zT0_deriv _ _ _ x hx.ne')).fun_add
      (zT0_deriv _ _ _ x hx.ne')).fun_add (zT0_deriv _ _ _ x hx.ne'))
  have h2' := (((zT1_deriv ((1439942 / 10 ^ 5 : ℝ) * (z1 * z2) * (1818 / 10 ^ 4)) (32 / 10) (zblKcode * S) r hr.ne').fun_add
      (zT1_deriv ((1439942 / 10 ^ 5 : ℝ) * (z1 * z2) * (5099 / 10 ^ 4)) (9423 / 10 ^ 4) (zblKcode * S) r hr.ne')).fun_add
      (zT1_deriv ((1439942 / 10 ^ 5 : ℝ) * (z1 * z2) * (2802 / 10 ^ 4)) (4029 / 10 ^ 4) (zblKcode * S) r hr.ne')).fun_add
      (zT1_deriv ((1439942 / 10 ^ 5 : ℝ) * (z1 * z2) * (2817 / 10 ^ 5)) (2016 / 10 ^ 4) (zblKcode * S) r hr.ne')
  have hev : (fun x => ev [z1, z2] zbl_deriv x) =ᶠ[nhds r] fun x =>
        zT1 ((1439942 / 10 ^ 5 : ℝ) * (z1 * z2) * (1818 / 10 ^ 4)) (32 / 10) (zblKcode * S) x
      + zT1 ((1439942 / 10 ^ 5 : ℝ) * (z1 * z2) * (5099 / 10 ^ 4)) (9423 / 10 ^ 4) (zblKcode * S) x
      + zT1 ((1439942 / 10 ^ 5 : ℝ) * (z1 * z2) * (2802 / 10 ^ 4)) (4029 / 10 ^ 4) (zblKcode * S) x
      + zT1 ((1439942 / 10 ^ 5 : ℝ) * (z1 * z2) * (2817 / 10 ^ 5)) (2016 / 10 ^ 4) (zblKcode * S) x := by
    filter_upwards [Ioi_mem_nhds hr] with x hx
    exact hg x hx
  refine (h2'.congr_of_eventuallyEq hev).congr_deriv ?_
  simp only [zT2, zblD2, ← hSdef]
  generalize zblKcode = K
  have e : ∀ B : ℝ, -(K * B * r * S) = -(B * r) * (K * S) := by intro B; ring
  rw [e, e, e, e]
  generalize Real.exp (-((32 / 10 : ℝ) * r) * (K * S)) = x1
  generalize Real.exp (-((9423 / 10 ^ 4 : ℝ) * r) * (K * S)) = x2
  generalize Real.exp (-((4029 / 10 ^ 4 : ℝ) * r) * (K * S)) = x3
  generalize Real.exp (-((2016 / 10 ^ 4 : ℝ) * r) * (K * S)) = x4
  have hr' := hr.ne'
  field_simp
  ring

/-- the two coefficients agree to better than 1e-13 relative -/
theorem C07_zbl_d2_kappa : |zblC2code / ((1439942 / 10 ^ 5) * zblKcode ^ 2) - 1| ≤ 1 / 10 ^ 13 := by
  unfold zblC2code zblKcode
  rw [abs_le]
  constructor <;> norm_num


/-! ## combinators: the closure bodies of `plus`, `product`, `pow` (atsim/potentials/__init__.py), with the operands and
    their derivatives as arbitrary functions.  Symbols: 0=a 1=b 2=deriv_a 3=deriv_b 4=deriv2_a 5=deriv2_b 6=potential 7=deriv. -/

/-- symbol environment at `x` for a combinator whose own value/derivative closures are `pot`, `der` -/
noncomputable def symsAt (a b da db d2a d2b : ℝ → ℝ) (pot der : E) (x : ℝ) : Nat → ℝ := fun k =>
  match k with
  | 0 => a x | 1 => b x | 2 => da x | 3 => db x | 4 => d2a x | 5 => d2b x
  | 6 => evalR (fun _ => 0) (fun j => match j with | 0 => a x | 1 => b x | _ => 0) x pot
  | 7 => evalR (fun _ => 0) (fun j => match j with
          | 0 => a x | 1 => b x | 2 => da x | 3 => db x
          | 6 => evalR (fun _ => 0) (fun i => match i with | 0 => a x | 1 => b x | _ => 0) x pot
          | _ => 0) x der
  | _ => 0

/-- value of a closure term at x -/
noncomputable def cv (a b da db d2a d2b : ℝ → ℝ) (pot der : E) (e : E) (x : ℝ) : ℝ :=
  evalR (fun _ => 0) (symsAt a b da db d2a d2b pot der x) x e

section combinators
variable (a b da db d2a d2b : ℝ → ℝ)

theorem C07_plus_value (x : ℝ) : cv a b da db d2a d2b plus_potential plus_deriv plus_potential x = a x + b x := by
  simp only [cv, symsAt, evalR, plus_potential]
  form_close
theorem C07_product_value (x : ℝ) : cv a b da db d2a d2b product_potential product_deriv product_potential x = a x * b x := by
  simp only [cv, symsAt, evalR, product_potential]
  form_close
theorem C07_pow_value (x : ℝ) : cv a b da db d2a d2b pow_potential pow_deriv pow_potential x = a x ^ b x := by
  simp only [cv, symsAt, evalR, pow_potential]
  form_close

theorem C07_plus_d1 (r : ℝ) (ha : HasDerivAt a (da r) r) (hb : HasDerivAt b (db r) r) :
    HasDerivAt (cv a b da db d2a d2b plus_potential plus_deriv plus_potential)
      (cv a b da db d2a d2b plus_potential plus_deriv plus_deriv r) r := by
  have hf : cv a b da db d2a d2b plus_potential plus_deriv plus_potential = fun x => a x + b x := by
    funext x; simp only [cv, symsAt, evalR, plus_potential]
    form_close
  rw [hf]
  refine (ha.fun_add hb).congr_deriv ?_
  simp only [cv, symsAt, evalR, plus_deriv]
  form_close
theorem C07_plus_d2 (r : ℝ) (hda : HasDerivAt da (d2a r) r) (hdb : HasDerivAt db (d2b r) r) :
    HasDerivAt (cv a b da db d2a d2b plus_potential plus_deriv plus_deriv)
      (cv a b da db d2a d2b plus_potential plus_deriv plus_deriv2 r) r := by
  have hf : cv a b da db d2a d2b plus_potential plus_deriv plus_deriv = fun x => da x + db x := by
    funext x; simp only [cv, symsAt, evalR, plus_deriv]
    form_close
  rw [hf]
  refine (hda.fun_add hdb).congr_deriv ?_
  simp only [cv, symsAt, evalR, plus_deriv2]
  form_close

theorem C07_product_d1 (r : ℝ) (ha : HasDerivAt a (da r) r) (hb : HasDerivAt b (db r) r) :
    HasDerivAt (cv a b da db d2a d2b product_potential product_deriv product_potential)
      (cv a b da db d2a d2b product_potential product_deriv product_deriv r) r := by
  have hf : cv a b da db d2a d2b product_potential product_deriv product_potential = fun x => a x * b x := by
    funext x; simp only [cv, symsAt, evalR, product_potential]
    form_close
  rw [hf]
  refine (ha.fun_mul hb).congr_deriv ?_
  simp only [cv, symsAt, evalR, product_deriv]
  deriv_close
/-- second order, including the `2 a' b'` cross term -/
theorem C07_product_d2 (r : ℝ) (ha : HasDerivAt a (da r) r) (hb : HasDerivAt b (db r) r)
    (hda : HasDerivAt da (d2a r) r) (hdb : HasDerivAt db (d2b r) r) :
    HasDerivAt (cv a b da db d2a d2b product_potential product_deriv product_deriv)
      (cv a b da db d2a d2b product_potential product_deriv product_deriv2 r) r := by
  have hf : cv a b da db d2a d2b product_potential product_deriv product_deriv
      = fun x => a x * db x + b x * da x := by
    funext x; simp only [cv, symsAt, evalR, product_deriv]
    form_close
  rw [hf]
  refine ((ha.fun_mul hdb).fun_add (hb.fun_mul hda)).congr_deriv ?_
  simp only [cv, symsAt, evalR, product_deriv2]
  deriv_close

theorem C07_pow_d1 (r : ℝ) (hpos : 0 < a r) (ha : HasDerivAt a (da r) r) (hb : HasDerivAt b (db r) r) :
    HasDerivAt (cv a b da db d2a d2b pow_potential pow_deriv pow_potential)
      (cv a b da db d2a d2b pow_potential pow_deriv pow_deriv r) r := by
  have hf : cv a b da db d2a d2b pow_potential pow_deriv pow_potential = fun x => a x ^ b x := by
    funext x; simp only [cv, symsAt, evalR, pow_potential]
    form_close
  rw [hf]
  refine (ha.rpow hb hpos).congr_deriv ?_
  simp only [cv, symsAt, evalR, pow_deriv, pow_potential]
  have hne : a r ≠ 0 := ne_of_gt hpos
  rw [Real.rpow_sub_one hne]
  deriv_close
theorem C07_pow_d2 (r : ℝ) (hpos : ∀ x, 0 < a x) (ha : ∀ x, HasDerivAt a (da x) x) (hb : ∀ x, HasDerivAt b (db x) x)
    (hda : HasDerivAt da (d2a r) r) (hdb : HasDerivAt db (d2b r) r) :
    HasDerivAt (cv a b da db d2a d2b pow_potential pow_deriv pow_deriv)
      (cv a b da db d2a d2b pow_potential pow_deriv pow_deriv2 r) r := by
  have hf : cv a b da db d2a d2b pow_potential pow_deriv pow_deriv
      = fun x => (a x ^ b x) * (db x * Real.log (a x) + b x * da x / a x) := by
    funext x; simp only [cv, symsAt, evalR, pow_deriv, pow_potential]
    form_close
  rw [hf]
  have hne : a r ≠ 0 := ne_of_gt (hpos r)
  have hp : HasDerivAt (fun x => a x ^ b x) ((a r ^ b r) * (db r * Real.log (a r) + b r * da r / a r)) r := by
    refine ((ha r).rpow (hb r) (hpos r)).congr_deriv ?_
    rw [Real.rpow_sub_one hne]
    field_simp
    ring
  have hlog := (ha r).log hne
  have h1 := (hdb.fun_mul hlog)
  have h2 := ((hb r).fun_mul hda).fun_div (ha r) hne
  refine (hp.fun_mul (h1.fun_add h2)).congr_deriv ?_
  simp only [cv, symsAt, evalR, pow_deriv2, pow_deriv, pow_potential]
  deriv_close
/-! ### the guards of `pow.deriv` / `pow.deriv2`: a vanishing base under a constant whole exponent

`(r - c)**2` is differentiable at `r = c`, but the general expression of the closure divides by the base.  Since fix `db9cc39` the closures return, when the base
and the derivative(s) of the exponent are exactly zero, `b*a**(b-1)*a'` and `(b-1)*(b*a**(b-2)*a'*a') + b*a**(b-1)*a''` (the second with its first summand
skipped when `b - 1 == 0`).  `pow_deriv_guards` / `pow_deriv2_guards` are those statements as regenerated from the source: which symbols are tested against zero, and
the term returned.  For every whole exponent `n >= 1` the term returned IS the derivative there. -/

/-- **guard of `pow.deriv`**: it tests the base and `deriv_b`; where the base vanishes and the exponent is the constant `n` (a whole number `>= 1`) the value returned
    is the derivative of `a(x)**n` -/
theorem C07_pow_d1_zero_base (r : ℝ) (n : ℕ) (hn : 1 ≤ n) (hb : ∀ x, b x = (n : ℝ)) (h0 : a r = 0) (ha : HasDerivAt a (da r) r) :
    ∃ v, pow_deriv_guards = [([.sym 0, .sym 3], v)] ∧
      HasDerivAt (cv a b da db d2a d2b pow_potential pow_deriv pow_potential) (cv a b da db d2a d2b pow_potential pow_deriv v r) r := by
  refine ⟨_, rfl, ?_⟩
  have hf : cv a b da db d2a d2b pow_potential pow_deriv pow_potential = fun x => a x ^ n := by
    funext x; simp only [cv, symsAt, evalR, pow_potential]
    rw [hb x, Real.rpow_natCast]
  rw [hf]
  refine (ha.pow n).congr_deriv ?_
  simp only [cv, symsAt, evalR]
  obtain ⟨m, rfl⟩ : ∃ m, n = m + 1 := ⟨n - 1, by omega⟩
  have e : ((m + 1 : ℕ) : ℝ) - ((1 : ℕ) : ℝ) / ((1 : ℕ) : ℝ) = (m : ℝ) := by push_cast; ring
  rw [hb r, e, Real.rpow_natCast]
  simp only [Nat.add_sub_cancel]

/-- **guard of `pow.deriv2`**: it tests the base, `deriv_b` and `deriv2_b`; where the base vanishes and the exponent is the constant `n >= 1` the value returned is
    the derivative of the first derivative `n*a(x)**(n-1)*a'(x)` -/
theorem C07_pow_d2_zero_base (r : ℝ) (n : ℕ) (hn : 1 ≤ n) (hb : ∀ x, b x = (n : ℝ)) (h0 : a r = 0) (ha : ∀ x, HasDerivAt a (da x) x)
    (hda : HasDerivAt da (d2a r) r) :
    ∃ v, pow_deriv2_guards = [([.sym 0, .sym 3, .sym 5], v)] ∧
      HasDerivAt (fun x => (n : ℝ) * a x ^ (n - 1) * da x) (cv a b da db d2a d2b pow_potential pow_deriv v r) r := by
  refine ⟨_, rfl, ?_⟩
  refine ((((ha r).fun_pow (n - 1)).const_mul (n : ℝ)).fun_mul hda).congr_deriv ?_
  simp only [cv, symsAt, evalR]
  rw [hb r, h0]
  obtain rfl | ⟨m, rfl⟩ : n = 1 ∨ ∃ m, n = m + 2 := by
    rcases Nat.lt_or_ge n 2 with h | h
    · left; omega
    · right; exact ⟨n - 2, by omega⟩
  · norm_num
  · have e1 : ((m + 2 : ℕ) : ℝ) - ((1 : ℕ) : ℝ) / ((1 : ℕ) : ℝ) = ((m + 1 : ℕ) : ℝ) := by push_cast; ring
    have e2 : ((m + 2 : ℕ) : ℝ) - ((2 : ℕ) : ℝ) / ((1 : ℕ) : ℝ) = (m : ℝ) := by push_cast; ring
    rw [e1, e2, Real.rpow_natCast, Real.rpow_natCast]
    have s1 : m + 2 - 1 = m + 1 := by omega
    have s2 : m + 1 - 1 = m := by omega
    rw [s1, s2]
    push_cast
    ring

end combinators

/-- `trans(f, as.constant X)`: `deriv(r) = f.deriv(r + X)` is the derivative of `r ↦ f(r + X)` (and likewise one order up) -/
theorem C07_trans (f f' : ℝ → ℝ) (X r : ℝ) (h : HasDerivAt f (f' (r + X)) (r + X)) :
    HasDerivAt (fun x => f (x + X)) (f' (r + X)) r := h.comp_add_const r X

/-! ## polynomial of any order (hand model of the comprehension; the varargs signature is outside the translator's fragment) -/

/-- `polyVal/polyD1/polyD2` (Lemmas/PolyReal.lean) are `polynomial.__call__/deriv/deriv2`; every order, every coefficient list, every r INCLUDING r = 0 -/
theorem C07_polynomial_d1 (cs : List ℝ) (i0 : Nat) (r : ℝ) : HasDerivAt (polyVal i0 cs) (polyD1 i0 cs r) r := by
  induction cs generalizing i0 with
  | nil =>
    have hf : polyVal i0 [] = fun _ => (0 : ℝ) := by funext x; simp only [polyVal]
    rw [hf]; simp only [polyD1]; exact hasDerivAt_const r 0
  | cons c cs ih =>
    have hf : polyVal i0 (c :: cs) = fun x => x ^ i0 * c + polyVal (i0 + 1) cs x := by
      funext x; simp only [polyVal]
    rw [hf]
    refine (((hasDerivAt_pow i0 r).mul_const c).fun_add (ih (i0 + 1))).congr_deriv ?_
    simp only [polyD1]
    split_ifs with h0
    · subst h0; simp
    · rfl
theorem C07_polynomial_d2 (cs : List ℝ) (i0 : Nat) (r : ℝ) : HasDerivAt (polyD1 i0 cs) (polyD2 i0 cs r) r := by
  induction cs generalizing i0 with
  | nil =>
    have hf : polyD1 i0 [] = fun _ => (0 : ℝ) := by funext x; simp only [polyD1]
    rw [hf]; simp only [polyD2]; exact hasDerivAt_const r 0
  | cons c cs ih =>
    have hf : polyD1 i0 (c :: cs)
        = fun x => (if i0 = 0 then 0 else (i0 : ℝ) * x ^ (i0 - 1) * c) + polyD1 (i0 + 1) cs x := by
      funext x; simp only [polyD1]
    rw [hf]
    have hterm : HasDerivAt (fun x : ℝ => if i0 = 0 then (0 : ℝ) else (i0 : ℝ) * x ^ (i0 - 1) * c)
        (if i0 < 2 then 0 else (i0 : ℝ) * ((i0 : ℝ) - 1) * r ^ (i0 - 2) * c) r := by
      rcases Nat.lt_or_ge i0 2 with h2 | h2
      · rw [if_pos h2]
        have h01 : i0 = 0 ∨ i0 = 1 := by omega
        rcases h01 with rfl | rfl
        · simpa using hasDerivAt_const r (0 : ℝ)
        · simpa using hasDerivAt_const r ((1 : ℝ) * c)
      · have h0 : i0 ≠ 0 := by omega
        simp only [if_neg h0, if_neg (not_lt.mpr h2)]
        refine (((hasDerivAt_pow (i0 - 1) r).const_mul (i0 : ℝ)).mul_const c).congr_deriv ?_
        have hc : ((i0 - 1 : ℕ) : ℝ) = (i0 : ℝ) - 1 := by
          rw [Nat.cast_sub (by omega)]; simp
        rw [hc, show i0 - 1 - 1 = i0 - 2 by omega]
        ring
    refine (hterm.fun_add (ih (i0 + 1))).congr_deriv ?_
    simp only [polyD2]

/-! non-vacuity -/
example : ev [1000, 3/10, 32] buck_call 1 = 1000 * Real.exp (-1 / (3/10)) - 32 / 1 ^ 6 := by
  simp [ev, evalR, envOf, buck_call]

/-! ## all nestings: arbitrarily nested plus / product / pow / trans expressions

The theorems above hold for ONE application of `plus`, `product`, `pow` with ARBITRARY operand functions.  Here they are lifted by structural
induction to every expression tree built from leaves that offer true derivatives: `sem` composes the SAME regenerated closure terms (through
`cv`) exactly as the Python closures compose their operands. -/

/-- potential expressions as the Python API / potable modifiers build them -/
inductive PE where
  | leaf (k : Nat)
  | plus (a b : PE)
  | product (a b : PE)
  | pow (a b : PE)
  | trans (a : PE) (X : ℝ)

/-- what a leaf offers: `f`, `f.deriv`, `f.deriv2` -/
structure Leaves where
  f : Nat → ℝ → ℝ
  f1 : Nat → ℝ → ℝ
  f2 : Nat → ℝ → ℝ

/-- (value, deriv, deriv2) of an expression, composed with the regenerated closure bodies of `plus`, `product`, `pow`
    (atsim/potentials/__init__.py) and the `trans` closures (`f(r + X)`, `f.deriv(r + X)`, `f.deriv2(r + X)`; _modifiers.py) -/
noncomputable def sem (L : Leaves) : PE → (ℝ → ℝ) × (ℝ → ℝ) × (ℝ → ℝ)
  | .leaf k => (L.f k, L.f1 k, L.f2 k)
  | .plus a b =>
    let sa := sem L a
    let sb := sem L b
    (cv sa.1 sb.1 sa.2.1 sb.2.1 sa.2.2 sb.2.2 plus_potential plus_deriv plus_potential,
     cv sa.1 sb.1 sa.2.1 sb.2.1 sa.2.2 sb.2.2 plus_potential plus_deriv plus_deriv,
     cv sa.1 sb.1 sa.2.1 sb.2.1 sa.2.2 sb.2.2 plus_potential plus_deriv plus_deriv2)
  | .product a b =>
    let sa := sem L a
    let sb := sem L b
    (cv sa.1 sb.1 sa.2.1 sb.2.1 sa.2.2 sb.2.2 product_potential product_deriv product_potential,
     cv sa.1 sb.1 sa.2.1 sb.2.1 sa.2.2 sb.2.2 product_potential product_deriv product_deriv,
     cv sa.1 sb.1 sa.2.1 sb.2.1 sa.2.2 sb.2.2 product_potential product_deriv product_deriv2)
  | .pow a b =>
    let sa := sem L a
    let sb := sem L b
    (cv sa.1 sb.1 sa.2.1 sb.2.1 sa.2.2 sb.2.2 pow_potential pow_deriv pow_potential,
     cv sa.1 sb.1 sa.2.1 sb.2.1 sa.2.2 sb.2.2 pow_potential pow_deriv pow_deriv,
     cv sa.1 sb.1 sa.2.1 sb.2.1 sa.2.2 sb.2.2 pow_potential pow_deriv pow_deriv2)
  | .trans a X =>
    let sa := sem L a
    (fun x => sa.1 (x + X), fun x => sa.2.1 (x + X), fun x => sa.2.2 (x + X))

/-- every base of a `pow` inside the expression is positive everywhere (the domain on which `a ** b` is differentiable) -/
def PosBases (L : Leaves) : PE → Prop
  | .leaf _ => True
  | .plus a b => PosBases L a ∧ PosBases L b
  | .product a b => PosBases L a ∧ PosBases L b
  | .pow a b => PosBases L a ∧ PosBases L b ∧ ∀ x, 0 < (sem L a).1 x
  | .trans a _ => PosBases L a

/-- the leaves' offered derivatives are true derivatives (C07_<form>_d1/_d2 for the built-in forms) -/
def LeavesOK (L : Leaves) : Prop :=
  ∀ k x, HasDerivAt (L.f k) (L.f1 k x) x ∧ HasDerivAt (L.f1 k) (L.f2 k x) x

/-- value semantics: the composed value is the pointwise sum / product / power / shift -/
theorem C07_nested_value (L : Leaves) (a b : PE) (X x : ℝ) :
    (sem L (.plus a b)).1 x = (sem L a).1 x + (sem L b).1 x ∧
    (sem L (.product a b)).1 x = (sem L a).1 x * (sem L b).1 x ∧
    (sem L (.pow a b)).1 x = (sem L a).1 x ^ (sem L b).1 x ∧
    (sem L (.trans a X)).1 x = (sem L a).1 (x + X) := by
  refine ⟨?_, ?_, ?_, rfl⟩
  · simp only [sem]; exact C07_plus_value _ _ _ _ _ _ x
  · simp only [sem]; exact C07_product_value _ _ _ _ _ _ x
  · simp only [sem]; exact C07_pow_value _ _ _ _ _ _ x

/-- **all nestings**: for every expression tree over leaves with true derivatives (and positive `pow` bases), at every point the offered
    `deriv` is the derivative of the value and the offered `deriv2` is the derivative of `deriv` -/
theorem C07_nested (L : Leaves) (hL : LeavesOK L) (e : PE) (hp : PosBases L e) :
    ∀ x, HasDerivAt (sem L e).1 ((sem L e).2.1 x) x ∧ HasDerivAt (sem L e).2.1 ((sem L e).2.2 x) x := by
  induction e with
  | leaf k => intro x; exact hL k x
  | plus a b iha ihb =>
    obtain ⟨hpa, hpb⟩ := hp
    have ha := iha hpa
    have hb := ihb hpb
    intro x
    simp only [sem]
    exact ⟨C07_plus_d1 _ _ _ _ _ _ x (ha x).1 (hb x).1, C07_plus_d2 _ _ _ _ _ _ x (ha x).2 (hb x).2⟩
  | product a b iha ihb =>
    obtain ⟨hpa, hpb⟩ := hp
    have ha := iha hpa
    have hb := ihb hpb
    intro x
    simp only [sem]
    exact ⟨C07_product_d1 _ _ _ _ _ _ x (ha x).1 (hb x).1,
      C07_product_d2 _ _ _ _ _ _ x (ha x).1 (hb x).1 (ha x).2 (hb x).2⟩
  | pow a b iha ihb =>
    obtain ⟨hpa, hpb, hpos⟩ := hp
    have ha := iha hpa
    have hb := ihb hpb
    intro x
    simp only [sem]
    exact ⟨C07_pow_d1 _ _ _ _ _ _ x (hpos x) (ha x).1 (hb x).1,
      C07_pow_d2 _ _ _ _ _ _ x hpos (fun y => (ha y).1) (fun y => (hb y).1) (ha x).2 (hb x).2⟩
  | trans a X iha =>
    have ha := iha hp
    intro x
    simp only [sem]
    exact ⟨C07_trans _ _ X x (ha (x + X)).1, C07_trans _ _ X x (ha (x + X)).2⟩

/-- non-vacuity: a three-level expression over concrete leaves meets the hypotheses -/
example : ∃ L : Leaves, LeavesOK L ∧
    PosBases L (.plus (.product (.leaf 0) (.trans (.leaf 1) 2)) (.pow (.leaf 2) (.leaf 0))) := by
  refine ⟨⟨fun _ x => Real.exp x, fun _ x => Real.exp x, fun _ x => Real.exp x⟩, ?_, ?_⟩
  · intro k x
    exact ⟨Real.hasDerivAt_exp x, Real.hasDerivAt_exp x⟩
  · simp only [PosBases, sem, and_true, true_and]
    intro x
    exact Real.exp_pos x

end Atsim.C07
