import AtsimModel.Lemmas.ExprReal
import AtsimModel.Lemmas.PolyReal
import AtsimModel.Gen.Forms
import AtsimModel.Gen.Combinators
import Mathlib.Tactic.NormNum
import Mathlib.Tactic.Positivity
/-!
# C07 — offered first/second derivatives are the true derivatives of the energy

All terms `Atsim.Gen.*` are REGENERATED from /repo's current source on every run (translator/py2lean.py), so these
theorems are re-checked against what the code says now.  Statements are over ℝ (binary64 rounding is not modelled).
-/
set_option linter.unusedVariables false
set_option linter.unusedTactic false
set_option linter.unusedSimpArgs false
namespace Atsim.C07
open Atsim Atsim.E Atsim.Gen Atsim.Poly Real

/-- abbreviation: value of a generated term with parameters `ps` at separation `x` -/
noncomputable abbrev ev (ps : List ℝ) (e : E) (x : ℝ) : ℝ := evalR (envOf ps) noSyms x e

/-! ## built-in forms: `deriv` is the derivative of `__call__`, `deriv2` the derivative of `deriv` -/

theorem C07_buck_d1 (A rho C r : ℝ) (hr : 0 < r) (hrho : rho ≠ 0) :
    HasDerivAt (ev [A, rho, C] buck_call) (ev [A, rho, C] buck_deriv r) r := by
  have h := hasDerivAt_evalR (envOf [A, rho, C]) noSyms buck_call r
    (by simp [Dom, evalR, buck_call, envOf, hrho, hr.ne'])
  refine h.congr_deriv ?_
  simp only [ev, evalR, D, envOf, buck_call, buck_deriv, List.getD_cons_succ, List.getD_cons_zero]
  deriv_close
theorem C07_buck_d2 (A rho C r : ℝ) (hr : 0 < r) (hrho : rho ≠ 0) :
    HasDerivAt (ev [A, rho, C] buck_deriv) (ev [A, rho, C] buck_deriv2 r) r := by
  have h := hasDerivAt_evalR (envOf [A, rho, C]) noSyms buck_deriv r
    (by simp [Dom, evalR, buck_deriv, envOf, hrho, hr.ne'])
  refine h.congr_deriv ?_
  simp only [ev, evalR, D, envOf, buck_deriv, buck_deriv2, List.getD_cons_succ, List.getD_cons_zero]
  deriv_close

theorem C07_bornmayer_d1 (A rho r : ℝ) (hr : 0 < r) (hrho : rho ≠ 0) :
    HasDerivAt (ev [A, rho] bornmayer_call) (ev [A, rho] bornmayer_deriv r) r := by
  have h := hasDerivAt_evalR (envOf [A, rho]) noSyms bornmayer_call r
    (by simp [Dom, evalR, bornmayer_call, envOf, hrho, hr.ne'])
  refine h.congr_deriv ?_
  simp only [ev, evalR, D, envOf, bornmayer_call, bornmayer_deriv, List.getD_cons_succ, List.getD_cons_zero]
  deriv_close
theorem C07_bornmayer_d2 (A rho r : ℝ) (hr : 0 < r) (hrho : rho ≠ 0) :
    HasDerivAt (ev [A, rho] bornmayer_deriv) (ev [A, rho] bornmayer_deriv2 r) r := by
  have h := hasDerivAt_evalR (envOf [A, rho]) noSyms bornmayer_deriv r
    (by simp [Dom, evalR, bornmayer_deriv, envOf, hrho, hr.ne'])
  refine h.congr_deriv ?_
  simp only [ev, evalR, D, envOf, bornmayer_deriv, bornmayer_deriv2, List.getD_cons_succ, List.getD_cons_zero]
  deriv_close

theorem C07_constant_d1 (c r : ℝ) : HasDerivAt (ev [c] constant_call) (ev [c] constant_deriv r) r := by
  have h := hasDerivAt_evalR (envOf [c]) noSyms constant_call r (by simp [Dom, constant_call])
  refine h.congr_deriv ?_
  simp only [ev, evalR, D, constant_call, constant_deriv]
theorem C07_constant_d2 (c r : ℝ) : HasDerivAt (ev [c] constant_deriv) (ev [c] constant_deriv2 r) r := by
  have h := hasDerivAt_evalR (envOf [c]) noSyms constant_deriv r (by simp [Dom, constant_deriv])
  refine h.congr_deriv ?_
  simp only [ev, evalR, D, constant_deriv, constant_deriv2]
theorem C07_zero_d1 (r : ℝ) : HasDerivAt (ev [] zero_call) (ev [] zero_deriv r) r := by
  have h := hasDerivAt_evalR (envOf []) noSyms zero_call r (by simp [Dom, zero_call])
  refine h.congr_deriv ?_
  simp only [ev, evalR, D, zero_call, zero_deriv]
theorem C07_zero_d2 (r : ℝ) : HasDerivAt (ev [] zero_deriv) (ev [] zero_deriv2 r) r := by
  have h := hasDerivAt_evalR (envOf []) noSyms zero_deriv r (by simp [Dom, zero_deriv])
  refine h.congr_deriv ?_
  simp only [ev, evalR, D, zero_deriv, zero_deriv2]

theorem C07_exponential_d1 (A n r : ℝ) (hr : 0 < r) :
    HasDerivAt (ev [A, n] exponential_call) (ev [A, n] exponential_deriv r) r := by
  have h := hasDerivAt_evalR (envOf [A, n]) noSyms exponential_call r
    (by simp [Dom, evalR, exponential_call, envOf, hr])
  refine h.congr_deriv ?_
  simp only [ev, evalR, D, envOf, exponential_call, exponential_deriv, List.getD_cons_succ, List.getD_cons_zero]
  norm_num
  rw [Real.rpow_sub_one hr.ne']
  field_simp
theorem C07_exponential_d2 (A n r : ℝ) (hr : 0 < r) :
    HasDerivAt (ev [A, n] exponential_deriv) (ev [A, n] exponential_deriv2 r) r := by
  have h := hasDerivAt_evalR (envOf [A, n]) noSyms exponential_deriv r
    (by simp [Dom, evalR, exponential_deriv, envOf, hr])
  refine h.congr_deriv ?_
  simp only [ev, evalR, D, envOf, exponential_deriv, exponential_deriv2, List.getD_cons_succ, List.getD_cons_zero]
  norm_num
  have : n - 2 = (n - 1) - 1 := by ring
  rw [this, Real.rpow_sub_one hr.ne' (n - 1)]
  field_simp

theorem C07_hbnd_d1 (A B r : ℝ) (hr : 0 < r) : HasDerivAt (ev [A, B] hbnd_call) (ev [A, B] hbnd_deriv r) r := by
  have h := hasDerivAt_evalR (envOf [A, B]) noSyms hbnd_call r
    (by simp [Dom, evalR, hbnd_call, envOf, hr.ne'])
  refine h.congr_deriv ?_
  simp only [ev, evalR, D, envOf, hbnd_call, hbnd_deriv, List.getD_cons_succ, List.getD_cons_zero]
  deriv_close
theorem C07_hbnd_d2 (A B r : ℝ) (hr : 0 < r) : HasDerivAt (ev [A, B] hbnd_deriv) (ev [A, B] hbnd_deriv2 r) r := by
  have h := hasDerivAt_evalR (envOf [A, B]) noSyms hbnd_deriv r
    (by simp [Dom, evalR, hbnd_deriv, envOf, hr.ne'])
  refine h.congr_deriv ?_
  simp only [ev, evalR, D, envOf, hbnd_deriv, hbnd_deriv2, List.getD_cons_succ, List.getD_cons_zero]
  deriv_close

theorem C07_lj_d1 (eps sigma r : ℝ) (hr : 0 < r) : HasDerivAt (ev [eps, sigma] lj_call) (ev [eps, sigma] lj_deriv r) r := by
  have h := hasDerivAt_evalR (envOf [eps, sigma]) noSyms lj_call r
    (by simp [Dom, evalR, lj_call, envOf, hr.ne'])
  refine h.congr_deriv ?_
  simp only [ev, evalR, D, envOf, lj_call, lj_deriv, List.getD_cons_succ, List.getD_cons_zero]
  deriv_close
theorem C07_lj_d2 (eps sigma r : ℝ) (hr : 0 < r) : HasDerivAt (ev [eps, sigma] lj_deriv) (ev [eps, sigma] lj_deriv2 r) r := by
  have h := hasDerivAt_evalR (envOf [eps, sigma]) noSyms lj_deriv r
    (by simp [Dom, evalR, lj_deriv, envOf, hr.ne'])
  refine h.congr_deriv ?_
  simp only [ev, evalR, D, envOf, lj_deriv, lj_deriv2, List.getD_cons_succ, List.getD_cons_zero]
  deriv_close

theorem C07_morse_d1 (gamma rstar Dp r : ℝ) :
    HasDerivAt (ev [gamma, rstar, Dp] morse_call) (ev [gamma, rstar, Dp] morse_deriv r) r := by
  have h := hasDerivAt_evalR (envOf [gamma, rstar, Dp]) noSyms morse_call r
    (by simp [Dom, evalR, morse_call, envOf])
  refine h.congr_deriv ?_
  simp only [ev, evalR, D, envOf, morse_call, morse_deriv, List.getD_cons_succ, List.getD_cons_zero]
  push_cast
  ring
theorem C07_morse_d2 (gamma rstar Dp r : ℝ) :
    HasDerivAt (ev [gamma, rstar, Dp] morse_deriv) (ev [gamma, rstar, Dp] morse_deriv2 r) r := by
  have h := hasDerivAt_evalR (envOf [gamma, rstar, Dp]) noSyms morse_deriv r
    (by simp [Dom, evalR, morse_deriv, envOf])
  refine h.congr_deriv ?_
  simp only [ev, evalR, D, envOf, morse_deriv, morse_deriv2, List.getD_cons_succ, List.getD_cons_zero]
  norm_num
  ring

theorem C07_sqrt_d1 (G r : ℝ) (hr : 0 < r) : HasDerivAt (ev [G] sqrt_call) (ev [G] sqrt_deriv r) r := by
  have h := hasDerivAt_evalR (envOf [G]) noSyms sqrt_call r
    (by simp [Dom, evalR, sqrt_call, envOf, hr])
  refine h.congr_deriv ?_
  simp only [ev, evalR, D, envOf, sqrt_call, sqrt_deriv, List.getD_cons_succ, List.getD_cons_zero]
  have hs : Real.sqrt r ≠ 0 := (Real.sqrt_pos.mpr hr).ne'
  deriv_close
theorem C07_sqrt_d2 (G r : ℝ) (hr : 0 < r) : HasDerivAt (ev [G] sqrt_deriv) (ev [G] sqrt_deriv2 r) r := by
  have hs : Real.sqrt r ≠ 0 := (Real.sqrt_pos.mpr hr).ne'
  have h := hasDerivAt_evalR (envOf [G]) noSyms sqrt_deriv r
    (by simp [Dom, evalR, sqrt_deriv, envOf, hr, hs])
  refine h.congr_deriv ?_
  simp only [ev, evalR, D, envOf, sqrt_deriv, sqrt_deriv2, List.getD_cons_succ, List.getD_cons_zero]
  have h32 : r ^ ((3 : ℝ) / 2) = r * Real.sqrt r := by
    rw [Real.sqrt_eq_rpow, show (3 : ℝ) / 2 = 1 + 1 / 2 by norm_num, Real.rpow_add hr, Real.rpow_one]
  have hsq : Real.sqrt r ^ 2 = r := Real.sq_sqrt hr.le
  norm_num
  rw [h32, hsq]
  deriv_close

theorem C07_exp_spline_d1 (B0 B1 B2 B3 B4 B5 C r : ℝ) :
    HasDerivAt (ev [B0, B1, B2, B3, B4, B5, C] exp_spline_call) (ev [B0, B1, B2, B3, B4, B5, C] exp_spline_deriv r) r := by
  have h := hasDerivAt_evalR (envOf [B0, B1, B2, B3, B4, B5, C]) noSyms exp_spline_call r
    (by simp [Dom, evalR, exp_spline_call, envOf])
  refine h.congr_deriv ?_
  simp only [ev, evalR, D, envOf, exp_spline_call, exp_spline_deriv, List.getD_cons_succ, List.getD_cons_zero]
  have e : B0 + r * (B1 + r * (B2 + r * (B3 + r * (B4 + B5 * r))))
      = B0 + B1 * r + B2 * r ^ 2 + B3 * r ^ 3 + B4 * r ^ 4 + B5 * r ^ 5 := by ring
  rw [e]
  norm_num
  ring
theorem C07_exp_spline_d2 (B0 B1 B2 B3 B4 B5 C r : ℝ) :
    HasDerivAt (ev [B0, B1, B2, B3, B4, B5, C] exp_spline_deriv) (ev [B0, B1, B2, B3, B4, B5, C] exp_spline_deriv2 r) r := by
  have h := hasDerivAt_evalR (envOf [B0, B1, B2, B3, B4, B5, C]) noSyms exp_spline_deriv r
    (by simp [Dom, evalR, exp_spline_deriv, envOf])
  refine h.congr_deriv ?_
  simp only [ev, evalR, D, envOf, exp_spline_deriv, exp_spline_deriv2, List.getD_cons_succ, List.getD_cons_zero]
  have e : B0 + r * (B1 + r * (B2 + r * (B3 + r * (B4 + B5 * r))))
      = B0 + B1 * r + B2 * r ^ 2 + B3 * r ^ 3 + B4 * r ^ 4 + B5 * r ^ 5 := by ring
  rw [e]
  norm_num
  ring

/-! ### Coulomb: the code's derivative literal `45.2374059061957` stands for `1/(4*0.0055264)`.
    `deriv` is the exact derivative of `__call__` up to the factor `κ` by which that literal departs from its closed form,
    and `κ` is within 1e-14 of 1; `deriv2` is the exact derivative of `deriv`. -/
noncomputable def coulKappa : ℝ := (452374059061957 / 10^13 : ℝ) * (4 * (55264 / 10^7))

theorem C07_coul_kappa : |coulKappa - 1| ≤ 1 / 10^14 := by
  unfold coulKappa
  rw [abs_le]
  constructor <;> norm_num

theorem C07_coul_d1 (qi qj r : ℝ) (hr : 0 < r) :
    HasDerivAt (ev [qi, qj] coul_call) (ev [qi, qj] coul_deriv r / coulKappa) r := by
  have h := hasDerivAt_evalR (envOf [qi, qj]) noSyms coul_call r
    (by simp [Dom, evalR, coul_call, hr.ne', Real.pi_ne_zero])
  refine h.congr_deriv ?_
  simp only [ev, evalR, D, envOf, coul_call, coul_deriv, coulKappa, List.getD_cons_succ, List.getD_cons_zero]
  have := Real.pi_ne_zero
  deriv_close
theorem C07_coul_d2 (qi qj r : ℝ) (hr : 0 < r) :
    HasDerivAt (ev [qi, qj] coul_deriv) (ev [qi, qj] coul_deriv2 r) r := by
  have h := hasDerivAt_evalR (envOf [qi, qj]) noSyms coul_deriv r
    (by simp [Dom, evalR, coul_deriv, hr.ne', Real.pi_ne_zero])
  refine h.congr_deriv ?_
  simp only [ev, evalR, D, envOf, coul_deriv, coul_deriv2, List.getD_cons_succ, List.getD_cons_zero]
  have := Real.pi_ne_zero
  deriv_close

/-! ### ZBL: `deriv` is written with the literal `2.13503407300877` for `1/(0.8854*0.529)`.
    It is the exact derivative of the ZBL energy in which the screening-length constant is that literal (`zblK K`),
    `__call__` is `zblK (1/(0.8854*0.529))`, and the two constants agree to 1e-14 relative. -/
noncomputable def zblK (K z1 z2 r : ℝ) : ℝ :=
  (1439942 / 10^5 : ℝ) * (z1 * z2) / r *
    ( (1818 / 10^4 : ℝ) * Real.exp (-( (32 / 10 : ℝ) * r) * (K * (z1 ^ (23 / 100 : ℝ) + z2 ^ (23 / 100 : ℝ))))
    + (5099 / 10^4 : ℝ) * Real.exp (-( (9423 / 10^4 : ℝ) * r) * (K * (z1 ^ (23 / 100 : ℝ) + z2 ^ (23 / 100 : ℝ))))
    + (2802 / 10^4 : ℝ) * Real.exp (-( (4029 / 10^4 : ℝ) * r) * (K * (z1 ^ (23 / 100 : ℝ) + z2 ^ (23 / 100 : ℝ))))
    + (2817 / 10^5 : ℝ) * Real.exp (-( (2016 / 10^4 : ℝ) * r) * (K * (z1 ^ (23 / 100 : ℝ) + z2 ^ (23 / 100 : ℝ)))) )

noncomputable def zblKcode : ℝ := 213503407300877 / 10^14
noncomputable def zblKexact : ℝ := 1 / ((8854 / 10^4 : ℝ) * (529 / 10^3))

theorem C07_zbl_kappa : |zblKcode / zblKexact - 1| ≤ 1 / 10^14 := by
  unfold zblKcode zblKexact
  rw [abs_le]
  constructor <;> norm_num

theorem C07_zbl_call (z1 z2 r : ℝ) (hr : 0 < r) (h1 : 0 < z1) (h2 : 0 < z2) :
    ev [z1, z2] zbl_call r = zblK zblKexact z1 z2 r := by
  simp only [ev, evalR, envOf, zbl_call, zblK, zblKexact, List.getD_cons_succ, List.getD_cons_zero]
  have hS : 0 < z1 ^ ((23:ℝ) / 100) + z2 ^ ((23:ℝ) / 100) :=
    add_pos (Real.rpow_pos_of_pos h1 _) (Real.rpow_pos_of_pos h2 _)
  push_cast
  generalize z1 ^ ((23:ℝ) / 100) + z2 ^ ((23:ℝ) / 100) = S at hS ⊢
  have hS' : S ≠ 0 := hS.ne'
  have e : ∀ b : ℝ, (-b * r) / ((4427 / 5000 : ℝ) * (529 / 1000) / S)
      = -(b * r) * (1 / ((8854 / 10 ^ 4 : ℝ) * (529 / 10 ^ 3)) * S) := by
    intro b; field_simp; ring
  rw [e, e, e, e]
  norm_num

/-- four screened-Coulomb terms, exponentials factored the way the code writes them (helper for `C07_zbl_d1`) -/
theorem zbl_abs (c κ S a1 a2 a3 a4 b1 b2 b3 b4 r : ℝ) (hr : r ≠ 0) :
    HasDerivAt (fun x => c / x *
        ( a1 * Real.exp (-(b1 * x) * (κ * S)) + a2 * Real.exp (-(b2 * x) * (κ * S))
        + a3 * Real.exp (-(b3 * x) * (κ * S)) + a4 * Real.exp (-(b4 * x) * (κ * S))))
      (-c * ( a1 * Real.exp (κ * r * S * (b2 + b3 + b4)) + a2 * Real.exp (κ * r * S * (b1 + b3 + b4))
            + a3 * Real.exp (κ * r * S * (b1 + b2 + b4)) + a4 * Real.exp (κ * r * S * (b1 + b2 + b3))
            + κ * r * S * ( b1 * a1 * Real.exp (κ * r * S * (b2 + b3 + b4)) + b2 * a2 * Real.exp (κ * r * S * (b1 + b3 + b4))
                          + b3 * a3 * Real.exp (κ * r * S * (b1 + b2 + b4)) + b4 * a4 * Real.exp (κ * r * S * (b1 + b2 + b3))))
          * Real.exp (-κ * r * S * (b1 + b2 + b3 + b4)) / r ^ 2) r := by
  have h1 : HasDerivAt (fun x : ℝ => c / x) (-c / r^2) r := by
    have := (hasDerivAt_inv hr).const_mul c
    simpa [div_eq_mul_inv, neg_mul, mul_neg] using this
  have h2 : ∀ B : ℝ, HasDerivAt (fun x : ℝ => Real.exp (-(B * x) * (κ * S)))
      (Real.exp (-(B * r) * (κ * S)) * (-(B) * (κ * S))) r := by
    intro B
    have : HasDerivAt (fun x : ℝ => -(B * x) * (κ * S)) (-(B) * (κ * S)) r := by
      have := ((hasDerivAt_id' r).const_mul B).neg.mul_const (κ * S)
      simpa using this
    exact this.exp
  have hsum := ((((h2 b1).const_mul a1).fun_add ((h2 b2).const_mul a2)).fun_add ((h2 b3).const_mul a3)).fun_add
    ((h2 b4).const_mul a4)
  refine (h1.fun_mul hsum).congr_deriv ?_
  -- name the four positive exponentials e_i = exp(κ r S b_i)
  have hE : ∀ B : ℝ, Real.exp (-(B * r) * (κ * S)) = (Real.exp (κ * r * S * B))⁻¹ := by
    intro B; rw [← Real.exp_neg]; congr 1; ring
  have hs3 : ∀ x y z : ℝ, Real.exp (κ * r * S * (x + y + z))
      = Real.exp (κ * r * S * x) * Real.exp (κ * r * S * y) * Real.exp (κ * r * S * z) := by
    intro x y z; rw [← Real.exp_add, ← Real.exp_add]; congr 1; ring
  have hs4 : Real.exp (-κ * r * S * (b1 + b2 + b3 + b4))
      = (Real.exp (κ * r * S * b1) * Real.exp (κ * r * S * b2) * Real.exp (κ * r * S * b3)
          * Real.exp (κ * r * S * b4))⁻¹ := by
    rw [← Real.exp_add, ← Real.exp_add, ← Real.exp_add, ← Real.exp_neg]; congr 1; ring
  rw [hE, hE, hE, hE, hs3, hs3, hs3, hs3, hs4]
  have p1 := Real.exp_ne_zero (κ * r * S * b1)
  have p2 := Real.exp_ne_zero (κ * r * S * b2)
  have p3 := Real.exp_ne_zero (κ * r * S * b3)
  have p4 := Real.exp_ne_zero (κ * r * S * b4)
  generalize Real.exp (κ * r * S * b1) = e1 at *
  generalize Real.exp (κ * r * S * b2) = e2 at *
  generalize Real.exp (κ * r * S * b3) = e3 at *
  generalize Real.exp (κ * r * S * b4) = e4 at *
  deriv_close

theorem C07_zbl_d1 (z1 z2 r : ℝ) (hr : 0 < r) (h1 : 0 < z1) (h2 : 0 < z2) :
    HasDerivAt (zblK zblKcode z1 z2) (ev [z1, z2] zbl_deriv r) r := by
  have h := zbl_abs ((1439942 / 10^5 : ℝ) * (z1 * z2)) zblKcode (z1 ^ (23 / 100 : ℝ) + z2 ^ (23 / 100 : ℝ))
    (1818 / 10^4) (5099 / 10^4) (2802 / 10^4) (2817 / 10^5) (32 / 10) (9423 / 10^4) (4029 / 10^4) (2016 / 10^4) r hr.ne'
  have hf : zblK zblKcode z1 z2 = fun x => (1439942 / 10^5 : ℝ) * (z1 * z2) / x *
        ( (1818 / 10^4 : ℝ) * Real.exp (-((32 / 10 : ℝ) * x) * (zblKcode * (z1 ^ (23 / 100 : ℝ) + z2 ^ (23 / 100 : ℝ))))
        + (5099 / 10^4 : ℝ) * Real.exp (-((9423 / 10^4 : ℝ) * x) * (zblKcode * (z1 ^ (23 / 100 : ℝ) + z2 ^ (23 / 100 : ℝ))))
        + (2802 / 10^4 : ℝ) * Real.exp (-((4029 / 10^4 : ℝ) * x) * (zblKcode * (z1 ^ (23 / 100 : ℝ) + z2 ^ (23 / 100 : ℝ))))
        + (2817 / 10^5 : ℝ) * Real.exp (-((2016 / 10^4 : ℝ) * x) * (zblKcode * (z1 ^ (23 / 100 : ℝ) + z2 ^ (23 / 100 : ℝ))))) := by
    funext x; rfl
  rw [hf]
  refine h.congr_deriv ?_
  simp only [ev, evalR, envOf, zbl_deriv, List.getD_cons_succ, List.getD_cons_zero]
  have hK : ((213503407300877 : ℕ) : ℝ) / ((100000000000000 : ℕ) : ℝ) = zblKcode := by
    unfold zblKcode; norm_num
  rw [hK]
  push_cast
  generalize z1 ^ ((23:ℝ) / 100) + z2 ^ ((23:ℝ) / 100) = S
  generalize zblKcode = K
  ring_nf

/-! ## combinators: the closure bodies of `plus`, `product`, `pow` (atsim/potentials/__init__.py), with the operands and
    their derivatives as arbitrary functions.  Symbols: 0=a 1=b 2=deriv_a 3=deriv_b 4=deriv2_a 5=deriv2_b 6=potential 7=deriv. -/

/-- symbol environment at `x` for a combinator whose own value/derivative closures are `pot`, `der` -/
noncomputable def symsAt (a b da db d2a d2b : ℝ → ℝ) (pot der : E) (x : ℝ) : Nat → ℝ := fun k =>
  match k with
  | 0 => a x | 1 => b x | 2 => da x | 3 => db x | 4 => d2a x | 5 => d2b x
  | 6 => evalR (fun _ => 0) (fun j => match j with | 0 => a x | 1 => b x | _ => 0) x pot
  | 7 => evalR (fun _ => 0) (fun j => match j with
          | 0 => a x | 1 => b x | 2 => da x | 3 => db x
          | 6 => evalR (fun _ => 0) (fun i => match i with | 0 => a x | 1 => b x | _ => 0) x pot
          | _ => 0) x der
  | _ => 0

/-- value of a closure term at x -/
noncomputable def cv (a b da db d2a d2b : ℝ → ℝ) (pot der : E) (e : E) (x : ℝ) : ℝ :=
  evalR (fun _ => 0) (symsAt a b da db d2a d2b pot der x) x e

section combinators
variable (a b da db d2a d2b : ℝ → ℝ)

theorem C07_plus_value (x : ℝ) : cv a b da db d2a d2b plus_potential plus_deriv plus_potential x = a x + b x := by
  simp only [cv, symsAt, evalR, plus_potential]
  form_close
theorem C07_product_value (x : ℝ) : cv a b da db d2a d2b product_potential product_deriv product_potential x = a x * b x := by
  simp only [cv, symsAt, evalR, product_potential]
  form_close
theorem C07_pow_value (x : ℝ) : cv a b da db d2a d2b pow_potential pow_deriv pow_potential x = a x ^ b x := by
  simp only [cv, symsAt, evalR, pow_potential]
  form_close

theorem C07_plus_d1 (r : ℝ) (ha : HasDerivAt a (da r) r) (hb : HasDerivAt b (db r) r) :
    HasDerivAt (cv a b da db d2a d2b plus_potential plus_deriv plus_potential)
      (cv a b da db d2a d2b plus_potential plus_deriv plus_deriv r) r := by
  have hf : cv a b da db d2a d2b plus_potential plus_deriv plus_potential = fun x => a x + b x := by
    funext x; simp only [cv, symsAt, evalR, plus_potential]
    form_close
  rw [hf]
  refine (ha.fun_add hb).congr_deriv ?_
  simp only [cv, symsAt, evalR, plus_deriv]
  form_close
theorem C07_plus_d2 (r : ℝ) (hda : HasDerivAt da (d2a r) r) (hdb : HasDerivAt db (d2b r) r) :
    HasDerivAt (cv a b da db d2a d2b plus_potential plus_deriv plus_deriv)
      (cv a b da db d2a d2b plus_potential plus_deriv plus_deriv2 r) r := by
  have hf : cv a b da db d2a d2b plus_potential plus_deriv plus_deriv = fun x => da x + db x := by
    funext x; simp only [cv, symsAt, evalR, plus_deriv]
    form_close
  rw [hf]
  refine (hda.fun_add hdb).congr_deriv ?_
  simp only [cv, symsAt, evalR, plus_deriv2]
  form_close

theorem C07_product_d1 (r : ℝ) (ha : HasDerivAt a (da r) r) (hb : HasDerivAt b (db r) r) :
    HasDerivAt (cv a b da db d2a d2b product_potential product_deriv product_potential)
      (cv a b da db d2a d2b product_potential product_deriv product_deriv r) r := by
  have hf : cv a b da db d2a d2b product_potential product_deriv product_potential = fun x => a x * b x := by
    funext x; simp only [cv, symsAt, evalR, product_potential]
    form_close
  rw [hf]
  refine (ha.fun_mul hb).congr_deriv ?_
  simp only [cv, symsAt, evalR, product_deriv]
  deriv_close
/-- second order, including the `2 a' b'` cross term -/
theorem C07_product_d2 (r : ℝ) (ha : HasDerivAt a (da r) r) (hb : HasDerivAt b (db r) r)
    (hda : HasDerivAt da (d2a r) r) (hdb : HasDerivAt db (d2b r) r) :
    HasDerivAt (cv a b da db d2a d2b product_potential product_deriv product_deriv)
      (cv a b da db d2a d2b product_potential product_deriv product_deriv2 r) r := by
  have hf : cv a b da db d2a d2b product_potential product_deriv product_deriv
      = fun x => a x * db x + b x * da x := by
    funext x; simp only [cv, symsAt, evalR, product_deriv]
    form_close
  rw [hf]
  refine ((ha.fun_mul hdb).fun_add (hb.fun_mul hda)).congr_deriv ?_
  simp only [cv, symsAt, evalR, product_deriv2]
  deriv_close

theorem C07_pow_d1 (r : ℝ) (hpos : 0 < a r) (ha : HasDerivAt a (da r) r) (hb : HasDerivAt b (db r) r) :
    HasDerivAt (cv a b da db d2a d2b pow_potential pow_deriv pow_potential)
      (cv a b da db d2a d2b pow_potential pow_deriv pow_deriv r) r := by
  have hf : cv a b da db d2a d2b pow_potential pow_deriv pow_potential = fun x => a x ^ b x := by
    funext x; simp only [cv, symsAt, evalR, pow_potential]
    form_close
  rw [hf]
  refine (ha.rpow hb hpos).congr_deriv ?_
  simp only [cv, symsAt, evalR, pow_deriv, pow_potential]
  have hne : a r ≠ 0 := ne_of_gt hpos
  rw [Real.rpow_sub_one hne]
  deriv_close
theorem C07_pow_d2 (r : ℝ) (hpos : ∀ x, 0 < a x) (ha : ∀ x, HasDerivAt a (da x) x) (hb : ∀ x, HasDerivAt b (db x) x)
    (hda : HasDerivAt da (d2a r) r) (hdb : HasDerivAt db (d2b r) r) :
    HasDerivAt (cv a b da db d2a d2b pow_potential pow_deriv pow_deriv)
      (cv a b da db d2a d2b pow_potential pow_deriv pow_deriv2 r) r := by
  have hf : cv a b da db d2a d2b pow_potential pow_deriv pow_deriv
      = fun x => (a x ^ b x) * (db x * Real.log (a x) + b x * da x / a x) := by
    funext x; simp only [cv, symsAt, evalR, pow_deriv, pow_potential]
    form_close
  rw [hf]
  have hne : a r ≠ 0 := ne_of_gt (hpos r)
  have hp : HasDerivAt (fun x => a x ^ b x) ((a r ^ b r) * (db r * Real.log (a r) + b r * da r / a r)) r := by
    refine ((ha r).rpow (hb r) (hpos r)).congr_deriv ?_
    rw [Real.rpow_sub_one hne]
    field_simp
    ring
  have hlog := (ha r).log hne
  have h1 := (hdb.fun_mul hlog)
  have h2 := ((hb r).fun_mul hda).fun_div (ha r) hne
  refine (hp.fun_mul (h1.fun_add h2)).congr_deriv ?_
  simp only [cv, symsAt, evalR, pow_deriv2, pow_deriv, pow_potential]
  deriv_close
end combinators

/-- `trans(f, as.constant X)`: `deriv(r) = f.deriv(r + X)` is the derivative of `r ↦ f(r + X)` (and likewise one order up) -/
theorem C07_trans (f f' : ℝ → ℝ) (X r : ℝ) (h : HasDerivAt f (f' (r + X)) (r + X)) :
    HasDerivAt (fun x => f (x + X)) (f' (r + X)) r := h.comp_add_const r X

/-! ## polynomial of any order (hand model of the comprehension; the varargs signature is outside the translator's fragment) -/

/-- `polyVal/polyD1/polyD2` (Lemmas/PolyReal.lean) are `polynomial.__call__/deriv/deriv2`; every order, every coefficient list, every r INCLUDING r = 0 -/
theorem C07_polynomial_d1 (cs : List ℝ) (i0 : Nat) (r : ℝ) : HasDerivAt (polyVal i0 cs) (polyD1 i0 cs r) r := by
  induction cs generalizing i0 with
  | nil =>
    have hf : polyVal i0 [] = fun _ => (0 : ℝ) := by funext x; simp only [polyVal]
    rw [hf]; simp only [polyD1]; exact hasDerivAt_const r 0
  | cons c cs ih =>
    have hf : polyVal i0 (c :: cs) = fun x => x ^ i0 * c + polyVal (i0 + 1) cs x := by
      funext x; simp only [polyVal]
    rw [hf]
    refine (((hasDerivAt_pow i0 r).mul_const c).fun_add (ih (i0 + 1))).congr_deriv ?_
    simp only [polyD1]
    split_ifs with h0
    · subst h0; simp
    · rfl
theorem C07_polynomial_d2 (cs : List ℝ) (i0 : Nat) (r : ℝ) : HasDerivAt (polyD1 i0 cs) (polyD2 i0 cs r) r := by
  induction cs generalizing i0 with
  | nil =>
    have hf : polyD1 i0 [] = fun _ => (0 : ℝ) := by funext x; simp only [polyD1]
    rw [hf]; simp only [polyD2]; exact hasDerivAt_const r 0
  | cons c cs ih =>
    have hf : polyD1 i0 (c :: cs)
        = fun x => (if i0 = 0 then 0 else (i0 : ℝ) * x ^ (i0 - 1) * c) + polyD1 (i0 + 1) cs x := by
      funext x; simp only [polyD1]
    rw [hf]
    have hterm : HasDerivAt (fun x : ℝ => if i0 = 0 then (0 : ℝ) else (i0 : ℝ) * x ^ (i0 - 1) * c)
        (if i0 < 2 then 0 else (i0 : ℝ) * ((i0 : ℝ) - 1) * r ^ (i0 - 2) * c) r := by
      rcases Nat.lt_or_ge i0 2 with h2 | h2
      · rw [if_pos h2]
        have h01 : i0 = 0 ∨ i0 = 1 := by omega
        rcases h01 with rfl | rfl
        · simpa using hasDerivAt_const r (0 : ℝ)
        · simpa using hasDerivAt_const r ((1 : ℝ) * c)
      · have h0 : i0 ≠ 0 := by omega
        simp only [if_neg h0, if_neg (not_lt.mpr h2)]
        refine (((hasDerivAt_pow (i0 - 1) r).const_mul (i0 : ℝ)).mul_const c).congr_deriv ?_
        have hc : ((i0 - 1 : ℕ) : ℝ) = (i0 : ℝ) - 1 := by
          rw [Nat.cast_sub (by omega)]; simp
        rw [hc, show i0 - 1 - 1 = i0 - 2 by omega]
        ring
    refine (hterm.fun_add (ih (i0 + 1))).congr_deriv ?_
    simp only [polyD2]

/-! non-vacuity -/
example : ev [1000, 3/10, 32] buck_call 1 = 1000 * Real.exp (-1 / (3/10)) - 32 / 1 ^ 6 := by
  simp [ev, evalR, envOf, buck_call]

end Atsim.C07
