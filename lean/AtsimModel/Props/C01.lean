import AtsimModel.Model.PairTables
import AtsimModel.Gen.Logic
import Mathlib.Tactic.Ring
import Mathlib.Tactic.FieldSimp
import Mathlib.Tactic.Linarith
import Mathlib.Tactic.NormNum
import Mathlib.Data.Rat.Defs
import Mathlib.Algebra.Order.Field.Rat
import AtsimModel.Lemmas.KernelQ
/-!
# C01 — LAMMPS pair table: rows, header and force column are faithful to the model

Property theorems only.  They speak about `Atsim.lammpsTable`, the transcription of
`LAMMPS_PairTabulation.write`; that the transcription *is* the code is re-established on every run
by the correspondence check (`harness/props/C01.py`), which compares the tokens of the real
writer's output with `lammpsTable` on generated models.
-/
namespace Atsim.C01
open Atsim

/-- The property's predicate on one block of an arbitrary candidate output. -/
def BlockOK (p : Pot) (cut : Rat) (nr : Nat) (b : LBlock) : Prop :=
  b.a = p.a ∧ b.b = p.b ∧                                   -- keyed by the potential's two species labels
  b.N = nr - 1 ∧ b.rows.length = b.N ∧                      -- header N agrees with the body
  b.lo = cut / ((nr : Rat) - 1) ∧ b.hi = cut ∧              -- lo = dr, hi = cutoff
  ∀ k (hk : k < b.rows.length),
    (b.rows[k]).n = k + 1 ∧                                  -- numbered 1..N
    (b.rows[k]).r = gridPt cut nr (k + 1) ∧                  -- equally spaced, r_n = n * cutoff/(nr-1); r = 0 omitted
    (b.rows[k]).e = Slot.val p.fid (gridPt cut nr (k + 1)) ∧ -- energy of this potential at this row's separation
    (b.rows[k]).f = Slot.val p.fid (gridPt cut nr (k + 1))   -- force slot of the same function at the same separation

/-- the full statement of C01 on the model -/
def C01_full : Prop :=
  ∀ (pots : List Pot) (cut : Rat) (nr : Nat), 3 ≤ nr →
    (lammpsTable pots cut nr).length = pots.length ∧
    ∀ i (hi : i < pots.length) (hi' : i < (lammpsTable pots cut nr).length),
      BlockOK pots[i] cut nr (lammpsTable pots cut nr)[i]

private theorem cast_pred (nr : Nat) (h : 1 ≤ nr) : ((nr - 1 : Nat) : Rat) = (nr : Rat) - 1 := by
  rw [Nat.cast_sub h]; simp

/-- The code's row formula, fed with `(dr, cutoff, nr-1)`, lands exactly on the grid `n * cutoff/(nr-1)`.
    This is the algebra `dr + (n-1)(cut-dr)/(nr-2) = n*dr`; it needs `nr - 2 ≠ 0`. -/
theorem C01_grid (cut : Rat) (nr k : Nat) (h3 : 3 ≤ nr) :
    rowR (pairDr cut nr) cut (nr - 1) (k + 1) = gridPt cut nr (k + 1) := by
  unfold rowR gridPt pairDr
  rw [cast_pred nr (by omega)]
  have hnr : (3 : Rat) ≤ (nr : Rat) := by exact_mod_cast h3
  have ha : (nr : Rat) - 1 ≠ 0 := by linarith
  have hb : (nr : Rat) - 1 - 1 ≠ 0 := by linarith
  push_cast
  field_simp
  ring

/-- first row is at `dr`, so the header's `lo` is the first row's separation -/
theorem C01_lo_is_first (cut : Rat) (nr : Nat) : gridPt cut nr 1 = pairDr cut nr := by
  unfold gridPt pairDr; simp

/-- last row is at the cutoff, so the header's `hi` is the last row's separation -/
theorem C01_hi_is_last (cut : Rat) (nr : Nat) (h3 : 3 ≤ nr) : gridPt cut nr (nr - 1) = cut := by
  unfold gridPt
  rw [cast_pred nr (by omega)]
  have hnr : (3 : Rat) ≤ (nr : Rat) := by exact_mod_cast h3
  have ha : (nr : Rat) - 1 ≠ 0 := by linarith
  field_simp

/-- the grid is equally spaced with spacing `dr = cutoff/(nr-1)` -/
theorem C01_spacing (cut : Rat) (nr k : Nat) :
    gridPt cut nr (k + 1) - gridPt cut nr k = pairDr cut nr := by
  unfold gridPt pairDr
  push_cast
  ring

theorem C01_single (p : Pot) (cut : Rat) (nr : Nat) (h3 : 3 ≤ nr) :
    BlockOK p cut nr (lammpsSingle p (pairDr cut nr) cut (nr - 1)) := by
  refine ⟨rfl, rfl, rfl, by simp [lammpsSingle], rfl, rfl, ?_⟩
  intro k hk
  simp [lammpsSingle] at hk ⊢
  have := C01_grid cut nr k h3
  simp [this]

/-- C01 holds of the model for every list of potentials, every cutoff and every `nr ≥ 3`. -/
theorem C01_holds : C01_full := by
  intro pots cut nr h3
  refine ⟨by simp [lammpsTable], ?_⟩
  intro i hi hi'
  simp only [lammpsTable, List.getElem_map]
  exact C01_single _ cut nr h3

/-- The candidate output is *determined* by the predicate: any output whose blocks all satisfy
    `BlockOK` is the model's output.  (So "implementation tokens ≠ model tokens" is a violation of
    the property, not merely a difference from the model.) -/
theorem C01_determined (p : Pot) (cut : Rat) (nr : Nat) (h3 : 3 ≤ nr) (b : LBlock)
    (h : BlockOK p cut nr b) : b = lammpsSingle p (pairDr cut nr) cut (nr - 1) := by
  obtain ⟨ha, hb, hN, hlen, hlo, hhi, hrows⟩ := h
  cases b with
  | mk a b' N lo hi rows =>
    simp only at ha hb hN hlen hlo hhi hrows
    simp only [lammpsSingle, pairDr, LBlock.mk.injEq]
    refine ⟨ha, hb, hN, hlo, hhi, ?_⟩
    apply List.ext_getElem
    · simp [hlen, hN]
    · intro k h1 h2
      have hr := hrows k h1
      have hg := C01_grid cut nr k h3
      simp only [pairDr] at hg
      simp only [List.getElem_map, List.getElem_range, hg]
      cases hrk : rows[k] with
      | mk n r e f =>
        rw [hrk] at hr
        simp only at hr
        obtain ⟨h1, h2, h3', h4⟩ := hr
        simp [h1, h2, h3', h4]

/-! ### what the force column means -/

/-- transcription of `_util.num_deriv` over a field -/
def numDeriv (f : Rat → Rat) (r h : Rat) : Rat :=
  let r1 := r - h / 2
  let r2 := r + h / 2
  let dr := r2 - r1
  let dU := f r2 - f r1
  dU / dr

/-- the central difference is the exact derivative for every polynomial of degree ≤ 2
    (in exact arithmetic; binary64 rounding of the difference quotient is outside the model) -/
theorem C01_numderiv_quadratic (a b c r h : Rat) (hh : h ≠ 0) :
    numDeriv (fun x => a + b * x + c * x ^ 2) r h = b + 2 * c * r := by
  unfold numDeriv
  simp only
  have : r + h / 2 - (r - h / 2) = h := by ring
  rw [this]
  field_simp
  ring

/-! ### non-vacuity and the `nr = 2` boundary -/

example : (3 : Nat) ≤ 5 ∧ (lammpsTable [⟨"A", "B", 1⟩, ⟨"O", "O", 2⟩] (2 : Rat) 5).length = 2 := by
  constructor <;> decide

/-- a concrete two-block table, computed by the model -/
example : (lammpsTable [⟨"A", "B", 1⟩] (2 : Rat) 5).map (fun b => (b.N, b.lo, b.hi, b.rows.map (·.r)))
    = [(4, 1/2, 2, [1/2, 1, 3/2, 2])] := by decide +kernel

/-- at `nr = 2` the row formula divides by zero (Python raises `ZeroDivisionError`); the model's
    totalised division gives `r = dr`, not a grid: the hypothesis `3 ≤ nr` is exactly the property's. -/
example : rowR (pairDr 2 2) 2 (2 - 1) 1 = 2 := by decide +kernel

end Atsim.C01

/-! ## kernel ties: the arithmetic the code uses at these places, regenerated from the source on every run, is the model's -/
namespace Atsim.C01
open Atsim.Gen Atsim.E
set_option linter.unusedTactic false
set_option linter.unusedSimpArgs false
theorem C01_kernel_dr (cut : Rat) (nr : Nat) : evalQ (envQ [cut, nr]) k_pair_dr = pairDr cut nr := by
  kernel_unfold [k_pair_dr, pairDr]
  kernel_close
theorem C01_kernel_row (minr maxr : Rat) (N n : Nat) : evalQ (envQ [minr, maxr, N, n]) k_lammps_row_r = rowR minr maxr N n := by
  kernel_unfold [k_lammps_row_r, rowR]
  kernel_close
/-- `LAMMPS_PairTabulation.write` calls the writer with (minr, maxr, gridPoints) = (dr, cutoff, nr - 1) -/
theorem C01_kernel_args (cut : Rat) (nr : Nat) (h : 1 ≤ nr) :
    k_lammps_args.map (evalQ (envQ [cut, nr, pairDr cut nr])) = [pairDr cut nr, cut, ((nr - 1 : Nat) : Rat)] := by
  kernel_unfold [k_lammps_args]
  push_cast [Nat.cast_sub h]
  kernel_close
/-! ## The code itself: `Potential.energy`, `Potential.force`, `gradient`, `deriv`, `num_deriv` regenerated from the source

`Atsim.Gen.Logic.potential_force / gradient_call / util_deriv / num_deriv` are produced by `translator/py2lean_logic.py` from `_potential.py` and `_util.py`
on every run; the callables they are given are opaque (`evalFn`, `analyticDeriv`).  Together they say where the force column comes from, for EVERY callable:
minus the callable's own `.deriv` when it offers one, otherwise minus the central difference of the callable's own values with the step the caller asked for. -/
open Atsim.Gen.Logic in
/-- **code tie**: the energy column is the callable's value -/
theorem C01_code_energy (potentialFunction : Rat → Rat) (r : Rat) : potential_energy potentialFunction r = potentialFunction r := rfl

open Atsim.Gen.Logic in
/-- **code tie**: the force is MINUS what the derivative wrapper returns -/
theorem C01_code_force (derivFunction : Rat → Rat) (r : Rat) : potential_force derivFunction r = - derivFunction r := rfl

open Atsim.Gen.Logic in
/-- **code tie**: the derivative wrapper built by `gradient(f, h)` uses `f.deriv` when `f` offers it, and otherwise the central difference of `f` ITSELF
    over `[r - h/2, r + h/2]` with the step `h` it was built with (the model's `numDeriv`) -/
theorem C01_code_gradient (evalFn analyticDeriv : Callable → Rat → Rat) (f : Callable) (h r : Rat) :
    gradient_call evalFn analyticDeriv f h r = if f.has_deriv then analyticDeriv f r else numDeriv (evalFn f) r h := by
  simp only [gradient_call, util_deriv, num_deriv, numDeriv]

open Atsim.Gen.Logic in
/-- hence: for a derivative-less callable that is a quadratic, the force the code tabulates is exactly minus its slope, for every step `h ≠ 0` -/
theorem C01_code_force_quadratic (analyticDeriv : Callable → Rat → Rat) (f : Callable) (hf : f.has_deriv = false) (a b c r h : Rat) (hh : h ≠ 0) :
    potential_force (gradient_call (fun _ x => a + b * x + c * x ^ 2) analyticDeriv f h) r = - (b + 2 * c * r) := by
  rw [C01_code_force, C01_code_gradient]
  simp only [hf, Bool.false_eq_true, if_false]
  rw [C01_numderiv_quadratic a b c r h hh]

/-! ## The code itself: the LAMMPS writer regenerated from the source

`Atsim.Gen.Logic.lammps_write_single / lammps_write_potentials` are `_lammps_writeTABLE._writeSinglePotential / writePotentials` as produced by
`translator/py2lean_logic.py` on every run: ONE token per `print`, holding the format text of the source and its arguments in the order the format uses them.
`renderBlock` is how the model's block reads in the same tokens.  `C01_code_writer`: for every list of potentials, every `minr`, `maxr`, every row count and
whatever the stream already holds, the code emits exactly the model's table - so `C01_holds` / `C01_determined` are theorems about the writer as written now
(loop bounds, the row formula, which value goes into which column, the title and header arguments, the `%.8f` precision, the separator between blocks). -/
namespace Writer
open Atsim.Gen.Logic

def toRec (p : Pot) : PotRec := ⟨p.a, p.b, p.fid⟩

def slotOV (what : String) : Slot → OV
  | .val fid x => .fn what fid x
  | .zero => .num 0

def renderRow (row : LRow) : Tok :=
  ⟨"%s %.8f %.8f %.8f\n", [.int row.n, .num row.r, slotOV "energy" row.e, slotOV "force" row.f]⟩

def renderBlock (b : LBlock) : List Tok :=
  [⟨"%s-%s\n", [.str b.a, .str b.b]⟩, ⟨"N %d R %.8f %.8f\n", [.int b.N, .num b.lo, .num b.hi]⟩, ⟨"\n", []⟩] ++ b.rows.map renderRow

/-- the row the loop body emits for the loop variable `n` -/
def codeRow (pot : PotRec) (minr maxr : Rat) (gridPoints n : Int) : Tok :=
  let r : Rat := minr + (((n - 1 : Int) : Rat) * (maxr - minr)) / ((gridPoints : Rat) - 1)
  ⟨"%s %.8f %.8f %.8f\n", [.int n, .num r, energyOf pot r, forceOf pot r]⟩

theorem loop_eq (pot : PotRec) (minr maxr : Rat) (gridPoints : Int) (out : List Tok) :
    ∀ (xs : List Int) (sb : List Tok),
      lammps_write_single_loop1 gridPoints maxr minr out pot sb xs = out ++ (sb ++ xs.map (codeRow pot minr maxr gridPoints)) := by
  intro xs
  induction xs with
  | nil => intro sb; simp [lammps_write_single_loop1]
  | cons n ns ih =>
    intro sb
    simp only [lammps_write_single_loop1, ih, List.map_cons, codeRow]
    simp [List.append_assoc]

theorem codeRow_eq (p : Pot) (minr maxr : Rat) (N k : Nat) :
    codeRow (toRec p) minr maxr (N : Int) ((1 : Int) + (k : Int)) =
      renderRow ⟨k + 1, rowR minr maxr N (k + 1), .val p.fid (rowR minr maxr N (k + 1)), .val p.fid (rowR minr maxr N (k + 1))⟩ := by
  have hr : minr + ((((1 : Int) + (k : Int) - 1 : Int) : Rat) * (maxr - minr)) / (((N : Int) : Rat) - 1) = rowR minr maxr N (k + 1) := by
    unfold rowR; push_cast; ring
  simp only [codeRow, renderRow, slotOV, energyOf, forceOf, toRec, hr]
  congr 2
  push_cast; ring

end Writer

open Atsim.Gen.Logic in
/-- **code tie**: `_writeSinglePotential` appends exactly the model's block to the stream -/
theorem C01_code_write_single (p : Pot) (minr maxr : Rat) (N : Nat) (out : List Tok) :
    lammps_write_single (Writer.toRec p) minr maxr (N : Int) out = out ++ Writer.renderBlock (lammpsSingle p minr maxr N) := by
  unfold lammps_write_single
  rw [Writer.loop_eq]
  congr 1
  simp only [Writer.renderBlock, lammpsSingle, Writer.toRec, intRange, List.nil_append, List.map_map]
  have hN : ((N : Int) + 1 - 1).toNat = N := by omega
  simp only [hN, List.cons_append, List.nil_append, List.cons.injEq, true_and]
  apply List.map_congr_left
  intro k _
  exact Writer.codeRow_eq p minr maxr N k


namespace Writer
open Atsim.Gen.Logic

theorem potentials_loop_eq (minr maxr : Rat) (N : Nat) (out : List Tok) (orig : List PotRec) :
    ∀ (ps : List Pot) (lines : List (List Tok)),
      lammps_write_potentials_loop1 (N : Int) maxr minr out orig lines (ps.map toRec) =
        out ++ joinStreams (lines ++ ps.map fun p => renderBlock (lammpsSingle p minr maxr N)) := by
  intro ps
  induction ps with
  | nil => intro lines; simp [lammps_write_potentials_loop1]
  | cons p ps ih =>
    intro lines
    simp only [List.map_cons, lammps_write_potentials_loop1, C01_code_write_single, List.nil_append, ih, List.append_assoc, List.cons_append]

end Writer

open Atsim.Gen.Logic in
/-- **code tie (whole table)**: for every list of potentials, every `minr`, `maxr` and row count, `writePotentials` appends to the stream the model's blocks
    in the order of the list, separated by `os.linesep` - nothing else, nothing missing -/
theorem C01_code_write_potentials (pots : List Pot) (minr maxr : Rat) (N : Nat) (out : List Tok) :
    lammps_write_potentials (pots.map Writer.toRec) minr maxr (N : Int) out =
      out ++ joinStreams (pots.map fun p => Writer.renderBlock (lammpsSingle p minr maxr N)) := by
  unfold lammps_write_potentials
  rw [Writer.potentials_loop_eq]
  simp

open Atsim.Gen.Logic in
/-- **code tie (the tabulation class)**: with the arguments `LAMMPS_PairTabulation.write` passes (`dr`, `cutoff`, `nr - 1`: kernel `lammps_args`, theorem
    `C01_kernel_*`) the writer emits `lammpsTable pots cutoff nr`, the table `C01_holds` is about -/
theorem C01_code_table (pots : List Pot) (cut : Rat) (nr : Nat) (out : List Tok) :
    lammps_write_potentials (pots.map Writer.toRec) (pairDr cut nr) cut ((nr - 1 : Nat) : Int) out =
      out ++ joinStreams ((lammpsTable pots cut nr).map Writer.renderBlock) := by
  rw [C01_code_write_potentials]
  simp [lammpsTable, List.map_map, Function.comp_def]


open Atsim.Gen.Logic in
/-- **code tie (the tabulation object)**: `LAMMPS_PairTabulation.write` as regenerated - the `dr` property, `cutoff`, `nr - 1` handed to the writer in that order -
    writes `lammpsTable pots cutoff nr` -/
theorem C01_code_tabulation_write (pots : List Pot) (cut : Rat) (nr : Nat) (hnr : 1 ≤ nr) (out : List Tok) :
    lammps_tab_write ⟨(nr : Int), cut, pots.map Writer.toRec⟩ out = out ++ joinStreams ((lammpsTable pots cut nr).map Writer.renderBlock) := by
  have hdr : tab_dr ⟨(nr : Int), cut, pots.map Writer.toRec⟩ = pairDr cut nr := by
    simp only [tab_dr, pairDr]
    push_cast
    rfl
  have hn : ((nr : Int) - (1 : Int)) = ((nr - 1 : Nat) : Int) := by omega
  simp only [lammps_tab_write, hdr, hn]
  exact C01_code_table pots cut nr out

end Atsim.C01
