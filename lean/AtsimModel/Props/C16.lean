import AtsimModel.Model.Validate
import AtsimModel.Gen.Logic
/-!
# C16 — malformed models give configuration errors; valid models are never rejected

Decision procedures of the validation layer (Model/Validate.lean) against the well-formedness the reference manual states:
a refusal happens exactly on ill-formed input ("never an internal exception or a silently written table" is carried by the
correspondence: `harness/props/C16.py` observes the exception class / exit status of the real code for a catalogue of single
structural mutations and compares the spline / table-form / target / key decisions with these functions).
-/
namespace Atsim.C16
open Atsim

/-- **spline definitions**: the modifier accepts a definition iff it is well formed – three parts, a spline type in the middle,
    detach < attach, no parameters for exp_spline, exactly one r_min strictly inside (detach, attach) for buck4_spline -/
theorem C16_spline_iff (args : List MultiRange) : validateSpline args = .ok () ↔ WellFormedSpline args := by
  constructor
  · intro h
    unfold validateSpline at h
    split at h
    · rename_i m
      split at h
      · simp at h
      · simp at h
      · rename_i s1 p1 s2 p2 rest
        split at h
        · simp at h
        · rename_i label params
          split at h
          · simp at h
          · rename_i hl
            split at h
            · simp at h
            · simp at h
            · rename_i s3 p3
              split at h
              · simp at h
              · rename_i h12
                split at h
                · simp at h
                · rename_i h23
                  simp at h12 h23
                  split at h
                  · rename_i hexp
                    split at h
                    · rename_i hemp
                      refine ⟨s1, p1, s2, label, params, s3, p3, rfl, h12, h23, Or.inl ⟨by simpa using hexp, by simpa using hemp⟩⟩
                    · simp at h
                  · rename_i hexp
                    split at h
                    · rename_i rmin
                      split at h
                      · rename_i hr
                        simp at hr hexp hl
                        refine ⟨s1, p1, s2, label, [rmin], s3, p3, rfl, h12, h23, Or.inr ⟨hl hexp, rmin, rfl, hr.1, hr.2⟩⟩
                      · simp at h
                    · simp at h
    · simp at h
  · rintro ⟨s1, p1, s2, label, params, s3, p3, rfl, h12, h23, h⟩
    rcases h with ⟨rfl, rfl⟩ | ⟨rfl, rmin, rfl, h1, h2⟩
    · simp [validateSpline, h12, h23]
    · simp [validateSpline, h12, h23, h1, h2]

/-- in particular an r_min outside the splined region is refused (the shipped guard `not a and not b` accepted it) -/
theorem C16_spline_rmin (s1 s2 s3 : RStart) (p1 p3 : Piece) (rmin : Rat) (h12 : s1.2 < s2.2) (h23 : s2.2 < s3.2)
    (hout : rmin ≤ s2.2 ∨ s3.2 ≤ rmin) :
    validateSpline [[(s1, p1), (s2, .form "buck4_spline" [rmin]), (s3, p3)]] = .error .rminRange := by
  have hn : ¬ (s2.2 < rmin ∧ rmin < s3.2) := by
    rintro ⟨a, b⟩
    rcases hout with h | h
    · exact absurd a (Rat.not_lt.mpr h)
    · exact absurd b (Rat.not_lt.mpr h)
  simp [validateSpline, h12, h23]
  intro a b
  exact hn ⟨a, b⟩

/-- a modifier where the spline type is expected, or any other label, is refused -/
theorem C16_spline_middle (s1 s2 : RStart) (p1 : Piece) (l : String) (a : List MultiRange) (rest : MultiRange) :
    validateSpline [(s1, p1) :: (s2, .modifier l a) :: rest] = .error .notASplineType := by
  simp [validateSpline]

/-- wrong part counts are refused -/
theorem C16_spline_counts (s1 s2 s3 s4 : RStart) (p1 p3 p4 : Piece) (rest : MultiRange) :
    validateSpline [[(s1, p1)]] = .error .onePart ∧
    validateSpline [[(s1, p1), (s2, .form "exp_spline" [])]] = .error .twoParts ∧
    validateSpline [(s1, p1) :: (s2, .form "exp_spline" []) :: (s3, p3) :: (s4, p4) :: rest] = .error .moreThanThree ∧
    validateSpline [] = .error .argCount := by
  refine ⟨?_, ?_, ?_, ?_⟩ <;> simp [validateSpline]

/-- **table-form data**: accepted iff exactly one of {x and y, xy} is given, the lengths agree (x,y) / the count is even (xy),
    the interpolation is known, and there are at least four strictly increasing x values -/
theorem C16_table_iff (t : TableShape) :
    validateTable t = .ok () ↔
      (((t.hasX = true ∧ t.hasY = true ∧ t.hasXY = false ∧ t.nx = t.ny) ∨ (t.hasX = false ∧ t.hasY = false ∧ t.hasXY = true ∧ t.nxy % 2 = 0)) ∧
       t.interpolation = "cubic_spline" ∧ 4 ≤ t.xs.length ∧ strictlyIncreasing t.xs = true) := by
  obtain ⟨hx, hy, hxy, nx, ny, nxy, interp, xs⟩ := t
  unfold validateTable
  cases hx <;> cases hy <;> cases hxy <;> simp <;> (repeat' split) <;> simp_all <;> omega

/-- **species keys**: a key is accepted iff it has exactly one separator -/
theorem C16_key_iff (parts : List String) : (splitKey parts).isSome ↔ parts.length = 2 := by
  match parts with
  | [] => simp [splitKey]
  | [_] => simp [splitKey]
  | [_, _] => simp [splitKey]
  | _ :: _ :: _ :: _ => simp [splitKey]

/-- **targets**: every target the reference manual lists is accepted (synonyms mapped), an omitted target means LAMMPS -/
theorem C16_documented_targets : ∀ t ∈ documentedTargets, (validateTarget (some t)).isSome := by
  decide

theorem C16_target_synonyms :
    validateTarget (some "LAMMPS_eam_alloy") = some "setfl" ∧ validateTarget (some "DL_POLY") = some "DLPOLY" ∧ validateTarget none = some "LAMMPS" ∧
    validateTarget (some "FOO") = none ∧ validateTarget (some "lammps") = none := by
  decide

/-- non-vacuity: the documented examples are well formed -/
example : WellFormedSpline [[((false, 0), .form "as.zbl" [14, 8]), ((true, 4/5), .form "exp_spline" []), ((true, 7/5), .form "as.buck" [180003, 3/10, 32])]] := by
  refine ⟨_, _, _, _, _, _, _, rfl, by decide +kernel, by decide +kernel, Or.inl ⟨rfl, rfl⟩⟩
example : validateSpline [[((false, 0), .form "as.buck" [1000, 3/10, 0]), ((false, 1), .form "buck4_spline" [3/2]), ((false, 2), .form "as.buck" [0, 1, 30])]] = .ok () := by
  rw [C16_spline_iff]
  refine ⟨_, _, _, _, _, _, _, rfl, by decide +kernel, by decide +kernel, Or.inr ⟨rfl, _, rfl, by decide +kernel, by decide +kernel⟩⟩

/-! ## The code itself: target synonyms and the registry of tabulation factories, regenerated from the source

`Atsim.Gen.Logic.init_target` is `_TabulationSection._init_target` (its `_target_synonyms` dictionary included) and
`Atsim.Gen.Logic.tabulation_factories` the module-level `TABULATION_FACTORIES` dictionary, both produced by `translator/py2lean_logic.py` from the
current source.  `validateTarget` IS their composition (`Configuration.read_from_parser`: default `LAMMPS`, then membership in the registry). -/

/-- **code tie**: for every target text (given or omitted) the model's decision is: the code's synonym step, the default, then membership in the code's registry -/
theorem C16_code_target (t : Option String) :
    validateTarget t =
      (let t' := (Atsim.Gen.Logic.init_target t).getD "LAMMPS"
       if (Atsim.Gen.Logic.tabulation_factories.map (·.1)).contains t' then some t' else none) := by
  cases t with
  | none => decide
  | some t =>
    simp only [validateTarget, Atsim.Gen.Logic.init_target, Atsim.Gen.Logic.tabulation_factories, List.lookup, Option.getD, List.map]
    by_cases h1 : t = "lammps_eam_alloy"
    · subst h1; decide
    · by_cases h2 : t = "LAMMPS_eam_alloy"
      · subst h2; decide
      · by_cases h3 : t = "DL_POLY"
        · subst h3; decide
        · have e1 : (t == "lammps_eam_alloy") = false := by simpa using h1
          have e2 : (t == "LAMMPS_eam_alloy") = false := by simpa using h2
          have e3 : (t == "DL_POLY") = false := by simpa using h3
          simp [e1, e2, e3]

/-- every documented target name reaches a registered factory in the code's own tables -/
theorem C16_code_documented_targets :
    ∀ t ∈ documentedTargets, (Atsim.Gen.Logic.tabulation_factories.map (·.1)).contains ((Atsim.Gen.Logic.init_target (some t)).getD "LAMMPS") = true := by
  decide

/-- the registry has no key twice, and every spelling that ends at the DL_POLY TABLE writer (whose row count must be a multiple of four, C02) is served by
    the factory that validates that row count: there is no second route to `DLPoly_PairTabulation` that skips the check -/
theorem C16_code_registry_sound :
    (Atsim.Gen.Logic.tabulation_factories.map (·.1)).Nodup ∧
    ∀ e ∈ Atsim.Gen.Logic.tabulation_factories, e.2.2.contains "DLPoly_PairTabulation" = true → e.2.1 = "DLPOLY_PairTabulationFactory" := by
  decide

end Atsim.C16
