import AtsimModel.Model.Validate
import AtsimModel.Gen.Logic
/-!
# C16 — malformed models give configuration errors; valid models are never rejected

Decision procedures of the validation layer (Model/Validate.lean) against the well-formedness the reference manual states:
a refusal happens exactly on ill-formed input ("never an internal exception or a silently written table" is carried by the
correspondence: `harness/props/C16.py` observes the exception class / exit status of the real code for a catalogue of single
structural mutations and compares the spline / table-form / target / key decisions with these functions).
-/
namespace Atsim.C16
open Atsim

/-- **spline definitions**: the modifier accepts a definition iff it is well formed – three parts, a spline type in the middle,
    detach < attach, no parameters for exp_spline, exactly one r_min strictly inside (detach, attach) for buck4_spline -/
theorem C16_spline_iff (args : List MultiRange) : validateSpline args = .ok () ↔ WellFormedSpline args := by
  constructor
  · intro h
    unfold validateSpline at h
    split at h
    · rename_i m
      split at h
      · simp at h
      · simp at h
      · rename_i s1 p1 s2 p2 rest
        split at h
        · simp at h
        · rename_i label params
          split at h
          · simp at h
          · rename_i hl
            split at h
            · simp at h
            · simp at h
            · rename_i s3 p3
              split at h
              · simp at h
              · rename_i h12
                split at h
                · simp at h
                · rename_i h23
                  simp at h12 h23
                  split at h
                  · rename_i hexp
                    split at h
                    · rename_i hemp
                      refine ⟨s1, p1, s2, label, params, s3, p3, rfl, h12, h23, Or.inl ⟨by simpa using hexp, by simpa using hemp⟩⟩
                    · simp at h
                  · rename_i hexp
                    split at h
                    · rename_i rmin
                      split at h
                      · rename_i hr
                        simp at hr hexp hl
                        refine ⟨s1, p1, s2, label, [rmin], s3, p3, rfl, h12, h23, Or.inr ⟨hl hexp, rmin, rfl, hr.1, hr.2⟩⟩
                      · simp at h
                    · simp at h
    · simp at h
  · rintro ⟨s1, p1, s2, label, params, s3, p3, rfl, h12, h23, h⟩
    rcases h with ⟨rfl, rfl⟩ | ⟨rfl, rmin, rfl, h1, h2⟩
    · simp [validateSpline, h12, h23]
    · simp [validateSpline, h12, h23, h1, h2]

/-- in particular an r_min outside the splined region is refused (the shipped guard `not a and not b` accepted it) -/
theorem C16_spline_rmin (s1 s2 s3 : RStart) (p1 p3 : Piece) (rmin : Rat) (h12 : s1.2 < s2.2) (h23 : s2.2 < s3.2)
    (hout : rmin ≤ s2.2 ∨ s3.2 ≤ rmin) :
    validateSpline [[(s1, p1), (s2, .form "buck4_spline" [rmin]), (s3, p3)]] = .error .rminRange := by
  have hn : ¬ (s2.2 < rmin ∧ rmin < s3.2) := by
    rintro ⟨a, b⟩
    rcases hout with h | h
    · exact absurd a (Rat.not_lt.mpr h)
    · exact absurd b (Rat.not_lt.mpr h)
  simp [validateSpline, h12, h23]
  intro a b
  exact hn ⟨a, b⟩

/-- a modifier where the spline type is expected, or any other label, is refused -/
theorem C16_spline_middle (s1 s2 : RStart) (p1 : Piece) (l : String) (a : List MultiRange) (rest : MultiRange) :
    validateSpline [(s1, p1) :: (s2, .modifier l a) :: rest] = .error .notASplineType := by
  simp [validateSpline]

/-- wrong part counts are refused -/
theorem C16_spline_counts (s1 s2 s3 s4 : RStart) (p1 p3 p4 : Piece) (rest : MultiRange) :
    validateSpline [[(s1, p1)]] = .error .onePart ∧
    validateSpline [[(s1, p1), (s2, .form "exp_spline" [])]] = .error .twoParts ∧
    validateSpline [(s1, p1) :: (s2, .form "exp_spline" []) :: (s3, p3) :: (s4, p4) :: rest] = .error .moreThanThree ∧
    validateSpline [] = .error .argCount := by
  refine ⟨?_, ?_, ?_, ?_⟩ <;> simp [validateSpline]

/-- **table-form data**: accepted iff exactly one of {x and y, xy} is given, the lengths agree (x,y) / the count is even (xy),
    the interpolation is known, and there are at least four strictly increasing x values -/
theorem C16_table_iff (t : TableShape) :
    validateTable t = .ok () ↔
      (((t.hasX = true ∧ t.hasY = true ∧ t.hasXY = false ∧ t.nx = t.ny) ∨ (t.hasX = false ∧ t.hasY = false ∧ t.hasXY = true ∧ t.nxy % 2 = 0)) ∧
       t.interpolation = "cubic_spline" ∧ 4 ≤ t.xs.length ∧ strictlyIncreasing t.xs = true) := by
  obtain ⟨hx, hy, hxy, nx, ny, nxy, interp, xs⟩ := t
  unfold validateTable
  cases hx <;> cases hy <;> cases hxy <;> simp <;> (repeat' split) <;> simp_all <;> omega

/-- **species keys**: a key is accepted iff it has exactly one separator and a non-blank label on either side -/
theorem C16_key_iff (parts : List String) :
    (splitKey parts).isSome ↔ ∃ a b, parts = [a, b] ∧ strip a ≠ "" ∧ strip b ≠ "" := by
  match parts with
  | [] => simp [splitKey]
  | [_] => simp [splitKey]
  | [a, b] =>
    simp only [splitKey]
    by_cases ha : strip a = "" <;> by_cases hb : strip b = "" <;> simp [ha, hb]
    exact ⟨a, b, ⟨rfl, rfl⟩, ha, hb⟩
  | _ :: _ :: _ :: _ => simp [splitKey]

example : (splitKey ["Si", " O"]).isSome = true ∧ (splitKey ["", "O"]).isSome = false ∧ (splitKey ["Si", "  "]).isSome = false := by decide +kernel

/-- **targets**: every target the reference manual lists is accepted (synonyms mapped), an omitted target means LAMMPS -/
theorem C16_documented_targets : ∀ t ∈ documentedTargets, (validateTarget (some t)).isSome := by
  decide

theorem C16_target_synonyms :
    validateTarget (some "LAMMPS_eam_alloy") = some "setfl" ∧ validateTarget (some "DL_POLY") = some "DLPOLY" ∧ validateTarget none = some "LAMMPS" ∧
    validateTarget (some "FOO") = none ∧ validateTarget (some "lammps") = none := by
  decide

/-- non-vacuity: the documented examples are well formed -/
example : WellFormedSpline [[((false, 0), .form "as.zbl" [14, 8]), ((true, 4/5), .form "exp_spline" []), ((true, 7/5), .form "as.buck" [180003, 3/10, 32])]] := by
  refine ⟨_, _, _, _, _, _, _, rfl, by decide +kernel, by decide +kernel, Or.inl ⟨rfl, rfl⟩⟩
example : validateSpline [[((false, 0), .form "as.buck" [1000, 3/10, 0]), ((false, 1), .form "buck4_spline" [3/2]), ((false, 2), .form "as.buck" [0, 1, 30])]] = .ok () := by
  rw [C16_spline_iff]
  refine ⟨_, _, _, _, _, _, _, rfl, by decide +kernel, by decide +kernel, Or.inr ⟨rfl, _, rfl, by decide +kernel, by decide +kernel⟩⟩

/-! ## Signatures of custom forms: when does a name read the argument in its position?

The formula language is case-insensitive and `__call__` writes the arguments into ONE table keyed by name.  `C16_signature_positional`: if no two names
of the signature agree up to case (`validSignature`, the check added by the `fix:` commit), every name reads exactly the argument in its position - for every
signature length and every argument list.  `C16_signature_shipped_witness`: without the check, `f(r, A, a)` called with (5, 1, 2) reads 2 for `A`
(the shipped behaviour, replayed on the implementation by C09's binding probes). -/

theorem sigClash_none_iff (seen ns : List String) :
    sigClash seen ns = none ↔
      (∀ n ∈ ns, ∀ s ∈ seen, s.toLower ≠ n.toLower) ∧ (ns.map String.toLower).Pairwise (· ≠ ·) := by
  induction ns generalizing seen with
  | nil => simp [sigClash]
  | cons n ns ih =>
    unfold sigClash
    cases hf : seen.find? (fun s => s.toLower == n.toLower) with
    | some s =>
      have hm := List.mem_of_find?_eq_some hf
      have hp := List.find?_some hf
      simp only [reduceCtorEq, false_iff, not_and]
      intro h
      exact absurd (by simpa using hp) (h n (by simp) s hm)
    | none =>
      have hnone : ∀ s ∈ seen, s.toLower ≠ n.toLower := by
        intro s hs
        have := List.find?_eq_none.mp hf s hs
        simpa using this
      simp only [ih, List.map_cons, List.pairwise_cons, List.mem_cons, List.mem_append, List.mem_singleton, List.mem_map]
      constructor
      · rintro ⟨h1, h2⟩
        refine ⟨?_, ?_, h2⟩
        · rintro m (rfl | hm) s hs
          · exact hnone s hs
          · exact h1 m hm s (Or.inl hs)
        · rintro _ ⟨m, hm, rfl⟩
          exact h1 m hm n (Or.inr (by simp))
      · rintro ⟨h1, h2, h3⟩
        refine ⟨?_, h3⟩
        rintro m hm s (hs | hs)
        · exact h1 m (Or.inr hm) s hs
        · have : s = n := by simpa using hs
          subst this
          exact h2 _ ⟨m, hm, rfl⟩

/-- the check accepts a signature exactly when its names are pairwise different up to case -/
theorem C16_signature_iff (ns : List String) : validSignature ns = true ↔ (ns.map String.toLower).Pairwise (· ≠ ·) := by
  unfold validSignature
  rw [Option.isNone_iff_eq_none, sigClash_none_iff]
  simp

theorem lookup_absent (ns : List String) (vs : List Rat) (n : String) (h : ∀ m ∈ ns, m.toLower ≠ n.toLower) :
    lookupParam (bindParams ns vs) n = none := by
  induction ns generalizing vs with
  | nil => simp [bindParams, lookupParam]
  | cons m ms ih =>
    cases vs with
    | nil => simp [bindParams, lookupParam]
    | cons v vs =>
      have hm : (m.toLower == n.toLower) = false := by simpa using h m (by simp)
      simp [bindParams, lookupParam, ih vs (fun k hk => h k (by simp [hk])), hm]

/-- **positional binding**: under the signature check every name reads the argument given in its position -/
theorem C16_signature_positional (ns : List String) (vs : List Rat) (hlen : ns.length = vs.length) (hv : validSignature ns = true)
    (i : Nat) (hi : i < ns.length) : lookupParam (bindParams ns vs) ns[i] = some (vs[i]'(hlen ▸ hi)) := by
  rw [C16_signature_iff] at hv
  induction ns generalizing vs i with
  | nil => simp at hi
  | cons n ns ih =>
    cases vs with
    | nil => simp at hlen
    | cons v vs =>
      have hp : (∀ a' ∈ ns.map String.toLower, n.toLower ≠ a') ∧ (ns.map String.toLower).Pairwise (· ≠ ·) := List.pairwise_cons.mp hv
      cases i with
      | zero =>
        have habs : lookupParam (bindParams ns vs) n = none := by
          apply lookup_absent
          intro m hm
          exact fun e => hp.1 m.toLower (List.mem_map.mpr ⟨m, hm, rfl⟩) e.symm
        simp [bindParams, lookupParam, habs]
      | succ j =>
        have hj : j < ns.length := by simpa using hi
        have := ih vs (by simpa using hlen) hp.2 j hj
        simp [bindParams, lookupParam, this]

/-- the shipped behaviour (no check): `f(r, A, a)` called with (5, 1, 2) reads 2 for `A` -/
theorem C16_signature_shipped_witness :
    validSignature ["r", "A", "a"] = false ∧ lookupParam (bindParams ["r", "A", "a"] [5, 1, 2]) "A" = some 2 := by
  decide +kernel

example : validSignature ["r", "A", "rho", "C"] = true := by decide +kernel

/-! ## The code itself: target synonyms and the registry of tabulation factories, regenerated from the source

`Atsim.Gen.Logic.init_target` is `_TabulationSection._init_target` (its `_target_synonyms` dictionary included) and
`Atsim.Gen.Logic.tabulation_factories` the module-level `TABULATION_FACTORIES` dictionary, both produced by `translator/py2lean_logic.py` from the
current source.  `validateTarget` IS their composition (`Configuration.read_from_parser`: default `LAMMPS`, then membership in the registry). -/

/-- **code tie**: for every target text (given or omitted) the model's decision is: the code's synonym step, the default, then membership in the code's registry -/
theorem C16_code_target (t : Option String) :
    validateTarget t =
      (let t' := (Atsim.Gen.Logic.init_target t).getD "LAMMPS"
       if (Atsim.Gen.Logic.tabulation_factories.map (·.1)).contains t' then some t' else none) := by
  cases t with
  | none => decide
  | some t =>
    simp only [validateTarget, Atsim.Gen.Logic.init_target, Atsim.Gen.Logic.tabulation_factories, List.lookup, Option.getD, List.map]
    by_cases h1 : t = "lammps_eam_alloy"
    · subst h1; decide
    · by_cases h2 : t = "LAMMPS_eam_alloy"
      · subst h2; decide
      · by_cases h3 : t = "DL_POLY"
        · subst h3; decide
        · have e1 : (t == "lammps_eam_alloy") = false := by simpa using h1
          have e2 : (t == "LAMMPS_eam_alloy") = false := by simpa using h2
          have e3 : (t == "DL_POLY") = false := by simpa using h3
          simp [e1, e2, e3]

/-- every documented target name reaches a registered factory in the code's own tables -/
theorem C16_code_documented_targets :
    ∀ t ∈ documentedTargets, (Atsim.Gen.Logic.tabulation_factories.map (·.1)).contains ((Atsim.Gen.Logic.init_target (some t)).getD "LAMMPS") = true := by
  decide

/-- the registry has no key twice, and every spelling that ends at the DL_POLY TABLE writer (whose row count must be a multiple of four, C02) is served by
    the factory that validates that row count: there is no second route to `DLPoly_PairTabulation` that skips the check -/
theorem C16_code_registry_sound :
    (Atsim.Gen.Logic.tabulation_factories.map (·.1)).Nodup ∧
    ∀ e ∈ Atsim.Gen.Logic.tabulation_factories, e.2.2.contains "DLPoly_PairTabulation" = true → e.2.1 = "DLPOLY_PairTabulationFactory" := by
  decide

/-! ### which of `x`/`y`/`xy` a `[Table-Form]` section may give, regenerated from `_TableFormSection._parse_data` / `_parse_x_y` / `_parse_xy` -/

/-- **code tie**: the presence test of `_parse_data` is the first stage of the model's `validateTable` - same three complaints, same order -/
theorem C16_code_parse_data (useXandY useXY : String → List String → String) (name : String) (keys : List String) :
    Atsim.Gen.Logic.parse_data useXandY useXY name keys =
      (if keys.contains "x" || keys.contains "y" then
         (if !(keys.contains "x" && keys.contains "y") then .error Atsim.Gen.Logic.TableErr.onlyOneOfXY
          else if keys.contains "xy" then .error Atsim.Gen.Logic.TableErr.bothForms
          else .ok (useXandY name keys))
       else if keys.contains "xy" then .ok (useXY name keys)
       else .error Atsim.Gen.Logic.TableErr.noData) := by
  unfold Atsim.Gen.Logic.parse_data
  cases keys.contains "x" <;> cases keys.contains "y" <;> cases keys.contains "xy" <;> simp

/-- **code tie**: `_parse_x_y` accepts exactly lists of equal length and returns them unchanged -/
theorem C16_code_parse_x_y (x y : List Rat) :
    Atsim.Gen.Logic.parse_x_y x y = (if x.length = y.length then .ok (x, y) else .error Atsim.Gen.Logic.TableErr.lengthMismatch) := by
  unfold Atsim.Gen.Logic.parse_x_y
  by_cases h : x.length = y.length
  · simp [h]
  · have h' : ¬ ((x.length : Int) = (y.length : Int)) := by omega
    simp [h, h']

/-! ## The code itself: `ConfigParser._pair_species_func` regenerated from the source

`Atsim.Gen.Logic.pair_species_func` is the function as `translator/py2lean_logic.py` produces it on every run (`k.split("-")` is `pySplit1`, `.strip()` the
operation handed in).  It accepts exactly the keys the model's `splitKey` accepts, returns the same pair, and otherwise raises one of its two configuration errors -
never Python's own `ValueError` of the unpacking `species_a, species_b = tokens`. -/

open Atsim.Gen.Logic in
theorem splitChars_ne_nil (c : Char) (l : List Char) : splitChars c l ≠ [] := by
  cases l with
  | nil => simp [splitChars]
  | cons x rest =>
    simp only [splitChars]
    split
    · simp
    · split <;> simp

open Atsim.Gen.Logic in
theorem splitChars_length (c : Char) (l : List Char) : (splitChars c l).length = l.count c + 1 := by
  induction l with
  | nil => simp [splitChars]
  | cons x rest ih =>
    by_cases h : x = c
    · subst h
      simp [splitChars, ih]
    · have e : (x == c) = false := by simpa using h
      simp only [splitChars, e]
      cases hs : splitChars c rest with
      | nil => exact absurd hs (splitChars_ne_nil c rest)
      | cons p ps =>
        rw [hs] at ih
        simp [List.count_cons, e] at ih ⊢
        omega

open Atsim.Gen.Logic in
theorem splitChars_not_mem (c : Char) (l : List Char) : ∀ p ∈ splitChars c l, c ∉ p := by
  induction l with
  | nil => simp [splitChars]
  | cons x rest ih =>
    by_cases h : x = c
    · subst h
      intro p hp
      simp [splitChars] at hp
      rcases hp with rfl | hp
      · simp
      · exact ih p hp
    · have e : (x == c) = false := by simpa using h
      simp only [splitChars, e]
      cases hs : splitChars c rest with
      | nil => exact absurd hs (splitChars_ne_nil c rest)
      | cons q qs =>
        rw [hs] at ih
        intro p hp
        simp at hp
        rcases hp with rfl | hp
        · have := ih q (by simp)
          simp only [List.mem_cons, not_or]
          exact ⟨fun hc => h hc.symm, this⟩
        · exact ih p (by simp [hp])

open Atsim.Gen.Logic in
theorem splitChars_intercalate (c : Char) (l : List Char) : [c].intercalate (splitChars c l) = l := by
  induction l with
  | nil => simp [splitChars]
  | cons x rest ih =>
    by_cases h : x = c
    · subst h
      simp only [splitChars, beq_self_eq_true, if_true]
      rw [List.intercalate_cons_of_ne_nil (splitChars_ne_nil _ _), ih]
      simp
    · have e : (x == c) = false := by simpa using h
      simp only [splitChars, e]
      cases hs : splitChars c rest with
      | nil => exact absurd hs (splitChars_ne_nil c rest)
      | cons q qs =>
        rw [hs] at ih
        simp [ih]

open Atsim.Gen.Logic in
/-- what `str.split` with a one-character separator returns: at least one piece, one more than there are separators, no piece contains the separator, and joining the
    pieces with the separator gives the text back -/
theorem C16_split_spec (s : String) (c : Char) :
    (pySplit1 s c).length = s.toList.count c + 1 ∧ (∀ p ∈ pySplit1 s c, c ∉ p.toList) ∧
      (String.singleton c).intercalate (pySplit1 s c) = s := by
  refine ⟨?_, ?_, ?_⟩
  · simp [pySplit1, splitChars_length]
  · intro p hp
    simp only [pySplit1, List.mem_map] at hp
    obtain ⟨q, hq, rfl⟩ := hp
    rw [String.toList_ofList]
    exact splitChars_not_mem c _ q hq
  · apply String.toList_injective
    rw [String.toList_intercalate, String.toList_singleton, pySplit1, List.map_map]
    have : (String.toList ∘ String.ofList) = id := by
      funext l; simp
    rw [this, List.map_id, splitChars_intercalate]

open Atsim.Gen.Logic in
/-- **code tie**: the key parser of `[Pair]` (and the ADP sections) is `splitKey` on the pieces between hyphens -/
theorem C16_code_pair_species (k : String) :
    pair_species_func strip k =
      match splitKey (pySplit1 k '-') with
      | some p => .ok p
      | none => if (pySplit1 k '-').length = 2 then .error CfgErr.blankSpecies else .error CfgErr.notTwoParts := by
  unfold pair_species_func
  generalize pySplit1 k '-' = tokens
  match tokens with
  | [] => simp [splitKey]
  | [_] => simp [splitKey]
  | [a, b] =>
    by_cases ha : strip a = "" <;> by_cases hb : strip b = "" <;> simp [splitKey, ha, hb]
  | _ :: _ :: _ :: _ => simp [splitKey]; omega

open Atsim.Gen.Logic in
/-- a key is accepted iff it has exactly one hyphen with a non-blank label on either side; the unpacking error cannot happen -/
theorem C16_code_pair_species_iff (k : String) :
    (∃ p, pair_species_func strip k = .ok p) ↔ (k.toList.count '-' = 1 ∧ ∀ p ∈ pySplit1 k '-', strip p ≠ "") := by
  have hlen := (C16_split_spec k '-').1
  rw [C16_code_pair_species]
  have hc : k.toList.count '-' = 1 ↔ (pySplit1 k '-').length = 2 := by omega
  rw [hc]
  generalize pySplit1 k '-' = tokens
  match tokens with
  | [] => simp [splitKey]
  | [_] => simp [splitKey]
  | [a, b] =>
    by_cases ha : strip a = "" <;> by_cases hb : strip b = "" <;> simp [splitKey, ha, hb]
  | _ :: _ :: _ :: _ => simp [splitKey]

open Atsim.Gen.Logic in
theorem C16_code_pair_species_no_unpack (k : String) : pair_species_func strip k ≠ .error CfgErr.unpack := by
  rw [C16_code_pair_species]
  cases splitKey (pySplit1 k '-') with
  | some p => simp
  | none =>
    simp only
    split <;> simp


open Atsim.Gen.Logic in
private theorem lookupLast_lower_none_iff (L : List String) (k : String) :
    lookupLast (L.map fun n => (n.toLower, n)) k = none ↔ L.find? (fun s => s.toLower == k) = none := by
  simp [lookupLast, List.find?_eq_none]

open Atsim.Gen.Logic in
private theorem signature_loop_eq (label : String) (pn : List String) : ∀ (ns L : List String),
    signature_names_check_loop1 String.toLower label pn (L.map fun n => (n.toLower, n)) ns
      = if (sigClash L ns).isNone then .ok () else .error SigErr.sameVariable
  | [], L => by simp [signature_names_check_loop1, sigClash]
  | n :: ns, L => by
    unfold signature_names_check_loop1 sigClash
    cases h : L.find? (fun s => s.toLower == n.toLower) with
    | none =>
      rw [(lookupLast_lower_none_iff L n.toLower).2 h]
      have ih := signature_loop_eq label pn ns (L ++ [n])
      rw [List.map_append] at ih
      simpa using ih
    | some s =>
      cases h2 : lookupLast (L.map fun n => (n.toLower, n)) n.toLower with
      | none =>
        rw [(lookupLast_lower_none_iff L n.toLower).1 h2] at h
        cases h
      | some v => simp

open Atsim.Gen.Logic in
/-- **code tie (signature)**: the name-clash loop of `_Cexptrk_Potential_Function._init_symbol_table` as regenerated (the `seen` dictionary keyed by `pn.lower()`)
    refuses a signature exactly when `validSignature` does: some parameter is, up to case, an earlier one -/
theorem C16_code_signature_check (ns : List String) (label : String) :
    signature_names_check String.toLower ns label = if validSignature ns then .ok () else .error SigErr.sameVariable := by
  have h := signature_loop_eq label ns ns []
  simpa [signature_names_check, validSignature] using h


open Atsim.Gen.Logic in
/-- **code tie**: `Configuration.read_from_parser` as regenerated: the target is the one the parser reports, `LAMMPS` when there is none; a target the factory table does
not hold is a configuration error and no factory is called; otherwise exactly that target's factory builds the tabulation (and its error, if any, is the result) -/
theorem C16_code_read_from_parser (create : FactoryObj → CpT → Except TargetErr TabulationObj) (facs : List (String × FactoryObj)) (cp : CpT) :
    read_from_parser create facs cp =
      (match lookupLast facs (cp.tabulation.target.getD "LAMMPS") with
       | none => .error TargetErr.unknownTarget
       | some f => create f cp) := by
  unfold read_from_parser
  cases h : cp.tabulation.target with
  | none =>
    simp only [Option.getD_none]
    cases lookupLast facs "LAMMPS" with
    | none => rfl
    | some f => simp only [andThen]; cases create f cp <;> rfl
  | some t =>
    simp only [Option.getD_some]
    cases lookupLast facs t with
    | none => rfl
    | some f => simp only [andThen]; cases create f cp <;> rfl

/-! ## Code tie: `Reference_Data.get` (regenerated from the source): `[Species]` entries override the built-in element table property by property -/
namespace RefTie
open Atsim.Gen.Logic

/-- a property of a species as the reference data answer it: the `[Species]` value when there is one, else the built-in table's -/
def refSpec (tbl : List (String × ElData)) (asDict : ElData → List (String × RefVal)) (extra : List (String × List (String × RefVal))) (sp prop : String) :
    Except RefErr RefVal :=
  match lookupLast tbl sp, lookupLast extra sp with
  | none, none => .error .unknownSpecies
  | none, some e => (match lookupLast e prop with | some v => .ok v | none => .error .unknownProperty)
  | some b, x =>
    match (match (x.getD []) |> fun e => lookupLast e prop with
           | some v => some v
           | none => lookupLast (asDict b) prop) with
    | some v => .ok v
    | none => .error .unknownProperty

section dict
variable {β : Type}

theorem lookupLast_append_single (d : List (String × β)) (k : String) (v : β) (s : String) :
    lookupLast (d ++ [(k, v)]) s = if s = k then some v else lookupLast d s := by
  simp only [lookupLast, List.reverse_append, List.reverse_cons, List.reverse_nil, List.nil_append, List.singleton_append, List.find?_cons]
  by_cases h : s = k
  · subst h; simp
  · have : (k == s) = false := by simp [Ne.symm h]
    simp [this, h]

theorem find_map_set (k : String) (v : β) (s : String) (l : List (String × β)) :
    ((l.map (fun e => if e.1 == k then (k, v) else e)).find? (fun e => e.1 == s)).map (·.2)
      = if s = k then (l.find? (fun e => e.1 == s)).map (fun _ => v) else (l.find? (fun e => e.1 == s)).map (·.2) := by
  induction l with
  | nil => simp
  | cons e l ih =>
    simp only [List.map_cons, List.find?_cons]
    by_cases h1 : e.1 = k <;> by_cases h2 : s = k
    · subst h2; simp [h1]
    · have : (k == s) = false := by simp [Ne.symm h2]
      have h3 : (e.1 == s) = false := by simp [h1, Ne.symm h2]
      simpa [h1, this, h3, h2] using ih
    · subst h2
      have h3 : (e.1 == s) = false := by simp [h1]
      simpa [h3] using ih
    · have h3 : (e.1 == k) = false := by simp [h1]
      simp only [h3, Bool.false_eq_true, if_false]
      cases h4 : (e.1 == s)
      · simpa [h2] using ih
      · simp [h2]

theorem lookupLast_odictSet (d : List (String × β)) (k : String) (v : β) (s : String) :
    lookupLast (odictSet d k v) s = if s = k then some v else lookupLast d s := by
  unfold odictSet
  split
  · rename_i hany
    simp only [lookupLast, ← List.map_reverse, find_map_set]
    split
    · rename_i hs
      subst hs
      have : ∃ e, d.reverse.find? (fun e => e.1 == s) = some e := by
        rw [← Option.isSome_iff_exists, List.find?_isSome]
        simpa using hany
      obtain ⟨e, he⟩ := this
      simp [he]
    · rfl
  · exact lookupLast_append_single d k v s

/-- `dict.update`: a look-up in the updated dictionary is the look-up in the update when it has the key, else in the original -/
theorem lookupLast_odictUpdate (d o : List (String × β)) (s : String) :
    lookupLast (odictUpdate d o) s = (match lookupLast o s with | some v => some v | none => lookupLast d s) := by
  unfold odictUpdate
  rw [← List.reverse_reverse o]
  generalize o.reverse = r
  induction r with
  | nil => simp [lookupLast]
  | cons e r ih =>
    obtain ⟨k, v⟩ := e
    rw [List.reverse_cons, List.foldl_append, List.foldl_cons, List.foldl_nil, lookupLast_odictSet, ih, lookupLast_append_single]
    by_cases h : s = k <;> simp [h]

end dict

end RefTie

open Atsim.Gen.Logic RefTie in
/-- **code tie**: `Reference_Data.get` as regenerated is `refSpec`: an unknown label (neither an element nor described in `[Species]`) and a property that neither source
gives are the two declared errors (which the EAM builder turns into defaults or configuration errors: `C12_code_eam_builder`); the internal `AttributeError` branch the
translation carries for a `None` it cannot rule out is unreachable -/
theorem C16_code_reference_get (tbl : List (String × ElData)) (asDict : ElData → List (String × RefVal)) (extra : List (String × List (String × RefVal)))
    (sp prop : String) :
    reference_get tbl asDict extra sp prop = refSpec tbl asDict extra sp prop := by
  unfold reference_get refSpec
  cases h1 : lookupLast tbl sp with
  | none =>
    cases h2 : lookupLast extra sp with
    | none => rfl
    | some e => simp only []; cases lookupLast e prop <;> rfl
  | some b =>
    simp only [lookupLast_odictUpdate]
    cases h2 : lookupLast extra sp with
    | none =>
      simp only [Option.getD_none]
      cases lookupLast ([] : List (String × RefVal)) prop <;> cases lookupLast (asDict b) prop <;> rfl
    | some e =>
      simp only [Option.getD_some]
      cases lookupLast e prop <;> cases lookupLast (asDict b) prop <;> rfl

/-! ## Code tie: `ConfigParser._parse_params_section` (behind `.pair`, `.eam_embed`, `.eam_density`, `.eam_density_fs`, `parse_pair_like`), regenerated -/
namespace ParseTie
open Atsim.Gen.Logic

/-- map with the first error winning -/
def mapE {ε α β : Type} (f : α → Except ε β) : List α → Except ε (List β)
  | [] => .ok []
  | x :: xs => match f x with
    | .error e => .error e
    | .ok y => match mapE f xs with
      | .error e => .error e
      | .ok ys => .ok (y :: ys)

theorem loop_eq (hasSection : IniRec → String → Bool) (sectionKeys : IniRec → String → List String) (getValue : IniRec → String → String → String)
    (sectionsOf : IniRec → List String) (defaultKeys : IniRec → List String) (isRelevant : String → Bool)
    (parse : String → String → Except ParseErr ParsedLine) (raw : IniRec) (s : String) (ks : List String) (acc : List ParsedLine) :
    parse_params_section_loop1 hasSection sectionKeys getValue sectionsOf defaultKeys isRelevant acc parse s raw ks =
      (match mapE (fun k => parse k (getValue raw s k)) ks with
       | .error e => .error e
       | .ok ys => .ok (acc ++ ys)) := by
  induction ks generalizing acc with
  | nil => simp [parse_params_section_loop1, mapE]
  | cons k ks ih =>
    simp only [parse_params_section_loop1, mapE, andThen]
    cases parse k (getValue raw s k) with
    | error e => rfl
    | ok y =>
      simp only [ih]
      cases mapE (fun k => parse k (getValue raw s k)) ks with
      | error e => rfl
      | ok ys => simp

end ParseTie

open Atsim.Gen.Logic ParseTie in
/-- **code tie**: a section that is present - EMPTY or not - gives one parsed tuple per entry, in the section's own order, each from its own key and value (the first line
that cannot be parsed ends it with that line's error); only a section that is absent is "Configuration file does not contain [X] section".  An empty `[Pair]` section
of an EAM model is therefore the empty list, not an error (round-8 seed C16_13). -/
theorem C16_code_parse_params_section (hasSection : IniRec → String → Bool) (sectionKeys : IniRec → String → List String) (getValue : IniRec → String → String → String)
    (sectionsOf : IniRec → List String) (defaultKeys : IniRec → List String) (isRelevant : String → Bool)
    (parse : String → String → Except ParseErr ParsedLine) (raw : IniRec) (s : String) :
    parse_params_section hasSection sectionKeys getValue sectionsOf defaultKeys isRelevant raw s parse =
      (if hasSection raw s then mapE (fun k => parse k (getValue raw s k)) (sectionKeys raw s) else .error ParseErr.missingSection) := by
  unfold parse_params_section
  cases h : hasSection raw s
  · simp
  · simp only [if_true, loop_eq, List.nil_append]
    cases mapE (fun k => parse k (getValue raw s k)) (sectionKeys raw s) <;> rfl

open Atsim.Gen.Logic ParseTie in
/-- **code tie**: which section and which line parser each property of `ConfigParser` reads: `.pair` the `[Pair]` section with the pair-line parser (through
`parse_pair_like`, which the ADP factory uses for its two sections), `.eam_embed` `[EAM-Embed]` with the embedding-line parser, `.eam_density` and `.eam_density_fs`
BOTH `[EAM-Density]`, with the standard and the Finnis-Sinclair line parser - none reads another's section or uses another's parser -/
theorem C16_code_section_properties (hasSection : IniRec → String → Bool) (sectionKeys : IniRec → String → List String) (getValue : IniRec → String → String → String)
    (sectionsOf : IniRec → List String) (defaultKeys : IniRec → List String) (isRelevant : String → Bool)
    (pairLine embedLine densLine fsLine : String → String → Except ParseErr ParsedLine) (raw : IniRec) (s : String) :
    let P := parse_params_section hasSection sectionKeys getValue sectionsOf defaultKeys isRelevant raw
    cp_parse_pair_like hasSection sectionKeys getValue sectionsOf defaultKeys isRelevant raw pairLine s = P s pairLine ∧
    cp_pair hasSection sectionKeys getValue sectionsOf defaultKeys isRelevant raw pairLine = P "Pair" pairLine ∧
    cp_eam_embed hasSection sectionKeys getValue sectionsOf defaultKeys isRelevant raw embedLine = P "EAM-Embed" embedLine ∧
    cp_eam_density hasSection sectionKeys getValue sectionsOf defaultKeys isRelevant raw densLine = P "EAM-Density" densLine ∧
    cp_eam_density_fs hasSection sectionKeys getValue sectionsOf defaultKeys isRelevant raw fsLine = P "EAM-Density" fsLine :=
  ⟨rfl, rfl, rfl, rfl, rfl⟩

end Atsim.C16
