import AtsimModel.Model.Ini
import AtsimModel.Lemmas.IniOps
/-!
# C14 — --override-item / --add-item / --remove-item equal editing the file by hand

Theorems about `Atsim.applyOp` / `applyOps` / `cliOverrides` / `listItems` (Model/Ini.lean) under the CURRENT configuration
(`currentCfg`: keys compared modulo embedded whitespace, sections list their own keys), plus regression witnesses for the
SHIPPED configuration.  Tie to the code: `harness/props/C14.py`.
-/
namespace Atsim.C14
open Atsim

/-- look an item up the way a reader of the (edited) file would: by section and key modulo embedded whitespace -/
def lookup (ini : Ini) (s k : String) : Option String :=
  match ini.sections.find? (fun p => p.1 == s) with
  | none => none
  | some (_, kvs) => assocGet kvs (norm k)

/-- normalisation ignores embedded blanks and tabs: two spellings of a key that differ only there are the same key -/
theorem norm_idem (k : String) : norm (norm k) = norm k := by
  simp [norm, String.toList_ofList, List.filter_filter]

theorem norm_example : norm "f (r,\ta)" = "f(r,a)" ∧ norm " A - B " = "A-B" ∧ norm "Al -> Cu" = "Al->Cu" := by
  decide

/-! ### helper lemmas: association lists and `find?` over first-component-preserving maps -/

theorem find?_map_pres {β : Type} (l : List (String × β)) (f : String × β → String × β) (s' : String)
    (h1 : ∀ p, (f p).1 = p.1) :
    (l.map f).find? (fun p => p.1 == s') = (l.find? (fun p => p.1 == s')).map f := by
  induction l with
  | nil => rfl
  | cons p l ih =>
    simp only [List.map_cons, List.find?_cons, h1]
    split <;> simp [ih]

theorem assocGet_assocSet (l : List KV) (k v : String) : assocGet (assocSet l k v) k = some v := by
  unfold assocGet assocSet
  split
  · rename_i h
    rw [find?_map_pres]
    · obtain ⟨x, hx, hx'⟩ := List.any_eq_true.1 h
      cases hf : l.find? (fun p => p.1 == k) with
      | none =>
        rw [List.find?_eq_none] at hf
        exact absurd hx' (hf x hx)
      | some y =>
        have := List.find?_some hf
        simp only [beq_iff_eq] at this
        simp [this]
    · intro p
      split
      · rename_i hp; exact (beq_iff_eq.1 hp).symm
      · rfl
  · rename_i h
    have : l.find? (fun p => p.1 == k) = none := by
      simp only [List.find?_eq_none]
      intro x hx hx'
      exact h (List.any_eq_true.2 ⟨x, hx, hx'⟩)
    simp [List.find?_append, this]

theorem assocGet_filter_ne (l : List KV) (k : String) : assocGet (l.filter (fun p => p.1 != k)) k = none := by
  unfold assocGet
  simp [List.find?_eq_none]

theorem find?_filter_ne {β : Type} (l : List (String × β)) (s s' : String) (h : s' ≠ s) :
    (l.filter (fun p => p.1 != s)).find? (fun p => p.1 == s') = l.find? (fun p => p.1 == s') := by
  induction l with
  | nil => rfl
  | cons p l ih =>
    by_cases hp : p.1 = s
    · have : ¬ s = s' := fun h' => h h'.symm
      simp [hp, ih, this]
    · simp [hp, List.find?_cons, ih]

theorem find?_filter_self {β : Type} (l : List (String × β)) (s : String) :
    (l.filter (fun p => p.1 != s)).find? (fun p => p.1 == s) = none := by
  simp [List.find?_eq_none]

theorem find?_map_ne {β : Type} (l : List (String × β)) (f : String × β → String × β) (s' : String)
    (h1 : ∀ p, (f p).1 = p.1) (h2 : ∀ p, p.1 = s' → f p = p) :
    (l.map f).find? (fun p => p.1 == s') = l.find? (fun p => p.1 == s') := by
  rw [find?_map_pres _ _ _ h1]
  cases hf : l.find? (fun p => p.1 == s') with
  | none => rfl
  | some p =>
    have := List.find?_some hf
    simp only [beq_iff_eq] at this
    simp [h2 p this]

theorem find?_fst {β : Type} {l : List (String × β)} {s : String} {p : String × β}
    (h : l.find? (fun p => p.1 == s) = some p) : p.1 = s := by
  have := List.find?_some h
  simpa using this

theorem find?_of_any {β : Type} {l : List (String × β)} {s : String} (h : l.any (fun p => p.1 == s) = true) :
    ∃ kvs, l.find? (fun p => p.1 == s) = some (s, kvs) := by
  obtain ⟨x, hx, hx'⟩ := List.any_eq_true.1 h
  cases hf : l.find? (fun p => p.1 == s) with
  | none =>
    rw [List.find?_eq_none] at hf
    exact absurd hx' (hf x hx)
  | some p =>
    obtain ⟨n, kvs⟩ := p
    have hn : n = s := find?_fst hf
    exact ⟨kvs, by rw [hn]⟩

theorem find?_of_not_any {β : Type} {l : List (String × β)} {s : String} (h : ¬ l.any (fun p => p.1 == s) = true) :
    l.find? (fun p => p.1 == s) = none := by
  simp only [List.find?_eq_none]
  intro x hx hx'
  exact h (List.any_eq_true.2 ⟨x, hx, hx'⟩)

theorem find?_secmap_ne (l : List (String × List KV)) (s s' : String) (g : List KV → List KV) (h : s' ≠ s) :
    (l.map (fun x => if x.1 == s then (x.1, g x.2) else (x.1, x.2))).find? (fun p => p.1 == s')
      = l.find? (fun p => p.1 == s') := by
  apply find?_map_ne
  · intro p; split <;> rfl
  · intro p hp
    have : ¬ (p.1 == s) = true := by simp [hp, h]
    rw [if_neg this]

/-- **override**: an existing item (named by any whitespace variant of its key) gets the new value -/
theorem C14_override_sets (ini : Ini) (s k v : String) (hs : s ≠ "Variables") (hne : s ≠ "") (h : hasOption currentCfg ini s k = true)
    (hown : (lookup ini s k).isSome) :
    ∃ ini', applyOp currentCfg ini (.override s k v) = .ok ini' ∧ lookup ini' s k = some v := by
  have _ := hown
  have hs' : (s == "Variables") = false := by simpa using hs
  have hne' : (s == "") = false := by simpa using hne
  refine ⟨_, by simp only [applyOp, h, hs', hne']; rfl, ?_⟩
  unfold lookup
  dsimp only
  rw [find?_map_pres _ _ _ (fun p => by split <;> rfl)]
  unfold hasOption at h
  simp only [hs'] at h
  cases hf : ini.sections.find? (fun p => p.1 == s) with
  | none => simp [hf] at h
  | some p =>
    obtain ⟨n, kvs⟩ := p
    have hn : n = s := find?_fst hf
    simp [hn, assocGet_assocSet]

/-- overriding or removing an item that does not exist, adding one that exists: rejected -/
theorem C14_rejects (ini : Ini) (s k v : String) :
    (hasOption currentCfg ini s k = false → applyOp currentCfg ini (.override s k v) = .error .missing ∧ applyOp currentCfg ini (.remove s k) = .error .missing) ∧
    (hasOption currentCfg ini s k = true → s ≠ "" → applyOp currentCfg ini (.add s k v) = .error .exists) := by
  constructor
  · intro h; simp [applyOp, h]
  · intro h hne; simp [applyOp, h, hne]

/-- **no section without a name**: an item written `:KEY` does not exist - overriding it is rejected whatever the file holds … -/
theorem C14_empty_section_override (c : IniCfg) (ini : Ini) (k v : String) :
    applyOp c ini (.override "" k v) = .error .missing := by
  simp [applyOp]

/-- … so is removing it … -/
theorem C14_empty_section_remove (c : IniCfg) (ini : Ini) (k : String) :
    applyOp c ini (.remove "" k) = .error .missing := by
  simp [applyOp]

/-- … and so is adding it (no section without a name is created) -/
theorem C14_empty_section_add (c : IniCfg) (ini : Ini) (k v : String) :
    applyOp c ini (.add "" k v) = .error .missing := by
  simp [applyOp]

/-- a `[Variables]` entry is not an item of another section: when the section's own keys do not contain `k`, the item does not exist
    there - whatever `[Variables]` holds (so overriding / removing it is rejected and adding it is a plain addition) -/
theorem C14_variable_is_not_item (secs : List (String × List KV)) (vars vars' : List KV) (s k : String) (hs : (s == "Variables") = false) :
    hasOption currentCfg ⟨secs, vars⟩ s k = hasOption currentCfg ⟨secs, vars'⟩ s k := by
  simp [hasOption, currentCfg, hs]

/-- shipped behaviour (the INI default section counted as part of every section) against the current one, on a concrete file -/
theorem C14_variable_witness :
    hasOption currentCfg ⟨[("Pair", [("A-B", "x")])], [("scale", "2")]⟩ "Pair" "scale" = false ∧
    hasOption { currentCfg with ownKeys := false } ⟨[("Pair", [("A-B", "x")])], [("scale", "2")]⟩ "Pair" "scale" = true := by
  decide

/-- existence is tested modulo embedded whitespace: a whitespace variant of a stored key exists -/
theorem C14_exists_mod_whitespace (ini : Ini) (s k k' : String) (h : norm k = norm k') :
    hasOption currentCfg ini s k = hasOption currentCfg ini s k' := by
  simp [hasOption, testKey, currentCfg, h]

/-- **add**: a new item is appended to its section (which is created at the end when missing) and can be read back -/
theorem C14_add_appends (ini : Ini) (s k v : String) (hs : s ≠ "Variables") (hne : s ≠ "") (h : hasOption currentCfg ini s k = false) :
    ∃ ini', applyOp currentCfg ini (.add s k v) = .ok ini' ∧ lookup ini' s k = some v := by
  have hs' : (s == "Variables") = false := by simpa using hs
  have hne' : (s == "") = false := by simpa using hne
  refine ⟨_, by simp only [applyOp, h, hs', hne']; rfl, ?_⟩
  unfold lookup
  dsimp only
  rw [find?_map_pres _ _ _ (fun p => by split <;> rfl)]
  by_cases hany : ini.sections.any (fun p => p.1 == s) = true
  · obtain ⟨kvs, hf⟩ := find?_of_any hany
    simp [hany, hf, assocGet_assocSet]
  · simp only [hany]
    simp [List.find?_append, find?_of_not_any hany, assocGet_assocSet]

/-- **remove**: the item is gone afterwards -/
theorem C14_remove_removes (ini : Ini) (s k : String) (hs : s ≠ "Variables") (hne : s ≠ "") (h : hasOption currentCfg ini s k = true) :
    ∃ ini', applyOp currentCfg ini (.remove s k) = .ok ini' ∧ lookup ini' s k = none := by
  have hs' : (s == "Variables") = false := by simpa using hs
  have hne' : (s == "") = false := by simpa using hne
  simp only [applyOp, h, hs', hne', Bool.not_true, Bool.or_self, Bool.false_eq_true, if_false]
  split
  · refine ⟨_, rfl, ?_⟩
    unfold lookup
    dsimp only
    rw [find?_filter_self]
  · refine ⟨_, rfl, ?_⟩
    unfold lookup
    dsimp only
    rw [find?_map_pres _ _ _ (fun p => by split <;> rfl)]
    cases hf : ini.sections.find? (fun p => p.1 == s) with
    | none => rfl
    | some p =>
      obtain ⟨n, kvs⟩ := p
      have hn : n = s := find?_fst hf
      simp [hn, assocGet_filter_ne]

/-- operations on one section leave every other section untouched -/
theorem C14_other_sections_untouched (ini ini' : Ini) (op : Op) (s' : String) (h : applyOp currentCfg ini op = .ok ini')
    (hs : s' ≠ (match op with | .override s _ _ => s | .remove s _ => s | .add s _ _ => s)) :
    ini'.sections.find? (fun p => p.1 == s') = ini.sections.find? (fun p => p.1 == s') := by
  cases op with
  | override s k v =>
    dsimp only at hs
    simp only [applyOp] at h
    split at h
    · cases h
    · split at h
      · cases h; rfl
      · cases h
        exact find?_secmap_ne _ _ _ (fun kvs => assocSet kvs (norm k) v) hs
  | remove s k =>
    dsimp only at hs
    simp only [applyOp] at h
    split at h
    · cases h
    · split at h
      · cases h; rfl
      · split at h
        · cases h
          dsimp only
          rw [find?_filter_ne _ _ _ hs]
          exact find?_secmap_ne _ _ _ (fun kvs => kvs.filter (fun p => p.1 != norm k)) hs
        · cases h
          exact find?_secmap_ne _ _ _ (fun kvs => kvs.filter (fun p => p.1 != norm k)) hs
  | add s k v =>
    dsimp only at hs
    simp only [applyOp] at h
    split at h
    · cases h
    · split at h
      · cases h
      · split at h
        · cases h; rfl
        · cases h
          dsimp only
          rw [find?_secmap_ne _ _ _ (fun kvs => assocSet kvs (norm k) v) hs]
          split
          · rfl
          · have : ¬ s = s' := fun h' => hs h'.symm
            simp [List.find?_append, this]

/-- a sequence of operations is the sequence of single edits (any length): `applyOps` is the left fold of `applyOp` -/
theorem C14_sequence (ini : Ini) (ovs ads : List Op) :
    applyOps currentCfg ini ovs ads = (ovs ++ ads).foldlM (applyOp currentCfg) ini := rfl

/-- command line: of several -e / -r options with the same SECTION:KEY text only the last one survives, and at most one entry per text remains -/
theorem C14_cli_last_wins (s k v1 v2 : String) :
    cliOverrides [.override s k v1, .override s k v2] [] = [.override s k v2] ∧
    cliOverrides [.override s k v1] [.remove s k] = [.remove s k] := by
  constructor <;> simp [cliOverrides, cliOverridesWith]

/-- two spellings of one key on the command line address the same item: an override under one spelling followed by a removal under
    another leaves exactly the removal (current code); the shipped dictionary kept both and the second operation then failed -/
theorem C14_cli_whitespace (s k k' v : String) (h : norm k = norm k') :
    cliOverrides [.override s k v] [.remove s k'] = [.remove s k'] := by
  simp [cliOverrides, cliOverridesWith, h]

theorem C14_cli_shipped_witness :
    cliOverridesWith false [.override "P" "f(r,a)" "1", .override "P" "f (r, a)" "2"] [.remove "P" "f(r,a)"]
      = [.remove "P" "f(r,a)", .override "P" "f (r, a)" "2"] ∧
    (applyOps currentCfg ⟨[("P", [("f(r,a)", "0"), ("g", "1")])], []⟩ [.remove "P" "f(r,a)", .override "P" "f (r, a)" "2"] []).isOk = false ∧
    (applyOps currentCfg ⟨[("P", [("f(r,a)", "0"), ("g", "1")])], []⟩
        (cliOverrides [.override "P" "f(r,a)" "1", .override "P" "f (r, a)" "2"] [.remove "P" "f(r,a)"]) []).isOk = true := by
  decide

-- FALSE: a section name occurring twice in `ini.sections` (which `readIni` never produces: `seenSecs` rejects it) breaks it,
-- because `sectionKeys` looks the section up by name and finds the FIRST one for both entries:
--   ini = ⟨[("A", [("x", "1")]), ("A", [])], []⟩ satisfies `h`, `(listItems currentCfg ini).length = 2`, but the sum of the
--   section sizes is 1 (checked by the `example` below).  `_partial` adds `(ini.sections.map (·.1)).Nodup`.
-- theorem C14_list_once (ini : Ini) (h : ∀ p ∈ ini.sections, (p.2.map (·.1)).Nodup) :
--     (listItems currentCfg ini).length = (ini.sections.map (fun p => p.2.length)).sum

/-- counterexample to `C14_list_once` as stated -/
example :
    let ini : Ini := ⟨[("A", [("x", "1")]), ("A", [])], []⟩
    (∀ p ∈ ini.sections, (p.2.map (·.1)).Nodup) ∧
    (listItems currentCfg ini).length = 2 ∧ (ini.sections.map (fun p => p.2.length)).sum = 1 := by
  decide

theorem find?_of_nodup {β : Type} (l : List (String × β)) (hnd : (l.map (·.1)).Nodup) (p : String × β) (hp : p ∈ l) :
    l.find? (fun q => q.1 == p.1) = some p := by
  induction l with
  | nil => cases hp
  | cons q l ih =>
    rw [List.map_cons, List.nodup_cons] at hnd
    rcases List.mem_cons.1 hp with rfl | hp'
    · simp
    · have hne : ¬ q.1 = p.1 := fun he => hnd.1 (he ▸ List.mem_map.2 ⟨p, hp', rfl⟩)
      simp [hne, ih hnd.2 hp']

/-- `--list-items` reports each item exactly once: as many lines as the sections have keys plus one per `[Variables]` entry -/
theorem C14_list_once_partial (ini : Ini) (h : ∀ p ∈ ini.sections, (p.2.map (·.1)).Nodup)
    (hsec : (ini.sections.map (·.1)).Nodup) :
    (listItems currentCfg ini).length = (ini.sections.map (fun p => p.2.length)).sum + ini.vars.length := by
  have _ := h
  unfold listItems listSectionItems
  simp only [currentCfg, if_true, List.length_append, List.length_map]
  rw [List.length_flatMap]
  congr 2
  apply List.map_congr_left
  intro p hp
  simp [sectionKeys, find?_of_nodup _ hsec p hp, currentCfg]

/-! ### SHIPPED behaviour (regression witnesses; fixed) -/

def exIni : Ini := ⟨[("Pair", [("A-B", "old")])], []⟩

/-- shipped: override/remove of `A - B` when the file says `A-B` was rejected … -/
theorem C14_shipped_override_witness :
    applyOp shippedCfg exIni (.override "Pair" "A - B" "new") = .error .missing ∧
    applyOp currentCfg exIni (.override "Pair" "A - B" "new") = .ok ⟨[("Pair", [("A-B", "new")])], []⟩ := by
  constructor <;> rfl

/-- … and adding `A - B` silently overwrote `A-B` instead of being rejected -/
theorem C14_shipped_add_witness :
    applyOp shippedCfg exIni (.add "Pair" "A - B" "new") = .ok ⟨[("Pair", [("A-B", "new")])], []⟩ ∧
    applyOp currentCfg exIni (.add "Pair" "A - B" "new") = .error .exists := by
  constructor <;> rfl

/-- shipped: with a [Variables] section every other section also listed the variables (and the variables themselves were not listed as items) -/
theorem C14_shipped_list_witness :
    listItems shippedCfg ⟨[("Pair", [("A-B", "x")])], [("v", "1")]⟩ = [("Pair", "A-B", "x"), ("Pair", "v", "1")] ∧
    listItems currentCfg ⟨[("Pair", [("A-B", "x")])], [("v", "1")]⟩ = [("Pair", "A-B", "x"), ("Variables", "v", "1")] := by
  decide

/-! ## `[Variables]` entries are items too -/

/-- **remove** of a variable: it is gone afterwards, the sections are untouched -/
theorem C14_remove_variable (ini : Ini) (k : String) (h : hasOption currentCfg ini "Variables" k = true) :
    ∃ ini', applyOp currentCfg ini (.remove "Variables" k) = .ok ini' ∧ assocGet ini'.vars (norm k) = none ∧ ini'.sections = ini.sections := by
  refine ⟨{ ini with vars := ini.vars.filter (fun p => p.1 != norm k) }, by simp [applyOp, h], ?_, rfl⟩
  exact assocGet_filter_ne _ _

/-! ## The code itself: `ConfigParser._init_config_parser` regenerated from the source

`Atsim.Gen.Logic.apply_overrides` is the override / removal / addition part of `_init_config_parser` as `translator/py2lean_logic.py` produces it on every run: the loop
over `overrides` (refusal of an item that does not exist, `value is None` = remove the option and then the section when it has become empty, otherwise `_set_value`),
then the loop over `additional` (refusal of an item that exists, `add_section` unless the section exists or is the default section, `_set_value`).  The raw parser's
operations are parameters of the translated function; with the model's operations (`Lemmas/IniOps.lean`) it computes, for EVERY file content and EVERY pair of
operation lists, exactly the model's `applyOps` - the function all theorems above are about. -/

section CodeTie
open Atsim.Gen.Logic Atsim.IniOps


/-- the model's result as the code reports it -/
def liftR (x : Except IniErr Ini) : Except OvErr IniRec :=
  match x with
  | .ok r => .ok (wrap r)
  | .error e => .error (errMap e)

theorem filter_ne_variables (l : List (String × List KV)) (hnv : ∀ p ∈ l, p.1 ≠ "Variables") :
    l.filter (fun p => p.1 != "Variables") = l := by
  rw [List.filter_eq_self]
  intro p hp
  simpa using hnv p hp

theorem length_int_beq_zero {α : Type} (l : List α) : (((l.length : Nat) : Int) == (0 : Int)) = l.isEmpty := by
  cases l <;> simp
  omega

theorem loop1_step (cadd cov : List OvRec) (ini : Ini) (hnv : ∀ p ∈ ini.sections, p.1 ≠ "Variables")
    (o : Op) (ho : isEdit o = true) (rest : List OvRec) :
    apply_overrides_loop1 hasOptionR hasSectionR sectionKeysR removeOptionR removeSectionR addSectionR setValueR cadd (wrap ini) cov (toOv o :: rest) =
      match applyOp currentCfg ini o with
      | .ok ini' => apply_overrides_loop1 hasOptionR hasSectionR sectionKeysR removeOptionR removeSectionR addSectionR setValueR cadd (wrap ini') cov rest
      | .error e => .error (errMap e) := by
  cases o with
  | add s k v => simp [isEdit] at ho
  | override s k v =>
    rw [apply_overrides_loop1]
    by_cases hne : s = ""
    · subst hne
      simp [toOv, applyOp, errMap]
    by_cases h : hasOption currentCfg ini s k = true
    · by_cases hs : s = "Variables"
      · subst hs
        simp [toOv, hasOptionR, wrap, applyOp, setValueR, andThen, h]
      · simp [toOv, hasOptionR, wrap, applyOp, setValueR, andThen, h, hs, hne]
    · simp [toOv, hasOptionR, wrap, applyOp, h, errMap]
  | remove s k =>
    rw [apply_overrides_loop1]
    by_cases hne : s = ""
    · subst hne
      simp [toOv, applyOp, errMap]
    by_cases h : hasOption currentCfg ini s k = true
    · by_cases hs : s = "Variables"
      · subst hs
        simp [toOv, hasOptionR, wrap, applyOp, h, removeOptionR, removeSectionR, sectionKeysR,
          filter_ne_variables _ hnv]
        exact ite_self _
      · simp only [toOv, hasOptionR, wrap, applyOp, h, removeOptionR, removeSectionR, sectionKeysR,
          length_int_beq_zero, hs, hne, beq_iff_eq, bne_iff_ne, ne_eq, not_false_eq_true, if_false, if_true,
          Bool.not_true, Bool.or_false]
        split <;> simp_all
    · simp [toOv, hasOptionR, wrap, applyOp, h, errMap]

theorem loop2_step (cadd cov : List OvRec) (ini : Ini)
    (o : Op) (ho : isAdd o = true) (rest : List OvRec) :
    apply_overrides_loop2 hasOptionR hasSectionR sectionKeysR removeOptionR removeSectionR addSectionR setValueR cadd (wrap ini) cov (toOv o :: rest) =
      match applyOp currentCfg ini o with
      | .ok ini' => apply_overrides_loop2 hasOptionR hasSectionR sectionKeysR removeOptionR removeSectionR addSectionR setValueR cadd (wrap ini') cov rest
      | .error e => .error (errMap e) := by
  cases o with
  | override s k v => simp [isAdd] at ho
  | remove s k => simp [isAdd] at ho
  | add s k v =>
    rw [apply_overrides_loop2]
    by_cases hne : s = ""
    · subst hne
      simp [toOv, applyOp, errMap]
    by_cases h : hasOption currentCfg ini s k = true
    · simp [toOv, hasOptionR, wrap, applyOp, h, hne, errMap]
    · by_cases hs : s = "Variables"
      · subst hs
        simp [toOv, hasOptionR, wrap, applyOp, setValueR, andThen, h]
      · by_cases hsec : (ini.sections.any fun p => p.1 == s) = true
        · simp [toOv, hasOptionR, wrap, applyOp, setValueR, andThen, h, hs, hne, hasSectionR, hsec]
        · simp [toOv, hasOptionR, wrap, applyOp, setValueR, andThen, h, hs, hne, hasSectionR, hsec, addSectionR]

theorem no_variables_step (ini ini' : Ini) (op : Op) (hnv : ∀ p ∈ ini.sections, p.1 ≠ "Variables")
    (h : applyOp currentCfg ini op = .ok ini') : ∀ p ∈ ini'.sections, p.1 ≠ "Variables" := by
  have hmap : ∀ (l : List (String × List KV)) (f : String × List KV → String × List KV), (∀ p, (f p).1 = p.1) →
      (∀ p ∈ l, p.1 ≠ "Variables") → ∀ p ∈ l.map f, p.1 ≠ "Variables" := by
    intro l f hf hl p hp
    obtain ⟨q, hq, rfl⟩ := List.mem_map.1 hp
    rw [hf]; exact hl q hq
  cases op with
  | override s k v =>
    simp only [applyOp] at h
    split at h
    · cases h
    · split at h
      · cases h; exact hnv
      · cases h
        apply hmap _ _ _ hnv
        intro p; split <;> rfl
  | remove s k =>
    simp only [applyOp] at h
    split at h
    · cases h
    · split at h
      · cases h; exact hnv
      · have hm : ∀ p ∈ ini.sections.map (fun (x : String × List KV) => if x.1 == s then (x.1, x.2.filter (fun p => p.1 != norm k)) else (x.1, x.2)), p.1 ≠ "Variables" := by
          apply hmap _ _ _ hnv
          intro p; split <;> rfl
        split at h
        · cases h
          intro p hp
          exact hm p (List.mem_filter.1 hp).1
        · cases h; exact hm
  | add s k v =>
    simp only [applyOp] at h
    split at h
    · cases h
    · split at h
      · cases h
      · split at h
        · cases h; exact hnv
        · rename_i hs
          cases h
          apply hmap
          · intro p; split <;> rfl
          · split
            · exact hnv
            · intro p hp
              rcases List.mem_append.1 hp with hp | hp
              · exact hnv p hp
              · simp at hp; subst hp; simpa using hs

theorem loop2_all (cadd cov : List OvRec) (ads : List Op) (had : ∀ o ∈ ads, isAdd o = true) (ini : Ini) :
    apply_overrides_loop2 hasOptionR hasSectionR sectionKeysR removeOptionR removeSectionR addSectionR setValueR cadd (wrap ini) cov (ads.map toOv) =
      liftR (ads.foldlM (applyOp currentCfg) ini) := by
  induction ads generalizing ini with
  | nil => simp [apply_overrides_loop2, liftR, pure, Except.pure]
  | cons o ads ih =>
    rw [List.map_cons, loop2_step _ _ _ _ (had o (List.mem_cons_self ..)), List.foldlM_cons]
    cases hop : applyOp currentCfg ini o with
    | error e => simp [liftR, bind, Except.bind]
    | ok ini' =>
      simp only [bind, Except.bind]
      exact ih (fun o' ho' => had o' (List.mem_cons_of_mem _ ho')) ini'

theorem loop1_all (cadd cov : List OvRec) (ovs : List Op) (hov : ∀ o ∈ ovs, isEdit o = true) (ini : Ini)
    (hnv : ∀ p ∈ ini.sections, p.1 ≠ "Variables") :
    apply_overrides_loop1 hasOptionR hasSectionR sectionKeysR removeOptionR removeSectionR addSectionR setValueR cadd (wrap ini) cov (ovs.map toOv) =
      match ovs.foldlM (applyOp currentCfg) ini with
      | .ok r => apply_overrides_loop2 hasOptionR hasSectionR sectionKeysR removeOptionR removeSectionR addSectionR setValueR cadd (wrap r) cov cadd
      | .error e => .error (errMap e) := by
  induction ovs generalizing ini with
  | nil => simp [apply_overrides_loop1, pure, Except.pure]
  | cons o ovs ih =>
    rw [List.map_cons, loop1_step _ _ _ hnv _ (hov o (List.mem_cons_self ..)), List.foldlM_cons]
    cases hop : applyOp currentCfg ini o with
    | error e => simp [bind, Except.bind]
    | ok ini' =>
      simp only [bind, Except.bind]
      exact ih (fun o' ho' => hov o' (List.mem_cons_of_mem _ ho')) ini' (no_variables_step ini ini' o hnv hop)

end CodeTie

open Atsim.Gen.Logic Atsim.IniOps in
/-- **code tie**: the code's two loops are `applyOps` -/
theorem C14_code_apply_overrides (ini : Ini) (ovs ads : List Op)
    (hnv : ∀ p ∈ ini.sections, p.1 ≠ "Variables")
    (hov : ∀ o ∈ ovs, isEdit o = true) (had : ∀ o ∈ ads, isAdd o = true) :
    apply_overrides hasOptionR hasSectionR sectionKeysR removeOptionR removeSectionR addSectionR setValueR (wrap ini) (ovs.map toOv) (ads.map toOv) =
      match applyOps currentCfg ini ovs ads with
      | .ok r => .ok (wrap r)
      | .error e => .error (errMap e) := by
  rw [apply_overrides, loop1_all _ _ _ hov _ hnv]
  simp only [applyOps, List.foldlM_append]
  cases h1 : ovs.foldlM (applyOp currentCfg) ini with
  | error e => simp [bind, Except.bind]
  | ok r =>
    simp only [bind, Except.bind]
    rw [loop2_all _ _ _ had]
    rfl

open Atsim.Gen.Logic Atsim.IniOps in
/-- **code tie (no section without a name)**: when the first override or removal names the item `:KEY` (empty section name) the code refuses with
    `ConfigOverrideException` - whatever the file holds, whatever follows in the list and whatever the additions are (no side condition is needed: the refusal
    happens before anything is looked up) -/
theorem C14_code_empty_section (ini : Ini) (k v : String) (rest ads : List OvRec) :
    apply_overrides hasOptionR hasSectionR sectionKeysR removeOptionR removeSectionR addSectionR setValueR (wrap ini) (toOv (.override "" k v) :: rest) ads
      = .error OvErr.missing ∧
    apply_overrides hasOptionR hasSectionR sectionKeysR removeOptionR removeSectionR addSectionR setValueR (wrap ini) (toOv (.remove "" k) :: rest) ads
      = .error OvErr.missing := by
  constructor <;> (rw [apply_overrides, apply_overrides_loop1]; simp [toOv])

open Atsim.IniOps in
/-- the hypothesis of the tie is an invariant: the reader never creates a section called `Variables`, and no operation does -/
theorem C14_no_variables_section (ini ini' : Ini) (op : Op) (hnv : ∀ p ∈ ini.sections, p.1 ≠ "Variables")
    (h : applyOp currentCfg ini op = .ok ini') : ∀ p ∈ ini'.sections, p.1 ≠ "Variables" :=
  no_variables_step ini ini' op hnv h


/-! ## The code itself: the command-line layer (`potable/__init__.py`)

`Atsim.Gen.Logic.create_override_tuple / item_id / cli_operations` are `_create_override_tuple`, `_item_id` and the first part of `_make_config_parser` (up to the
construction of the parser, which is handed the two lists) as regenerated on every run: `SECTION:KEY=VALUE` is split at the FIRST `=` and then at the LAST `:`, the
`-e` and `-r` options fill one ordered dictionary keyed by section and key-without-white-space, `-a` options a list. -/

namespace CliTie
open Atsim.Gen.Logic

theorem splitFirstChars_sep (c : Char) (a b : List Char) (h : c ∉ a) :
    splitFirstChars c (a ++ c :: b) = [a, b] := by
  induction a with
  | nil => simp [splitFirstChars]
  | cons x a ih =>
    simp only [List.mem_cons, not_or] at h
    have e : (x == c) = false := by simpa using fun hx => h.1 hx.symm
    simp [splitFirstChars, e, ih h.2]

theorem pySplitFirst_sep (a b : String) (c : Char) (h : c ∉ a.toList) :
    pySplitFirst (a ++ String.singleton c ++ b) c = [a, b] := by
  simp [pySplitFirst, String.toList_append, splitFirstChars_sep c _ _ h]

theorem pyRSplitLast_sep (a b : String) (c : Char) (h : c ∉ b.toList) :
    pyRSplitLast (a ++ String.singleton c ++ b) c = [a, b] := by
  have h' : c ∉ b.toList.reverse := by simpa using h
  simp [pyRSplitLast, String.toList_append, splitFirstChars_sep c _ _ h']

end CliTie

open Atsim.Gen.Logic in
/-- **code tie (option syntax)**: an option `SECTION:KEY=VALUE` is read back as its three parts whenever the key contains neither `:` nor `=` and the section name no
    `=` - section names may contain `:` (`Table-Form:NAME`), values may contain `:` and `=` -/
theorem C14_code_parse_item_value (s k v : String) (hs : '=' ∉ s.toList) (hk : '=' ∉ k.toList) (hk' : ':' ∉ k.toList) :
    create_override_tuple (s ++ ":" ++ k ++ "=" ++ v) true = .ok ⟨s, k, some v⟩ := by
  have h1 : '=' ∉ (s ++ ":" ++ k).toList := by
    simp [String.toList_append, hs, hk]
  have e1 := CliTie.pySplitFirst_sep (s ++ ":" ++ k) v '=' h1
  have e2 := CliTie.pyRSplitLast_sep s k ':' hk'
  have c1 : String.singleton '=' = "=" := rfl
  have c2 : String.singleton ':' = ":" := rfl
  rw [c1] at e1
  rw [c2] at e2
  simp only [create_override_tuple, if_true, e1, e2]

open Atsim.Gen.Logic in
/-- **code tie (option syntax, removal)**: `SECTION:KEY` -/
theorem C14_code_parse_item_novalue (s k : String) (hk' : ':' ∉ k.toList) :
    create_override_tuple (s ++ ":" ++ k) false = .ok ⟨s, k, none⟩ := by
  have e2 := CliTie.pyRSplitLast_sep s k ':' hk'
  have c2 : String.singleton ':' = ":" := rfl
  rw [c2] at e2
  simp [create_override_tuple, e2]

namespace CliTie
open Atsim.Gen.Logic

/-- all options of one kind, in the order given, parsed; the first malformed one is the error -/
def parsed (hasValue : Bool) (l : Option (List (List String))) : Except OvErr (List OvRec) :=
  (l.getD []).flatten.mapM fun t => create_override_tuple t hasValue

end CliTie

namespace CliTie
open Atsim.Gen.Logic Atsim.IniOps

/-- one step of `cliDict` -/
def dictStep (acc : List OvRec) (o : OvRec) : List OvRec :=
  if acc.any (fun p => cliKey p == cliKey o) then acc.map (fun p => if cliKey p == cliKey o then o else p) else acc ++ [o]

def mkEntry (v : OvRec) : (String × String) × OvRec := (cliKey v, v)

theorem odictSet_mkEntry (acc : List OvRec) (t : OvRec) :
    odictSet (acc.map mkEntry) (item_id norm t) t = (dictStep acc t).map mkEntry := by
  have hk : item_id norm t = cliKey t := rfl
  rw [hk]
  unfold odictSet dictStep
  have hany : ((acc.map mkEntry).any fun e => e.1 == cliKey t) = acc.any (fun p => cliKey p == cliKey t) := by
    simp [List.any_map, mkEntry, Function.comp_def]
  rw [hany]
  split
  · simp only [List.map_map]
    apply List.map_congr_left
    intro p _
    simp only [Function.comp, mkEntry]
    split <;> simp_all
  · simp [mkEntry]

theorem foldl_odictSet_mkEntry (l acc : List OvRec) :
    l.foldl (fun d t => odictSet d (item_id norm t) t) (acc.map mkEntry) = (l.foldl dictStep acc).map mkEntry := by
  induction l generalizing acc with
  | nil => rfl
  | cons t l ih => simp only [List.foldl_cons, odictSet_mkEntry, ih]

theorem foldl_odictSet_values (l : List OvRec) :
    (l.foldl (fun d t => odictSet d (item_id norm t) t) []).map (fun e => e.2) = cliDict l := by
  have := foldl_odictSet_mkEntry l []
  simp only [List.map_nil] at this
  rw [this, List.map_map]
  have : ((fun e : (String × String) × OvRec => e.2) ∘ mkEntry) = id := rfl
  rw [this, List.map_id]
  rfl

theorem mapM_cons_except {α β ε : Type} (f : α → Except ε β) (x : α) (xs : List α) :
    (x :: xs).mapM f = (f x).bind fun y => (xs.mapM f).bind fun ys => .ok (y :: ys) := by
  rw [List.mapM_cons]; rfl

theorem mapM_nil_except {α β ε : Type} (f : α → Except ε β) :
    ([] : List α).mapM f = .ok [] := by
  rw [List.mapM_nil]; rfl

theorem loop3_eq rw ca al cf ef od co ol cr cs (xs : List String) :
    cli_operations_loop3 rw ca al cf ef od co ol cr cs xs =
      (xs.mapM fun t => create_override_tuple t true).bind fun a => .ok (ol, al ++ a) := by
  induction xs generalizing al with
  | nil => simp [cli_operations_loop3, pure, Except.pure, Except.bind]
  | cons x xs ih =>
    rw [cli_operations_loop3, mapM_cons_except]
    cases create_override_tuple x true with
    | error e => simp [andThen, Except.bind]
    | ok v =>
      simp only [andThen, Except.bind, ih]
      cases List.mapM (fun t => create_override_tuple t true) xs <;> simp

theorem loop4_eq rw ca al cf ef od co ol cr cs (xs : List String) :
    cli_operations_loop4 rw ca al cf ef od co ol cr cs xs =
      (xs.mapM fun t => create_override_tuple t true).bind fun a => .ok (ol, al ++ a) := by
  induction xs generalizing al with
  | nil => simp [cli_operations_loop4, pure, Except.pure, Except.bind]
  | cons x xs ih =>
    rw [cli_operations_loop4, mapM_cons_except]
    cases create_override_tuple x true with
    | error e => simp [andThen, Except.bind]
    | ok v =>
      simp only [andThen, Except.bind, ih]
      cases List.mapM (fun t => create_override_tuple t true) xs <;> simp

theorem loop6_eq rw ca al cf ef od co ol cr cs (xs : List String) :
    cli_operations_loop6 rw ca al cf ef od co ol cr cs xs =
      (xs.mapM fun t => create_override_tuple t true).bind fun a => .ok (ol, al ++ a) := by
  induction xs generalizing al with
  | nil => simp [cli_operations_loop6, pure, Except.pure, Except.bind]
  | cons x xs ih =>
    rw [cli_operations_loop6, mapM_cons_except]
    cases create_override_tuple x true with
    | error e => simp [andThen, Except.bind]
    | ok v =>
      simp only [andThen, Except.bind, ih]
      cases List.mapM (fun t => create_override_tuple t true) xs <;> simp

theorem loop7_eq rw ca al cf ef od co ol cr cs (xs : List String) :
    cli_operations_loop7 rw ca al cf ef od co ol cr cs xs =
      (xs.mapM fun t => create_override_tuple t true).bind fun a => .ok (ol, al ++ a) := by
  induction xs generalizing al with
  | nil => simp [cli_operations_loop7, pure, Except.pure, Except.bind]
  | cons x xs ih =>
    rw [cli_operations_loop7, mapM_cons_except]
    cases create_override_tuple x true with
    | error e => simp [andThen, Except.bind]
    | ok v =>
      simp only [andThen, Except.bind, ih]
      cases List.mapM (fun t => create_override_tuple t true) xs <;> simp

theorem parsed_some (b : Bool) (l : List (List String)) :
    parsed b (some l) = l.flatten.mapM fun t => create_override_tuple t b := rfl

theorem parsed_none (b : Bool) : parsed b none = .ok [] := by
  simp [parsed, pure, Except.pure]

theorem loop2_eq rw ca cf ef od co cr cs (xs : List String) :
    cli_operations_loop2 rw ca cf ef od co cr cs xs =
      (xs.mapM fun t => create_override_tuple t false).bind fun r => (parsed true ca).bind fun a =>
        .ok ((r.foldl (fun d t => odictSet d (item_id rw t) t) od).map (fun e => e.2), a) := by
  induction xs generalizing od with
  | nil =>
    rw [mapM_nil_except]
    cases ca with
    | none => simp [cli_operations_loop2, parsed_none, Except.bind]
    | some l => simp [cli_operations_loop2, parsed_some, loop3_eq, Except.bind]
  | cons x xs ih =>
    rw [cli_operations_loop2, mapM_cons_except]
    cases create_override_tuple x false with
    | error e => simp [andThen, Except.bind]
    | ok v =>
      simp only [andThen, Except.bind, ih]
      cases List.mapM (fun t => create_override_tuple t false) xs <;> simp

theorem loop5_eq rw ca cf ef od co cr cs (xs : List String) :
    cli_operations_loop5 rw ca cf ef od co cr cs xs =
      (xs.mapM fun t => create_override_tuple t false).bind fun r => (parsed true ca).bind fun a =>
        .ok ((r.foldl (fun d t => odictSet d (item_id rw t) t) od).map (fun e => e.2), a) := by
  induction xs generalizing od with
  | nil =>
    rw [mapM_nil_except]
    cases ca with
    | none => simp [cli_operations_loop5, parsed_none, Except.bind]
    | some l => simp [cli_operations_loop5, parsed_some, loop6_eq, Except.bind]
  | cons x xs ih =>
    rw [cli_operations_loop5, mapM_cons_except]
    cases create_override_tuple x false with
    | error e => simp [andThen, Except.bind]
    | ok v =>
      simp only [andThen, Except.bind, ih]
      cases List.mapM (fun t => create_override_tuple t false) xs <;> simp

theorem loop1_eq rw ca cf ef od co cr cs (xs : List String) :
    cli_operations_loop1 rw ca cf ef od co cr cs xs =
      (xs.mapM fun t => create_override_tuple t true).bind fun o => (parsed false cr).bind fun r =>
        (parsed true ca).bind fun a =>
          .ok (((o ++ r).foldl (fun d t => odictSet d (item_id rw t) t) od).map (fun e => e.2), a) := by
  induction xs generalizing od with
  | nil =>
    rw [mapM_nil_except]
    cases cr with
    | some l => simp [cli_operations_loop1, parsed_some, loop2_eq, Except.bind]
    | none =>
      cases ca with
      | none => simp [cli_operations_loop1, parsed_none, Except.bind]
      | some l => simp [cli_operations_loop1, parsed_none, parsed_some, loop4_eq, Except.bind]
  | cons x xs ih =>
    rw [cli_operations_loop1, mapM_cons_except]
    cases create_override_tuple x true with
    | error e => simp [andThen, Except.bind]
    | ok v =>
      simp only [andThen, Except.bind, ih]
      cases List.mapM (fun t => create_override_tuple t true) xs <;> simp

/-- the key function of `cliOverridesWith true` -/
def opKey : Op → String × String
  | .override s k _ => (s, norm k) | .remove s k => (s, norm k) | .add s k _ => (s, norm k)

theorem opKey_eq (o : Op) : opKey o = cliKey (toOv o) := by cases o <;> rfl

/-- one step of `cliOverridesWith true` -/
def opStep (acc : List Op) (o : Op) : List Op :=
  if acc.any (fun p => opKey p == opKey o) then acc.map (fun p => if opKey p == opKey o then o else p) else acc ++ [o]

theorem opStep_toOv (acc : List Op) (o : Op) : (opStep acc o).map toOv = dictStep (acc.map toOv) (toOv o) := by
  unfold opStep dictStep
  have hany : ((acc.map toOv).any fun p => cliKey p == cliKey (toOv o)) = acc.any (fun p => opKey p == opKey o) := by
    simp [List.any_map, Function.comp_def, opKey_eq]
  rw [hany]
  split
  · simp only [List.map_map]
    apply List.map_congr_left
    intro p _
    simp only [Function.comp, opKey_eq]
    split <;> rfl
  · simp

theorem foldl_opStep_toOv (l acc : List Op) :
    (l.foldl opStep acc).map toOv = (l.map toOv).foldl dictStep (acc.map toOv) := by
  induction l generalizing acc with
  | nil => rfl
  | cons o l ih => simp only [List.foldl_cons, List.map_cons, ih, opStep_toOv]

theorem cliOverrides_eq (ovs rms : List Op) : cliOverrides ovs rms = (ovs ++ rms).foldl opStep [] := by
  rfl

end CliTie

open Atsim.Gen.Logic Atsim.IniOps CliTie in
/-- **code tie (the dictionary)**: the lists handed to `ConfigParser(overrides=, additional=)` are `cliDict` of the parsed `-e` options followed by the parsed `-r`
    options, and the parsed `-a` options in the order given; a malformed option is an error before anything else happens -/
theorem C14_code_cli_operations (ovs adds rms : Option (List (List String))) :
    cli_operations norm () ovs adds rms () () =
      (parsed true ovs).bind fun o => (parsed false rms).bind fun r => (parsed true adds).bind fun a => .ok (cliDict (o ++ r), a) := by
  simp only [← foldl_odictSet_values]
  unfold cli_operations
  cases ovs with
  | some l => simp only [loop1_eq, parsed_some]
  | none =>
    cases rms with
    | some l => simp [loop5_eq, parsed_some, parsed_none, Except.bind]
    | none =>
      cases adds with
      | some l => simp [loop7_eq, parsed_some, parsed_none, Except.bind]
      | none => simp [parsed_none, Except.bind]

open Atsim.IniOps in
/-- the dictionary of the code is the model's `cliOverrides` (`C14_cli_last_wins`, `C14_cli_whitespace` are about it) -/
theorem C14_cli_dict_model (ovs rms : List Op) : (cliOverrides ovs rms).map toOv = cliDict ((ovs ++ rms).map toOv) := by
  rw [CliTie.cliOverrides_eq, CliTie.foldl_opStep_toOv]
  rfl


/-! ## Code tie: `--list-items` (`_query_actions._list_items` with `ConfigParser.parsed_sections` / `.orphan_sections`), regenerated from the source -/
namespace ListTie
open Atsim.Gen.Logic

/-- the items of one section as `_list_section` lists them: `SECTION:KEY` and the value, in the section's key order -/
def sectionItems (sectionKeys : IniRec → String → List String) (getValue : IniRec → String → String → String) (raw : IniRec) (s : String) : List (String × String) :=
  (sectionKeys raw s).map fun k => (s ++ ":" ++ k, getValue raw s k)

/-- the five sections that are listed through `parsed_sections`, in the order `_list_items` takes them -/
def knownOrder : List String := ["Pair", "Potential-Form", "Tabulation", "EAM-Embed", "EAM-Density"]

/-- the keys of `ConfigParser._section_map` -/
def mapKeys : List String := ["Tabulation", "Pair", "EAM-Embed", "Potential-Form", "EAM-Density", "Table-Form"]

/-- the sections `_list_items` lists, in its order: the known ones that are present; the table forms (and a section called exactly `Table-Form`) in file order; the
sections the parser does not know, in file order -/
def listedSections (hasSection : IniRec → String → Bool) (sectionsOf : IniRec → List String) (isRelevant : String → Bool) (raw : IniRec) : List String :=
  knownOrder.filter (hasSection raw) ++
  (sectionsOf raw).filter (fun s => isRelevant s || s == "Table-Form") ++
  (sectionsOf raw).filter (fun s => !isRelevant s && !mapKeys.contains s)

section
variable (hasSection : IniRec → String → Bool) (sectionKeys : IniRec → String → List String) (getValue : IniRec → String → String → String)
    (sectionsOf : IniRec → List String) (defaultKeys : IniRec → List String) (isRelevant : String → Bool)

theorem list_section_loop1_eq (cp : CpObj) (raw : IniRec) (s : String) (ks : List String) (acc : List (String × String)) :
    list_section_loop1 hasSection sectionKeys getValue sectionsOf defaultKeys isRelevant cp acc raw s ks =
      acc ++ ks.map fun k => (s ++ ":" ++ k, getValue raw s k) := by
  induction ks generalizing acc with
  | nil => simp [list_section_loop1]
  | cons k ks ih => simp only [list_section_loop1, ih, List.map_cons, List.append_assoc, List.singleton_append]

theorem list_section_eq (cp : CpObj) (s : String) :
    list_section hasSection sectionKeys getValue sectionsOf defaultKeys isRelevant cp s = sectionItems sectionKeys getValue cp.raw s := by
  simp only [list_section, list_section_loop1_eq, sectionItems, List.nil_append]

theorem parse_raw_loop1_eq (cp : CpObj) (os : List String) (ss : List String) (acc : List (String × String)) :
    parse_raw_loop1 hasSection sectionKeys getValue sectionsOf defaultKeys isRelevant cp os acc ss =
      acc ++ ss.flatMap (sectionItems sectionKeys getValue cp.raw) := by
  induction ss generalizing acc with
  | nil => simp [parse_raw_loop1]
  | cons k ks ih => simp only [parse_raw_loop1, ih, list_section_eq, List.flatMap_cons, List.append_assoc]

theorem parse_raw_eq (cp : CpObj) (ss : List String) :
    parse_raw hasSection sectionKeys getValue sectionsOf defaultKeys isRelevant cp ss = ss.flatMap (sectionItems sectionKeys getValue cp.raw) := by
  simp only [parse_raw, parse_raw_loop1_eq, List.nil_append]

theorem orphan_loop_eq (cp : CpObj) (ss : List String) (acc : List String) :
    orphan_sections_loop1 hasSection sectionKeys getValue sectionsOf defaultKeys isRelevant acc cp
      [("Tabulation", (some "tabulation")), ("Pair", (some "pair")), ("EAM-Embed", (some "eam_embed")), ("Potential-Form", (some "potential_form")), ("EAM-Density", none), ("Table-Form", (some "table_form"))] ss =
      acc ++ ss.filter (fun s => !isRelevant s && !mapKeys.contains s) := by
  induction ss generalizing acc with
  | nil => simp [orphan_sections_loop1]
  | cons s ss ih =>
    have hany : ([("Tabulation", (some "tabulation")), ("Pair", (some "pair")), ("EAM-Embed", (some "eam_embed")), ("Potential-Form", (some "potential_form")), ("EAM-Density", none), ("Table-Form", (some "table_form"))].any fun (e : String × Option String) => e.1 == s) = mapKeys.contains s := by
      have hg : ∀ l : List (String × Option String), (l.any fun e => e.1 == s) = (l.map (·.1)).contains s := by
        intro l; induction l with
        | nil => rfl
        | cons a l ih => simp only [List.any_cons, ih, List.map_cons, List.contains_cons, Bool.beq_comm (a := s)]
      rw [hg]; rfl
    simp only [orphan_sections_loop1, hany, ih, List.filter_cons]
    cases isRelevant s <;> cases mapKeys.contains s <;> simp

theorem orphan_sections_eq (cp : CpObj) :
    orphan_sections hasSection sectionKeys getValue sectionsOf defaultKeys isRelevant cp =
      (sectionsOf cp.raw).filter (fun s => !isRelevant s && !mapKeys.contains s) := by
  simp only [orphan_sections, orphan_loop_eq, List.nil_append]

theorem list_items_loop2_eq (cp : CpObj) (os ps : List String) (raw : IniRec) (ri : List (String × String)) (ks : List String) (acc : List (String × String)) :
    list_items_loop2 hasSection sectionKeys getValue sectionsOf defaultKeys isRelevant cp acc os ps raw ri ks =
      acc ++ ks.map (fun k => (raw.default_section ++ ":" ++ k, getValue raw raw.default_section k)) := by
  induction ks generalizing acc with
  | nil => simp [list_items_loop2]
  | cons k ks ih => simp only [list_items_loop2, ih, List.map_cons, List.append_assoc, List.singleton_append]

theorem list_items_loop1_eq (cp : CpObj) (ps : List String) (ss : List String) (acc : List (String × String)) :
    list_items_loop1 hasSection sectionKeys getValue sectionsOf defaultKeys isRelevant cp acc ps ss =
      acc ++ (ss.filter (fun s => isRelevant s || s == "Table-Form")).flatMap (sectionItems sectionKeys getValue cp.raw) ++
      ((sectionsOf cp.raw).filter (fun s => !isRelevant s && !mapKeys.contains s)).flatMap (sectionItems sectionKeys getValue cp.raw) ++
      (defaultKeys cp.raw).map (fun k => (cp.raw.default_section ++ ":" ++ k, getValue cp.raw cp.raw.default_section k)) := by
  induction ss generalizing acc with
  | nil => simp only [list_items_loop1, list_items_loop2_eq, parse_raw_eq, orphan_sections_eq, List.filter_nil, List.flatMap_nil, List.append_nil]
  | cons s ss ih =>
    simp only [list_items_loop1, ih, list_section_eq, List.filter_cons]
    cases isRelevant s <;> cases (s == "Table-Form") <;> simp

theorem parsed_loop2_eq (cp : CpObj) (M : List (String × Option String)) (ks : List String) (b : Bool) (acc : List String) :
    parsed_sections_loop2 hasSection sectionKeys getValue sectionsOf defaultKeys isRelevant b acc cp M ks =
      acc ++ [if (b || ks.any (strContains · "->")) then "eam_density_fs" else "eam_density"] := by
  induction ks with
  | nil => cases b <;> simp [parsed_sections_loop2]
  | cons k ks ih =>
    simp only [parsed_sections_loop2, ih, List.any_cons]
    by_cases h : strContains k "->" = true <;> simp [h]

/-- the output names of the known sections that are present -/
def outs (hasSection : IniRec → String → Bool) (raw : IniRec) (l : List (String × Option String)) : List String :=
  l.filterMap fun e => match e.2 with
    | some o => if o != "" && hasSection raw e.1 then some o else none
    | none => none

theorem parsed_loop1_eq (cp : CpObj) (M l : List (String × Option String)) (acc : List String) :
    parsed_sections_loop1 hasSection sectionKeys getValue sectionsOf defaultKeys isRelevant acc cp M l =
      acc ++ outs hasSection cp.raw l ++
      (if hasSection cp.raw "EAM-Density" then
        [if (sectionKeys cp.raw "EAM-Density").any (strContains · "->") then "eam_density_fs" else "eam_density"] else []) := by
  induction l generalizing acc with
  | nil =>
    simp only [parsed_sections_loop1, parsed_loop2_eq, outs, List.filterMap_nil, List.append_nil, Bool.false_or]
    split <;> simp
  | cons e l ih =>
    obtain ⟨k, o⟩ := e
    cases o with
    | none => simp only [parsed_sections_loop1, ih, outs, List.filterMap_cons]
    | some o =>
      simp only [parsed_sections_loop1, ih, outs, List.filterMap_cons]
      by_cases h1 : o = "" <;> cases hasSection cp.raw k <;> simp [h1]

theorem parsed_sections_eq (cp : CpObj) :
    parsed_sections hasSection sectionKeys getValue sectionsOf defaultKeys isRelevant cp =
      (if hasSection cp.raw "Tabulation" then ["tabulation"] else []) ++
      (if hasSection cp.raw "Pair" then ["pair"] else []) ++
      (if hasSection cp.raw "EAM-Embed" then ["eam_embed"] else []) ++
      (if hasSection cp.raw "Potential-Form" then ["potential_form"] else []) ++
      (if hasSection cp.raw "Table-Form" then ["table_form"] else []) ++
      (if hasSection cp.raw "EAM-Density" then
        [if (sectionKeys cp.raw "EAM-Density").any (strContains · "->") then "eam_density_fs" else "eam_density"] else []) := by
  simp only [parsed_sections, parsed_loop1_eq, outs, List.nil_append]
  congr 1
  simp only [List.filterMap_cons, List.filterMap_nil]
  cases hasSection cp.raw "Tabulation" <;> cases hasSection cp.raw "Pair" <;> cases hasSection cp.raw "EAM-Embed" <;>
    cases hasSection cp.raw "Potential-Form" <;> cases hasSection cp.raw "Table-Form" <;> simp

theorem parsed_contains (cp : CpObj) :
    let P := parsed_sections hasSection sectionKeys getValue sectionsOf defaultKeys isRelevant cp
    P.contains "pair" = hasSection cp.raw "Pair" ∧
    P.contains "potential_form" = hasSection cp.raw "Potential-Form" ∧
    P.contains "tabulation" = hasSection cp.raw "Tabulation" ∧
    P.contains "eam_embed" = hasSection cp.raw "EAM-Embed" ∧
    (P.contains "eam_density" || P.contains "eam_density_fs") = hasSection cp.raw "EAM-Density" := by
  intro P
  simp only [P, parsed_sections_eq]
  cases hasSection cp.raw "Tabulation" <;> cases hasSection cp.raw "Pair" <;> cases hasSection cp.raw "EAM-Embed" <;>
    cases hasSection cp.raw "Potential-Form" <;> cases hasSection cp.raw "Table-Form" <;> cases hasSection cp.raw "EAM-Density" <;>
    cases (sectionKeys cp.raw "EAM-Density").any (strContains · "->") <;> decide

end

end ListTie

open Atsim.Gen.Logic ListTie in
/-- **code tie**: `_list_items` as regenerated lists exactly the items of `listedSections`, section by section, followed by the `[Variables]` entries -/
theorem C14_code_list_items (hasSection : IniRec → String → Bool) (sectionKeys : IniRec → String → List String) (getValue : IniRec → String → String → String)
    (sectionsOf : IniRec → List String) (defaultKeys : IniRec → List String) (isRelevant : String → Bool) (cp : CpObj) :
    list_items hasSection sectionKeys getValue sectionsOf defaultKeys isRelevant cp =
      (listedSections hasSection sectionsOf isRelevant cp.raw).flatMap (sectionItems sectionKeys getValue cp.raw) ++
      (defaultKeys cp.raw).map (fun k => (cp.raw.default_section ++ ":" ++ k, getValue cp.raw cp.raw.default_section k)) := by
  obtain ⟨h1, h2, h3, h4, h5⟩ := parsed_contains hasSection sectionKeys getValue sectionsOf defaultKeys isRelevant cp
  have h5' : ∀ {α : Type} (a b : α), (if (parsed_sections hasSection sectionKeys getValue sectionsOf defaultKeys isRelevant cp).contains "eam_density" = true then a
      else if (parsed_sections hasSection sectionKeys getValue sectionsOf defaultKeys isRelevant cp).contains "eam_density_fs" = true then a else b) =
      if hasSection cp.raw "EAM-Density" = true then a else b := by
    intro α a b
    rw [← h5]
    cases (parsed_sections hasSection sectionKeys getValue sectionsOf defaultKeys isRelevant cp).contains "eam_density" <;>
      cases (parsed_sections hasSection sectionKeys getValue sectionsOf defaultKeys isRelevant cp).contains "eam_density_fs" <;> rfl
  simp only [list_items, h1, h2, h3, h4, h5', list_items_loop1_eq, list_pair, list_potential_form, list_tabulation, list_eam_dens, list_eam_embed,
    list_section_eq, listedSections, knownOrder, List.filter_cons, List.filter_nil, List.flatMap_append, List.nil_append]
  cases hasSection cp.raw "Pair" <;> cases hasSection cp.raw "Potential-Form" <;> cases hasSection cp.raw "Tabulation" <;>
    cases hasSection cp.raw "EAM-Embed" <;> cases hasSection cp.raw "EAM-Density" <;>
    simp only [if_true, if_false, Bool.false_eq_true, List.flatMap_cons, List.flatMap_nil, List.append_nil, List.nil_append, List.append_assoc]

open Atsim.Gen.Logic ListTie in
/-- every section of the file is listed exactly once: when `has_section` agrees with `sections()`, `sections()` has no repeats and none of the five known names looks
like a table form, the listed sections are a permutation of the file's sections -/
theorem C14_code_list_items_complete (hasSection : IniRec → String → Bool) (sectionsOf : IniRec → List String) (isRelevant : String → Bool) (raw : IniRec)
    (hhas : ∀ s, hasSection raw s = true ↔ s ∈ sectionsOf raw) (hnd : (sectionsOf raw).Nodup) (hrel : ∀ s ∈ knownOrder, isRelevant s = false) :
    (listedSections hasSection sectionsOf isRelevant raw).Perm (sectionsOf raw) := by
  have hK : knownOrder.Nodup := by decide
  have hTF : "Table-Form" ∉ knownOrder := by decide
  have hmk : ∀ s, mapKeys.contains s = true ↔ (s ∈ knownOrder ∨ s = "Table-Form") := by
    intro s; simp only [mapKeys, knownOrder, List.contains_eq_mem, List.mem_cons, List.not_mem_nil, or_false, decide_eq_true_eq]; grind
  -- the three classes, as propositions
  have hb : ∀ s, (isRelevant s || s == "Table-Form") = true → s ∉ knownOrder := by
    intro s h hk
    rw [Bool.or_eq_true, beq_iff_eq] at h
    rcases h with h | h
    · rw [hrel s hk] at h; exact Bool.false_ne_true h
    · exact hTF (h ▸ hk)
  have hc : ∀ s, (!isRelevant s && !mapKeys.contains s) = true ↔ (¬ (isRelevant s || s == "Table-Form") = true ∧ s ∉ knownOrder) := by
    intro s
    have := hmk s
    cases h1 : isRelevant s <;> cases h2 : mapKeys.contains s <;> simp only [h2] at this <;> simp <;> grind
  rw [List.perm_ext_iff_of_nodup ?_ hnd]
  · intro s
    simp only [listedSections, List.mem_append, List.mem_filter, hhas, hc]
    constructor
    · rintro ((⟨_, h⟩ | ⟨h, _⟩) | ⟨h, _⟩) <;> exact h
    · intro h
      by_cases hk : s ∈ knownOrder
      · exact Or.inl (Or.inl ⟨hk, h⟩)
      · by_cases hr : (isRelevant s || s == "Table-Form") = true
        · exact Or.inl (Or.inr ⟨h, hr⟩)
        · exact Or.inr ⟨h, hr, hk⟩
  · unfold listedSections
    rw [List.nodup_append, List.nodup_append]
    refine ⟨⟨hK.filter _, hnd.filter _, ?_⟩, hnd.filter _, ?_⟩
    · intro a ha b hb' hab
      subst hab
      rw [List.mem_filter] at ha hb'
      exact hb a hb'.2 ha.1
    · intro a ha b hb' hab
      subst hab
      rw [List.mem_append, List.mem_filter, List.mem_filter] at ha
      rw [List.mem_filter, hc] at hb'
      rcases ha with ha | ha
      · exact hb'.2.2 ha.1
      · exact hb'.2.1 ha.2

open Atsim.Gen.Logic in
/-- a one-character text is found in any text that holds the character -/
theorem charsContain_singleton_mid (c : Char) (a b : List Char) : charsContain [c] (a ++ c :: b) = true := by
  induction a with
  | nil => simp [charsContain, List.isPrefixOf]
  | cons x a ih => simp [charsContain, ih]

open Atsim.Gen.Logic ListTie in
/-- **code tie (`--item-value` agrees with `--list-items`)**: `_item_value` as regenerated, asked for the label of any item that `_list_items` lists, returns that item's
value - provided the parser's operations are coherent (a section's own keys are options of it, listed sections exist, the `[Variables]` keys are options of the default
section) and no option key holds a colon (the INI reader splits a line at its first `:` or `=`) -/
theorem C14_code_item_value_of_listed (hasSection : IniRec → String → Bool) (sectionKeys : IniRec → String → List String) (getValue : IniRec → String → String → String)
    (sectionsOf : IniRec → List String) (defaultKeys : IniRec → List String) (isRelevant : String → Bool) (hasOption : IniRec → String → String → Bool) (cp : CpObj)
    (hsec : ∀ s ∈ sectionsOf cp.raw, hasSection cp.raw s = true)
    (hown : ∀ s k, k ∈ sectionKeys cp.raw s → hasOption cp.raw s k = true)
    (hdef : ∀ k ∈ defaultKeys cp.raw, hasOption cp.raw cp.raw.default_section k = true)
    (hcol : (∀ s k, k ∈ sectionKeys cp.raw s → ':' ∉ k.toList) ∧ (∀ k ∈ defaultKeys cp.raw, ':' ∉ k.toList))
    (label v : String) (hl : (label, v) ∈ list_items hasSection sectionKeys getValue sectionsOf defaultKeys isRelevant cp) :
    item_value hasSection sectionKeys getValue sectionsOf defaultKeys isRelevant hasOption cp label = .ok v := by
  rw [C14_code_list_items, List.mem_append, List.mem_flatMap, List.mem_map] at hl
  -- the common part: a label `s:k` whose key has no colon, with the parser's answers
  have key : ∀ s k, ':' ∉ k.toList → hasOption cp.raw s k = true → ((s == cp.raw.default_section) = true ∨ hasSection cp.raw s = true) →
      item_value hasSection sectionKeys getValue sectionsOf defaultKeys isRelevant hasOption cp (s ++ ":" ++ k) = .ok (getValue cp.raw s k) := by
    intro s k hk ho hs
    have e1 : strContains (s ++ ":" ++ k) ":" = true := by
      have : (":" : String).toList = [':'] := rfl
      simp only [strContains, String.toList_append, this, List.append_assoc, List.singleton_append]
      exact charsContain_singleton_mid ':' s.toList k.toList
    have e2 := CliTie.pyRSplitLast_sep s k ':' hk
    have c2 : String.singleton ':' = ":" := rfl
    rw [c2] at e2
    simp only [item_value, e1, e2, if_true, ho]
    rcases hs with hs | hs
    · simp only [hs, if_true]
    · simp only [hs, if_true, ite_self]
  rcases hl with ⟨s, hs, hi⟩ | ⟨k, hk, he⟩
  · simp only [sectionItems, List.mem_map] at hi
    obtain ⟨k, hk, he⟩ := hi
    obtain ⟨rfl, rfl⟩ := Prod.mk.inj he
    refine key s k (hcol.1 s k hk) (hown s k hk) ?_
    right
    simp only [listedSections, List.mem_append, List.mem_filter] at hs
    rcases hs with (hs | hs) | hs
    · exact hs.2
    · exact hsec s hs.1
    · exact hsec s hs.1
  · obtain ⟨rfl, rfl⟩ := Prod.mk.inj he
    exact key _ k (hcol.2 k hk) (hdef k hk) (Or.inl (beq_self_eq_true _))

end Atsim.C14
