import AtsimModel.Model.Formula
import AtsimModel.Model.PotLang
import AtsimModel.Props.C09Roundtrip
import AtsimModel.Gen.Logic
import Mathlib.Data.Real.Basic
import Mathlib.Analysis.SpecialFunctions.Pow.Real
import Mathlib.Tactic.Ring
import Mathlib.Tactic.Linarith
/-!
# C09 — potable model language: modifiers and custom formulas mean what is documented
(also carries the core of C12: evaluation is independent of what the symbol tables held before)

* `evalS` is the stateful evaluation of custom forms through per-form symbol tables, `evalP` the documented positional
  substitution (Model/Formula.lean).  `C09_positional`: they agree for every ACYCLIC set of forms.  For forms that call each
  other cyclically the inner call overwrites the outer call's parameters: `C09_cyclic_witness` (a recorded finding).
* `sum(...)`, `product(...)`, `pow(...)` are `functools.reduce` of the binary `plus`, `product`, `pow`: n-ary pointwise sum / product,
  left-nested power.  `trans(f, as.constant X)` is `r ↦ f(r + X)`.
Tie to the code: `harness/props/C09.py` (parse trees, energies, formatting variants, entry order, Python-API equivalence).
-/
namespace Atsim.C09
open Atsim

/-! ## custom formulas -/

mutual
/-- every form called (anywhere) in the expression has rank below `k` -/
def CallsBelow (rank : Nat → Nat) (k : Nat) : Ex → Prop
  | .lit _ => True
  | .var _ => True
  | .add a b => CallsBelow rank k a ∧ CallsBelow rank k b
  | .sub a b => CallsBelow rank k a ∧ CallsBelow rank k b
  | .mul a b => CallsBelow rank k a ∧ CallsBelow rank k b
  | .div a b => CallsBelow rank k a ∧ CallsBelow rank k b
  | .ite a b t e => CallsBelow rank k a ∧ CallsBelow rank k b ∧ CallsBelow rank k t ∧ CallsBelow rank k e
  | .call f args => rank f < k ∧ CallsBelowL rank k args
def CallsBelowL (rank : Nat → Nat) (k : Nat) : List Ex → Prop
  | [] => True
  | a :: as => CallsBelow rank k a ∧ CallsBelowL rank k as
end

/-- the call graph is acyclic: a ranking exists under which every form only calls forms of lower rank -/
def Acyclic (body : Nat → Ex) : Prop := ∃ rank : Nat → Nat, ∀ f, CallsBelow rank (rank f) (body f)

/-- joint refinement statement for `evalS`/`evalP` and the argument-list versions: same fuel, the current form's table agrees
    with the environment; calls only write tables of strictly lower rank. -/
theorem eval_positional (body : Nat → Ex) (rank : Nat → Nat) (hr : ∀ f, CallsBelow rank (rank f) (body f)) : ∀ (n : Nat),
    (∀ (cur : Nat) (σ : Tables) (env : List Rat) (e : Ex), CallsBelow rank (rank cur) e → (∀ i, σ cur i = env.getD i 0) →
      match evalS body n cur σ e, evalP body n env e with
      | none, none => True
      | some (v, τ), some v' => v = v' ∧ ∀ g, rank cur ≤ rank g → τ g = σ g
      | _, _ => False) ∧
    (∀ (cur : Nat) (σ : Tables) (env : List Rat) (es : List Ex), CallsBelowL rank (rank cur) es → (∀ i, σ cur i = env.getD i 0) →
      match evalArgsS body n cur σ es, evalArgsP body n env es with
      | none, none => True
      | some (v, τ), some v' => v = v' ∧ ∀ g, rank cur ≤ rank g → τ g = σ g
      | _, _ => False) := by
  intro n
  induction n with
  | zero => constructor <;> intros <;> simp [evalS, evalArgsS, evalP, evalArgsP]
  | succ n ih =>
    obtain ⟨ihE, ihA⟩ := ih
    constructor
    · intro cur σ env e hc henv
      cases e with
      | lit v => simp [evalS, evalP]
      | var i => simp [evalS, evalP, henv]
      | add a b | sub a b | mul a b | div a b =>
        simp only [CallsBelow] at hc
        simp only [evalS, evalP]
        have h1 := ihE cur σ env a hc.1 henv
        cases ha : evalS body n cur σ a <;> cases ha' : evalP body n env a <;> simp [ha, ha'] at h1 ⊢
        rename_i p x'
        obtain ⟨hv, hs1⟩ := h1
        have henv1 : ∀ i, p.2 cur i = env.getD i 0 := by
          intro i; rw [hs1 cur (Nat.le_refl _)]; exact henv i
        have h2 := ihE cur p.2 env b hc.2 henv1
        cases hb : evalS body n cur p.2 b <;> cases hb' : evalP body n env b <;> simp [hb, hb'] at h2 ⊢
        refine ⟨by rw [hv, h2.1], fun g hg => ?_⟩
        rw [h2.2 g hg, hs1 g hg]
      | ite a b t e =>
        simp only [CallsBelow] at hc
        simp only [evalS, evalP]
        have h1 := ihE cur σ env a hc.1 henv
        cases ha : evalS body n cur σ a <;> cases ha' : evalP body n env a <;> simp [ha, ha'] at h1 ⊢
        rename_i p x'
        obtain ⟨hv, hs1⟩ := h1
        have henv1 : ∀ i, p.2 cur i = env.getD i 0 := by
          intro i; rw [hs1 cur (Nat.le_refl _)]; exact henv i
        have h2 := ihE cur p.2 env b hc.2.1 henv1
        cases hb : evalS body n cur p.2 b <;> cases hb' : evalP body n env b <;> simp [hb, hb'] at h2 ⊢
        rename_i q y'
        obtain ⟨hw, hs2⟩ := h2
        have henv2 : ∀ i, q.2 cur i = env.getD i 0 := by
          intro i; rw [hs2 cur (Nat.le_refl _)]; exact henv1 i
        rw [← hv, ← hw]
        by_cases hpos : p.1 > q.1
        · simp only [hpos, if_true]
          have h3 := ihE cur q.2 env t hc.2.2.1 henv2
          cases ht : evalS body n cur q.2 t <;> cases ht' : evalP body n env t <;> simp [ht, ht'] at h3 ⊢
          refine ⟨h3.1, fun g hg => ?_⟩
          rw [h3.2 g hg, hs2 g hg, hs1 g hg]
        · simp only [hpos, if_false]
          have h3 := ihE cur q.2 env e hc.2.2.2 henv2
          cases ht : evalS body n cur q.2 e <;> cases ht' : evalP body n env e <;> simp [ht, ht'] at h3 ⊢
          refine ⟨h3.1, fun g hg => ?_⟩
          rw [h3.2 g hg, hs2 g hg, hs1 g hg]
      | call f args =>
        simp only [CallsBelow] at hc
        simp only [evalS, evalP]
        have h1 := ihA cur σ env args hc.2 henv
        cases ha : evalArgsS body n cur σ args <;> cases ha' : evalArgsP body n env args <;> simp [ha, ha'] at h1 ⊢
        rename_i p vals'
        obtain ⟨hv, hs1⟩ := h1
        rw [← hv]
        have h2 := ihE f (writeTable p.2 f p.1) p.1 (body f) (hr f) (by intro i; simp [writeTable])
        cases hb : evalS body n f (writeTable p.2 f p.1) (body f) <;>
          cases hb' : evalP body n p.1 (body f) <;> simp [hb, hb'] at h2 ⊢
        refine ⟨h2.1, fun g hg => ?_⟩
        have hfg : rank f ≤ rank g := by omega
        have hne : g ≠ f := by intro h; subst h; omega
        rw [h2.2 g hfg, ← hs1 g hg]
        funext i
        simp [writeTable, hne]
    · intro cur σ env es hc henv
      cases es with
      | nil => simp [evalArgsS, evalArgsP]
      | cons a as =>
        simp only [CallsBelowL] at hc
        simp only [evalArgsS, evalArgsP]
        have h1 := ihE cur σ env a hc.1 henv
        cases ha : evalS body n cur σ a <;> cases ha' : evalP body n env a <;> simp [ha, ha'] at h1 ⊢
        rename_i p x'
        obtain ⟨hv, hs1⟩ := h1
        have henv1 : ∀ i, p.2 cur i = env.getD i 0 := by
          intro i; rw [hs1 cur (Nat.le_refl _)]; exact henv i
        have h2 := ihA cur p.2 env as hc.2 henv1
        cases hb : evalArgsS body n cur p.2 as <;> cases hb' : evalArgsP body n env as <;> simp [hb, hb'] at h2 ⊢
        refine ⟨⟨hv, h2.1⟩, fun g hg => ?_⟩
        rw [h2.2 g hg, hs1 g hg]

/-- **positional binding** (refinement theorem): for every acyclic set of custom forms, every fuel, every prior content of the symbol
    tables, the stateful evaluation of `NAME(args)` equals the formula with its parameters substituted positionally, including
    calls to other custom forms with different arguments. -/
theorem C09_positional (body : Nat → Ex) (h : Acyclic body) (fuel : Nat) (σ : Tables) (f : Nat) (vals : List Rat) :
    energyS body fuel σ f vals = energyP body fuel f vals := by
  obtain ⟨rank, hr⟩ := h
  unfold energyS energyP
  have := (eval_positional body rank hr fuel).1 f (writeTable σ f vals) vals (body f) (hr f) (by intro i; simp [writeTable])
  cases h : evalS body fuel f (writeTable σ f vals) (body f) <;>
    cases h' : evalP body fuel vals (body f) <;> simp [h, h'] at this ⊢
  exact this.1

/-- states agree on every table in `A` -/
def Agree (A : Nat → Prop) (σ σ' : Tables) : Prop := ∀ g, A g → ∀ i, σ g i = σ' g i

theorem agree_write {A : Nat → Prop} {σ σ' : Tables} (h : Agree A σ σ') (f : Nat) (vals : List Rat) :
    Agree (fun g => A g ∨ g = f) (writeTable σ f vals) (writeTable σ' f vals) := by
  intro g hg i
  unfold writeTable
  by_cases hgf : g = f
  · simp [hgf]
  · simp only [hgf, if_false]
    rcases hg with hg | hg
    · exact h g hg i
    · exact absurd hg hgf

/-- Results of evaluation under two states that agree on a set of tables containing the current
    form's table: equal values, and the final states still agree on that set. -/
theorem eval_agree (body : Nat → Ex) : ∀ (n : Nat),
    (∀ (A : Nat → Prop) (cur : Nat) (σ σ' : Tables) (e : Ex), A cur → Agree A σ σ' →
      match evalS body n cur σ e, evalS body n cur σ' e with
      | none, none => True
      | some (v, τ), some (v', τ') => v = v' ∧ Agree A τ τ'
      | _, _ => False) ∧
    (∀ (A : Nat → Prop) (cur : Nat) (σ σ' : Tables) (es : List Ex), A cur → Agree A σ σ' →
      match evalArgsS body n cur σ es, evalArgsS body n cur σ' es with
      | none, none => True
      | some (v, τ), some (v', τ') => v = v' ∧ Agree A τ τ'
      | _, _ => False) := by
  intro n
  induction n with
  | zero => constructor <;> intros <;> simp [evalS, evalArgsS]
  | succ n ih =>
    obtain ⟨ihE, ihA⟩ := ih
    constructor
    · intro A cur σ σ' e hcur hag
      cases e with
      | lit v => simp [evalS]; exact hag
      | var i => simp [evalS]; exact ⟨hag cur hcur i, hag⟩
      | add a b | sub a b | mul a b | div a b =>
        simp only [evalS]
        have h1 := ihE A cur σ σ' a hcur hag
        cases ha : evalS body n cur σ a <;> cases ha' : evalS body n cur σ' a <;> simp [ha, ha'] at h1 ⊢
        rename_i p p'
        obtain ⟨hv, hag1⟩ := h1
        have h2 := ihE A cur p.2 p'.2 b hcur hag1
        cases hb : evalS body n cur p.2 b <;> cases hb' : evalS body n cur p'.2 b <;> simp [hb, hb'] at h2 ⊢
        exact ⟨by rw [hv, h2.1], h2.2⟩
      | ite a b t e =>
        simp only [evalS]
        have h1 := ihE A cur σ σ' a hcur hag
        cases ha : evalS body n cur σ a <;> cases ha' : evalS body n cur σ' a <;> simp [ha, ha'] at h1 ⊢
        rename_i p p'
        obtain ⟨hv, hag1⟩ := h1
        have h2 := ihE A cur p.2 p'.2 b hcur hag1
        cases hb : evalS body n cur p.2 b <;> cases hb' : evalS body n cur p'.2 b <;> simp [hb, hb'] at h2 ⊢
        rename_i q q'
        obtain ⟨hw, hag2⟩ := h2
        rw [← hv, ← hw]
        by_cases hpos : p.1 > q.1
        · simp only [hpos, if_true]; exact ihE A cur q.2 q'.2 t hcur hag2
        · simp only [hpos, if_false]; exact ihE A cur q.2 q'.2 e hcur hag2
      | call f args =>
        simp only [evalS]
        have h1 := ihA A cur σ σ' args hcur hag
        cases ha : evalArgsS body n cur σ args <;> cases ha' : evalArgsS body n cur σ' args <;> simp [ha, ha'] at h1 ⊢
        rename_i p p'
        obtain ⟨hv, hag1⟩ := h1
        rw [← hv]
        have hag2 := agree_write hag1 f p.1
        have h2 := ihE (fun g => A g ∨ g = f) f _ _ (body f) (Or.inr rfl) hag2
        cases hb : evalS body n f (writeTable p.2 f p.1) (body f) <;>
          cases hb' : evalS body n f (writeTable p'.2 f p.1) (body f) <;> simp [hb, hb'] at h2 ⊢
        exact ⟨h2.1, fun g hg i => h2.2 g (Or.inl hg) i⟩
    · intro A cur σ σ' es hcur hag
      cases es with
      | nil => simp [evalArgsS]; exact hag
      | cons a as =>
        simp only [evalArgsS]
        have h1 := ihE A cur σ σ' a hcur hag
        cases ha : evalS body n cur σ a <;> cases ha' : evalS body n cur σ' a <;> simp [ha, ha'] at h1 ⊢
        rename_i p p'
        obtain ⟨hv, hag1⟩ := h1
        have h2 := ihA A cur p.2 p'.2 as hcur hag1
        cases hb : evalArgsS body n cur p.2 as <;> cases hb' : evalArgsS body n cur p'.2 as <;> simp [hb, hb'] at h2 ⊢
        exact ⟨⟨hv, h2.1⟩, h2.2⟩

/-- **C12 core**: for EVERY set of forms (cyclic ones included) the value does not depend on what the symbol tables held before
    the call – whatever was evaluated earlier, in whatever order or interleaving. -/
theorem C12_eval_state_independent (body : Nat → Ex) (fuel : Nat) (σ σ' : Tables) (f : Nat) (vals : List Rat) :
    energyS body fuel σ f vals = energyS body fuel σ' f vals := by
  unfold energyS
  have hag : Agree (fun g => False ∨ g = f) (writeTable σ f vals) (writeTable σ' f vals) :=
    agree_write (A := fun _ => False) (fun _ h => absurd h id) f vals
  have := (eval_agree body fuel).1 (fun g => False ∨ g = f) f _ _ (body f) (Or.inr rfl) hag
  cases h : evalS body fuel f (writeTable σ f vals) (body f) <;>
    cases h' : evalS body fuel f (writeTable σ' f vals) (body f) <;> simp [h, h'] at this ⊢
  exact this.1

/-- the cyclic example `f(r,a) = g(r,a) + a ; g(r,b) = if(b > 0, f(r,b-1), 0)` written with one parameter:
    form 0: `call 1 [var 0] + var 0`, form 1: `if(var 0 > 0, call 0 [var 0 - 1], 0)` -/
def bodyCyc : Nat → Ex
  | 0 => .add (.call 1 [.var 0]) (.var 0)
  | 1 => .ite (.var 0) (.lit 0) (.call 0 [.sub (.var 0) (.lit 1)]) (.lit 0)
  | _ => .lit 0

/-- stateful evaluation gives 0, positional substitution gives 3+2+1+0 = 6: the full statement fails for cyclic form sets -/
theorem C09_cyclic_witness :
    energyS bodyCyc 100 (fun _ _ => 1) 0 [3] = some 0 ∧ energyP bodyCyc 100 0 [3] = some 6 := by
  decide +kernel

def C09_positional_full : Prop :=
  ∀ (body : Nat → Ex) (fuel : Nat) (σ : Tables) (f : Nat) (vals : List Rat), energyS body fuel σ f vals = energyP body fuel f vals

theorem C09_positional_full_fails : ¬ C09_positional_full := by
  intro h
  have h1 := h bodyCyc 100 (fun _ _ => 1) 0 [3]
  rw [C09_cyclic_witness.1, C09_cyclic_witness.2] at h1
  exact absurd h1 (by decide +kernel)

/-- non-vacuity of `C09_positional`: two forms, the second calling the first twice with different arguments -/
def bodyEx : Nat → Ex
  | 0 => .mul (.var 0) (.var 1)
  | 1 => .add (.call 0 [.var 0, .lit 2]) (.call 0 [.var 1, .var 0])
  | _ => .lit 0
example : Acyclic bodyEx := by
  refine ⟨id, fun f => ?_⟩
  match f with
  | 0 => simp [bodyEx, CallsBelow]
  | 1 => simp [bodyEx, CallsBelow, CallsBelowL]
  | _ + 2 => simp [bodyEx, CallsBelow]
example : energyS bodyEx 50 (fun _ _ => 1) 1 [3, 5] = some 21 := by
  decide +kernel

/-! ## modifiers -/

/-- `plus(a, b)`, `product(a, b)`, `pow(a, b)` of atsim/potentials/__init__.py (values) -/
def plusF (a b : ℝ → ℝ) : ℝ → ℝ := fun r => a r + b r
def productF (a b : ℝ → ℝ) : ℝ → ℝ := fun r => a r * b r
noncomputable def powF (a b : ℝ → ℝ) : ℝ → ℝ := fun r => a r ^ b r

/-- `functools.reduce(func, pot_callables)` for a non-empty argument list -/
def reduceF (op : (ℝ → ℝ) → (ℝ → ℝ) → (ℝ → ℝ)) (f0 : ℝ → ℝ) (fs : List (ℝ → ℝ)) : ℝ → ℝ := fs.foldl op f0

/-- `sum(f0, f1, ..., fn)` is the pointwise sum of all its arguments -/
theorem C09_sum (f0 : ℝ → ℝ) (fs : List (ℝ → ℝ)) (r : ℝ) :
    reduceF plusF f0 fs r = f0 r + (fs.map (fun f => f r)).sum := by
  unfold reduceF
  induction fs generalizing f0 with
  | nil => simp
  | cons g gs ih =>
    simp only [List.foldl_cons, List.map_cons, List.sum_cons]
    rw [ih]
    simp only [plusF]
    ring

/-- `product(f0, f1, ..., fn)` is the pointwise product of all its arguments -/
theorem C09_product (f0 : ℝ → ℝ) (fs : List (ℝ → ℝ)) (r : ℝ) :
    reduceF productF f0 fs r = f0 r * (fs.map (fun f => f r)).prod := by
  unfold reduceF
  induction fs generalizing f0 with
  | nil => simp
  | cons g gs ih =>
    simp only [List.foldl_cons, List.map_cons, List.prod_cons]
    rw [ih]
    simp only [productF]
    ring

/-- `pow(a, b)` is `a(r) ** b(r)`; with more arguments the fold is left-nested: `pow(a, b, c) = (a**b)**c` -/
theorem C09_pow (a b : ℝ → ℝ) (r : ℝ) : reduceF powF a [b] r = a r ^ b r := by
  rfl
theorem C09_pow_left_nested (a b c : ℝ → ℝ) (r : ℝ) : reduceF powF a [b, c] r = (a r ^ b r) ^ c r := by
  rfl

/-! ## Code tie: the reducing modifiers (`_modifiers.py`), regenerated from the source on every run -/
section CodeTie
open Atsim.Gen.Logic

theorem modifier_reduce_loop1_eq (mk : Pfi → FnObj2) (f : FnObj2 → FnObj2 → FnObj2) (name : String) (acc : List FnObj2) (all : List Pfi) (xs : List (Nat × Pfi)) :
    modifier_reduce_loop1 mk f name acc () all xs =
      (match acc ++ xs.map (fun p => mk p.2) with
       | [] => .error ModErr.noArguments
       | x :: r => .ok (r.foldl f x)) := by
  induction xs generalizing acc with
  | nil => simp only [modifier_reduce_loop1, List.map_nil, List.append_nil]; cases acc <;> rfl
  | cons x xs ih => simp only [modifier_reduce_loop1, ih, List.map_cons, List.append_assoc, List.singleton_append]

theorem range_zip_map_snd {α β : Type} (g : α → β) (l : List α) : ((List.range l.length).zip l).map (fun p => g p.2) = l.map g := by
  have h : ((List.range l.length).zip l).map Prod.snd = l := by
    rw [List.map_snd_zip]; simp
  calc ((List.range l.length).zip l).map (fun p => g p.2) = (((List.range l.length).zip l).map Prod.snd).map g := by simp [List.map_map, Function.comp_def]
    _ = l.map g := by rw [h]

/-- **code tie**: `_modifier_from_func_reduce` builds a callable for EVERY argument, in the order written, and folds `func` over all of them from the left
(`functools.reduce`); no argument is skipped, repeated or reordered.  With no argument at all Python's reduce raises. -/
theorem C09_code_modifier_reduce (mk : Pfi → FnObj2) (f : FnObj2 → FnObj2 → FnObj2) (name : String) (forms : List Pfi) :
    modifier_reduce mk name f forms () =
      (match forms.map mk with
       | [] => .error ModErr.noArguments
       | x :: r => .ok (r.foldl f x)) := by
  unfold modifier_reduce
  rw [modifier_reduce_loop1_eq, List.nil_append, range_zip_map_snd]

/-- **code tie**: `sum`, `product` and `pow` of `_modifiers.py` are that fold with `plus`, `product` and `pow` of atsim.potentials -/
theorem C09_code_sum_product_pow (mk : Pfi → FnObj2) (op : FnObj2 → FnObj2 → FnObj2) (p : Pfi) (ps : List Pfi) :
    modifier_sum mk op (p :: ps) () = .ok ((ps.map mk).foldl op (mk p)) ∧
    modifier_product mk op (p :: ps) () = .ok ((ps.map mk).foldl op (mk p)) ∧
    modifier_pow mk op (p :: ps) () = .ok ((ps.map mk).foldl op (mk p)) := by
  simp [modifier_sum, modifier_product, modifier_pow, C09_code_modifier_reduce, andThen]

/-- the fold of the code, read through any interpretation `sem` of the callables under which the combinator is `op'`, is `reduceF op'` of the interpreted arguments -/
theorem foldl_sem (sem : FnObj2 → ℝ → ℝ) (op : FnObj2 → FnObj2 → FnObj2) (op' : (ℝ → ℝ) → (ℝ → ℝ) → (ℝ → ℝ))
    (h : ∀ a b, sem (op a b) = op' (sem a) (sem b)) (x : FnObj2) (xs : List FnObj2) :
    sem (xs.foldl op x) = reduceF op' (sem x) (xs.map sem) := by
  unfold reduceF
  induction xs generalizing x with
  | nil => rfl
  | cons y ys ih => simp only [List.foldl_cons, List.map_cons, ih, h]

/-- **code tie, values**: what the generated `sum` modifier returns is, at every r, the sum of ALL its arguments' values (and likewise the product) -/
theorem C09_code_sum_value (sem : FnObj2 → ℝ → ℝ) (mk : Pfi → FnObj2) (op : FnObj2 → FnObj2 → FnObj2)
    (h : ∀ a b, sem (op a b) = plusF (sem a) (sem b)) (p : Pfi) (ps : List Pfi) (v : FnObj2)
    (hv : modifier_sum mk op (p :: ps) () = .ok v) (r : ℝ) :
    sem v r = sem (mk p) r + (ps.map (fun q => sem (mk q) r)).sum := by
  rw [(C09_code_sum_product_pow mk op p ps).1] at hv
  cases hv
  rw [foldl_sem sem op plusF h, C09_sum, List.map_map, List.map_map]
  rfl

theorem C09_code_product_value (sem : FnObj2 → ℝ → ℝ) (mk : Pfi → FnObj2) (op : FnObj2 → FnObj2 → FnObj2)
    (h : ∀ a b, sem (op a b) = productF (sem a) (sem b)) (p : Pfi) (ps : List Pfi) (v : FnObj2)
    (hv : modifier_product mk op (p :: ps) () = .ok v) (r : ℝ) :
    sem v r = sem (mk p) r * (ps.map (fun q => sem (mk q) r)).prod := by
  rw [(C09_code_sum_product_pow mk op p ps).2.1] at hv
  cases hv
  rw [foldl_sem sem op productF h, C09_product, List.map_map, List.map_map]
  rfl

theorem register_loop_eq (funcOf : FormObj → FuncObj) (ps all : List (FormObj × FormObj)) (regs : List (FuncObj × FuncObj)) (forms : List (String × FormObj)) :
    register_with_each_other_loop1 funcOf all regs forms ps = regs ++ ps.map (fun p => (funcOf p.1, funcOf p.2)) := by
  induction ps generalizing regs with
  | nil => simp [register_with_each_other_loop1]
  | cons p ps ih => simp [register_with_each_other_loop1, ih]

theorem mem_orderedPairs {α : Type} (xs : List α) (a b : α) :
    (a, b) ∈ orderedPairs xs ↔ ∃ i j : Nat, i ≠ j ∧ xs[i]? = some a ∧ xs[j]? = some b := by
  unfold orderedPairs
  simp only [List.mem_flatMap, List.mem_range, List.mem_filterMap]
  constructor
  · rintro ⟨i, hi, j, hj, h⟩
    by_cases hij : i = j
    · simp [hij] at h
    · refine ⟨i, j, hij, ?_⟩
      simp only [hij, if_false] at h
      have h1 : xs[i]? = some xs[i] := List.getElem?_eq_getElem hi
      have h2 : xs[j]? = some xs[j] := List.getElem?_eq_getElem hj
      rw [h1, h2] at h
      simp only [Option.some.injEq, Prod.mk.injEq] at h
      rw [h1, h2, h.1, h.2]
      exact ⟨rfl, rfl⟩
  · rintro ⟨i, j, hij, h1, h2⟩
    have hi : i < xs.length := by
      rcases Nat.lt_or_ge i xs.length with h | h
      · exact h
      · rw [List.getElem?_eq_none h] at h1; cases h1
    have hj : j < xs.length := by
      rcases Nat.lt_or_ge j xs.length with h | h
      · exact h
      · rw [List.getElem?_eq_none h] at h2; cases h2
    refine ⟨i, hi, j, hj, ?_⟩
    simp [hij, h1, h2]

/-- **code tie**: `Potential_Form_Registry._register_with_each_other` calls `a.register_function(b)` exactly for the ordered pairs of `itertools.permutations`, in that order -/
theorem C09_code_register_with_each_other (funcOf : FormObj → FuncObj) (forms : List (String × FormObj)) (regs : List (FuncObj × FuncObj)) :
    register_with_each_other funcOf forms regs = regs ++ (orderedPairs (forms.map (·.2))).map (fun p => (funcOf p.1, funcOf p.2)) := by
  unfold register_with_each_other
  exact register_loop_eq _ _ _ _ _

/-- every custom form is registered with every OTHER custom form, in both directions, wherever the two stand in the file: a form can call one defined after it as well
as one defined before it -/
theorem C09_code_every_form_sees_every_other (funcOf : FormObj → FuncObj) (forms : List (String × FormObj)) (i j : Nat) (ei ej : String × FormObj)
    (hi : forms[i]? = some ei) (hj : forms[j]? = some ej) (hij : i ≠ j) :
    (funcOf ei.2, funcOf ej.2) ∈ register_with_each_other funcOf forms [] ∧ (funcOf ej.2, funcOf ei.2) ∈ register_with_each_other funcOf forms [] := by
  rw [C09_code_register_with_each_other]
  simp only [List.nil_append, List.mem_map]
  constructor
  · exact ⟨(ei.2, ej.2), (mem_orderedPairs _ _ _).2 ⟨i, j, hij, by simp [hi], by simp [hj]⟩, rfl⟩
  · exact ⟨(ej.2, ei.2), (mem_orderedPairs _ _ _).2 ⟨j, i, fun h => hij h.symm, by simp [hj], by simp [hi]⟩, rfl⟩

/-- and no form is registered with itself by position: a call `a.register_function(b)` always comes from two different entries -/
theorem C09_code_register_only_others (funcOf : FormObj → FuncObj) (forms : List (String × FormObj)) (x : FuncObj × FuncObj)
    (h : x ∈ register_with_each_other funcOf forms []) :
    ∃ (i j : Nat) (ei ej : String × FormObj), i ≠ j ∧ forms[i]? = some ei ∧ forms[j]? = some ej ∧ x = (funcOf ei.2, funcOf ej.2) := by
  rw [C09_code_register_with_each_other] at h
  simp only [List.nil_append, List.mem_map] at h
  obtain ⟨⟨a, b⟩, hm, rfl⟩ := h
  obtain ⟨i, j, hij, h1, h2⟩ := (mem_orderedPairs _ _ _).1 hm
  simp only [List.getElem?_map, Option.map_eq_some_iff] at h1 h2
  obtain ⟨ei, hei, rfl⟩ := h1
  obtain ⟨ej, hej, rfl⟩ := h2
  exact ⟨i, j, ei, ej, hij, hei, hej, rfl⟩

end CodeTie


/-- the order of the arguments of sum() and product() does not matter -/
theorem C09_sum_perm (f0 : ℝ → ℝ) (fs gs : List (ℝ → ℝ)) (h : fs.Perm gs) (r : ℝ) :
    reduceF plusF f0 fs r = reduceF plusF f0 gs r := by
  rw [C09_sum, C09_sum, (h.map (fun f => f r)).sum_eq]

/-- `trans(f, as.constant X)` -/
def transF (f : ℝ → ℝ) (X : ℝ) : ℝ → ℝ := fun r => f (r + X)
theorem C09_trans (f : ℝ → ℝ) (X r : ℝ) : transF f X r = f (r + X) := rfl

/-- nesting is compositional: a modifier applied to modifiers denotes the operation applied to their denotations -/
theorem C09_nesting (a b c d : ℝ → ℝ) (X r : ℝ) :
    reduceF plusF (reduceF productF a [b]) [transF (reduceF powF c [d]) X] r = a r * b r + (c (r + X)) ^ (d (r + X)) := by
  rfl

/-! ## the definition language: default range and entry order -/

private theorem takeWhile_num (p : Tok → Bool) (ps : List Rat) (hp : ∀ q, p (Tok.num q) = true) :
    (ps.map Tok.num).takeWhile p = ps.map Tok.num := by
  induction ps with
  | nil => rfl
  | cons q qs ih => simp [hp, ih]

private theorem filterMap_num (g : Tok → Option Rat) (ps : List Rat) (hg : ∀ q, g (Tok.num q) = some q) :
    (ps.map Tok.num).filterMap g = ps := by
  induction ps with
  | nil => rfl
  | cons q qs ih => simp [hg, ih]

/-- a definition written without a leading range marker is elaborated with the default range `('>', 0)` -/
theorem C09_default_range (l : String) (ps : List Rat) :
    parseDefinition (.ident l :: ps.map .num) = some [((false, 0), .form l ps)] := by
  unfold parseDefinition
  have hfuel : 2 * (Tok.ident l :: ps.map Tok.num).length + 2 = (2 * ps.length + 1 + 1) + 1 + 1 := by
    simp; omega
  rw [hfuel]
  cases ps with
  | nil => simp [parseMulti, parsePiece, parseMore, defaultStart]
  | cons q qs =>
    simp only [List.map_cons, parseMulti, parsePiece, defaultStart]
    rw [← List.map_cons]
    rw [takeWhile_num _ _ (fun _ => rfl), filterMap_num _ _ (fun _ => rfl)]
    rw [List.drop_length]
    simp [parseMore]

/-- potentials are built entry by entry (`[build e | e ← entries]`): permuting the entries of a section permutes the potentials
    obtained and changes none of them -/
theorem C09_entry_order {α β : Type} (build : α → β) (es es' : List α) (h : es.Perm es') :
    (es.map build).Perm (es'.map build) := by
  exact h.map build

/-- token-level round trip (proved in Props/C09Roundtrip.lean): parsing a rendered well-formed definition gives it back -/
theorem C09_roundtrip' (m : MultiRange) (h : WFMulti m) (explicitFirst : Bool) :
    parseDefinition (renderMulti explicitFirst m) = some m := C09_roundtrip m h explicitFirst

/-! ### the `trans()` modifier -/
section TransTie
open Atsim.Gen.Logic

/-- **code tie**: `trans()` as regenerated accepts exactly two arguments of which the second is the form `as.constant` with one parameter X, and returns the callable of
its FIRST argument - built from that argument as it was written, range start included - evaluated at `r + X` (the closure `transformed` and its `deriv` / `deriv2`
attributes are compared with their declared source text by the translator); everything else is refused -/
theorem C09_code_trans_modifier (mkFn : PInstS → FnObj2) (forms : List PInstS) :
    trans_modifier mkFn forms () =
      (match forms with
       | [a, b] =>
         if !(b.isForm && b.name == "as.constant") then .error TransErr.secondNotConstant
         else match b.parameters with
           | [x] => .ok ⟨mkFn a, x⟩
           | _ => .error TransErr.notOneParameter
       | _ => .error TransErr.notTwoArguments) := by
  unfold trans_modifier
  match forms with
  | [] => rfl
  | [_] => rfl
  | a :: b :: c :: rest =>
    have : ((((a :: b :: c :: rest).length : Nat) : Int) == (2 : Int)) = false := by
      simp only [List.length_cons]; apply beq_false_of_ne; omega
    simp only [this]; rfl
  | [a, b] =>
    simp only [List.length_cons, List.length_nil]
    by_cases h : (b.isForm && b.name == "as.constant") = true
    · match hp : b.parameters with
      | [] => simp_all
      | [x] => simp_all [listGet]
      | x :: y :: r =>
        have hl : ((((x :: y :: r).length : Nat) : Int) == (1 : Int)) = false := by
          simp only [List.length_cons]; apply beq_false_of_ne; omega
        simp_all
    · simp only [Bool.not_eq_true] at h
      have hc : (b.isForm = false ∨ ¬b.name = "as.constant") := by
        cases hf : b.isForm
        · exact Or.inl rfl
        · right; intro hn; simp [hf, hn] at h
      simp_all

/-- the value semantics of what is returned: reading the result through any interpretation of callables, `trans(f, as.constant X)` is `f` at `r + X` (`C09_trans`) -/
theorem C09_code_trans_value (sem : FnObj2 → ℝ → ℝ) (mkFn : PInstS → FnObj2) (a b : PInstS) (t : TransObj) (X : ℝ)
    (h : trans_modifier mkFn [a, b] () = .ok t) (hx : (t.x : ℝ) = X) (r : ℝ) :
    transF (sem t.fn) X r = sem (mkFn a) (r + X) := by
  rw [C09_code_trans_modifier] at h
  simp only [] at h
  split at h
  · cases h
  · split at h
    · cases h; rfl
    · cases h

end TransTie

end Atsim.C09
