import AtsimModel.Model.Formula
import AtsimModel.Model.PotLang
import AtsimModel.Props.C09Roundtrip
import Mathlib.Data.Real.Basic
import Mathlib.Analysis.SpecialFunctions.Pow.Real
import Mathlib.Tactic.Ring
import Mathlib.Tactic.Linarith
/-!
# C09 — potable model language: modifiers and custom formulas mean what is documented
(also carries the core of C12: evaluation is independent of what the symbol tables held before)

* `evalS` is the stateful evaluation of custom forms through per-form symbol tables, `evalP` the documented positional
  substitution (Model/Formula.lean).  `C09_positional`: they agree for every ACYCLIC set of forms.  For forms that call each
  other cyclically the inner call overwrites the outer call's parameters: `C09_cyclic_witness` (a recorded finding).
* `sum(...)`, `product(...)`, `pow(...)` are `functools.reduce` of the binary `plus`, `product`, `pow`: n-ary pointwise sum / product,
  left-nested power.  `trans(f, as.constant X)` is `r ↦ f(r + X)`.
Tie to the code: `harness/props/C09.py` (parse trees, energies, formatting variants, entry order, Python-API equivalence).
-/
namespace Atsim.C09
open Atsim

/-! ## custom formulas -/

mutual
/-- every form called (anywhere) in the expression has rank below `k` -/
def CallsBelow (rank : Nat → Nat) (k : Nat) : Ex → Prop
  | .lit _ => True
  | .var _ => True
  | .add a b => CallsBelow rank k a ∧ CallsBelow rank k b
  | .sub a b => CallsBelow rank k a ∧ CallsBelow rank k b
  | .mul a b => CallsBelow rank k a ∧ CallsBelow rank k b
  | .div a b => CallsBelow rank k a ∧ CallsBelow rank k b
  | .ite a b t e => CallsBelow rank k a ∧ CallsBelow rank k b ∧ CallsBelow rank k t ∧ CallsBelow rank k e
  | .call f args => rank f < k ∧ CallsBelowL rank k args
def CallsBelowL (rank : Nat → Nat) (k : Nat) : List Ex → Prop
  | [] => True
  | a :: as => CallsBelow rank k a ∧ CallsBelowL rank k as
end

/-- the call graph is acyclic: a ranking exists under which every form only calls forms of lower rank -/
def Acyclic (body : Nat → Ex) : Prop := ∃ rank : Nat → Nat, ∀ f, CallsBelow rank (rank f) (body f)

/-- joint refinement statement for `evalS`/`evalP` and the argument-list versions: same fuel, the current form's table agrees
    with the environment; calls only write tables of strictly lower rank. -/
theorem eval_positional (body : Nat → Ex) (rank : Nat → Nat) (hr : ∀ f, CallsBelow rank (rank f) (body f)) : ∀ (n : Nat),
    (∀ (cur : Nat) (σ : Tables) (env : List Rat) (e : Ex), CallsBelow rank (rank cur) e → (∀ i, σ cur i = env.getD i 0) →
      match evalS body n cur σ e, evalP body n env e with
      | none, none => True
      | some (v, τ), some v' => v = v' ∧ ∀ g, rank cur ≤ rank g → τ g = σ g
      | _, _ => False) ∧
    (∀ (cur : Nat) (σ : Tables) (env : List Rat) (es : List Ex), CallsBelowL rank (rank cur) es → (∀ i, σ cur i = env.getD i 0) →
      match evalArgsS body n cur σ es, evalArgsP body n env es with
      | none, none => True
      | some (v, τ), some v' => v = v' ∧ ∀ g, rank cur ≤ rank g → τ g = σ g
      | _, _ => False) := by
  intro n
  induction n with
  | zero => constructor <;> intros <;> simp [evalS, evalArgsS, evalP, evalArgsP]
  | succ n ih =>
    obtain ⟨ihE, ihA⟩ := ih
    constructor
    · intro cur σ env e hc henv
      cases e with
      | lit v => simp [evalS, evalP]
      | var i => simp [evalS, evalP, henv]
      | add a b | sub a b | mul a b | div a b =>
        simp only [CallsBelow] at hc
        simp only [evalS, evalP]
        have h1 := ihE cur σ env a hc.1 henv
        cases ha : evalS body n cur σ a <;> cases ha' : evalP body n env a <;> simp [ha, ha'] at h1 ⊢
        rename_i p x'
        obtain ⟨hv, hs1⟩ := h1
        have henv1 : ∀ i, p.2 cur i = env.getD i 0 := by
          intro i; rw [hs1 cur (Nat.le_refl _)]; exact henv i
        have h2 := ihE cur p.2 env b hc.2 henv1
        cases hb : evalS body n cur p.2 b <;> cases hb' : evalP body n env b <;> simp [hb, hb'] at h2 ⊢
        refine ⟨by rw [hv, h2.1], fun g hg => ?_⟩
        rw [h2.2 g hg, hs1 g hg]
      | ite a b t e =>
        simp only [CallsBelow] at hc
        simp only [evalS, evalP]
        have h1 := ihE cur σ env a hc.1 henv
        cases ha : evalS body n cur σ a <;> cases ha' : evalP body n env a <;> simp [ha, ha'] at h1 ⊢
        rename_i p x'
        obtain ⟨hv, hs1⟩ := h1
        have henv1 : ∀ i, p.2 cur i = env.getD i 0 := by
          intro i; rw [hs1 cur (Nat.le_refl _)]; exact henv i
        have h2 := ihE cur p.2 env b hc.2.1 henv1
        cases hb : evalS body n cur p.2 b <;> cases hb' : evalP body n env b <;> simp [hb, hb'] at h2 ⊢
        rename_i q y'
        obtain ⟨hw, hs2⟩ := h2
        have henv2 : ∀ i, q.2 cur i = env.getD i 0 := by
          intro i; rw [hs2 cur (Nat.le_refl _)]; exact henv1 i
        rw [← hv, ← hw]
        by_cases hpos : p.1 > q.1
        · simp only [hpos, if_true]
          have h3 := ihE cur q.2 env t hc.2.2.1 henv2
          cases ht : evalS body n cur q.2 t <;> cases ht' : evalP body n env t <;> simp [ht, ht'] at h3 ⊢
          refine ⟨h3.1, fun g hg => ?_⟩
          rw [h3.2 g hg, hs2 g hg, hs1 g hg]
        · simp only [hpos, if_false]
          have h3 := ihE cur q.2 env e hc.2.2.2 henv2
          cases ht : evalS body n cur q.2 e <;> cases ht' : evalP body n env e <;> simp [ht, ht'] at h3 ⊢
          refine ⟨h3.1, fun g hg => ?_⟩
          rw [h3.2 g hg, hs2 g hg, hs1 g hg]
      | call f args =>
        simp only [CallsBelow] at hc
        simp only [evalS, evalP]
        have h1 := ihA cur σ env args hc.2 henv
        cases ha : evalArgsS body n cur σ args <;> cases ha' : evalArgsP body n env args <;> simp [ha, ha'] at h1 ⊢
        rename_i p vals'
        obtain ⟨hv, hs1⟩ := h1
        rw [← hv]
        have h2 := ihE f (writeTable p.2 f p.1) p.1 (body f) (hr f) (by intro i; simp [writeTable])
        cases hb : evalS body n f (writeTable p.2 f p.1) (body f) <;>
          cases hb' : evalP body n p.1 (body f) <;> simp [hb, hb'] at h2 ⊢
        refine ⟨h2.1, fun g hg => ?_⟩
        have hfg : rank f ≤ rank g := by omega
        have hne : g ≠ f := by intro h; subst h; omega
        rw [h2.2 g hfg, ← hs1 g hg]
        funext i
        simp [writeTable, hne]
    · intro cur σ env es hc henv
      cases es with
      | nil => simp [evalArgsS, evalArgsP]
      | cons a as =>
        simp only [CallsBelowL] at hc
        simp only [evalArgsS, evalArgsP]
        have h1 := ihE cur σ env a hc.1 henv
        cases ha : evalS body n cur σ a <;> cases ha' : evalP body n env a <;> simp [ha, ha'] at h1 ⊢
        rename_i p x'
        obtain ⟨hv, hs1⟩ := h1
        have henv1 : ∀ i, p.2 cur i = env.getD i 0 := by
          intro i; rw [hs1 cur (Nat.le_refl _)]; exact henv i
        have h2 := ihA cur p.2 env as hc.2 henv1
        cases hb : evalArgsS body n cur p.2 as <;> cases hb' : evalArgsP body n env as <;> simp [hb, hb'] at h2 ⊢
        refine ⟨⟨hv, h2.1⟩, fun g hg => ?_⟩
        rw [h2.2 g hg, hs1 g hg]

/-- **positional binding** (refinement theorem): for every acyclic set of custom forms, every fuel, every prior content of the symbol
    tables, the stateful evaluation of `NAME(args)` equals the formula with its parameters substituted positionally, including
    calls to other custom forms with different arguments. -/
theorem C09_positional (body : Nat → Ex) (h : Acyclic body) (fuel : Nat) (σ : Tables) (f : Nat) (vals : List Rat) :
    energyS body fuel σ f vals = energyP body fuel f vals := by
  obtain ⟨rank, hr⟩ := h
  unfold energyS energyP
  have := (eval_positional body rank hr fuel).1 f (writeTable σ f vals) vals (body f) (hr f) (by intro i; simp [writeTable])
  cases h : evalS body fuel f (writeTable σ f vals) (body f) <;>
    cases h' : evalP body fuel vals (body f) <;> simp [h, h'] at this ⊢
  exact this.1

/-- states agree on every table in `A` -/
def Agree (A : Nat → Prop) (σ σ' : Tables) : Prop := ∀ g, A g → ∀ i, σ g i = σ' g i

theorem agree_write {A : Nat → Prop} {σ σ' : Tables} (h : Agree A σ σ') (f : Nat) (vals : List Rat) :
    Agree (fun g => A g ∨ g = f) (writeTable σ f vals) (writeTable σ' f vals) := by
  intro g hg i
  unfold writeTable
  by_cases hgf : g = f
  · simp [hgf]
  · simp only [hgf, if_false]
    rcases hg with hg | hg
    · exact h g hg i
    · exact absurd hg hgf

/-- Results of evaluation under two states that agree on a set of tables containing the current
    form's table: equal values, and the final states still agree on that set. -/
theorem eval_agree (body : Nat → Ex) : ∀ (n : Nat),
    (∀ (A : Nat → Prop) (cur : Nat) (σ σ' : Tables) (e : Ex), A cur → Agree A σ σ' →
      match evalS body n cur σ e, evalS body n cur σ' e with
      | none, none => True
      | some (v, τ), some (v', τ') => v = v' ∧ Agree A τ τ'
      | _, _ => False) ∧
    (∀ (A : Nat → Prop) (cur : Nat) (σ σ' : Tables) (es : List Ex), A cur → Agree A σ σ' →
      match evalArgsS body n cur σ es, evalArgsS body n cur σ' es with
      | none, none => True
      | some (v, τ), some (v', τ') => v = v' ∧ Agree A τ τ'
      | _, _ => False) := by
  intro n
  induction n with
  | zero => constructor <;> intros <;> simp [evalS, evalArgsS]
  | succ n ih =>
    obtain ⟨ihE, ihA⟩ := ih
    constructor
    · intro A cur σ σ' e hcur hag
      cases e with
      | lit v => simp [evalS]; exact hag
      | var i => simp [evalS]; exact ⟨hag cur hcur i, hag⟩
      | add a b | sub a b | mul a b | div a b =>
        simp only [evalS]
        have h1 := ihE A cur σ σ' a hcur hag
        cases ha : evalS body n cur σ a <;> cases ha' : evalS body n cur σ' a <;> simp [ha, ha'] at h1 ⊢
        rename_i p p'
        obtain ⟨hv, hag1⟩ := h1
        have h2 := ihE A cur p.2 p'.2 b hcur hag1
        cases hb : evalS body n cur p.2 b <;> cases hb' : evalS body n cur p'.2 b <;> simp [hb, hb'] at h2 ⊢
        exact ⟨by rw [hv, h2.1], h2.2⟩
      | ite a b t e =>
        simp only [evalS]
        have h1 := ihE A cur σ σ' a hcur hag
        cases ha : evalS body n cur σ a <;> cases ha' : evalS body n cur σ' a <;> simp [ha, ha'] at h1 ⊢
        rename_i p p'
        obtain ⟨hv, hag1⟩ := h1
        have h2 := ihE A cur p.2 p'.2 b hcur hag1
        cases hb : evalS body n cur p.2 b <;> cases hb' : evalS body n cur p'.2 b <;> simp [hb, hb'] at h2 ⊢
        rename_i q q'
        obtain ⟨hw, hag2⟩ := h2
        rw [← hv, ← hw]
        by_cases hpos : p.1 > q.1
        · simp only [hpos, if_true]; exact ihE A cur q.2 q'.2 t hcur hag2
        · simp only [hpos, if_false]; exact ihE A cur q.2 q'.2 e hcur hag2
      | call f args =>
        simp only [evalS]
        have h1 := ihA A cur σ σ' args hcur hag
        cases ha : evalArgsS body n cur σ args <;> cases ha' : evalArgsS body n cur σ' args <;> simp [ha, ha'] at h1 ⊢
        rename_i p p'
        obtain ⟨hv, hag1⟩ := h1
        rw [← hv]
        have hag2 := agree_write hag1 f p.1
        have h2 := ihE (fun g => A g ∨ g = f) f _ _ (body f) (Or.inr rfl) hag2
        cases hb : evalS body n f (writeTable p.2 f p.1) (body f) <;>
          cases hb' : evalS body n f (writeTable p'.2 f p.1) (body f) <;> simp [hb, hb'] at h2 ⊢
        exact ⟨h2.1, fun g hg i => h2.2 g (Or.inl hg) i⟩
    · intro A cur σ σ' es hcur hag
      cases es with
      | nil => simp [evalArgsS]; exact hag
      | cons a as =>
        simp only [evalArgsS]
        have h1 := ihE A cur σ σ' a hcur hag
        cases ha : evalS body n cur σ a <;> cases ha' : evalS body n cur σ' a <;> simp [ha, ha'] at h1 ⊢
        rename_i p p'
        obtain ⟨hv, hag1⟩ := h1
        have h2 := ihA A cur p.2 p'.2 as hcur hag1
        cases hb : evalArgsS body n cur p.2 as <;> cases hb' : evalArgsS body n cur p'.2 as <;> simp [hb, hb'] at h2 ⊢
        exact ⟨⟨hv, h2.1⟩, h2.2⟩

/-- **C12 core**: for EVERY set of forms (cyclic ones included) the value does not depend on what the symbol tables held before
    the call – whatever was evaluated earlier, in whatever order or interleaving. -/
theorem C12_eval_state_independent (body : Nat → Ex) (fuel : Nat) (σ σ' : Tables) (f : Nat) (vals : List Rat) :
    energyS body fuel σ f vals = energyS body fuel σ' f vals := by
  unfold energyS
  have hag : Agree (fun g => False ∨ g = f) (writeTable σ f vals) (writeTable σ' f vals) :=
    agree_write (A := fun _ => False) (fun _ h => absurd h id) f vals
  have := (eval_agree body fuel).1 (fun g => False ∨ g = f) f _ _ (body f) (Or.inr rfl) hag
  cases h : evalS body fuel f (writeTable σ f vals) (body f) <;>
    cases h' : evalS body fuel f (writeTable σ' f vals) (body f) <;> simp [h, h'] at this ⊢
  exact this.1

/-- the cyclic example `f(r,a) = g(r,a) + a ; g(r,b) = if(b > 0, f(r,b-1), 0)` written with one parameter:
    form 0: `call 1 [var 0] + var 0`, form 1: `if(var 0 > 0, call 0 [var 0 - 1], 0)` -/
def bodyCyc : Nat → Ex
  | 0 => .add (.call 1 [.var 0]) (.var 0)
  | 1 => .ite (.var 0) (.lit 0) (.call 0 [.sub (.var 0) (.lit 1)]) (.lit 0)
  | _ => .lit 0

/-- stateful evaluation gives 0, positional substitution gives 3+2+1+0 = 6: the full statement fails for cyclic form sets -/
theorem C09_cyclic_witness :
    energyS bodyCyc 100 (fun _ _ => 1) 0 [3] = some 0 ∧ energyP bodyCyc 100 0 [3] = some 6 := by
  decide +kernel

def C09_positional_full : Prop :=
  ∀ (body : Nat → Ex) (fuel : Nat) (σ : Tables) (f : Nat) (vals : List Rat), energyS body fuel σ f vals = energyP body fuel f vals

theorem C09_positional_full_fails : ¬ C09_positional_full := by
  intro h
  have h1 := h bodyCyc 100 (fun _ _ => 1) 0 [3]
  rw [C09_cyclic_witness.1, C09_cyclic_witness.2] at h1
  exact absurd h1 (by decide +kernel)

/-- non-vacuity of `C09_positional`: two forms, the second calling the first twice with different arguments -/
def bodyEx : Nat → Ex
  | 0 => .mul (.var 0) (.var 1)
  | 1 => .add (.call 0 [.var 0, .lit 2]) (.call 0 [.var 1, .var 0])
  | _ => .lit 0
example : Acyclic bodyEx := by
  refine ⟨id, fun f => ?_⟩
  match f with
  | 0 => simp [bodyEx, CallsBelow]
  | 1 => simp [bodyEx, CallsBelow, CallsBelowL]
  | _ + 2 => simp [bodyEx, CallsBelow]
example : energyS bodyEx 50 (fun _ _ => 1) 1 [3, 5] = some 21 := by
  decide +kernel

/-! ## modifiers -/

/-- `plus(a, b)`, `product(a, b)`, `pow(a, b)` of atsim/potentials/__init__.py (values) -/
def plusF (a b : ℝ → ℝ) : ℝ → ℝ := fun r => a r + b r
def productF (a b : ℝ → ℝ) : ℝ → ℝ := fun r => a r * b r
noncomputable def powF (a b : ℝ → ℝ) : ℝ → ℝ := fun r => a r ^ b r

/-- `functools.reduce(func, pot_callables)` for a non-empty argument list -/
def reduceF (op : (ℝ → ℝ) → (ℝ → ℝ) → (ℝ → ℝ)) (f0 : ℝ → ℝ) (fs : List (ℝ → ℝ)) : ℝ → ℝ := fs.foldl op f0

/-- `sum(f0, f1, ..., fn)` is the pointwise sum of all its arguments -/
theorem C09_sum (f0 : ℝ → ℝ) (fs : List (ℝ → ℝ)) (r : ℝ) :
    reduceF plusF f0 fs r = f0 r + (fs.map (fun f => f r)).sum := by
  unfold reduceF
  induction fs generalizing f0 with
  | nil => simp
  | cons g gs ih =>
    simp only [List.foldl_cons, List.map_cons, List.sum_cons]
    rw [ih]
    simp only [plusF]
    ring

/-- `product(f0, f1, ..., fn)` is the pointwise product of all its arguments -/
theorem C09_product (f0 : ℝ → ℝ) (fs : List (ℝ → ℝ)) (r : ℝ) :
    reduceF productF f0 fs r = f0 r * (fs.map (fun f => f r)).prod := by
  unfold reduceF
  induction fs generalizing f0 with
  | nil => simp
  | cons g gs ih =>
    simp only [List.foldl_cons, List.map_cons, List.prod_cons]
    rw [ih]
    simp only [productF]
    ring

/-- `pow(a, b)` is `a(r) ** b(r)`; with more arguments the fold is left-nested: `pow(a, b, c) = (a**b)**c` -/
theorem C09_pow (a b : ℝ → ℝ) (r : ℝ) : reduceF powF a [b] r = a r ^ b r := by
  rfl
theorem C09_pow_left_nested (a b c : ℝ → ℝ) (r : ℝ) : reduceF powF a [b, c] r = (a r ^ b r) ^ c r := by
  rfl

/-- the order of the arguments of sum() and product() does not matter -/
theorem C09_sum_perm (f0 : ℝ → ℝ) (fs gs : List (ℝ → ℝ)) (h : fs.Perm gs) (r : ℝ) :
    reduceF plusF f0 fs r = reduceF plusF f0 gs r := by
  rw [C09_sum, C09_sum, (h.map (fun f => f r)).sum_eq]

/-- `trans(f, as.constant X)` -/
def transF (f : ℝ → ℝ) (X : ℝ) : ℝ → ℝ := fun r => f (r + X)
theorem C09_trans (f : ℝ → ℝ) (X r : ℝ) : transF f X r = f (r + X) := rfl

/-- nesting is compositional: a modifier applied to modifiers denotes the operation applied to their denotations -/
theorem C09_nesting (a b c d : ℝ → ℝ) (X r : ℝ) :
    reduceF plusF (reduceF productF a [b]) [transF (reduceF powF c [d]) X] r = a r * b r + (c (r + X)) ^ (d (r + X)) := by
  rfl

/-! ## the definition language: default range and entry order -/

private theorem takeWhile_num (p : Tok → Bool) (ps : List Rat) (hp : ∀ q, p (Tok.num q) = true) :
    (ps.map Tok.num).takeWhile p = ps.map Tok.num := by
  induction ps with
  | nil => rfl
  | cons q qs ih => simp [hp, ih]

private theorem filterMap_num (g : Tok → Option Rat) (ps : List Rat) (hg : ∀ q, g (Tok.num q) = some q) :
    (ps.map Tok.num).filterMap g = ps := by
  induction ps with
  | nil => rfl
  | cons q qs ih => simp [hg, ih]

/-- a definition written without a leading range marker is elaborated with the default range `('>', 0)` -/
theorem C09_default_range (l : String) (ps : List Rat) :
    parseDefinition (.ident l :: ps.map .num) = some [((false, 0), .form l ps)] := by
  unfold parseDefinition
  have hfuel : 2 * (Tok.ident l :: ps.map Tok.num).length + 2 = (2 * ps.length + 1 + 1) + 1 + 1 := by
    simp; omega
  rw [hfuel]
  cases ps with
  | nil => simp [parseMulti, parsePiece, parseMore, defaultStart]
  | cons q qs =>
    simp only [List.map_cons, parseMulti, parsePiece, defaultStart]
    rw [← List.map_cons]
    rw [takeWhile_num _ _ (fun _ => rfl), filterMap_num _ _ (fun _ => rfl)]
    rw [List.drop_length]
    simp [parseMore]

/-- potentials are built entry by entry (`[build e | e ← entries]`): permuting the entries of a section permutes the potentials
    obtained and changes none of them -/
theorem C09_entry_order {α β : Type} (build : α → β) (es es' : List α) (h : es.Perm es') :
    (es.map build).Perm (es'.map build) := by
  exact h.map build

/-- token-level round trip (proved in Props/C09Roundtrip.lean): parsing a rendered well-formed definition gives it back -/
theorem C09_roundtrip' (m : MultiRange) (h : WFMulti m) (explicitFirst : Bool) :
    parseDefinition (renderMulti explicitFirst m) = some m := C09_roundtrip m h explicitFirst

end Atsim.C09
