import AtsimModel.Model.RangeSearch
import AtsimModel.Gen.Logic
/-!
# C08 — multi-range potentials select exactly the range that contains r

Theorems about `Atsim.rangeSearch` (a line-by-line transcription of `_range_search`) and `Atsim.sortRD`
(the stable sort done by the `range_defns` setter).  Tie to the code: `harness/props/C08.py`.
-/
namespace Atsim.C08
open Atsim

/-- a range "contains" r:  `r > start`, or `r = start` for an inclusive range -/
def Qual (r : Int) (t : RD) : Prop := r > t.start ∨ (t.incl = true ∧ r = t.start)

/-- The property's selection rule as a relation on the UNORDERED collection of ranges (only membership is used, so
    the listing order cannot enter it): nothing is selected iff no range contains r; otherwise the selected range
    contains r and no containing range starts later. -/
def IsSel (l : List RD) (r : Int) (o : Option RD) : Prop :=
  (o = none ∧ ∀ t ∈ l, ¬ Qual r t) ∨
  (∃ t, o = some t ∧ t ∈ l ∧ Qual r t ∧ ∀ u ∈ l, Qual r u → u.start ≤ t.start)

/-- The tie rule for ranges that share a start (pinned by the repository's own test
    `test_multirange_potential_range_search`): at `r = start` the inclusive range acts, above it an exclusive one if there is one. -/
def IsSelTie (l : List RD) (r : Int) (o : Option RD) : Prop :=
  IsSel l r o ∧ ∀ t, o = some t →
    (r = t.start → t.incl = true) ∧
    (r > t.start → t.incl = true → ∀ u ∈ l, u.start = t.start → u.incl = true)

theorem loop_some (r : Int) : ∀ (ts : List RD) (l : RD),
    List.Pairwise (fun a b => a.start < b.start) (l :: ts) → l.start < r →
    ∃ x, searchLoop r (some l) ts = some x ∧ x ∈ l :: ts ∧ Qual r x ∧
      ∀ u ∈ l :: ts, Qual r u → u.start ≤ x.start := by
  intro ts
  induction ts with
  | nil =>
    intro l _ hl
    refine ⟨l, ?_, by simp, Or.inl hl, ?_⟩
    · simp [searchLoop, hl]
    · intro u hu _; simp at hu; subst hu; exact Int.le_refl _
  | cons t ts ih =>
    intro l hp hl
    have hp' := List.pairwise_cons.mp hp
    have hlt : l.start < t.start := hp'.1 t (by simp)
    have hpt := List.pairwise_cons.mp hp'.2
    unfold searchLoop
    by_cases h1 : (r == t.start && t.incl) = true
    · simp only [h1, if_true]
      have h1' : r = t.start ∧ t.incl = true := by simpa using h1
      refine ⟨t, rfl, by simp, Or.inr ⟨h1'.2, h1'.1⟩, ?_⟩
      intro u hu hq
      simp at hu
      rcases hu with rfl | rfl | hu
      · omega
      · omega
      · have := hpt.1 u hu
        rcases hq with hq | ⟨_, hq⟩ <;> omega
    · simp only [h1]
      have h1' : ¬ (r = t.start ∧ t.incl = true) := by simpa using h1
      by_cases h2 : (decide (r ≤ t.start) && decide (r > l.start)) = true
      · simp only [h2, if_true]
        refine ⟨l, by simp, by simp, Or.inl hl, ?_⟩
        have h2' : r ≤ t.start ∧ r > l.start := by simpa using h2
        intro u hu hq
        simp at hu
        rcases hu with rfl | rfl | hu
        · omega
        · rcases hq with hq | ⟨hi, hq⟩
          · omega
          · exact absurd ⟨hq, hi⟩ h1'
        · have := hpt.1 u hu
          rcases hq with hq | ⟨_, hq⟩ <;> omega
      · simp only [h2]
        have h2' : ¬ (r ≤ t.start ∧ r > l.start) := by simpa using h2
        have htr : t.start < r := by omega
        obtain ⟨x, hx, hmem, hqx, hmax⟩ := ih t hp'.2 htr
        refine ⟨x, by simpa using hx, List.mem_cons_of_mem _ hmem, hqx, ?_⟩
        have htx : t.start ≤ x.start := hmax t (by simp) (Or.inl htr)
        intro u hu hq
        rcases List.mem_cons.mp hu with rfl | hu
        · omega
        · exact hmax u hu hq

/-- core: on any list whose starts are strictly increasing the transcription of `_range_search` meets the selection rule -/
theorem rangeSearch_sorted (rt : List RD) (r : Int)
    (hp : List.Pairwise (fun a b => a.start < b.start) rt) : IsSel rt r (rangeSearch rt r) := by
  cases rt with
  | nil => left; simp [rangeSearch]
  | cons t0 ts =>
    have hp' := List.pairwise_cons.mp hp
    unfold rangeSearch
    by_cases h0 : (decide (r < t0.start) || (r == t0.start && !t0.incl)) = true
    · simp only [h0, if_true]
      left; refine ⟨rfl, ?_⟩
      have h0' : r < t0.start ∨ (r = t0.start ∧ t0.incl = false) := by simpa using h0
      intro u hu hq
      simp at hu
      rcases hu with rfl | hu
      · rcases hq with hq | ⟨hi, hq⟩
        · rcases h0' with h | ⟨h, _⟩ <;> omega
        · rcases h0' with h | ⟨_, h⟩
          · omega
          · simp [hi] at h
      · have := hp'.1 u hu
        rcases hq with hq | ⟨_, hq⟩ <;> rcases h0' with h | ⟨h, _⟩ <;> omega
    · simp only [h0]
      have h0' : ¬ (r < t0.start ∨ (r = t0.start ∧ t0.incl = false)) := by simpa using h0
      right
      unfold searchLoop
      by_cases h1 : (r == t0.start && t0.incl) = true
      · simp only [h1, if_true]
        have h1' : r = t0.start ∧ t0.incl = true := by simpa using h1
        refine ⟨t0, rfl, by simp, Or.inr ⟨h1'.2, h1'.1⟩, ?_⟩
        intro u hu hq
        simp at hu
        rcases hu with rfl | hu
        · omega
        · have := hp'.1 u hu
          rcases hq with hq | ⟨_, hq⟩ <;> omega
      · simp only [h1]
        have h1' : ¬ (r = t0.start ∧ t0.incl = true) := by simpa using h1
        have hgt : t0.start < r := by
          rcases Int.lt_trichotomy r t0.start with h | h | h
          · exact absurd (Or.inl h) h0'
          · cases hi : t0.incl
            · exact absurd (Or.inr ⟨h, hi⟩) h0'
            · exact absurd ⟨h, hi⟩ h1'
          · exact h
        obtain ⟨x, hx, hmem, hqx, hmax⟩ := loop_some r ts t0 hp hgt
        exact ⟨x, hx, hmem, hqx, hmax⟩

/-! ### the sort -/

theorem insertRD_perm (x : RD) (l : List RD) : (insertRD x l).Perm (x :: l) := by
  induction l with
  | nil => simp [insertRD]
  | cons y ys ih =>
    unfold insertRD
    split
    · exact (List.Perm.cons y ih).trans (List.Perm.swap x y ys)
    · exact List.Perm.refl _

theorem foldl_insertRD_perm (l acc : List RD) :
    (l.foldl (fun acc x => insertRD x acc) acc).Perm (l ++ acc) := by
  induction l generalizing acc with
  | nil => simp
  | cons x xs ih =>
    simp only [List.foldl_cons]
    refine (ih (insertRD x acc)).trans ?_
    refine ((insertRD_perm x acc).append_left xs).trans ?_
    simp

theorem sortRD_perm (l : List RD) : (sortRD l).Perm l := by
  exact (foldl_insertRD_perm l []).trans (by simp)

/-- inserting into a strictly increasing list a range whose start is new keeps it strictly increasing -/
theorem insertRD_sorted (x : RD) (l : List RD) (hl : List.Pairwise (fun a b => a.start < b.start) l)
    (hx : ∀ y ∈ l, y.start ≠ x.start) : List.Pairwise (fun a b => a.start < b.start) (insertRD x l) := by
  induction l with
  | nil => simp [insertRD]
  | cons y ys ih =>
    have hp' := List.pairwise_cons.mp hl
    have hne : y.start ≠ x.start := hx y (by simp)
    unfold insertRD
    split
    · rename_i hle
      have hlt : y.start < x.start := by
        simp [rdLe, hne] at hle; exact hle
      refine List.pairwise_cons.mpr ⟨?_, ih hp'.2 (fun z hz => hx z (List.mem_cons_of_mem _ hz))⟩
      intro z hz
      rcases List.mem_cons.mp ((insertRD_perm x ys).mem_iff.mp hz) with rfl | hz
      · exact hlt
      · exact hp'.1 z hz
    · rename_i hle
      have hlt : x.start < y.start := by
        simp [rdLe, hne] at hle; omega
      refine List.pairwise_cons.mpr ⟨?_, hl⟩
      intro z hz
      rcases List.mem_cons.mp hz with rfl | hz
      · exact hlt
      · have := hp'.1 z hz; omega

theorem foldl_insertRD_sorted (l acc : List RD)
    (ha : List.Pairwise (fun a b => a.start < b.start) acc)
    (hd : List.Pairwise (fun a b => a.start ≠ b.start) l)
    (hx : ∀ a ∈ acc, ∀ b ∈ l, a.start ≠ b.start) :
    List.Pairwise (fun a b => a.start < b.start) (l.foldl (fun acc x => insertRD x acc) acc) := by
  induction l generalizing acc with
  | nil => exact ha
  | cons x xs ih =>
    simp only [List.foldl_cons]
    have hd' := List.pairwise_cons.mp hd
    refine ih (insertRD x acc) (insertRD_sorted x acc ha (fun y hy => hx y hy x (by simp))) hd'.2 ?_
    intro a ha' b hb
    rcases List.mem_cons.mp ((insertRD_perm x acc).mem_iff.mp ha') with rfl | ha'
    · exact hd'.1 b hb
    · exact hx a ha' b (List.mem_cons_of_mem _ hb)

/-- with pairwise distinct starts, in ANY listing order, the sorted list has strictly increasing starts -/
theorem sortRD_sorted (l : List RD) (hd : List.Pairwise (fun a b => a.start ≠ b.start) l) :
    List.Pairwise (fun a b => a.start < b.start) (sortRD l) := by
  exact foldl_insertRD_sorted l [] List.Pairwise.nil hd (by simp)

theorem IsSel_perm (l l' : List RD) (h : l.Perm l') (r : Int) (o : Option RD) : IsSel l r o → IsSel l' r o := by
  rintro (⟨ho, hn⟩ | ⟨t, ho, hm, hq, hmax⟩)
  · exact Or.inl ⟨ho, fun t ht => hn t (h.mem_iff.mpr ht)⟩
  · exact Or.inr ⟨t, ho, h.mem_iff.mp hm, hq, fun u hu => hmax u (h.mem_iff.mpr hu)⟩

/-- **C08 (distinct starts)**: for every list of ranges with pairwise distinct starts, in any listing order, and every r:
    the potential evaluates the range given by the selection rule (none below the first range). -/
theorem C08_select (l : List RD) (hd : List.Pairwise (fun a b => a.start ≠ b.start) l) (r : Int) :
    IsSel l r (rangeSearch (sortRD l) r) := by
  exact IsSel_perm _ _ (sortRD_perm l) r _ (rangeSearch_sorted _ r (sortRD_sorted l hd))

theorem eq_of_start_eq (l : List RD) (hd : List.Pairwise (fun a b => a.start ≠ b.start) l) :
    ∀ a b, a ∈ l → b ∈ l → a.start = b.start → a = b := by
  induction l with
  | nil => intro a b ha; simp at ha
  | cons x xs ih =>
    have hd' := List.pairwise_cons.mp hd
    intro a b ha hb hab
    rcases List.mem_cons.mp ha with hax | ha <;> rcases List.mem_cons.mp hb with hbx | hb
    · rw [hax, hbx]
    · exact absurd (hax ▸ hab) (hd'.1 b hb)
    · exact absurd (hbx ▸ hab.symm) (hd'.1 a ha)
    · exact ih hd'.2 a b ha hb hab

/-- with distinct starts the selection rule determines its result uniquely … -/
theorem IsSel_unique (l : List RD) (hd : List.Pairwise (fun a b => a.start ≠ b.start) l) (r : Int) (o o' : Option RD) :
    IsSel l r o → IsSel l r o' → o = o' := by
  rintro (⟨ho, hn⟩ | ⟨t, ho, hm, hq, hmax⟩) (⟨ho', hn'⟩ | ⟨t', ho', hm', hq', hmax'⟩)
  · rw [ho, ho']
  · exact absurd hq' (hn t' hm')
  · exact absurd hq (hn' t hm)
  · have h1 := hmax t' hm' hq'
    have h2 := hmax' t hm hq
    have : t = t' := eq_of_start_eq l hd t t' hm hm' (by omega)
    rw [ho, ho', this]

/-- … hence the result does not depend on the order in which the ranges were listed -/
theorem C08_order_independent (l l' : List RD) (h : l.Perm l') (hd : List.Pairwise (fun a b => a.start ≠ b.start) l) (r : Int) :
    selected l r = selected l' r := by
  have hd' : List.Pairwise (fun a b : RD => a.start ≠ b.start) l' :=
    (h.pairwise_iff (fun {a b} hab => Ne.symm hab)).mp hd
  have h1 := C08_select l hd r
  have h2 := IsSel_perm _ _ h.symm r _ (C08_select l' hd' r)
  unfold selected
  rw [IsSel_unique l hd r _ _ h1 h2]

/-- below the first range (and on an exclusive first boundary) nothing is selected: value = default 0, derivatives 0 -/
theorem C08_below_first (l : List RD) (r : Int) (h : ∀ t ∈ l, ¬ Qual r t) (hd : List.Pairwise (fun a b => a.start ≠ b.start) l) :
    selected l r = none := by
  rcases C08_select l hd r with ⟨ho, _⟩ | ⟨t, _, hm, hq, _⟩
  · simp [selected, ho]
  · exact absurd hq (h t hm)

/-- a potable definition without a leading range marker is elaborated with `('>', 0)`: it acts for r > 0 only -/
theorem C08_potable_default (f : Nat) (r : Int) : selected [⟨false, 0, f⟩] r = if r > 0 then some f else none := by
  by_cases h : r > 0
  · have h' : ¬ r < 0 := by omega
    have h'' : ¬ r = 0 := by omega
    simp [selected, sortRD, insertRD, rangeSearch, searchLoop, h, h', h'']
  · by_cases h0 : r = 0
    · subst h0; simp [selected, sortRD, insertRD, rangeSearch]
    · have h' : r < 0 := by omega
      simp [selected, sortRD, insertRD, rangeSearch, h, h']

/-! ### shared starts: what the code does, stated exactly (tie rule) and the duplicate-(marker,start) defect -/

/-- mixed markers at one start: inclusive range at the start, exclusive range above it – whatever the listing order -/
theorem C08_tie_mixed (s : Int) (f g : Nat) (r : Int) :
    selected [⟨true, s, f⟩, ⟨false, s, g⟩] r = selected [⟨false, s, g⟩, ⟨true, s, f⟩] r ∧
    selected [⟨true, s, f⟩, ⟨false, s, g⟩] r = (if r < s then none else if r = s then some f else some g) := by
  have e1 : sortRD [⟨true, s, f⟩, ⟨false, s, g⟩] = [⟨true, s, f⟩, ⟨false, s, g⟩] := by
    simp [sortRD, insertRD, rdLe]
  have e2 : sortRD [⟨false, s, g⟩, ⟨true, s, f⟩] = [⟨true, s, f⟩, ⟨false, s, g⟩] := by
    simp [sortRD, insertRD, rdLe]
  refine ⟨by simp [selected, e1, e2], ?_⟩
  simp only [selected, e1]
  by_cases h1 : r < s
  · simp [rangeSearch, h1]
  · by_cases h2 : r = s
    · subst h2; simp [rangeSearch, searchLoop]
    · have h3 : r > s := by omega
      have h4 : ¬ r ≤ s := by omega
      simp [rangeSearch, searchLoop, h1, h2, h3, h4]

/-- same marker at one start: the result depends on the listing order (the property's last sentence fails here) -/
theorem C08_defect_witness_excl :
    selected [⟨false, 2, 1⟩, ⟨false, 2, 2⟩] 3 = some 2 ∧ selected [⟨false, 2, 2⟩, ⟨false, 2, 1⟩] 3 = some 1 := by decide

theorem C08_defect_witness_incl :
    selected [⟨true, 2, 1⟩, ⟨true, 2, 2⟩] 2 = some 1 ∧ selected [⟨true, 2, 1⟩, ⟨true, 2, 2⟩] 3 = some 2 := by decide

/-- full statement incl. repeated starts: order independence for ALL range lists -/
def C08_full : Prop := ∀ (l l' : List RD) (r : Int), l.Perm l' → selected l r = selected l' r

theorem C08_full_fails : ¬ C08_full := by
  intro h
  have h1 := h [⟨false, 2, 1⟩, ⟨false, 2, 2⟩] [⟨false, 2, 2⟩, ⟨false, 2, 1⟩] 3 (List.Perm.swap _ _ _)
  rw [C08_defect_witness_excl.1, C08_defect_witness_excl.2] at h1
  exact absurd h1 (by decide)

/-! ### the tie theorem: no two ranges share BOTH start and marker -/

/-- the strict order realised by the sort when no two ranges share both start and marker:
    by start, and at a shared start the inclusive range before the exclusive one -/
def TLt (a b : RD) : Prop := a.start < b.start ∨ (a.start = b.start ∧ a.incl = true ∧ b.incl = false)

theorem TLt.le {a b : RD} (h : TLt a b) : a.start ≤ b.start := by
  rcases h with h | ⟨h, _⟩ <;> omega

theorem TLt.trans {a b c : RD} (h1 : TLt a b) (h2 : TLt b c) : TLt a c := by
  rcases h1 with h1 | ⟨h1, ha, hb⟩ <;> rcases h2 with h2 | ⟨h2, hb', hc⟩
  · left; omega
  · left; omega
  · left; omega
  · rw [hb] at hb'; exact absurd hb' (by decide)

theorem insertRD_tsorted (x : RD) (l : List RD) (hl : List.Pairwise TLt l)
    (hx : ∀ y ∈ l, ¬ (y.start = x.start ∧ y.incl = x.incl)) : List.Pairwise TLt (insertRD x l) := by
  induction l with
  | nil => simp [insertRD]
  | cons y ys ih =>
    have hp' := List.pairwise_cons.mp hl
    have hne := hx y (by simp)
    unfold insertRD
    split
    · rename_i hle
      have hlt : TLt y x := by
        unfold TLt
        by_cases hs : y.start = x.start
        · right
          simp [rdLe, hs] at hle
          have hne' : ¬ y.incl = x.incl := fun h => hne ⟨hs, h⟩
          refine ⟨hs, ?_⟩
          cases hy : y.incl <;> cases hxi : x.incl <;> simp_all
        · left
          simp [rdLe, hs] at hle; exact hle
      refine List.pairwise_cons.mpr ⟨?_, ih hp'.2 (fun z hz => hx z (List.mem_cons_of_mem _ hz))⟩
      intro z hz
      rcases List.mem_cons.mp ((insertRD_perm x ys).mem_iff.mp hz) with rfl | hz
      · exact hlt
      · exact hp'.1 z hz
    · rename_i hle
      have hlt : TLt x y := by
        unfold TLt
        by_cases hs : y.start = x.start
        · right
          simp [rdLe, hs] at hle
          exact ⟨hs.symm, hle.2, hle.1⟩
        · left
          simp [rdLe, hs] at hle; omega
      refine List.pairwise_cons.mpr ⟨?_, hl⟩
      intro z hz
      rcases List.mem_cons.mp hz with rfl | hz
      · exact hlt
      · exact hlt.trans (hp'.1 z hz)

theorem foldl_insertRD_tsorted (l acc : List RD)
    (ha : List.Pairwise TLt acc)
    (hd : List.Pairwise (fun a b => ¬ (a.start = b.start ∧ a.incl = b.incl)) l)
    (hx : ∀ a ∈ acc, ∀ b ∈ l, ¬ (a.start = b.start ∧ a.incl = b.incl)) :
    List.Pairwise TLt (l.foldl (fun acc x => insertRD x acc) acc) := by
  induction l generalizing acc with
  | nil => exact ha
  | cons x xs ih =>
    simp only [List.foldl_cons]
    have hd' := List.pairwise_cons.mp hd
    refine ih (insertRD x acc) (insertRD_tsorted x acc ha (fun y hy => hx y hy x (by simp))) hd'.2 ?_
    intro a ha' b hb
    rcases List.mem_cons.mp ((insertRD_perm x acc).mem_iff.mp ha') with rfl | ha'
    · exact hd'.1 b hb
    · exact hx a ha' b (List.mem_cons_of_mem _ hb)

theorem sortRD_tsorted (l : List RD)
    (hd : List.Pairwise (fun a b => ¬ (a.start = b.start ∧ a.incl = b.incl)) l) :
    List.Pairwise TLt (sortRD l) :=
  foldl_insertRD_tsorted l [] List.Pairwise.nil hd (by simp)

/-- the loop invariant on a `TLt`-sorted list: selection rule and tie rule for the scanned part -/
theorem loop_some_tie (r : Int) : ∀ (ts : List RD) (l : RD),
    List.Pairwise TLt (l :: ts) → l.start < r →
    ∃ x, searchLoop r (some l) ts = some x ∧ x ∈ l :: ts ∧ Qual r x ∧
      (∀ u ∈ l :: ts, Qual r u → u.start ≤ x.start) ∧
      (r = x.start → x.incl = true) ∧
      (r > x.start → x.incl = true → ∀ u ∈ l :: ts, u.start = x.start → u.incl = true) := by
  intro ts
  induction ts with
  | nil =>
    intro l _ hl
    refine ⟨l, ?_, by simp, Or.inl hl, ?_, ?_, ?_⟩
    · simp [searchLoop, hl]
    · intro u hu _; simp at hu; subst hu; exact Int.le_refl _
    · intro h; omega
    · intro _ hi u hu _; simp at hu; subst hu; exact hi
  | cons t ts ih =>
    intro l hp hl
    have hp' := List.pairwise_cons.mp hp
    have hlt : TLt l t := hp'.1 t (by simp)
    have hpt := List.pairwise_cons.mp hp'.2
    unfold searchLoop
    by_cases h1 : (r == t.start && t.incl) = true
    · simp only [h1, if_true]
      have h1' : r = t.start ∧ t.incl = true := by simpa using h1
      refine ⟨t, rfl, by simp, Or.inr ⟨h1'.2, h1'.1⟩, ?_, fun _ => h1'.2, fun h => by omega⟩
      intro u hu hq
      simp at hu
      rcases hu with rfl | rfl | hu
      · omega
      · omega
      · have := (hpt.1 u hu).le
        rcases hq with hq | ⟨_, hq⟩ <;> omega
    · simp only [h1]
      have h1' : ¬ (r = t.start ∧ t.incl = true) := by simpa using h1
      by_cases h2 : (decide (r ≤ t.start) && decide (r > l.start)) = true
      · simp only [h2, if_true]
        have h2' : r ≤ t.start ∧ r > l.start := by simpa using h2
        refine ⟨l, by simp, by simp, Or.inl hl, ?_, fun h => by omega, ?_⟩
        · intro u hu hq
          simp at hu
          rcases hu with rfl | rfl | hu
          · omega
          · rcases hq with hq | ⟨hi, hq⟩
            · omega
            · exact absurd ⟨hq, hi⟩ h1'
          · have htu := hpt.1 u hu
            rcases hq with hq | ⟨hi, hq⟩
            · have := htu.le; omega
            · rcases htu with htu | ⟨hs, hti, _⟩
              · omega
              · exact absurd ⟨by omega, hti⟩ h1'
        · intro _ hi u hu hs
          simp at hu
          rcases hu with rfl | rfl | hu
          · exact hi
          · omega
          · have := (hpt.1 u hu).le; omega
      · simp only [h2]
        have h2' : ¬ (r ≤ t.start ∧ r > l.start) := by simpa using h2
        have htr : t.start < r := by omega
        obtain ⟨x, hx, hmem, hqx, hmax, htie1, htie2⟩ := ih t hp'.2 htr
        have htx : t.start ≤ x.start := hmax t (by simp) (Or.inl htr)
        refine ⟨x, by simpa using hx, List.mem_cons_of_mem _ hmem, hqx, ?_, htie1, ?_⟩
        · intro u hu hq
          rcases List.mem_cons.mp hu with rfl | hu
          · have := hlt.le; omega
          · exact hmax u hu hq
        · intro hr hi u hu hs
          rcases List.mem_cons.mp hu with rfl | hu
          · rcases hlt with hlt | ⟨_, hli, _⟩
            · omega
            · exact hli
          · exact htie2 hr hi u hu hs

/-- core (ties): on any `TLt`-sorted list the transcription of `_range_search` meets selection rule and tie rule -/
theorem rangeSearch_tsorted (rt : List RD) (r : Int)
    (hp : List.Pairwise TLt rt) : IsSelTie rt r (rangeSearch rt r) := by
  cases rt with
  | nil => exact ⟨Or.inl (by simp [rangeSearch]), by intro t h; simp [rangeSearch] at h⟩
  | cons t0 ts =>
    have hp' := List.pairwise_cons.mp hp
    unfold rangeSearch
    by_cases h0 : (decide (r < t0.start) || (r == t0.start && !t0.incl)) = true
    · simp only [h0, if_true]
      refine ⟨Or.inl ⟨rfl, ?_⟩, by intro t h; simp at h⟩
      have h0' : r < t0.start ∨ (r = t0.start ∧ t0.incl = false) := by simpa using h0
      intro u hu hq
      simp at hu
      rcases hu with rfl | hu
      · rcases hq with hq | ⟨hi, hq⟩
        · rcases h0' with h | ⟨h, _⟩ <;> omega
        · rcases h0' with h | ⟨_, h⟩
          · omega
          · simp [hi] at h
      · have htu := hp'.1 u hu
        rcases h0' with h | ⟨h, hi0⟩
        · have := htu.le
          rcases hq with hq | ⟨_, hq⟩ <;> omega
        · rcases htu with htu | ⟨_, hti, _⟩
          · rcases hq with hq | ⟨_, hq⟩ <;> omega
          · rw [hi0] at hti; exact absurd hti (by decide)
    · simp only [h0]
      have h0' : ¬ (r < t0.start ∨ (r = t0.start ∧ t0.incl = false)) := by simpa using h0
      unfold searchLoop
      by_cases h1 : (r == t0.start && t0.incl) = true
      · simp only [h1, if_true]
        have h1' : r = t0.start ∧ t0.incl = true := by simpa using h1
        refine ⟨Or.inr ⟨t0, rfl, by simp, Or.inr ⟨h1'.2, h1'.1⟩, ?_⟩, ?_⟩
        · intro u hu hq
          simp at hu
          rcases hu with rfl | hu
          · omega
          · have := (hp'.1 u hu).le
            rcases hq with hq | ⟨_, hq⟩ <;> omega
        · intro t ht
          have : t0 = t := by simpa using ht
          subst this
          exact ⟨fun _ => h1'.2, fun h => by omega⟩
      · simp only [h1]
        have h1' : ¬ (r = t0.start ∧ t0.incl = true) := by simpa using h1
        have hgt : t0.start < r := by
          rcases Int.lt_trichotomy r t0.start with h | h | h
          · exact absurd (Or.inl h) h0'
          · cases hi : t0.incl
            · exact absurd (Or.inr ⟨h, hi⟩) h0'
            · exact absurd ⟨h, hi⟩ h1'
          · exact h
        obtain ⟨x, hx, hmem, hqx, hmax, htie1, htie2⟩ := loop_some_tie r ts t0 hp hgt
        refine ⟨Or.inr ⟨x, hx, hmem, hqx, hmax⟩, ?_⟩
        intro t ht
        have : x = t := by rw [hx] at ht; simpa using ht
        subst this
        exact ⟨htie1, htie2⟩

theorem IsSelTie_perm (l l' : List RD) (h : l.Perm l') (r : Int) (o : Option RD) :
    IsSelTie l r o → IsSelTie l' r o := by
  rintro ⟨hs, ht⟩
  refine ⟨IsSel_perm l l' h r o hs, fun t hot => ⟨(ht t hot).1, fun hr hi u hu => (ht t hot).2 hr hi u (h.mem_iff.mpr hu)⟩⟩

/-- **C08 (ties)**: for every list of ranges in which no two share BOTH start and marker, in any listing order, and
    every r: the potential evaluates the range given by the selection rule together with the tie rule. -/
theorem C08_select_ties (l : List RD)
    (hd : List.Pairwise (fun a b => ¬ (a.start = b.start ∧ a.incl = b.incl)) l) (r : Int) :
    IsSelTie l r (rangeSearch (sortRD l) r) :=
  IsSelTie_perm _ _ (sortRD_perm l) r _ (rangeSearch_tsorted _ r (sortRD_tsorted l hd))

/-- non-vacuity of the hypotheses of `C08_select` -/
example : List.Pairwise (fun a b : RD => a.start ≠ b.start) [⟨false, 4, 1⟩, ⟨true, 0, 2⟩, ⟨false, 2, 3⟩] := by decide
example : selected [⟨false, 4, 1⟩, ⟨true, 0, 2⟩, ⟨false, 2, 3⟩] 4 = some 3 := by decide
example : selected [⟨false, 4, 1⟩, ⟨true, 0, 2⟩, ⟨false, 2, 3⟩] 0 = some 2 := by decide

/-! ## The code itself: `_range_defn_cmp` and `_range_search` regenerated from the source

`Atsim.Gen.Logic.range_defn_cmp` / `range_search` are produced by `translator/py2lean_logic.py` from the text of
`_multi_range_potential_form.py` on every run.  The generated functions work on records carrying the marker TEXT (`">"` / `">="`), the model on a
Boolean `incl`; `toRD` is the obvious abstraction and `WF` says the marker is one of the two the parser and `Multi_Range_Defn` users can give.
`C08_code_range_search` and `C08_code_cmp` state that the code's functions ARE the model's, so `C08_select`, `C08_select_ties`, … hold of the code as written now. -/
namespace CodeTie
open Atsim.Gen.Logic

def toRD (p : PRange) : RD := { incl := p.range_type == ">=", start := p.start, f := p.f }
def WF (p : PRange) : Prop := p.range_type = ">" ∨ p.range_type = ">="

theorem incl_false_of_gt {p : PRange} (h : p.range_type = ">") : (toRD p).incl = false := by
  simp [toRD, h]
theorem incl_true_of_ge {p : PRange} (h : p.range_type = ">=") : (toRD p).incl = true := by
  simp [toRD, h]

/-- the marker tests of the generated code, in terms of `incl` -/
theorem ge_test (p : PRange) : (p.range_type == ">=") = (toRD p).incl := rfl
theorem gt_test (p : PRange) (h : WF p) : (p.range_type == ">") = !(toRD p).incl := by
  rcases h with h | h <;> simp [toRD, h]

theorem loop_eq (r : Int) (a b : List PRange) : ∀ (ts : List PRange) (last : Option PRange), (∀ p ∈ ts, WF p) →
    (range_search_loop1 last r a b ts).map toRD = searchLoop r (last.map toRD) (ts.map toRD) := by
  intro ts
  induction ts with
  | nil =>
    intro last _
    cases last with
    | none => simp [range_search_loop1, searchLoop]
    | some l =>
      simp only [range_search_loop1, searchLoop, Option.map, List.map]
      by_cases h : r > l.start <;> simp [h, toRD]
  | cons t ts ih =>
    intro last hwf
    have hts : ∀ p ∈ ts, WF p := fun p hp => hwf p (by simp [hp])
    simp only [range_search_loop1, searchLoop, List.map]
    have ht : (toRD t).start = t.start := rfl
    by_cases h1 : r = t.start
    · subst h1
      by_cases h2 : (toRD t).incl = true
      · have : (t.range_type == ">=") = true := by rw [ge_test]; exact h2
        simp [this, h2, ht]
      · have h2' : (toRD t).incl = false := by simpa using h2
        have : (t.range_type == ">=") = false := by rw [ge_test]; exact h2'
        cases last with
        | none =>
          simp only [this, h2', ht, Option.map_some, Option.map_none, beq_self_eq_true, Bool.and_false, Bool.false_eq_true, if_false]
          simpa using ih (some t) hts
        | some l =>
          have hl : (toRD l).start = l.start := rfl
          by_cases h3 : t.start > l.start
          · simp [this, h2', ht, hl, h3]
          · simp only [this, h2', ht, hl, h3, Option.map_some, Option.map_none, beq_self_eq_true, Bool.and_false, Bool.false_eq_true, if_false, Int.le_refl, decide_true,
              decide_false, Bool.and_self, Bool.true_and]
            simpa using ih (some t) hts
    · have hbeq : (r == t.start) = false := by simpa using h1
      cases last with
      | none =>
        simp only [hbeq, ht, Option.map_some, Option.map_none, Bool.false_and, Bool.false_eq_true, if_false]
        simpa using ih (some t) hts
      | some l =>
        have hl : (toRD l).start = l.start := rfl
        by_cases h3 : r ≤ t.start
        · by_cases h4 : r > l.start
          · simp [hbeq, ht, hl, h3, h4]
          · simp only [hbeq, ht, hl, h3, h4, Option.map_some, Option.map_none, Bool.false_and, Bool.false_eq_true, if_false, decide_true, decide_false, Bool.and_false, Bool.true_and]
            simpa using ih (some t) hts
        · simp only [hbeq, ht, hl, h3, Option.map_some, Option.map_none, Bool.false_and, Bool.false_eq_true, if_false, decide_false, Bool.false_and]
          simpa using ih (some t) hts

end CodeTie

/-- **code tie**: for every list of well-formed range definitions (in whatever order the setter left them) and every r, the regenerated `_range_search`
    returns exactly what the model's `rangeSearch` returns -/
theorem C08_code_range_search (rt : List Atsim.Gen.Logic.PRange) (h : ∀ p ∈ rt, CodeTie.WF p) (r : Int) :
    (Atsim.Gen.Logic.range_search rt r).map CodeTie.toRD = rangeSearch (rt.map CodeTie.toRD) r := by
  unfold Atsim.Gen.Logic.range_search rangeSearch
  cases rt with
  | nil => simp
  | cons t0 ts =>
    have h0 : CodeTie.WF t0 := h t0 (by simp)
    have ht : (CodeTie.toRD t0).start = t0.start := rfl
    have hl := CodeTie.loop_eq r (t0 :: ts) (t0 :: ts) (t0 :: ts) none h
    simp only [List.map, Option.map] at hl ⊢
    by_cases h1 : r < t0.start
    · simp [h1, ht]
    · by_cases h2 : r = t0.start
      · by_cases h3 : (CodeTie.toRD t0).incl = true
        · have : (t0.range_type == ">") = false := by rw [CodeTie.gt_test t0 h0]; simp [h3]
          simp [h1, h2, ht, h3, this]
          simpa [h2] using hl
        · have h3' : (CodeTie.toRD t0).incl = false := by simpa using h3
          have : (t0.range_type == ">") = true := by rw [CodeTie.gt_test t0 h0]; simp [h3']
          simp [h2, ht, h3', this]
      · have hb : (r == t0.start) = false := by simpa using h2
        simp [h1, hb, ht]
        simpa using hl

/-- **code tie**: the comparator the setter sorts with orders two well-formed definitions exactly as the model's `rdLe` does (`cmp <= 0` iff `rdLe`);
    Python's `list.sort` with `cmp_to_key` is stable, which is what `sortRD` (stable insertion) models -/
theorem C08_code_cmp (a b : Atsim.Gen.Logic.PRange) (ha : CodeTie.WF a) (hb : CodeTie.WF b) :
    decide (Atsim.Gen.Logic.range_defn_cmp a b ≤ 0) = rdLe (CodeTie.toRD a) (CodeTie.toRD b) := by
  unfold Atsim.Gen.Logic.range_defn_cmp rdLe
  have hsa : (CodeTie.toRD a).start = a.start := rfl
  have hsb : (CodeTie.toRD b).start = b.start := rfl
  rcases ha with ha | ha <;> rcases hb with hb | hb <;>
    by_cases h : a.start = b.start <;>
    simp [CodeTie.toRD, ha, hb, h, hsa, hsb] <;> omega

namespace CodeTie
open Atsim.Gen.Logic

theorem insert_eq (x : PRange) (hx : WF x) : ∀ (acc : List PRange), (∀ p ∈ acc, WF p) →
    (insertBy (fun a b => decide (range_defn_cmp a b ≤ 0)) x acc).map toRD = insertRD (toRD x) (acc.map toRD) := by
  intro acc
  induction acc with
  | nil => intro _; simp [insertBy, insertRD]
  | cons y ys ih =>
    intro h
    have hy : WF y := h y (by simp)
    have hys : ∀ p ∈ ys, WF p := fun p hp => h p (by simp [hp])
    simp only [insertBy, insertRD, List.map, C08_code_cmp y x hy hx]
    cases rdLe (toRD y) (toRD x) <;> simp [ih hys]

theorem insert_wf (le : PRange → PRange → Bool) (x : PRange) (hx : WF x) : ∀ (acc : List PRange), (∀ p ∈ acc, WF p) → ∀ p ∈ insertBy le x acc, WF p := by
  intro acc
  induction acc with
  | nil => intro _ p hp; simp [insertBy] at hp; subst hp; exact hx
  | cons y ys ih =>
    intro h p hp
    simp only [insertBy] at hp
    split at hp
    · simp at hp
      rcases hp with rfl | hp
      · exact h _ (by simp)
      · exact ih (fun q hq => h q (by simp [hq])) p hp
    · simp at hp
      rcases hp with rfl | rfl | hp
      · exact hx
      · exact h _ (by simp)
      · exact h p (by simp [hp])

theorem foldl_eq : ∀ (l acc : List PRange), (∀ p ∈ l, WF p) → (∀ p ∈ acc, WF p) →
    (l.foldl (fun acc x => insertBy (fun a b => decide (range_defn_cmp a b ≤ 0)) x acc) acc).map toRD =
      (l.map toRD).foldl (fun acc x => insertRD x acc) (acc.map toRD) := by
  intro l
  induction l with
  | nil => intro acc _ _; rfl
  | cons x xs ih =>
    intro acc hl hacc
    have hx : WF x := hl x (by simp)
    have hxs : ∀ p ∈ xs, WF p := fun p hp => hl p (by simp [hp])
    simp only [List.foldl, List.map]
    rw [ih _ hxs (insert_wf _ x hx acc hacc), insert_eq x hx acc hacc]

theorem foldl_wf (le : PRange → PRange → Bool) : ∀ (l acc : List PRange), (∀ p ∈ l, WF p) → (∀ p ∈ acc, WF p) →
    ∀ p ∈ l.foldl (fun acc x => insertBy le x acc) acc, WF p := by
  intro l
  induction l with
  | nil => intro acc _ h; exact h
  | cons x xs ih =>
    intro acc hl hacc
    exact ih _ (fun p hp => hl p (by simp [hp])) (insert_wf le x (hl x (by simp)) acc hacc)

end CodeTie

/-- **code tie**: what the `range_defns` setter stores (a copy of the definitions, sorted by `_range_defn_key` - Python's sort is stable) is the model's
    `sortRD`, for every list of well-formed definitions in any order, repeated starts and markers included -/
theorem C08_code_setter (l : List Atsim.Gen.Logic.PRange) (h : ∀ p ∈ l, CodeTie.WF p) :
    (Atsim.Gen.Logic.range_defns_setter l).map CodeTie.toRD = sortRD (l.map CodeTie.toRD) := by
  unfold Atsim.Gen.Logic.range_defns_setter Atsim.Gen.Logic.stableSortBy sortRD
  exact CodeTie.foldl_eq l [] h (by simp)

/-- **the selection theorem for the code as written**: store the definitions through the code's setter, search with the code's `_range_search`:
    for pairwise distinct starts, in any listing order, the range selected is the one the property's rule gives -/
theorem C08_code_select (l : List Atsim.Gen.Logic.PRange) (hwf : ∀ p ∈ l, CodeTie.WF p)
    (hd : List.Pairwise (fun a b => a.start ≠ b.start) (l.map CodeTie.toRD)) (r : Int) :
    IsSel (l.map CodeTie.toRD) r ((Atsim.Gen.Logic.range_search (Atsim.Gen.Logic.range_defns_setter l) r).map CodeTie.toRD) := by
  have hswf : ∀ p ∈ Atsim.Gen.Logic.range_defns_setter l, CodeTie.WF p := by
    unfold Atsim.Gen.Logic.range_defns_setter Atsim.Gen.Logic.stableSortBy
    exact CodeTie.foldl_wf _ l [] hwf (by simp)
  rw [C08_code_range_search _ hswf r, C08_code_setter l hwf]
  exact C08_select (l.map CodeTie.toRD) hd r

/-- and with the tie rule, for every list in which no two ranges share both start and marker -/
theorem C08_code_select_ties (l : List Atsim.Gen.Logic.PRange) (hwf : ∀ p ∈ l, CodeTie.WF p)
    (hd : List.Pairwise (fun a b => ¬ (a.start = b.start ∧ a.incl = b.incl)) (l.map CodeTie.toRD)) (r : Int) :
    IsSelTie (l.map CodeTie.toRD) r ((Atsim.Gen.Logic.range_search (Atsim.Gen.Logic.range_defns_setter l) r).map CodeTie.toRD) := by
  have hswf : ∀ p ∈ Atsim.Gen.Logic.range_defns_setter l, CodeTie.WF p := by
    unfold Atsim.Gen.Logic.range_defns_setter Atsim.Gen.Logic.stableSortBy
    exact CodeTie.foldl_wf _ l [] hwf (by simp)
  rw [C08_code_range_search _ hswf r, C08_code_setter l hwf]
  exact C08_select_ties (l.map CodeTie.toRD) hd r

/-! ### value, `deriv` and `deriv2` are taken from the SAME selected range (`__call__`, `Multi_Range_Potential_Form_Deriv.deriv`, `..._Deriv2.deriv2` regenerated) -/

open Atsim.Gen.Logic in
/-- **code tie**: at every r the three methods consult `_range_search` and use ITS range: the selected range's own potential form, its own `deriv`, its own
    `deriv2`; below the first range the value is the default and both derivatives are 0 -/
theorem C08_code_same_range (evalForm rangeDeriv rangeDeriv2 : PRange → Int → Rat) (defs : List PRange) (dflt : Rat) (r : Int) :
    mr_call evalForm defs dflt r = (match range_search defs r with | some t => evalForm t r | none => dflt) ∧
    mr_deriv rangeDeriv defs r = (match range_search defs r with | some t => rangeDeriv t r | none => 0) ∧
    mr_deriv2 rangeDeriv2 defs r = (match range_search defs r with | some t => rangeDeriv2 t r | none => 0) := by
  refine ⟨?_, ?_, ?_⟩
  · simp only [mr_call]; cases range_search defs r <;> rfl
  · simp only [mr_deriv]; cases range_search defs r <;> simp
  · simp only [mr_deriv2]; cases range_search defs r <;> simp

/-! ## Code tie: from a parsed definition to the ranges of the multi-range callable (`Potential_Form_Builder`, `Pair_Potentials_From_Tuples_Builder`) -/
namespace BuilderTie
open Atsim.Gen.Logic

/-- the definition and the definitions of its further ranges, in the order written -/
def chainOpt : Option PInst → List PInst
  | none => []
  | some n => n :: chainOpt n.next
termination_by n => sizeOf n
decreasing_by cases n; simp; omega

def chainOf (i : PInst) : List PInst := i :: chainOpt i.next

/-- map with the first error winning -/
def mapE {ε α β : Type} (f : α → Except ε β) : List α → Except ε (List β)
  | [] => .ok []
  | x :: xs => match f x with
    | .error e => .error e
    | .ok y => match mapE f xs with
      | .error e => .error e
      | .ok ys => .ok (y :: ys)

/-- what one range of a definition becomes: the registered modifier applied to ALL its argument definitions, or the registered form applied to ALL its parameters,
with the range's own start and range type (`>=` from minus infinity when none is written) -/
def tupleSpec (lookupModifier : PfbSelf → String → Option ModFactory) (lookupForm : PfbSelf → String → Option FormFactory)
    (applyModifier : ModFactory → List PInst → PfbSelf → Except PfbErr PForm) (applyForm : FormFactory → List Rat → Except PfbErr PForm)
    (self : PfbSelf) (i : PInst) : Except PfbErr MRDefn :=
  let pf : Except PfbErr PForm :=
    if i.isModifier then
      match lookupModifier self i.name with
      | none => .error .unknownModifier
      | some f => applyModifier f i.potential_forms self
    else
      match lookupForm self i.name with
      | none => .error .unknownForm
      | some f => applyForm f i.parameters
  match pf with
  | .error e => .error e
  | .ok p => .ok { range_type := (i.start.map (·.range_type)).getD ">=", start := i.start.map (·.start), pform := p }

end BuilderTie

open Atsim.Gen.Logic BuilderTie in
/-- **code tie**: `_make_multi_range_tuple` as regenerated is `tupleSpec` -/
theorem C08_code_builder_tuple (lookupModifier : PfbSelf → String → Option ModFactory) (lookupForm : PfbSelf → String → Option FormFactory)
    (applyModifier : ModFactory → List PInst → PfbSelf → Except PfbErr PForm) (applyForm : FormFactory → List Rat → Except PfbErr PForm)
    (self : PfbSelf) (i : PInst) :
    pfb_make_tuple lookupModifier lookupForm applyModifier applyForm self i = tupleSpec lookupModifier lookupForm applyModifier applyForm self i := by
  unfold pfb_make_tuple tupleSpec andThen
  cases hm : i.isModifier
  · simp only [Bool.false_eq_true, if_false]
    cases lookupForm self i.name with
    | none => rfl
    | some f =>
      simp only []
      cases applyForm f i.parameters with
      | error e => rfl
      | ok p => cases i.start <;> rfl
  · simp only [if_true]
    cases lookupModifier self i.name with
    | none => rfl
    | some f =>
      simp only []
      cases applyModifier f i.potential_forms self with
      | error e => rfl
      | ok p => cases i.start <;> rfl

namespace BuilderTie
open Atsim.Gen.Logic

theorem loop_eq (lookupModifier : PfbSelf → String → Option ModFactory) (lookupForm : PfbSelf → String → Option FormFactory)
    (applyModifier : ModFactory → List PInst → PfbSelf → Except PfbErr PForm) (applyForm : FormFactory → List Rat → Except PfbErr PForm)
    (mkMulti : List MRDefn → Except PfbErr PotFn) (h1 : MRDefn) (inst : PInst) (self : PfbSelf) :
    ∀ (k : Nat) (n : Option PInst), sizeOf n ≤ k → ∀ (acc : List MRDefn),
    pfb_create_loop1 lookupModifier lookupForm applyModifier applyForm mkMulti h1 inst self acc n =
      (match mapE (tupleSpec lookupModifier lookupForm applyModifier applyForm self) (chainOpt n) with
       | .error e => .error e
       | .ok ts => mkMulti (acc ++ ts)) := by
  intro k
  induction k with
  | zero =>
    intro n hn
    cases n <;> simp at hn
  | succ k ih =>
    intro n hn acc
    cases n with
    | none =>
      rw [pfb_create_loop1, chainOpt]
      simp only [mapE, andThen, List.append_nil]
      cases mkMulti acc <;> rfl
    | some x =>
      rw [pfb_create_loop1, chainOpt]
      simp only [mapE, C08_code_builder_tuple]
      cases tupleSpec lookupModifier lookupForm applyModifier applyForm self x with
      | error e => rfl
      | ok y =>
        simp only [andThen]
        rw [ih x.next (by cases x; simp at hn ⊢; omega)]
        cases mapE (tupleSpec lookupModifier lookupForm applyModifier applyForm self) (chainOpt x.next) with
        | error e => rfl
        | ok ys => simp

end BuilderTie

open Atsim.Gen.Logic BuilderTie in
/-- **code tie**: `create_potential_function` as regenerated (the first range, then the `while n:` walk along `.next`) hands `create_Multi_Range_Potential_Form`
one `Multi_Range_Defn` per range of the definition - every range, in the order written, none twice - and fails with the first range's error that occurs -/
theorem C08_code_builder_chain (lookupModifier : PfbSelf → String → Option ModFactory) (lookupForm : PfbSelf → String → Option FormFactory)
    (applyModifier : ModFactory → List PInst → PfbSelf → Except PfbErr PForm) (applyForm : FormFactory → List Rat → Except PfbErr PForm)
    (mkMulti : List MRDefn → Except PfbErr PotFn) (self : PfbSelf) (i : PInst) :
    pfb_create lookupModifier lookupForm applyModifier applyForm mkMulti self i =
      (match mapE (tupleSpec lookupModifier lookupForm applyModifier applyForm self) (chainOf i) with
       | .error e => .error e
       | .ok ts => mkMulti ts) := by
  unfold pfb_create chainOf
  simp only [mapE, C08_code_builder_tuple]
  cases tupleSpec lookupModifier lookupForm applyModifier applyForm self i with
  | error e => rfl
  | ok y =>
    simp only [andThen]
    rw [loop_eq _ _ _ _ _ _ _ _ _ i.next (Nat.le_refl _)]
    cases mapE (tupleSpec lookupModifier lookupForm applyModifier applyForm self) (chainOpt i.next) with
    | error e => rfl
    | ok ys => simp

namespace BuilderTie
open Atsim.Gen.Logic

theorem mapE_ok_map {ε α β γ : Type} (f : α → Except ε β) (g : β → γ) (g' : α → γ)
    (hf : ∀ x y, f x = .ok y → g y = g' x) :
    ∀ (xs : List α) (ys : List β), mapE f xs = .ok ys → ys.map g = xs.map g' := by
  intro xs
  induction xs with
  | nil => intro ys h; simp only [mapE] at h; cases h; rfl
  | cons x xs ih =>
    intro ys h
    simp only [mapE] at h
    cases hx : f x with
    | error e => rw [hx] at h; cases h
    | ok y =>
      rw [hx] at h
      cases hxs : mapE f xs with
      | error e => rw [hxs] at h; cases h
      | ok ys' =>
        rw [hxs] at h
        cases h
        simp [hf x y hx, ih ys' hxs]

theorem tupleSpec_ok (lookupModifier : PfbSelf → String → Option ModFactory) (lookupForm : PfbSelf → String → Option FormFactory)
    (applyModifier : ModFactory → List PInst → PfbSelf → Except PfbErr PForm) (applyForm : FormFactory → List Rat → Except PfbErr PForm)
    (self : PfbSelf) (i : PInst) (d : MRDefn) (h : tupleSpec lookupModifier lookupForm applyModifier applyForm self i = .ok d) :
    d.start = i.start.map (·.start) ∧ d.range_type = (i.start.map (·.range_type)).getD ">=" := by
  unfold tupleSpec at h
  simp only [] at h
  split at h
  · cases h
  · cases h; exact ⟨rfl, rfl⟩

theorem loop2_eq (lookupModifier : PfbSelf → String → Option ModFactory) (lookupForm : PfbSelf → String → Option FormFactory)
    (applyModifier : ModFactory → List PInst → PfbSelf → Except PfbErr PForm) (applyForm : FormFactory → List Rat → Except PfbErr PForm)
    (mkMulti : List MRDefn → Except PfbErr PotFn) (pfb : PfbSelf) (a b : Nat) (all : List PairRow) :
    ∀ (rows : List PairRow) (acc : List PotObj),
    pair_init_potentials_loop1 lookupModifier lookupForm applyModifier applyForm mkMulti pfb acc a b all rows =
      (match mapE (fun row => match pfb_create lookupModifier lookupForm applyModifier applyForm mkMulti pfb row.potential_form_instance with
        | .ok f => .ok ({ a := row.species.species_a, b := row.species.species_b, fn := f } : PotObj)
        | .error .unknownModifier => .error PairErr.unknownModifier
        | .error .unknownForm => .error PairErr.unknownForm
        | .error .config => .error PairErr.problemDefining) rows with
       | .error e => .error e
       | .ok ys => .ok (acc ++ ys)) := by
  intro rows
  induction rows with
  | nil => intro acc; simp [pair_init_potentials_loop1, mapE]
  | cons r rest ih =>
    intro acc
    simp only [pair_init_potentials_loop1, mapE, pair_create_potential, andThen]
    cases pfb_create lookupModifier lookupForm applyModifier applyForm mkMulti pfb r.potential_form_instance with
    | error e => cases e <;> rfl
    | ok f =>
      simp only [ih]
      split <;> simp_all

end BuilderTie

open Atsim.Gen.Logic BuilderTie in
/-- what reaches the multi-range callable, spelled out: as many ranges as the definition has, the j-th with the j-th range's start (minus infinity when it has none) and
range type (`>=` when it has none) -/
theorem C08_code_builder_ranges (lookupModifier : PfbSelf → String → Option ModFactory) (lookupForm : PfbSelf → String → Option FormFactory)
    (applyModifier : ModFactory → List PInst → PfbSelf → Except PfbErr PForm) (applyForm : FormFactory → List Rat → Except PfbErr PForm)
    (self : PfbSelf) (i : PInst) (ts : List MRDefn)
    (h : mapE (tupleSpec lookupModifier lookupForm applyModifier applyForm self) (chainOf i) = .ok ts) :
    ts.length = (chainOf i).length ∧
    ts.map (·.start) = (chainOf i).map (fun x => x.start.map (·.start)) ∧
    ts.map (·.range_type) = (chainOf i).map (fun x => (x.start.map (·.range_type)).getD ">=") := by
  have h1 := mapE_ok_map _ (·.start) (fun x : PInst => x.start.map (·.start))
    (fun x y hx => (tupleSpec_ok _ _ _ _ _ x y hx).1) _ _ h
  have h2 := mapE_ok_map _ (·.range_type) (fun x : PInst => (x.start.map (·.range_type)).getD ">=")
    (fun x y hx => (tupleSpec_ok _ _ _ _ _ x y hx).2) _ _ h
  refine ⟨?_, h1, h2⟩
  have := congrArg List.length h1
  simpa using this

open Atsim.Gen.Logic BuilderTie in
/-- **code tie**: `Pair_Potentials_From_Tuples_Builder._init_potentials` as regenerated builds one Potential per [Pair] row, in the rows' order, with the row's own two
species and the callable of the row's own definition; the first row that fails ends the build with a configuration error classified as the handlers classify it
(unknown modifier, unknown form, anything else raised while defining the pair) -/
theorem C08_code_pair_builder (lookupModifier : PfbSelf → String → Option ModFactory) (lookupForm : PfbSelf → String → Option FormFactory)
    (applyModifier : ModFactory → List PInst → PfbSelf → Except PfbErr PForm) (applyForm : FormFactory → List Rat → Except PfbErr PForm)
    (mkMulti : List MRDefn → Except PfbErr PotFn) (rows : List PairRow) (forms mods : Nat) :
    pair_init_potentials lookupModifier lookupForm applyModifier applyForm mkMulti rows forms mods =
      mapE (fun row => match pfb_create lookupModifier lookupForm applyModifier applyForm mkMulti ⟨forms, mods⟩ row.potential_form_instance with
        | .ok f => .ok ({ a := row.species.species_a, b := row.species.species_b, fn := f } : PotObj)
        | .error .unknownModifier => .error PairErr.unknownModifier
        | .error .unknownForm => .error PairErr.unknownForm
        | .error .config => .error PairErr.problemDefining) rows := by
  unfold pair_init_potentials
  simp only [loop2_eq, List.nil_append]
  split <;> simp_all

end Atsim.C08
