import AtsimModel.Gen.Logic
import AtsimModel.Lemmas.ExprReal
import AtsimModel.Gen.Forms
import AtsimModel.Gen.Splines
import AtsimModel.Lemmas.PolyReal
import Mathlib.Tactic.NormNum
import Mathlib.Tactic.Positivity
/-!
# C10 — splined potentials keep their end potentials and join them with C² continuity

`Atsim.Gen.expA/expB` and `Atsim.Gen.buck4M/buck4V` are the linear systems of `Exp_Spline` / `Buck4_Spline`
(atsim/potentials/spline/__init__.py), regenerated from the source on every run.  `numpy.linalg.solve` is an external call:
it enters as the HYPOTHESIS that the coefficient vector solves the generated system (`Solves`); the residual of that
hypothesis on the real code is measured by `harness/props/C10.py`.
-/
set_option linter.unusedTactic false
namespace Atsim.C10
open Atsim Atsim.E Atsim.Gen Real

noncomputable abbrev ev (ps : List ℝ) (e : E) (x : ℝ) : ℝ := evalR (envOf ps) noSyms x e

/-- Σⱼ rowⱼ · cⱼ with the row's entries evaluated under the symbol environment `p` -/
noncomputable def rowDot (p : List ℝ) (row : List E) (c : List ℝ) : ℝ :=
  (List.zipWith (fun e x => evalR (envOf p) noSyms 0 e * x) row c).sum

/-- `M · c = V`, row by row -/
def Solves (p : List ℝ) (M : List (List E)) (V : List E) (c : List ℝ) : Prop :=
  List.Forall₂ (fun row b => rowDot p row c = evalR (envOf p) noSyms 0 b) M V

/-! ### region selection (`Custom_SplinePotential.__call__/_deriv/_deriv2`, `Buck4_Spline._which_spline`) -/

/-- `if rij <= detach: start; elif rij >= attach: end; else: spline` -/
noncomputable def splined (start mid fin : ℝ → ℝ) (detach attach r : ℝ) : ℝ :=
  if r ≤ detach then start r else if r ≥ attach then fin r else mid r

theorem C10_regions (start mid fin : ℝ → ℝ) (detach attach : ℝ) (h : detach < attach) :
    (∀ r, r ≤ detach → splined start mid fin detach attach r = start r) ∧
    (∀ r, attach ≤ r → splined start mid fin detach attach r = fin r) ∧
    (∀ r, detach < r → r < attach → splined start mid fin detach attach r = mid r) := by
  refine ⟨fun r hr => ?_, fun r hr => ?_, fun r h1 h2 => ?_⟩
  · simp [splined, hr]
  · have : ¬ r ≤ detach := not_le.mpr (lt_of_lt_of_le h hr)
    simp [splined, this, hr]
  · simp [splined, not_le.mpr h1, not_le.mpr h2]

/-- `spline5 if r < r_min else spline3` -/
noncomputable def buck4Mid (s5 s3 : ℝ → ℝ) (rmin r : ℝ) : ℝ := if r < rmin then s5 r else s3 r

/-! ### exponential spline -/

/-- the upward shift applied before taking logarithms: `if sy <= 0 or ey <= 0: inter = 1 - min(sy, ey)`; the spline's constant is `C = -inter` -/
noncomputable def shiftOf (sy ey : ℝ) : ℝ := if sy ≤ 0 ∨ ey ≤ 0 then 1 - min sy ey else 0

theorem C10_shift_pos (sy ey : ℝ) : 0 < sy + shiftOf sy ey ∧ 0 < ey + shiftOf sy ey := by
  unfold shiftOf
  split_ifs with hc
  · have h1 := min_le_left sy ey
    have h2 := min_le_right sy ey
    constructor <;> linarith
  · rw [not_or, not_le, not_le] at hc
    simpa using hc

/-- shape: between detach and attach the spline is `exp(quintic) + C` -/
theorem C10_exp_shape (c0 c1 c2 c3 c4 c5 C r : ℝ) :
    ev [c0, c1, c2, c3, c4, c5, C] exp_spline_call r
      = Real.exp (c0 + c1 * r + c2 * r ^ 2 + c3 * r ^ 3 + c4 * r ^ 4 + c5 * r ^ 5) + C := by
  simp only [ev, evalR, envOf, exp_spline_call, List.getD_cons_succ, List.getD_cons_zero]
  form_close

/-- shape of the coded first derivative (any algebraically equal spelling of the Python expression is accepted: `form_close`) -/
theorem exp_deriv_shape (c0 c1 c2 c3 c4 c5 C r : ℝ) :
    ev [c0, c1, c2, c3, c4, c5, C] exp_spline_deriv r
      = (c1 + r * (2 * c2 + r * (3 * c3 + 4 * c4 * r + 5 * c5 * r ^ 2)))
        * Real.exp (c0 + r * (c1 + r * (c2 + r * (c3 + r * (c4 + c5 * r))))) := by
  simp only [ev, evalR, envOf, exp_spline_deriv, List.getD_cons_succ, List.getD_cons_zero, Nat.cast_ofNat, Nat.cast_one, div_one]
  form_close

/-- shape of the coded second derivative -/
theorem exp_deriv2_shape (c0 c1 c2 c3 c4 c5 C r : ℝ) :
    ev [c0, c1, c2, c3, c4, c5, C] exp_spline_deriv2 r
      = (2 * c2 + 6 * c3 * r + 12 * c4 * r ^ 2 + 20 * c5 * r ^ 3
          + (c1 + 2 * c2 * r + 3 * c3 * r ^ 2 + 4 * c4 * r ^ 3 + 5 * c5 * r ^ 4) ^ 2)
        * Real.exp (c0 + c1 * r + c2 * r ^ 2 + c3 * r ^ 3 + c4 * r ^ 4 + c5 * r ^ 5) := by
  simp only [ev, evalR, envOf, exp_spline_deriv2, List.getD_cons_succ, List.getD_cons_zero, Nat.cast_ofNat, Nat.cast_one, div_one]
  form_close

/-- join at one end from the three rows of the system at that end (value, slope, curvature) -/
theorem exp_join (B0 B1 B2 B3 B4 B5 C x y d1 d2 : ℝ) (hy : 0 < y)
    (row1 : 1 * B0 + x * B1 + x ^ 2 * B2 + x ^ 3 * B3 + x ^ 4 * B4 + x ^ 5 * B5 = Real.log y)
    (row3 : 0 * B0 + 1 * B1 + 2 * x * B2 + 3 * x ^ 2 * B3 + 4 * x ^ 3 * B4 + 5 * x ^ 4 * B5 = d1 / y)
    (row5 : 0 * B0 + 0 * B1 + 2 * B2 + 6 * x * B3 + 12 * x ^ 2 * B4 + 20 * x ^ 3 * B5 = d2 / y - d1 ^ 2 / y ^ 2) :
    Real.exp (B0 + B1 * x + B2 * x ^ 2 + B3 * x ^ 3 + B4 * x ^ 4 + B5 * x ^ 5) + C = y + C ∧
    (B1 + x * (2 * B2 + x * (3 * B3 + 4 * B4 * x + 5 * B5 * x ^ 2)))
      * Real.exp (B0 + x * (B1 + x * (B2 + x * (B3 + x * (B4 + B5 * x))))) = d1 ∧
    (2 * B2 + 6 * B3 * x + 12 * B4 * x ^ 2 + 20 * B5 * x ^ 3
        + (B1 + 2 * B2 * x + 3 * B3 * x ^ 2 + 4 * B4 * x ^ 3 + 5 * B5 * x ^ 4) ^ 2)
      * Real.exp (B0 + B1 * x + B2 * x ^ 2 + B3 * x ^ 3 + B4 * x ^ 4 + B5 * x ^ 5) = d2 := by
  have hne : y ≠ 0 := ne_of_gt hy
  have e0 : B0 + B1 * x + B2 * x ^ 2 + B3 * x ^ 3 + B4 * x ^ 4 + B5 * x ^ 5 = Real.log y := by linarith
  have e0' : B0 + x * (B1 + x * (B2 + x * (B3 + x * (B4 + B5 * x)))) = Real.log y := by
    rw [← e0]; ring
  have e1 : B1 + x * (2 * B2 + x * (3 * B3 + 4 * B4 * x + 5 * B5 * x ^ 2)) = d1 / y := by
    rw [← row3]; ring
  have e1' : B1 + 2 * B2 * x + 3 * B3 * x ^ 2 + 4 * B4 * x ^ 3 + 5 * B5 * x ^ 4 = d1 / y := by
    rw [← row3]; ring
  have e2 : 2 * B2 + 6 * B3 * x + 12 * B4 * x ^ 2 + 20 * B5 * x ^ 3 = d2 / y - d1 ^ 2 / y ^ 2 := by
    rw [← row5]; ring
  refine ⟨?_, ?_, ?_⟩
  · rw [e0, Real.exp_log hy]
  · rw [e0', e1, Real.exp_log hy]; field_simp
  · rw [e0, e1', e2, Real.exp_log hy]; field_simp; ring

/-- **C² join**: if the coefficients solve the generated 6×6 system for end values `sy, ey` (already shifted, hence positive) and end
    derivatives, then the spline `exp(quintic) + C` – value, first and second derivative as coded in `exp_spline` – agrees with
    `(sy + C, d1s, d2s)` at `sx` and with `(ey + C, d1e, d2e)` at `ex`.  With `C = -shift` and `sy = v_start(sx) + shift` this is
    value/slope/curvature of the start potential at detach and of the end potential at attach. -/
theorem C10_exp_C2 (sx ex sy ey d1s d1e d2s d2e C c0 c1 c2 c3 c4 c5 : ℝ) (hsy : 0 < sy) (hey : 0 < ey)
    (h : Solves [sx, ex, sy, ey, d1s, d1e, d2s, d2e] expA expB [c0, c1, c2, c3, c4, c5]) :
    (ev [c0, c1, c2, c3, c4, c5, C] exp_spline_call sx = sy + C ∧
     ev [c0, c1, c2, c3, c4, c5, C] exp_spline_deriv sx = d1s ∧
     ev [c0, c1, c2, c3, c4, c5, C] exp_spline_deriv2 sx = d2s) ∧
    (ev [c0, c1, c2, c3, c4, c5, C] exp_spline_call ex = ey + C ∧
     ev [c0, c1, c2, c3, c4, c5, C] exp_spline_deriv ex = d1e ∧
     ev [c0, c1, c2, c3, c4, c5, C] exp_spline_deriv2 ex = d2e) := by
  simp only [Solves, expA, expB, List.forall₂_cons, rowDot, List.zipWith_cons_cons, List.zipWith_nil_right,
    List.sum_cons, List.sum_nil, evalR, envOf, List.getD_cons_succ, List.getD_cons_zero,
    Nat.cast_ofNat, Nat.cast_one, Nat.cast_zero, div_one] at h
  obtain ⟨r1, r2, r3, r4, r5, r6, -⟩ := h
  simp only [C10_exp_shape, exp_deriv_shape, exp_deriv2_shape]
  exact ⟨exp_join c0 c1 c2 c3 c4 c5 C sx sy d1s d2s hsy (by linarith) (by linarith) (by linarith),
    exp_join c0 c1 c2 c3 c4 c5 C ex ey d1e d2e hey (by linarith) (by linarith) (by linarith)⟩

/-! ### four-range Buckingham spline: quintic then cubic meeting at r_min with zero slope -/

open Atsim.Poly in
/-- if the ten coefficients solve the generated 10×10 system then: the quintic matches value, slope and curvature of the start
    potential at detach; has zero slope at r_min; quintic and cubic agree in value, slope and curvature at r_min; the cubic matches
    value, slope and curvature of the end potential at attach.  (`polyVal/polyD1/polyD2` are `polynomial.__call__/deriv/deriv2`,
    proved to be the true derivatives in C07.) -/
theorem C10_buck4_C2 (rdp rmin rap v0 d0 dd0 v1 d1 dd1 a0 a1 a2 a3 a4 a5 b0 b1 b2 b3 : ℝ)
    (h : Solves [rdp, rmin, rap, v0, d0, dd0, v1, d1, dd1] buck4M buck4V [a0, a1, a2, a3, a4, a5, b0, b1, b2, b3]) :
    polyVal 0 [a0, a1, a2, a3, a4, a5] rdp = v0 ∧ polyD1 0 [a0, a1, a2, a3, a4, a5] rdp = d0 ∧ polyD2 0 [a0, a1, a2, a3, a4, a5] rdp = dd0 ∧
    polyD1 0 [a0, a1, a2, a3, a4, a5] rmin = 0 ∧
    polyVal 0 [a0, a1, a2, a3, a4, a5] rmin = polyVal 0 [b0, b1, b2, b3] rmin ∧
    polyD1 0 [a0, a1, a2, a3, a4, a5] rmin = polyD1 0 [b0, b1, b2, b3] rmin ∧
    polyD2 0 [a0, a1, a2, a3, a4, a5] rmin = polyD2 0 [b0, b1, b2, b3] rmin ∧
    polyVal 0 [b0, b1, b2, b3] rap = v1 ∧ polyD1 0 [b0, b1, b2, b3] rap = d1 ∧ polyD2 0 [b0, b1, b2, b3] rap = dd1 := by
  simp only [Solves, buck4M, buck4V, List.forall₂_cons, rowDot, List.zipWith_cons_cons, List.zipWith_nil_right,
    List.sum_cons, List.sum_nil, evalR, envOf, List.getD_cons_succ, List.getD_cons_zero,
    Nat.cast_ofNat, Nat.cast_one, Nat.cast_zero, div_one] at h
  obtain ⟨r1, r2, r3, r4, r5, r6, r7, r8, r9, r10, -⟩ := h
  simp only [polyVal, polyD1, polyD2]
  norm_num
  refine ⟨?_, ?_, ?_, ?_, ?_, ?_, ?_, ?_, ?_, ?_⟩ <;> linarith

/-! ### the three ways of building buck4 denote the same start and end potentials -/

/-- `as.buck4 A rho C rd rm ra` uses `bornmayer(A, rho)`; the documented shorthand uses `as.buck A rho 0`: the same function -/
theorem C10_buck4_start (A rho r : ℝ) : ev [A, rho, 0] buck_call r = ev [A, rho] bornmayer_call r := by
  simp [ev, evalR, envOf, buck_call, bornmayer_call]
  form_close

/-- the end potential `buck(0, 1, C)` is the dispersion term `-C / r^6` -/
theorem C10_buck4_end (C r : ℝ) : ev [0, 1, C] buck_call r = -(C / r ^ 6) := by
  simp [ev, evalR, envOf, buck_call]
  form_close

/-! non-vacuity: the hypotheses of C10_exp_C2 are satisfiable (a constant spline: value 1 at both ends, zero slopes) -/
example : Solves [0, 1, 1, 1, 0, 0, 0, 0] expA expB [0, 0, 0, 0, 0, 0] := by
  simp [Solves, rowDot, expA, expB, evalR, envOf]

/-! ### the systems determine the coefficients: at most one solution

`numpy.linalg.solve` is an external call (its result enters `C10_exp_C2` / `C10_buck4_C2` as the hypothesis `Solves`).  These theorems say that the
hypothesis pins the spline down: for distinct detach / attach points the generated 6×6 system has AT MOST ONE solution, so whatever `solve` returns, if it
solves the system at all it is THE exponential-quintic of the end-point data - the splined function is determined by the model, not by the solver. -/

/-- a quintic whose value, slope and curvature vanish at two distinct points is the zero polynomial (explicit adjugate certificates:
    each `2 (s - e)^5 dᵢ` is a polynomial combination of the six conditions) -/
theorem hermite5_zero (s e d0 d1 d2 d3 d4 d5 : ℝ) (hne : s ≠ e)
    (h1 : d0 + s * d1 + s ^ 2 * d2 + s ^ 3 * d3 + s ^ 4 * d4 + s ^ 5 * d5 = 0)
    (h2 : d0 + e * d1 + e ^ 2 * d2 + e ^ 3 * d3 + e ^ 4 * d4 + e ^ 5 * d5 = 0)
    (h3 : d1 + 2 * s * d2 + 3 * s ^ 2 * d3 + 4 * s ^ 3 * d4 + 5 * s ^ 4 * d5 = 0)
    (h4 : d1 + 2 * e * d2 + 3 * e ^ 2 * d3 + 4 * e ^ 3 * d4 + 5 * e ^ 4 * d5 = 0)
    (h5 : 2 * d2 + 6 * s * d3 + 12 * s ^ 2 * d4 + 20 * s ^ 3 * d5 = 0)
    (h6 : 2 * d2 + 6 * e * d3 + 12 * e ^ 2 * d4 + 20 * e ^ 3 * d5 = 0) :
    d0 = 0 ∧ d1 = 0 ∧ d2 = 0 ∧ d3 = 0 ∧ d4 = 0 ∧ d5 = 0 := by
  have hk : (2 : ℝ) * (s - e) ^ 5 ≠ 0 := mul_ne_zero two_ne_zero (pow_ne_zero _ (sub_ne_zero.mpr hne))
  have k0 : 2 * (s - e) ^ 5 * d0 = 0 := by
    linear_combination (-2*e^3*(e^2 - 5*e*s + 10*s^2)) * h1 + (2*s^3*(10*e^2 - 5*e*s + s^2)) * h2 + (2*e^3*s*(-e + s)*(-e + 4*s)) * h3 + (-2*e*s^3*(-4*e + s)*(-e + s)) * h4 + (-e^3*s^2*(-e + s)^2) * h5 + (e^2*s^3*(-e + s)^2) * h6
  have k1 : 2 * (s - e) ^ 5 * d1 = 0 := by
    linear_combination (60*e^2*s^2) * h1 + (-60*e^2*s^2) * h2 + (-2*e^2*(-e + s)*(-e + 6*s)*(e + 2*s)) * h3 + (2*s^2*(-6*e + s)*(-e + s)*(2*e + s)) * h4 + (e^2*s*(-e + s)^2*(2*e + 3*s)) * h5 + (-e*s^2*(-e + s)^2*(3*e + 2*s)) * h6
  have k2 : 2 * (s - e) ^ 5 * d2 = 0 := by
    linear_combination (-60*e*s*(e + s)) * h1 + (60*e*s*(e + s)) * h2 + (12*e*s*(-e + s)*(3*e + 2*s)) * h3 + (12*e*s*(-e + s)*(2*e + 3*s)) * h4 + (-e*(-e + s)^2*(e^2 + 6*e*s + 3*s^2)) * h5 + (s*(-e + s)^2*(3*e^2 + 6*e*s + s^2)) * h6
  have k3 : 2 * (s - e) ^ 5 * d3 = 0 := by
    linear_combination (20*(e^2 + 4*e*s + s^2)) * h1 + (-20*(e^2 + 4*e*s + s^2)) * h2 + (-4*(-e + s)*(3*e^2 + 10*e*s + 2*s^2)) * h3 + (-4*(-e + s)*(2*e^2 + 10*e*s + 3*s^2)) * h4 + ((-e + s)^2*(3*e^2 + 6*e*s + s^2)) * h5 + (-(-e + s)^2*(e^2 + 6*e*s + 3*s^2)) * h6
  have k4 : 2 * (s - e) ^ 5 * d4 = 0 := by
    linear_combination (-30*(e + s)) * h1 + (30*(e + s)) * h2 + (2*(-e + s)*(8*e + 7*s)) * h3 + (2*(-e + s)*(7*e + 8*s)) * h4 + (-(-e + s)^2*(3*e + 2*s)) * h5 + ((-e + s)^2*(2*e + 3*s)) * h6
  have k5 : 2 * (s - e) ^ 5 * d5 = 0 := by
    linear_combination (12) * h1 + (-12) * h2 + (-6*(-e + s)) * h3 + (-6*(-e + s)) * h4 + ((-e + s)^2) * h5 + (-(-e + s)^2) * h6
  exact ⟨(mul_eq_zero.mp k0).resolve_left hk, (mul_eq_zero.mp k1).resolve_left hk, (mul_eq_zero.mp k2).resolve_left hk,
    (mul_eq_zero.mp k3).resolve_left hk, (mul_eq_zero.mp k4).resolve_left hk, (mul_eq_zero.mp k5).resolve_left hk⟩

/-- a cubic whose value, slope and curvature vanish at `r` and whose slope also vanishes at `m ≠ r` is the zero polynomial -/
theorem cubic3_zero (r m b0 b1 b2 b3 : ℝ) (hne : m ≠ r)
    (h1 : b0 + r * b1 + r ^ 2 * b2 + r ^ 3 * b3 = 0)
    (h2 : b1 + 2 * r * b2 + 3 * r ^ 2 * b3 = 0)
    (h3 : 2 * b2 + 6 * r * b3 = 0)
    (h4 : b1 + 2 * m * b2 + 3 * m ^ 2 * b3 = 0) :
    b0 = 0 ∧ b1 = 0 ∧ b2 = 0 ∧ b3 = 0 := by
  have hk : (3 : ℝ) * (m - r) ^ 2 ≠ 0 := mul_ne_zero three_ne_zero (pow_ne_zero _ (sub_ne_zero.mpr hne))
  have k3 : 3 * (m - r) ^ 2 * b3 = 0 := by linear_combination h4 - h2 - (m - r) * h3
  have e3 : b3 = 0 := (mul_eq_zero.mp k3).resolve_left hk
  subst e3
  have e2 : b2 = 0 := by linear_combination (1 / 2 : ℝ) * h3
  subst e2
  have e1 : b1 = 0 := by linear_combination h2
  subst e1
  have e0 : b0 = 0 := by linear_combination h1
  exact ⟨e0, rfl, rfl, rfl⟩

/-- **uniqueness (exponential spline)**: two coefficient vectors that both solve the generated system for the same end-point data are equal -/
theorem C10_exp_unique (sx ex sy ey d1s d1e d2s d2e : ℝ) (hne : sx ≠ ex)
    (c0 c1 c2 c3 c4 c5 c0' c1' c2' c3' c4' c5' : ℝ)
    (h : Solves [sx, ex, sy, ey, d1s, d1e, d2s, d2e] expA expB [c0, c1, c2, c3, c4, c5])
    (h' : Solves [sx, ex, sy, ey, d1s, d1e, d2s, d2e] expA expB [c0', c1', c2', c3', c4', c5']) :
    [c0, c1, c2, c3, c4, c5] = [c0', c1', c2', c3', c4', c5'] := by
  simp only [Solves, expA, expB, List.forall₂_cons, rowDot, List.zipWith_cons_cons, List.zipWith_nil_right,
    List.sum_cons, List.sum_nil, evalR, envOf, List.getD_cons_succ, List.getD_cons_zero,
    Nat.cast_ofNat, Nat.cast_one, Nat.cast_zero, div_one] at h h'
  obtain ⟨r1, r2, r3, r4, r5, r6, -⟩ := h
  obtain ⟨r1', r2', r3', r4', r5', r6', -⟩ := h'
  obtain ⟨e0, e1, e2, e3, e4, e5⟩ := hermite5_zero sx ex (c0 - c0') (c1 - c1') (c2 - c2') (c3 - c3') (c4 - c4') (c5 - c5') hne
    (by linear_combination r1 - r1') (by linear_combination r2 - r2') (by linear_combination r3 - r3')
    (by linear_combination r4 - r4') (by linear_combination r5 - r5') (by linear_combination r6 - r6')
  rw [sub_eq_zero.mp e0, sub_eq_zero.mp e1, sub_eq_zero.mp e2, sub_eq_zero.mp e3, sub_eq_zero.mp e4, sub_eq_zero.mp e5]

/-- **uniqueness (four-range Buckingham spline)**: for `r_dp < r_min < r_ap` the generated 10×10 system has at most one solution -/
theorem C10_buck4_unique (rdp rmin rap v0 d0 dd0 v1 d1 dd1 : ℝ) (h1 : rdp < rmin) (h2 : rmin < rap)
    (a0 a1 a2 a3 a4 a5 b0 b1 b2 b3 a0' a1' a2' a3' a4' a5' b0' b1' b2' b3' : ℝ)
    (h : Solves [rdp, rmin, rap, v0, d0, dd0, v1, d1, dd1] buck4M buck4V [a0, a1, a2, a3, a4, a5, b0, b1, b2, b3])
    (h' : Solves [rdp, rmin, rap, v0, d0, dd0, v1, d1, dd1] buck4M buck4V [a0', a1', a2', a3', a4', a5', b0', b1', b2', b3']) :
    [a0, a1, a2, a3, a4, a5, b0, b1, b2, b3] = [a0', a1', a2', a3', a4', a5', b0', b1', b2', b3'] := by
  simp only [Solves, buck4M, buck4V, List.forall₂_cons, rowDot, List.zipWith_cons_cons, List.zipWith_nil_right,
    List.sum_cons, List.sum_nil, evalR, envOf, List.getD_cons_succ, List.getD_cons_zero,
    Nat.cast_ofNat, Nat.cast_one, Nat.cast_zero, div_one] at h h'
  obtain ⟨r1, r2, r3, r4, r5, r6, r7, r8, r9, r10, -⟩ := h
  obtain ⟨r1', r2', r3', r4', r5', r6', r7', r8', r9', r10', -⟩ := h'
  obtain ⟨f0, f1, f2, f3⟩ := cubic3_zero rap rmin (b0 - b0') (b1 - b1') (b2 - b2') (b3 - b3') (ne_of_lt h2)
    (by linear_combination r8 - r8') (by linear_combination r9 - r9') (by linear_combination r10 - r10')
    (by linear_combination r4 - r4' - (r6 - r6'))
  rw [sub_eq_zero] at f0 f1 f2 f3
  subst f0 f1 f2 f3
  obtain ⟨e0, e1, e2, e3, e4, e5⟩ := hermite5_zero rdp rmin (a0 - a0') (a1 - a1') (a2 - a2') (a3 - a3') (a4 - a4') (a5 - a5') (ne_of_lt h1)
    (by linear_combination r1 - r1') (by linear_combination r5 - r5') (by linear_combination r2 - r2')
    (by linear_combination r4 - r4') (by linear_combination r3 - r3') (by linear_combination r7 - r7')
  rw [sub_eq_zero.mp e0, sub_eq_zero.mp e1, sub_eq_zero.mp e2, sub_eq_zero.mp e3, sub_eq_zero.mp e4, sub_eq_zero.mp e5]

/-! ## Code tie: the glue of the `spline()` modifier (`_modifiers.spline`), regenerated from the source

Which part of the definition is the start potential, which the end potential, where the spline detaches and attaches, which spline type is built, and what is refused.
The form builder (`mkFn`), the two spline factories' `build_spline` (`buildSpline`, told apart by the factory's keyword) and `Custom_SplinePotential`
(`mkSplinePotential`) are parameters; the join conditions of what `buildSpline` builds are the theorems above. -/
namespace SplineGlue
open Atsim.Gen.Logic

/-- what the modifier does, written out -/
def splineSpec (negInf : Rat) (mkFn : PInstS → FnObj2) (buildSpline : SplFactory → SplPoint → SplPoint → PInstS → Except SplBuildErr SplCore)
    (mkSplinePotential : SplCore → SplObj) (forms : List PInstS) : Except SplErr SplObj :=
  match forms with
  | [p1] =>
    match p1.next with
    | none => .error .onlyOne
    | some p2 =>
      if p2.isModifier then .error .middleIsModifier
      else if !(["exp_spline", "buck4_spline"].contains p2.name) then .error .unknownSplineType
      else match p2.next with
        | none => .error .onlyTwo
        | some p3 =>
          if p3.next.isSome then .error .moreThanThree
          else if ¬ (p1.start.start < p2.start.start) then .error .firstNotBelowSecond
          else if ¬ (p2.start.start < p3.start.start) then .error .secondNotBelowThird
          else
            -- the start potential is the FIRST part alone, with its own range start; the end potential is the THIRD part alone, made valid from minus infinity;
            -- the spline detaches where the SECOND part starts and attaches where the THIRD part starts; the second part's label selects the factory
            match buildSpline ⟨p2.name⟩ ⟨mkFn { p1 with next := none }, p2.start.start⟩
                    ⟨mkFn { p3 with start := ⟨">", negInf⟩, next := none }, p3.start.start⟩ { p2 with next := none } with
            | .ok c => .ok (mkSplinePotential c)
            | .error .arithmetic => .error .cannotJoin
            | .error .importError => .error .needsPackage
            | .error .config => .error .config
  | _ => .error .notOneArgument

theorem filter_kw (n : String) (h : ["exp_spline", "buck4_spline"].contains n = true) :
    ([expSplineFactory, buck4SplineFactory].filter fun s => (if (s.spline_keyword == n) then true else false))[0]? = some ⟨n⟩ := by
  simp only [List.contains_eq_mem, List.mem_cons, List.not_mem_nil, or_false, decide_eq_true_eq] at h
  rcases h with h | h
  · subst h; simp [expSplineFactory, buck4SplineFactory, List.filter]
  · subst h
    have : ("exp_spline" == "buck4_spline") = false := by decide
    simp [expSplineFactory, buck4SplineFactory, List.filter, this]

end SplineGlue

open Atsim.Gen.Logic SplineGlue in
/-- **code tie**: `spline()` as regenerated is `splineSpec` for every argument list -/
theorem C10_code_spline_modifier (negInf : Rat) (mkFn : PInstS → FnObj2) (buildSpline : SplFactory → SplPoint → SplPoint → PInstS → Except SplBuildErr SplCore)
    (mkSplinePotential : SplCore → SplObj) (forms : List PInstS) :
    spline_modifier negInf mkFn buildSpline mkSplinePotential forms () = splineSpec negInf mkFn buildSpline mkSplinePotential forms := by
  rcases forms with _ | ⟨p1, _ | ⟨q, rest⟩⟩
  · simp [spline_modifier, splineSpec]
  · unfold spline_modifier splineSpec
    simp only [List.length_cons, List.length_nil, List.getElem?_cons_zero]
    cases h1 : p1.next with
    | none => simp
    | some p2 =>
      simp only [PInstS.isForm]
      cases hm : p2.isModifier with
      | true => simp
      | false =>
        have hmap : ([expSplineFactory, buck4SplineFactory].map fun s => s.spline_keyword) = ["exp_spline", "buck4_spline"] := rfl
        simp only [hmap]
        cases hc : ["exp_spline", "buck4_spline"].contains p2.name with
        | false => simp
        | true =>
          simp only [filter_kw _ hc]
          cases h2 : p2.next with
          | none => simp
          | some p3 =>
            simp only []
            cases h3 : p3.next with
            | some p4 => simp
            | none =>
              simp only [Option.isSome_none, Bool.false_eq_true, if_false, decide_eq_true_eq, ite_not]
              by_cases ha : p1.start.start < p2.start.start
              · by_cases hb : p2.start.start < p3.start.start
                · simp only [ha, hb, if_true]
                  generalize buildSpline _ _ _ _ = r
                  rcases r with e | c
                  · cases e <;> rfl
                  · rfl
                · simp [ha, hb]
              · simp [ha]
  · simp [spline_modifier, splineSpec]
    omega

open Atsim.Gen.Logic SplineGlue in
/-- a spline whose attach point does not lie above its detach point, or whose first part does not start below the detach point, is refused before anything is built -/
theorem C10_code_spline_order (negInf : Rat) (mkFn : PInstS → FnObj2) (buildSpline : SplFactory → SplPoint → SplPoint → PInstS → Except SplBuildErr SplCore)
    (mkSplinePotential : SplCore → SplObj) (p1 p2 p3 : PInstS) (h1 : p1.next = some p2) (h2 : p2.next = some p3) (h3 : p3.next = none)
    (hf : p2.isModifier = false) (hk : p2.name = "exp_spline" ∨ p2.name = "buck4_spline") (o : SplObj)
    (hok : spline_modifier negInf mkFn buildSpline mkSplinePotential [p1] () = .ok o) :
    p1.start.start < p2.start.start ∧ p2.start.start < p3.start.start := by
  rw [C10_code_spline_modifier] at hok
  have hc : ["exp_spline", "buck4_spline"].contains p2.name = true := by
    rcases hk with h | h <;> simp [h]
  unfold splineSpec at hok
  simp only [h1, h2, h3, hf, hc] at hok
  by_cases ha : p1.start.start < p2.start.start
  · by_cases hb : p2.start.start < p3.start.start
    · exact ⟨ha, hb⟩
    · simp [ha, hb] at hok
  · simp [ha] at hok

open Atsim.Gen.Logic in
/-- **code tie (the two spline factories)**: `exp_spline` takes no parameter; `buck4_spline` takes exactly one, `r_min`, which must lie strictly between the detach and the
attach separation; only then is the spline object built (from the two points as handed in, and `r_min`); otherwise a configuration error -/
theorem C10_code_build_spline (mkExp : SplPoint → SplPoint → Except SplBuildErr SplCore) (mkB4 : SplPoint → SplPoint → Rat → Except SplBuildErr SplCore)
    (d a : SplPoint) (mid : PInstS) :
    exp_build_spline mkExp d a mid = (if mid.parameters.isEmpty then mkExp d a else .error SplBuildErr.config) ∧
    buck4_build_spline mkB4 d a mid =
      (match mid.parameters with
       | [rm] => if d.r < rm ∧ rm < a.r then mkB4 d a rm else .error SplBuildErr.config
       | _ => .error SplBuildErr.config) := by
  constructor
  · unfold exp_build_spline
    cases h : mid.parameters.isEmpty
    · simp [h]
    · simp only [h, Bool.not_true, Bool.false_eq_true, if_false, if_true, andThen]
      cases mkExp d a <;> rfl
  · unfold buck4_build_spline
    match hp : mid.parameters with
    | [] => simp
    | [rm] =>
      simp only [List.length_cons, List.length_nil, List.getElem?_cons_zero, andThen]
      by_cases h1 : d.r < rm <;> by_cases h2 : rm < a.r <;> simp [h1, h2]
      cases mkB4 d a rm <;> rfl
    | x :: y :: r =>
      have hl : ((((x :: y :: r).length : Nat) : Int) == (1 : Int)) = false := by
        simp only [List.length_cons]; apply beq_false_of_ne; omega
      simp only [hl, Bool.false_eq_true, if_false]

end Atsim.C10
