import AtsimModel.Lemmas.ExprReal
import AtsimModel.Gen.Forms
import AtsimModel.Gen.Splines
import AtsimModel.Lemmas.PolyReal
import Mathlib.Tactic.NormNum
import Mathlib.Tactic.Positivity
/-!
# C10 — splined potentials keep their end potentials and join them with C² continuity

`Atsim.Gen.expA/expB` and `Atsim.Gen.buck4M/buck4V` are the linear systems of `Exp_Spline` / `Buck4_Spline`
(atsim/potentials/spline/__init__.py), regenerated from the source on every run.  `numpy.linalg.solve` is an external call:
it enters as the HYPOTHESIS that the coefficient vector solves the generated system (`Solves`); the residual of that
hypothesis on the real code is measured by `harness/props/C10.py`.
-/
set_option linter.unusedTactic false
namespace Atsim.C10
open Atsim Atsim.E Atsim.Gen Real

noncomputable abbrev ev (ps : List ℝ) (e : E) (x : ℝ) : ℝ := evalR (envOf ps) noSyms x e

/-- Σⱼ rowⱼ · cⱼ with the row's entries evaluated under the symbol environment `p` -/
noncomputable def rowDot (p : List ℝ) (row : List E) (c : List ℝ) : ℝ :=
  (List.zipWith (fun e x => evalR (envOf p) noSyms 0 e * x) row c).sum

/-- `M · c = V`, row by row -/
def Solves (p : List ℝ) (M : List (List E)) (V : List E) (c : List ℝ) : Prop :=
  List.Forall₂ (fun row b => rowDot p row c = evalR (envOf p) noSyms 0 b) M V

/-! ### region selection (`Custom_SplinePotential.__call__/_deriv/_deriv2`, `Buck4_Spline._which_spline`) -/

/-- `if rij <= detach: start; elif rij >= attach: end; else: spline` -/
noncomputable def splined (start mid fin : ℝ → ℝ) (detach attach r : ℝ) : ℝ :=
  if r ≤ detach then start r else if r ≥ attach then fin r else mid r

theorem C10_regions (start mid fin : ℝ → ℝ) (detach attach : ℝ) (h : detach < attach) :
    (∀ r, r ≤ detach → splined start mid fin detach attach r = start r) ∧
    (∀ r, attach ≤ r → splined start mid fin detach attach r = fin r) ∧
    (∀ r, detach < r → r < attach → splined start mid fin detach attach r = mid r) := by
  refine ⟨fun r hr => ?_, fun r hr => ?_, fun r h1 h2 => ?_⟩
  · simp [splined, hr]
  · have : ¬ r ≤ detach := not_le.mpr (lt_of_lt_of_le h hr)
    simp [splined, this, hr]
  · simp [splined, not_le.mpr h1, not_le.mpr h2]

/-- `spline5 if r < r_min else spline3` -/
noncomputable def buck4Mid (s5 s3 : ℝ → ℝ) (rmin r : ℝ) : ℝ := if r < rmin then s5 r else s3 r

/-! ### exponential spline -/

/-- the upward shift applied before taking logarithms: `if sy <= 0 or ey <= 0: inter = 1 - min(sy, ey)`; the spline's constant is `C = -inter` -/
noncomputable def shiftOf (sy ey : ℝ) : ℝ := if sy ≤ 0 ∨ ey ≤ 0 then 1 - min sy ey else 0

theorem C10_shift_pos (sy ey : ℝ) : 0 < sy + shiftOf sy ey ∧ 0 < ey + shiftOf sy ey := by
  unfold shiftOf
  split_ifs with hc
  · have h1 := min_le_left sy ey
    have h2 := min_le_right sy ey
    constructor <;> linarith
  · rw [not_or, not_le, not_le] at hc
    simpa using hc

/-- shape: between detach and attach the spline is `exp(quintic) + C` -/
theorem C10_exp_shape (c0 c1 c2 c3 c4 c5 C r : ℝ) :
    ev [c0, c1, c2, c3, c4, c5, C] exp_spline_call r
      = Real.exp (c0 + c1 * r + c2 * r ^ 2 + c3 * r ^ 3 + c4 * r ^ 4 + c5 * r ^ 5) + C := by
  simp only [ev, evalR, envOf, exp_spline_call, List.getD_cons_succ, List.getD_cons_zero]
  form_close

/-- shape of the coded first derivative (any algebraically equal spelling of the Python expression is accepted: `form_close`) -/
theorem exp_deriv_shape (c0 c1 c2 c3 c4 c5 C r : ℝ) :
    ev [c0, c1, c2, c3, c4, c5, C] exp_spline_deriv r
      = (c1 + r * (2 * c2 + r * (3 * c3 + 4 * c4 * r + 5 * c5 * r ^ 2)))
        * Real.exp (c0 + r * (c1 + r * (c2 + r * (c3 + r * (c4 + c5 * r))))) := by
  simp only [ev, evalR, envOf, exp_spline_deriv, List.getD_cons_succ, List.getD_cons_zero, Nat.cast_ofNat, Nat.cast_one, div_one]
  form_close

/-- shape of the coded second derivative -/
theorem exp_deriv2_shape (c0 c1 c2 c3 c4 c5 C r : ℝ) :
    ev [c0, c1, c2, c3, c4, c5, C] exp_spline_deriv2 r
      = (2 * c2 + 6 * c3 * r + 12 * c4 * r ^ 2 + 20 * c5 * r ^ 3
          + (c1 + 2 * c2 * r + 3 * c3 * r ^ 2 + 4 * c4 * r ^ 3 + 5 * c5 * r ^ 4) ^ 2)
        * Real.exp (c0 + c1 * r + c2 * r ^ 2 + c3 * r ^ 3 + c4 * r ^ 4 + c5 * r ^ 5) := by
  simp only [ev, evalR, envOf, exp_spline_deriv2, List.getD_cons_succ, List.getD_cons_zero, Nat.cast_ofNat, Nat.cast_one, div_one]
  form_close

/-- join at one end from the three rows of the system at that end (value, slope, curvature) -/
theorem exp_join (B0 B1 B2 B3 B4 B5 C x y d1 d2 : ℝ) (hy : 0 < y)
    (row1 : 1 * B0 + x * B1 + x ^ 2 * B2 + x ^ 3 * B3 + x ^ 4 * B4 + x ^ 5 * B5 = Real.log y)
    (row3 : 0 * B0 + 1 * B1 + 2 * x * B2 + 3 * x ^ 2 * B3 + 4 * x ^ 3 * B4 + 5 * x ^ 4 * B5 = d1 / y)
    (row5 : 0 * B0 + 0 * B1 + 2 * B2 + 6 * x * B3 + 12 * x ^ 2 * B4 + 20 * x ^ 3 * B5 = d2 / y - d1 ^ 2 / y ^ 2) :
    Real.exp (B0 + B1 * x + B2 * x ^ 2 + B3 * x ^ 3 + B4 * x ^ 4 + B5 * x ^ 5) + C = y + C ∧
    (B1 + x * (2 * B2 + x * (3 * B3 + 4 * B4 * x + 5 * B5 * x ^ 2)))
      * Real.exp (B0 + x * (B1 + x * (B2 + x * (B3 + x * (B4 + B5 * x))))) = d1 ∧
    (2 * B2 + 6 * B3 * x + 12 * B4 * x ^ 2 + 20 * B5 * x ^ 3
        + (B1 + 2 * B2 * x + 3 * B3 * x ^ 2 + 4 * B4 * x ^ 3 + 5 * B5 * x ^ 4) ^ 2)
      * Real.exp (B0 + B1 * x + B2 * x ^ 2 + B3 * x ^ 3 + B4 * x ^ 4 + B5 * x ^ 5) = d2 := by
  have hne : y ≠ 0 := ne_of_gt hy
  have e0 : B0 + B1 * x + B2 * x ^ 2 + B3 * x ^ 3 + B4 * x ^ 4 + B5 * x ^ 5 = Real.log y := by linarith
  have e0' : B0 + x * (B1 + x * (B2 + x * (B3 + x * (B4 + B5 * x)))) = Real.log y := by
    rw [← e0]; ring
  have e1 : B1 + x * (2 * B2 + x * (3 * B3 + 4 * B4 * x + 5 * B5 * x ^ 2)) = d1 / y := by
    rw [← row3]; ring
  have e1' : B1 + 2 * B2 * x + 3 * B3 * x ^ 2 + 4 * B4 * x ^ 3 + 5 * B5 * x ^ 4 = d1 / y := by
    rw [← row3]; ring
  have e2 : 2 * B2 + 6 * B3 * x + 12 * B4 * x ^ 2 + 20 * B5 * x ^ 3 = d2 / y - d1 ^ 2 / y ^ 2 := by
    rw [← row5]; ring
  refine ⟨?_, ?_, ?_⟩
  · rw [e0, Real.exp_log hy]
  · rw [e0', e1, Real.exp_log hy]; field_simp
  · rw [e0, e1', e2, Real.exp_log hy]; field_simp; ring

/-- **C² join**: if the coefficients solve the generated 6×6 system for end values `sy, ey` (already shifted, hence positive) and end
    derivatives, then the spline `exp(quintic) + C` – value, first and second derivative as coded in `exp_spline` – agrees with
    `(sy + C, d1s, d2s)` at `sx` and with `(ey + C, d1e, d2e)` at `ex`.  With `C = -shift` and `sy = v_start(sx) + shift` this is
    value/slope/curvature of the start potential at detach and of the end potential at attach. -/
theorem C10_exp_C2 (sx ex sy ey d1s d1e d2s d2e C c0 c1 c2 c3 c4 c5 : ℝ) (hsy : 0 < sy) (hey : 0 < ey)
    (h : Solves [sx, ex, sy, ey, d1s, d1e, d2s, d2e] expA expB [c0, c1, c2, c3, c4, c5]) :
    (ev [c0, c1, c2, c3, c4, c5, C] exp_spline_call sx = sy + C ∧
     ev [c0, c1, c2, c3, c4, c5, C] exp_spline_deriv sx = d1s ∧
     ev [c0, c1, c2, c3, c4, c5, C] exp_spline_deriv2 sx = d2s) ∧
    (ev [c0, c1, c2, c3, c4, c5, C] exp_spline_call ex = ey + C ∧
     ev [c0, c1, c2, c3, c4, c5, C] exp_spline_deriv ex = d1e ∧
     ev [c0, c1, c2, c3, c4, c5, C] exp_spline_deriv2 ex = d2e) := by
  simp only [Solves, expA, expB, List.forall₂_cons, rowDot, List.zipWith_cons_cons, List.zipWith_nil_right,
    List.sum_cons, List.sum_nil, evalR, envOf, List.getD_cons_succ, List.getD_cons_zero,
    Nat.cast_ofNat, Nat.cast_one, Nat.cast_zero, div_one] at h
  obtain ⟨r1, r2, r3, r4, r5, r6, -⟩ := h
  simp only [C10_exp_shape, exp_deriv_shape, exp_deriv2_shape]
  exact ⟨exp_join c0 c1 c2 c3 c4 c5 C sx sy d1s d2s hsy (by linarith) (by linarith) (by linarith),
    exp_join c0 c1 c2 c3 c4 c5 C ex ey d1e d2e hey (by linarith) (by linarith) (by linarith)⟩

/-! ### four-range Buckingham spline: quintic then cubic meeting at r_min with zero slope -/

open Atsim.Poly in
/-- if the ten coefficients solve the generated 10×10 system then: the quintic matches value, slope and curvature of the start
    potential at detach; has zero slope at r_min; quintic and cubic agree in value, slope and curvature at r_min; the cubic matches
    value, slope and curvature of the end potential at attach.  (`polyVal/polyD1/polyD2` are `polynomial.__call__/deriv/deriv2`,
    proved to be the true derivatives in C07.) -/
theorem C10_buck4_C2 (rdp rmin rap v0 d0 dd0 v1 d1 dd1 a0 a1 a2 a3 a4 a5 b0 b1 b2 b3 : ℝ)
    (h : Solves [rdp, rmin, rap, v0, d0, dd0, v1, d1, dd1] buck4M buck4V [a0, a1, a2, a3, a4, a5, b0, b1, b2, b3]) :
    polyVal 0 [a0, a1, a2, a3, a4, a5] rdp = v0 ∧ polyD1 0 [a0, a1, a2, a3, a4, a5] rdp = d0 ∧ polyD2 0 [a0, a1, a2, a3, a4, a5] rdp = dd0 ∧
    polyD1 0 [a0, a1, a2, a3, a4, a5] rmin = 0 ∧
    polyVal 0 [a0, a1, a2, a3, a4, a5] rmin = polyVal 0 [b0, b1, b2, b3] rmin ∧
    polyD1 0 [a0, a1, a2, a3, a4, a5] rmin = polyD1 0 [b0, b1, b2, b3] rmin ∧
    polyD2 0 [a0, a1, a2, a3, a4, a5] rmin = polyD2 0 [b0, b1, b2, b3] rmin ∧
    polyVal 0 [b0, b1, b2, b3] rap = v1 ∧ polyD1 0 [b0, b1, b2, b3] rap = d1 ∧ polyD2 0 [b0, b1, b2, b3] rap = dd1 := by
  simp only [Solves, buck4M, buck4V, List.forall₂_cons, rowDot, List.zipWith_cons_cons, List.zipWith_nil_right,
    List.sum_cons, List.sum_nil, evalR, envOf, List.getD_cons_succ, List.getD_cons_zero,
    Nat.cast_ofNat, Nat.cast_one, Nat.cast_zero, div_one] at h
  obtain ⟨r1, r2, r3, r4, r5, r6, r7, r8, r9, r10, -⟩ := h
  simp only [polyVal, polyD1, polyD2]
  norm_num
  refine ⟨?_, ?_, ?_, ?_, ?_, ?_, ?_, ?_, ?_, ?_⟩ <;> linarith

/-! ### the three ways of building buck4 denote the same start and end potentials -/

/-- `as.buck4 A rho C rd rm ra` uses `bornmayer(A, rho)`; the documented shorthand uses `as.buck A rho 0`: the same function -/
theorem C10_buck4_start (A rho r : ℝ) : ev [A, rho, 0] buck_call r = ev [A, rho] bornmayer_call r := by
  simp [ev, evalR, envOf, buck_call, bornmayer_call]
  form_close

/-- the end potential `buck(0, 1, C)` is the dispersion term `-C / r^6` -/
theorem C10_buck4_end (C r : ℝ) : ev [0, 1, C] buck_call r = -(C / r ^ 6) := by
  simp [ev, evalR, envOf, buck_call]
  form_close

/-! non-vacuity: the hypotheses of C10_exp_C2 are satisfiable (a constant spline: value 1 at both ends, zero slopes) -/
example : Solves [0, 1, 1, 1, 0, 0, 0, 0] expA expB [0, 0, 0, 0, 0, 0] := by
  simp [Solves, rowDot, expA, expB, evalR, envOf]

end Atsim.C10
