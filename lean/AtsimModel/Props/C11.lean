import AtsimModel.Model.Cutoff
import AtsimModel.Gen.Logic
import AtsimModel.Model.Eam
import Mathlib.Tactic.Ring
import Mathlib.Tactic.FieldSimp
import Mathlib.Tactic.Linarith
import Mathlib.Tactic.NormNum
import Mathlib.Tactic.Positivity
import Mathlib.Algebra.Order.Floor.Ring
import Mathlib.Algebra.Order.Round
import Mathlib.Data.Real.Basic
import Mathlib.Data.Rat.Floor
import Mathlib.Algebra.Order.Archimedean.Real.Basic
import AtsimModel.Lemmas.KernelQ
/-!
# C11 — any two of nr / dr / cutoff (nrho / drho / cutoff_rho) fix the grid actually tabulated

`initCutoff ratOps` is the transcription of `_TabulationCutoff._init_cutoff` (after the `fix:` commit) in exact
arithmetic; `initCutoffTruthy` is the shipped behaviour, kept for the defect witnesses.  The density triple goes
through the same function with renamed keys, so every theorem covers both grids.
Tie to the code: `harness/props/C11.py` (decision table, decimal-lattice sweep bit-for-bit against `rowsSnap`).
-/
namespace Atsim.C11
open Atsim

/-! ### decision table (exact arithmetic) -/

/-- a non-positive value, wherever it is given, is rejected (with whichever complaint the code reaches first) -/
theorem C11_rejects_nonpositive (nr : Option Int) (dr cutoff : Option Rat)
    (h : (∃ n, nr = some n ∧ n ≤ 0) ∨ (∃ d, dr = some d ∧ d ≤ 0) ∨ (∃ c, cutoff = some c ∧ c ≤ 0)) :
    ∃ e, initCutoff ratOps nr dr cutoff = .error e := by
  have key : (checkPositive ratOps nr dr cutoff).isSome = true := by
    unfold checkPositive
    rcases h with ⟨n, rfl, hn⟩ | ⟨d, rfl, hd⟩ | ⟨c, rfl, hc⟩ <;> (repeat' split) <;> simp_all [ratOps] <;> first | omega | linarith
  match hcp : checkPositive ratOps nr dr cutoff with
  | some e => exact ⟨e, by simp [initCutoff, hcp]⟩
  | none => simp [hcp] at key

/-- a one-row grid cannot define a step: rejected (it used to end in a division by zero; C16) -/
theorem C11_rejects_one_row (dr cutoff : Option Rat) : initCutoff ratOps (some 1) dr cutoff = .error .tooFewRows := by
  simp [initCutoff, checkPositive]

/-- giving all three is rejected -/
theorem C11_rejects_all_three (n : Int) (d c : Rat) (hn : 2 ≤ n) (hd : 0 < d) (hc : 0 < c) :
    initCutoff ratOps (some n) (some d) (some c) = .error .allThree := by
  have hn0 : ¬ n ≤ 0 := by omega
  have hn1 : ¬ n < 2 := by omega
  simp [initCutoff, checkPositive, ratOps, hn0, hn1, not_le.mpr hd, not_le.mpr hc]

/-- a step alone is rejected -/
theorem C11_rejects_step_alone (d : Rat) (hd : 0 < d) : initCutoff ratOps none (some d) none = .error .stepAlone := by
  simp [initCutoff, checkPositive, ratOps, not_le.mpr hd]

/-- nr with dr gives cutoff = (nr-1)*dr -/
theorem C11_nr_dr (n : Int) (d : Rat) (hn : 2 ≤ n) (hd : 0 < d) :
    initCutoff ratOps (some n) (some d) none = .ok (some n, some (((n : Rat) - 1) * d)) := by
  have hn0 : ¬ n ≤ 0 := by omega
  have hn2 : ¬ n < 2 := by omega
  have hn1 : (0 : Rat) < (n : Rat) - 1 := by
    have : (2 : Rat) ≤ (n : Rat) := by exact_mod_cast hn
    linarith
  have hc : ¬ ((n : Rat) - 1) * d ≤ 0 := not_le.mpr (mul_pos hn1 hd)
  simp [initCutoff, checkPositive, ratOps, hn0, hn2, not_le.mpr hd, hc]

/-- cutoff with nr is taken as given (dr = cutoff/(nr-1) is then computed by the tabulation: `tabStep`) -/
theorem C11_cutoff_nr (n : Int) (c : Rat) (hn : 2 ≤ n) (hc : 0 < c) :
    initCutoff ratOps (some n) none (some c) = .ok (some n, some c) := by
  have hn0 : ¬ n ≤ 0 := by omega
  have hn2 : ¬ n < 2 := by omega
  simp [initCutoff, checkPositive, ratOps, hn0, hn2, not_le.mpr hc]

/-- cutoff with dr, cutoff a whole multiple k of dr: exactly k+1 rows ending at cutoff -/
theorem C11_cutoff_dr (k : Nat) (d : Rat) (hk : 1 ≤ k) (hd : 0 < d) :
    initCutoff ratOps none (some d) (some ((k : Rat) * d)) = .ok (some ((k : Int) + 1), some ((k : Rat) * d)) := by
  have hk0 : (0 : Rat) < (k : Rat) := by exact_mod_cast hk
  have hc : ¬ (k : Rat) * d ≤ 0 := not_le.mpr (mul_pos hk0 hd)
  have hq : (k : Rat) * d / d = ((k : Int) : Rat) := by
    rw [mul_div_assoc, div_self hd.ne', mul_one]; simp
  have hfl : ((k : Rat) * d / d).floor = (k : Int) := by
    rw [hq]; exact Rat.floor_intCast _
  have hn0 : ¬ ((k : Int) + 1 ≤ 0) := by omega
  have hn2 : ¬ ((k : Int) + 1 < 2) := by omega
  simp [initCutoff, checkPositive, ratOps, not_le.mpr hd, hc, hfl, hn0, hn2]

/-- omitted values: nothing is derived, the factories' defaults apply (cutoff 10.0, nr 1001; cutoff_rho 100.0, nrho 1001) -/
theorem C11_defaults :
    initCutoff ratOps none none none = .ok (none, none) ∧
    withDefaults (none, none) 1001 10 = (1001, 10) ∧ withDefaults (none, none) 1001 100 = (1001, 100) ∧
    (∀ c : Rat, withDefaults (none, some c) 1001 10 = (1001, c)) ∧ (∀ n : Int, withDefaults (some n, none) 1001 10 = (n, 10)) := by
  refine ⟨by simp [initCutoff, checkPositive], by simp [withDefaults], by simp [withDefaults], ?_, ?_⟩
  · intro c; simp [withDefaults]
  · intro n; simp [withDefaults]

/-- the grid that is tabulated (`dr = cutoff/(nr-1)`, C01/C03: `tabStep`) is the grid that was asked for:
    with (nr, dr) the spacing is dr; with (cutoff = k*dr, dr) the spacing is dr and the last of the k+1 rows is at cutoff -/
theorem C11_grid_nr_dr (n : Nat) (d : Rat) (hn : 2 ≤ n) : tabStep (((n : Rat) - 1) * d) n = d := by
  have hn1 : (0 : Rat) < (n : Rat) - 1 := by
    have : (2 : Rat) ≤ (n : Rat) := by exact_mod_cast hn
    linarith
  unfold tabStep
  rw [mul_comm, mul_div_assoc, div_self hn1.ne', mul_one]

theorem C11_grid_cutoff_dr (k : Nat) (d : Rat) (hk : 1 ≤ k) :
    tabStep ((k : Rat) * d) (k + 1) = d ∧ ((k : Rat)) * tabStep ((k : Rat) * d) (k + 1) = (k : Rat) * d := by
  have hk0 : (0 : Rat) < (k : Rat) := by exact_mod_cast hk
  have h : tabStep ((k : Rat) * d) (k + 1) = d := by
    unfold tabStep
    have e : (((k + 1 : Nat) : Rat) - 1) = (k : Rat) := by push_cast; ring
    rw [e, mul_comm, mul_div_assoc, div_self hk0.ne', mul_one]
  exact ⟨h, by rw [h]⟩

/-! ### the shipped combination logic used truthiness: two cells of the table were wrong (fixed; kept as regression witnesses) -/

/-- shipped: `nr: 0` given together with dr and cutoff was ACCEPTED (nr silently recomputed) -/
theorem C11_truthy_witness_nr0 : initCutoffTruthy ratOps (fun x => x == 0) (some 0) (some (1/2)) (some 2) = .ok (some 5, some 2) := by
  decide +kernel

/-- shipped: `cutoff: 0.0` given together with nr and dr was ACCEPTED as if absent -/
theorem C11_truthy_witness_cutoff0 : initCutoffTruthy ratOps (fun x => x == 0) (some 5) (some (1/2)) (some 0) = .ok (some 5, some 2) := by
  decide +kernel

/-- current: both are rejected -/
theorem C11_fixed_nr0 : initCutoff ratOps (some 0) (some (1/2)) (some 2) = .error .nonPositive := by decide +kernel
theorem C11_fixed_cutoff0 : initCutoff ratOps (some 5) (some (1/2)) (some 0) = .error .nonPositive := by decide +kernel

/-! ### binary64: why truncation loses rows and why the snap rule does not -/

/-- IEEE fact, evaluated by the kernel: with truncation `cutoff 0.043, dr 0.001` gives 43 rows, not 44 -/
theorem C11_trunc_witness : rowsTrunc 0.043 0.001 = 43 := by decide +kernel

/-- standard model of binary64 rounding: every rounding has relative error at most u -/
def RelErr (u : ℝ) (x y : ℝ) : Prop := ∃ δ : ℝ, |δ| ≤ u ∧ y = x * (1 + δ)

/-- the computed quotient of the rounded decimals is within 4ku of k -/
theorem C11_quotient_close (u c d c' d' q : ℝ) (k : ℕ) (hu0 : 0 ≤ u) (hu : u ≤ 1/8) (hd : 0 < d)
    (hc : c = k * d) (h1 : RelErr u c c') (h2 : RelErr u d d') (h3 : RelErr u (c'/d') q) :
    |q - k| ≤ k * (4 * u) := by
  obtain ⟨δ1, hδ1, rfl⟩ := h1
  obtain ⟨δ2, hδ2, rfl⟩ := h2
  obtain ⟨δ3, hδ3, rfl⟩ := h3
  subst hc
  have b1 := abs_le.mp hδ1
  have b2 := abs_le.mp hδ2
  have b3 := abs_le.mp hδ3
  have hpos : 0 < 1 + δ2 := by linarith
  have hk : (0:ℝ) ≤ k := Nat.cast_nonneg k
  have key : (k * d * (1 + δ1)) / (d * (1 + δ2)) * (1 + δ3) - k
      = k * (((1 + δ1) * (1 + δ3) - (1 + δ2)) / (1 + δ2)) := by
    field_simp
  rw [key, abs_mul, abs_of_nonneg hk]
  apply mul_le_mul_of_nonneg_left _ hk
  rw [abs_div, abs_of_pos hpos, div_le_iff₀ hpos]
  have hprod : |δ1 * δ3| ≤ u * u := by
    rw [abs_mul]; exact mul_le_mul hδ1 hδ3 (abs_nonneg _) hu0
  have bp := abs_le.mp hprod
  have hnum : |(1 + δ1) * (1 + δ3) - (1 + δ2)| ≤ 3 * u + u * u := by
    have e : (1 + δ1) * (1 + δ3) - (1 + δ2) = δ1 + δ3 + δ1 * δ3 - δ2 := by ring
    rw [e, abs_le]
    constructor <;> linarith [b1.1, b1.2, b2.1, b2.2, b3.1, b3.2, bp.1, bp.2]
  calc |(1 + δ1) * (1 + δ3) - (1 + δ2)| ≤ 3 * u + u * u := hnum
    _ ≤ 4 * u * (1 + δ2) := by nlinarith

/-- rounding to nearest recovers k exactly (every k up to 2^48) -/
theorem C11_round_exact (u c d c' d' q : ℝ) (k : ℕ) (hu0 : 0 ≤ u) (hu : u ≤ (1:ℝ)/2^53) (hd : 0 < d)
    (hk : (k:ℝ) ≤ 2^48)
    (hc : c = k * d) (h1 : RelErr u c c') (h2 : RelErr u d d') (h3 : RelErr u (c'/d') q) :
    round q = (k : ℤ) := by
  have hu8 : u ≤ 1/8 := le_trans hu (by norm_num)
  have h := C11_quotient_close u c d c' d' q k hu0 hu8 hd hc h1 h2 h3
  have hk0 : (0:ℝ) ≤ k := Nat.cast_nonneg k
  have hb : (k:ℝ) * (4 * u) < 1/2 := by
    have : (k:ℝ) * (4*u) ≤ 2^48 * (4 * (1/2^53)) := by
      apply mul_le_mul hk (by linarith) (by positivity) (by positivity)
    have e : (2:ℝ)^48 * (4 * (1/2^53)) = 1/8 := by norm_num
    linarith
  have hlt : |q - k| < 1/2 := lt_of_le_of_lt h hb
  rw [round_eq]
  have := abs_lt.mp hlt
  rw [Int.floor_eq_iff]
  push_cast
  constructor <;> linarith

/-- the snap rule of `_rows_for_step` fires for every commensurate pair: the quotient is within 1e-9 relative of its
    nearest integer, which is k; so the row count is k+1 (statement over ℝ of the test `|q - round q| <= 1e-9*max(1,|q|)`) -/
theorem C11_snap_fires (u c d c' d' q : ℝ) (k : ℕ) (hu0 : 0 ≤ u) (hu : u ≤ (1:ℝ)/2^53) (hd : 0 < d)
    (hk1 : 1 ≤ k) (hk : (k:ℝ) ≤ 2^48)
    (hc : c = k * d) (h1 : RelErr u c c') (h2 : RelErr u d d') (h3 : RelErr u (c'/d') q) :
    round q = (k : ℤ) ∧ |q - (round q : ℝ)| ≤ (1/10^9 : ℝ) * max 1 |q| := by
  have hr := C11_round_exact u c d c' d' q k hu0 hu hd hk hc h1 h2 h3
  refine ⟨hr, ?_⟩
  have hu8 : u ≤ 1/8 := le_trans hu (by norm_num)
  have h := C11_quotient_close u c d c' d' q k hu0 hu8 hd hc h1 h2 h3
  have hk0 : (1:ℝ) ≤ k := by exact_mod_cast hk1
  rw [hr]
  have hcast : (((k : ℤ)) : ℝ) = (k : ℝ) := by simp
  rw [hcast]
  have hu' : 4 * u ≤ 1 / 2^51 := by
    have : (4:ℝ) * (1/2^53) = 1/2^51 := by norm_num
    linarith
  have h1' : |q - k| ≤ k * (1/2^51) := le_trans h (mul_le_mul_of_nonneg_left hu' (by linarith))
  have hb := abs_le.mp h1'
  have hq : (k:ℝ) / 2 ≤ |q| := by
    have : (k:ℝ)/2 ≤ q := by
      have : (k:ℝ) * (1/2^51) ≤ k / 2 := by
        have : (1:ℝ)/2^51 ≤ 1/2 := by norm_num
        nlinarith
      linarith [hb.1]
    exact le_trans this (le_abs_self q)
  have hm : |q| ≤ max 1 |q| := le_max_right _ _
  have : (k:ℝ) * (1/2^51) ≤ (1/10^9 : ℝ) * (k/2) := by
    have : (1:ℝ)/2^51 ≤ 1/10^9 * (1/2) := by norm_num
    nlinarith
  have h2' : (1/10^9 : ℝ) * (k/2) ≤ (1/10^9 : ℝ) * max 1 |q| :=
    mul_le_mul_of_nonneg_left (le_trans hq hm) (by norm_num)
  linarith

/-! non-vacuity -/
example : initCutoff ratOps none (some (1/1000)) (some (43/1000)) = .ok (some 44, some (43/1000)) := by decide +kernel
example : RelErr (1/2^53) 1 1 := ⟨0, by norm_num, by ring⟩

end Atsim.C11

/-! ## kernel ties: the arithmetic the code uses at these places, regenerated from the source on every run, is the model's -/
namespace Atsim.C11
open Atsim.Gen Atsim.E
set_option linter.unusedTactic false
set_option linter.unusedSimpArgs false
/-- `cutoff = (nr-1)*dr` is the model's `mulPred`; `dr = cutoff/(nr-1)`, `drho = cutoff_rho/(nrho-1)` are what every writer uses -/
theorem C11_kernel_cutoff (n : Int) (d : Rat) : evalQ (envQ [n, d]) k_initcutoff_cutoff = ratOps.mulPred n d := by
  kernel_unfold [k_initcutoff_cutoff, ratOps]
  kernel_close
theorem C11_kernel_steps (cut cutrho : Rat) (nr nrho : Nat) :
    evalQ (envQ [cut, nr]) k_pair_dr = cut / ((nr : Rat) - 1) ∧ evalQ (envQ [cutrho, nrho]) k_eam_drho = cutrho / ((nrho : Rat) - 1) := by
  constructor
  · kernel_unfold [k_pair_dr]
    kernel_close
  · kernel_unfold [k_eam_drho]
    kernel_close
/-! ## The code itself: `_check_positive`, `_init_cutoff`, `_rows_for_step` regenerated from the source

`Atsim.Gen.Logic.check_positive / init_cutoff / rows_for_step` are produced by `translator/py2lean_logic.py` from the text of
`_TabulationCutoff` on every run (`is None` tests → matches on `Option`, `raise` → `.error` with the complaint identified by its message, the call of
`_rows_for_step` → the parameter `rows`).  They ARE the model's functions: every theorem above about `initCutoff` is a theorem about the code as written now. -/
namespace CodeTie
open Atsim.Gen.Logic

def errMap : LogicErr → CutErr
  | .allThree => .allThree | .stepAlone => .stepAlone | .nonPositive => .nonPositive | .tooFewRows => .tooFewRows

def mapRes {α : Type} : Except LogicErr α → Except CutErr α
  | .ok a => .ok a
  | .error e => .error (errMap e)

/-- the model's arithmetic record with the row-count rule left as a parameter, exactly as the generated `init_cutoff` has it -/
def opsOf (rows : Rat → Rat → Int) : CutOps Rat :=
  { le0 := fun x => decide (x ≤ 0), mulPred := fun n d => ((n : Rat) - 1) * d, rows := rows }

theorem opsOf_floor : opsOf (fun c d => (c / d).floor + 1) = ratOps := rfl

theorem check_positive_eq (rows : Rat → Rat → Int) (nr : Option Int) (dr cutoff : Option Rat) :
    mapRes (check_positive nr dr cutoff) =
      (match checkPositive (opsOf rows) nr dr cutoff with | some e => .error e | none => .ok ()) := by
  rcases nr with _ | n <;> rcases dr with _ | d <;> rcases cutoff with _ | c <;>
    simp only [check_positive, checkPositive, opsOf] <;> (repeat' split) <;> simp_all [mapRes, errMap] <;>
    first
      | omega
      | linarith
      | (split_ifs at * <;> first | omega | linarith | simp_all)

/-- a `_check_positive` call followed by more code: the complaint, if any, is the model's; otherwise what follows -/
theorem bind_cp {β : Type} (rows : Rat → Rat → Int) (a : Option Int) (b c : Option Rat) (K : Except LogicErr β) :
    mapRes (andThen (check_positive a b c) fun _ => K) =
      (match checkPositive (opsOf rows) a b c with | some e => .error e | none => mapRes K) := by
  have h := check_positive_eq rows a b c
  cases hc : check_positive a b c <;> cases hm : checkPositive (opsOf rows) a b c <;> simp_all [mapRes, andThen]

end CodeTie

/-- **code tie**: the regenerated `_check_positive` raises exactly the model's complaint, or nothing -/
theorem C11_code_check_positive (nr : Option Int) (dr cutoff : Option Rat) :
    CodeTie.mapRes (Atsim.Gen.Logic.check_positive nr dr cutoff) =
      (match checkPositive ratOps nr dr cutoff with | some e => .error e | none => .ok ()) :=
  CodeTie.check_positive_eq _ nr dr cutoff

/-- **code tie**: the regenerated `_init_cutoff`, with any row-count rule `rows` plugged in for `_rows_for_step`, is the model's `initCutoff` -
    same outcome, same complaint, same derived values - for every presence/sign pattern and every value -/
theorem C11_code_init_cutoff (rows : Rat → Rat → Int) (nr : Option Int) (dr cutoff : Option Rat) :
    CodeTie.mapRes (Atsim.Gen.Logic.init_cutoff rows nr dr cutoff) = initCutoff (CodeTie.opsOf rows) nr dr cutoff := by
  unfold Atsim.Gen.Logic.init_cutoff initCutoff
  rw [CodeTie.bind_cp rows]
  cases hcp : checkPositive (CodeTie.opsOf rows) nr dr cutoff with
  | some e => rfl
  | none =>
    rcases nr with _ | n <;> rcases dr with _ | d <;> rcases cutoff with _ | c <;>
      simp only [Int.cast_sub, Int.cast_one] <;>
      (try rw [CodeTie.bind_cp rows]) <;>
      (try simp only [hcp]) <;>
      first
        | rfl
        | (simp only [CodeTie.opsOf] at *; rfl)
        | (simp_all [CodeTie.opsOf, CodeTie.mapRes, CodeTie.errMap])

/-- in exact arithmetic (`rows = floor(cutoff/dr) + 1`) that is `initCutoff ratOps`, the function all decision-table theorems above are about -/
theorem C11_code_init_cutoff_exact (nr : Option Int) (dr cutoff : Option Rat) :
    CodeTie.mapRes (Atsim.Gen.Logic.init_cutoff (fun c d => (c / d).floor + 1) nr dr cutoff) = initCutoff ratOps nr dr cutoff := by
  rw [C11_code_init_cutoff, CodeTie.opsOf_floor]


/-- **code tie**: the regenerated `_rows_for_step` (binary64, same operations in the same order) is the model's `rowsSnap`, the function the
    decimal-lattice sweep compares bit for bit and `C11_fixed_*` evaluate in the kernel -/
theorem C11_code_rows_for_step (cutoff dr : Float) : Atsim.Gen.Logic.rows_for_step cutoff dr = rowsSnap cutoff dr := by
  simp only [Atsim.Gen.Logic.rows_for_step, rowsSnap, decide_eq_true_eq]

/-! ## The code itself: the factories' defaults and layout checks (`_tabulation_factories.py`)

`Atsim.Gen.Logic.pair_extract_cutoffs / eam_extract_cutoffs / dlpoly_extract_cutoffs / lammps_extract_cutoffs` are the four `extract_cutoffs` methods as regenerated on
every run (logging dropped; `super(...).extract_cutoffs(cp)` is the base class's method). -/

open Atsim.Gen.Logic in
/-- **code tie (defaults)**: what the model leaves open is filled in with `cutoff = 10.0`, `nr = 1001` - and nothing the model fixes is changed -/
theorem C11_code_pair_defaults (t : TabSec) :
    pair_extract_cutoffs ⟨t⟩ = ⟨t.cutoff.getD 10, t.nr.getD 1001⟩ := by
  unfold pair_extract_cutoffs
  cases h1 : t.cutoff <;> cases h2 : t.nr <;> simp [h1, h2]

open Atsim.Gen.Logic in
/-- the pair defaults are the model's `withDefaults` -/
theorem C11_code_pair_defaults_model (t : TabSec) :
    ((pair_extract_cutoffs ⟨t⟩).nr, (pair_extract_cutoffs ⟨t⟩).cutoff) = withDefaults (t.nr, t.cutoff) 1001 10 := by
  rw [C11_code_pair_defaults]; rfl

open Atsim.Gen.Logic in
/-- **code tie (EAM defaults)**: additionally `cutoff_rho = 100.0`, `nrho = 1001` -/
theorem C11_code_eam_defaults (t : TabSec) :
    eam_extract_cutoffs ⟨t⟩ = ⟨t.cutoff.getD 10, t.nr.getD 1001, t.cutoff_rho.getD 100, t.nrho.getD 1001⟩ := by
  unfold eam_extract_cutoffs
  rw [C11_code_pair_defaults]
  cases h1 : t.cutoff_rho <;> cases h2 : t.nrho <;> simp [h1, h2]

open Atsim.Gen.Logic in
/-- **code tie (DL_POLY)**: refused unless the row count (after defaults) is a multiple of four greater than four; otherwise the defaults, unchanged -/
theorem C11_code_dlpoly_cutoffs (t : TabSec) :
    dlpoly_extract_cutoffs ⟨t⟩ =
      if (t.nr.getD 1001) % 4 ≠ 0 then .error FactoryErr.notMultipleOfFour
      else if t.nr.getD 1001 ≤ 4 then .error FactoryErr.fourRowsOrFewer
      else .ok ⟨t.cutoff.getD 10, t.nr.getD 1001⟩ := by
  unfold dlpoly_extract_cutoffs
  rw [C11_code_pair_defaults]
  by_cases h : (t.nr.getD 1001) % 4 = 0 <;> by_cases h' : t.nr.getD 1001 ≤ 4 <;> simp [h, h']

open Atsim.Gen.Logic in
/-- **code tie (LAMMPS)**: refused when fewer than three grid points are asked for (two rows are needed: the first grid point, r = 0, is not written) -/
theorem C11_code_lammps_cutoffs (t : TabSec) :
    lammps_extract_cutoffs ⟨t⟩ =
      if t.nr.getD 1001 < 3 then .error FactoryErr.fewerThanThreePoints else .ok ⟨t.cutoff.getD 10, t.nr.getD 1001⟩ := by
  unfold lammps_extract_cutoffs
  rw [C11_code_pair_defaults]
  by_cases h : t.nr.getD 1001 < 3 <;> simp [h]


open Atsim.Gen.Logic in
/-- **code tie (from the [Tabulation] values to the constructor)**: `PairTabulationFactory.create_tabulation` as regenerated hands the tabulation class exactly the pair
objects, the cutoff and the row count that `extract_cutoffs` fixed - the grid of the object that is written is the one the section (with its defaults) determines -/
theorem C11_code_create_tabulation_pair (pairObjects : Unit → Unit → CpRec → Except FactoryErr (List PotObj))
    (tabClass : (List PotObj × Rat × Int) → TabObj) (t : TabSec) :
    pair_create_tabulation pairObjects tabClass ⟨t⟩ =
      (match pairObjects () () ⟨t⟩ with
       | .error e => .error e
       | .ok pots => .ok (tabClass (pots, t.cutoff.getD 10, t.nr.getD 1001))) := by
  unfold pair_create_tabulation pair_extract_potential_objects pair_extract_tabulation_args
  rw [C11_code_pair_defaults]
  cases pairObjects () () ⟨t⟩ <;> rfl

open Atsim.Gen.Logic in
/-- **code tie (DL_POLY factory)**: a row count the DL_POLY layout cannot hold is refused BEFORE any potential object is built; otherwise as the pair factory -/
theorem C11_code_create_tabulation_dlpoly (pairObjects : Unit → Unit → CpRec → Except FactoryErr (List PotObj))
    (tabClass : (List PotObj × Rat × Int) → TabObj) (t : TabSec) :
    dlpoly_create_tabulation pairObjects tabClass ⟨t⟩ =
      if (t.nr.getD 1001) % 4 ≠ 0 then .error FactoryErr.notMultipleOfFour
      else if t.nr.getD 1001 ≤ 4 then .error FactoryErr.fourRowsOrFewer
      else (match pairObjects () () ⟨t⟩ with
       | .error e => .error e
       | .ok pots => .ok (tabClass (pots, t.cutoff.getD 10, t.nr.getD 1001))) := by
  unfold dlpoly_create_tabulation pair_extract_potential_objects pair_extract_tabulation_args
  rw [C11_code_dlpoly_cutoffs]
  by_cases h : (t.nr.getD 1001) % 4 = 0 <;> by_cases h' : t.nr.getD 1001 ≤ 4 <;> simp only [h, h', andThen, ne_eq, not_true_eq_false, not_false_eq_true, if_true, if_false]
  cases pairObjects () () ⟨t⟩ <;> rfl

open Atsim.Gen.Logic in
/-- **code tie (LAMMPS factory)** -/
theorem C11_code_create_tabulation_lammps (pairObjects : Unit → Unit → CpRec → Except FactoryErr (List PotObj))
    (tabClass : (List PotObj × Rat × Int) → TabObj) (t : TabSec) :
    lammps_create_tabulation pairObjects tabClass ⟨t⟩ =
      if t.nr.getD 1001 < 3 then .error FactoryErr.fewerThanThreePoints
      else (match pairObjects () () ⟨t⟩ with
       | .error e => .error e
       | .ok pots => .ok (tabClass (pots, t.cutoff.getD 10, t.nr.getD 1001))) := by
  unfold lammps_create_tabulation pair_extract_potential_objects pair_extract_tabulation_args
  rw [C11_code_lammps_cutoffs]
  by_cases h : t.nr.getD 1001 < 3 <;> simp only [h, andThen, if_true, if_false]
  cases pairObjects () () ⟨t⟩ <;> rfl

open Atsim.Gen.Logic in
/-- **code tie (EAM factories)**: the six constructor arguments are the pair objects, the EAM objects of the builder, and the four grid values in the order
`cutoff, nr, cutoff_rho, nrho` - none swapped, each from its own key of the section -/
theorem C11_code_create_tabulation_eam (pairObjects : Unit → Unit → CpRec → Except FactoryErr (List PotObj)) (mkRefData : CpRec → RefObj)
    (eamBuilder : CpRec → Unit → Unit → RefObj → Except FactoryErr BuilderObj) (eamPotentialsOf : BuilderObj → List EamRec)
    (tabClass : (List PotObj × List EamRec × Rat × Int × Rat × Int) → TabObj) (t : TabSec) :
    eam_create_tabulation pairObjects mkRefData eamBuilder eamPotentialsOf tabClass ⟨t⟩ =
      (match pairObjects () () ⟨t⟩ with
       | .error e => .error e
       | .ok pots => match eamBuilder ⟨t⟩ () () (mkRefData ⟨t⟩) with
         | .error e => .error e
         | .ok b => .ok (tabClass (pots, eamPotentialsOf b, t.cutoff.getD 10, t.nr.getD 1001, t.cutoff_rho.getD 100, t.nrho.getD 1001))) := by
  unfold eam_create_tabulation pair_extract_potential_objects eam_extract_tabulation_args
  rw [C11_code_eam_defaults]
  cases pairObjects () () ⟨t⟩ with
  | error e => rfl
  | ok pots =>
    simp only [andThen]
    cases eamBuilder ⟨t⟩ () () (mkRefData ⟨t⟩) <;> rfl


end Atsim.C11
