import AtsimModel.Model.Eam
import Mathlib.Tactic.Ring
import Mathlib.Tactic.Linarith
import Mathlib.Tactic.NormNum
import Mathlib.Data.Rat.Defs
import Mathlib.Algebra.Order.Field.Rat
import Mathlib.Data.String.Basic
import Mathlib.Data.List.Nodup
import AtsimModel.Lemmas.KernelQ
import AtsimModel.Lemmas.TokSem
/-!
# C05 — DL_POLY TABEAM: declared function count, block headers and values

Theorems about `Atsim.tabeam` (`writeTABEAM`, `writeTABEAMFinnisSinclair`) for element lists of ANY
length.  Tie to the code: `harness/props/C05.py`.
-/
namespace Atsim.C05
open Atsim

/-! ### records of four -/

theorem rowsOf4_flatten (l : List Slot) : (rowsOf4 l).flatten = l := by
  fun_induction rowsOf4 l with
  | case1 a b c d rest ih => simp [ih]
  | case2 => rfl
  | case3 l h1 h2 => simp

/-- every record holds at most four values and no record is empty -/
theorem rowsOf4_sizes (l : List Slot) : ∀ r ∈ rowsOf4 l, 1 ≤ r.length ∧ r.length ≤ 4 := by
  fun_induction rowsOf4 l with
  | case1 a b c d rest ih =>
    intro r hr
    rcases List.mem_cons.1 hr with h | h
    · subst h; simp
    · exact ih r h
  | case2 => intro r hr; simp at hr
  | case3 l h1 h2 =>
    intro r hr
    simp only [List.mem_singleton] at hr
    subst hr
    match r, h1, h2 with
    | [], _, h2 => exact absurd rfl h2
    | [_], _, _ => simp
    | [_, _], _, _ => simp
    | [_, _, _], _, _ => simp
    | a :: b :: c :: d :: rest, h1, _ => exact absurd rfl (h1 a b c d rest)

/-! ### block header agrees with block body -/

/-- a block header `kw species n 0.0 (n-1)*step` is followed by exactly `n` values, the `k`-th being the
    block's own function at `k*step` -/
theorem C05_header_body (kw : String) (sp : List Sp) (f : Fid) (n : Nat) (step : Rat) :
    let b := tblock kw sp f n step
    b.n = n ∧ b.lo = 0 ∧ b.hi = ((n : Rat) - 1) * step ∧ b.rows.flatten.length = n ∧
    ∀ k (h : k < b.rows.flatten.length), b.rows.flatten[k] = mkSlot f ((k : Rat) * step) := by
  simp only [tblock, rowsOf4_flatten, sampled, List.length_map, List.length_range, List.getElem_map,
    List.getElem_range, true_and]
  intro k h
  trivial

/-! ### the number of functions -/

theorem tri_length (l : List Sp) : (tri l).length * 2 = l.length * (l.length + 1) := by
  induction l with
  | nil => simp [tri]
  | cons a rest ih =>
    simp only [tri, List.length_append, List.length_map, List.length_cons]
    rw [Nat.add_mul, ih]
    ring

theorem insertSp_length (x : Sp) (l : List Sp) : (insertSp x l).length = l.length + 1 := by
  induction l with
  | nil => simp [insertSp]
  | cons y ys ih =>
    simp only [insertSp]
    split <;> simp [ih]

theorem sortSp_length (l : List Sp) : (sortSp l).length = l.length := by
  induction l with
  | nil => simp [sortSp]
  | cons a rest ih =>
    have : sortSp (a :: rest) = insertSp a (sortSp rest) := rfl
    rw [this, insertSp_length, ih]; simp

theorem tabeamPairs_length (els : List El) (pairs : List PairDecl) (nr : Nat) (dr : Rat) :
    (tabeamPairs els pairs nr dr).length * 2 = els.length * (els.length + 1) := by
  simp only [tabeamPairs, List.length_map]
  rw [tri_length, sortSp_length, List.length_map]

theorem length_flatMap_const {α β : Type} (l : List α) (f : α → List β) (k : Nat)
    (h : ∀ a, (f a).length = k) : (l.flatMap f).length = l.length * k := by
  induction l with
  | nil => simp
  | cons a rest ih =>
    simp only [List.flatMap_cons, List.length_append, ih, h, List.length_cons]
    ring

/-- EAM: `n(n+1)/2` pair blocks + `n` embe + `n` dens blocks are emitted, and that is the declared count `n(n+5)/2` -/
theorem C05_count_eam (nrho : Nat) (drho : Rat) (nr : Nat) (dr : Rat) (els : List El) (pairs : List PairDecl) :
    (tabeam false nrho drho nr dr els pairs).blocks.length = (tabeam false nrho drho nr dr els pairs).declared ∧
    (tabeam false nrho drho nr dr els pairs).declared * 2 = els.length * (els.length + 5) := by
  have hT := tabeamPairs_length els pairs nr dr
  simp only [tabeam, Bool.false_eq_true, if_false, List.length_append, List.length_map]
  generalize (tabeamPairs els pairs nr dr).length = T at hT ⊢
  generalize els.length = n at hT ⊢
  have h1 : n * (n + 5) = 2 * (T + n + n) := by
    have : n * (n + 5) = n * (n + 1) + 4 * n := by ring
    omega
  generalize n * (n + 5) = m at h1 ⊢
  omega

/-- EEAM: `n(n+1)/2 + n + n²` blocks are emitted, and that is the declared count `3n(n+1)/2` -/
theorem C05_count_eeam (nrho : Nat) (drho : Rat) (nr : Nat) (dr : Rat) (els : List El) (pairs : List PairDecl) :
    (tabeam true nrho drho nr dr els pairs).blocks.length = (tabeam true nrho drho nr dr els pairs).declared ∧
    (tabeam true nrho drho nr dr els pairs).declared * 2 = 3 * els.length * (els.length + 1) := by
  have hT := tabeamPairs_length els pairs nr dr
  simp only [tabeam, if_true, List.length_append, List.length_map]
  rw [length_flatMap_const els _ els.length (by intro a; simp [sortSp_length])]
  generalize (tabeamPairs els pairs nr dr).length = T at hT ⊢
  generalize els.length = n at hT ⊢
  have h1 : 3 * n * (n + 1) = 2 * (T + n + n * n) := by
    have : 3 * n * (n + 1) = n * (n + 1) + 2 * n + 2 * (n * n) := by ring
    omega
  generalize 3 * n * (n + 1) = m at h1 ⊢
  omega

/-! ### exactly one pair block per unordered element pair -/

theorem mem_tri (l : List Sp) (a b : Sp) : (a, b) ∈ tri l → a ∈ l ∧ b ∈ l := by
  induction l with
  | nil => simp [tri]
  | cons x rest ih =>
    simp only [tri, List.mem_append, List.mem_map, Prod.mk.injEq]
    rintro (⟨c, hc, rfl, rfl⟩ | h)
    · exact ⟨List.mem_cons_self, hc⟩
    · exact ⟨List.mem_cons_of_mem _ (ih h).1, List.mem_cons_of_mem _ (ih h).2⟩

/-- every unordered pair of listed species occurs (one way round or the other) -/
theorem tri_complete (l : List Sp) (a b : Sp) (ha : a ∈ l) (hb : b ∈ l) : (a, b) ∈ tri l ∨ (b, a) ∈ tri l := by
  induction l with
  | nil => simp at ha
  | cons x rest ih =>
    simp only [tri, List.mem_append, List.mem_map, Prod.mk.injEq]
    rcases List.mem_cons.1 ha with rfl | ha'
    · exact Or.inl (Or.inl ⟨b, hb, rfl, rfl⟩)
    · rcases List.mem_cons.1 hb with rfl | hb'
      · exact Or.inr (Or.inl ⟨a, ha, rfl, rfl⟩)
      · rcases ih ha' hb' with h | h
        · exact Or.inl (Or.inr h)
        · exact Or.inr (Or.inr h)

/-- … and only once: no key is repeated, and a key and its reversal are never both present (except `(a, a)`) -/
theorem tri_nodup (l : List Sp) (h : l.Nodup) : (tri l).Nodup := by
  induction l with
  | nil => simp [tri]
  | cons x rest ih =>
    have hx : x ∉ rest := (List.nodup_cons.1 h).1
    have hr : rest.Nodup := (List.nodup_cons.1 h).2
    simp only [tri]
    rw [List.nodup_append]
    refine ⟨?_, ih hr, ?_⟩
    · exact List.Nodup.map (fun b c hbc => (Prod.mk.inj hbc).2) h
    · intro p hp q hq hpq
      subst hpq
      obtain ⟨c, _, rfl⟩ := List.mem_map.1 hp
      exact hx (mem_tri rest x c hq).1

theorem tri_no_reversal (l : List Sp) (h : l.Nodup) (a b : Sp) (hab : a ≠ b) (h1 : (a, b) ∈ tri l) : (b, a) ∉ tri l := by
  induction l with
  | nil => simp [tri] at h1
  | cons x rest ih =>
    have hx : x ∉ rest := (List.nodup_cons.1 h).1
    have hr : rest.Nodup := (List.nodup_cons.1 h).2
    simp only [tri, List.mem_append, List.mem_map, Prod.mk.injEq] at h1 ⊢
    rintro (⟨c, hc, rfl, rfl⟩ | h2)
    · rcases h1 with ⟨d, hd, rfl, rfl⟩ | h1
      · exact hab rfl
      · exact hx (mem_tri rest _ _ h1).2
    · rcases h1 with ⟨d, hd, rfl, rfl⟩ | h1
      · exact hx (mem_tri rest _ _ h2).2
      · exact ih hr h1 h2

/-- each pair block is the declared potential for that key (found whichever way round it was declared, header in the
    declared label order) or the zero function under the sorted key -/
theorem C05_pair_block (els : List El) (pairs : List PairDecl) (nr : Nat) (dr : Rat) :
    (tabeamPairs els pairs nr dr).length = (tri (sortSp (els.map (·.sp)))).length ∧
    ∀ i (h : i < (tabeamPairs els pairs nr dr).length) (h' : i < (tri (sortSp (els.map (·.sp)))).length),
      let k := (tri (sortSp (els.map (·.sp))))[i]
      ((∃ p ∈ pairs, pairKey p.a p.b = k ∧ (tabeamPairs els pairs nr dr)[i] = tblock "pair" [p.a, p.b] p.fid nr dr) ∨
       ((∀ p ∈ pairs, pairKey p.a p.b ≠ k) ∧ (tabeamPairs els pairs nr dr)[i] = tblock "pair" [k.1, k.2] 0 nr dr)) := by
  refine ⟨by simp [tabeamPairs], ?_⟩
  intro i h h'
  simp only [tabeamPairs, List.getElem_map]
  cases hf : pairs.reverse.find? (fun p => pairKey p.a p.b == (tri (sortSp (els.map (·.sp))))[i]) with
  | some p =>
    left
    refine ⟨p, ?_, ?_, rfl⟩
    · exact List.mem_reverse.1 (List.mem_of_find?_eq_some hf)
    · have := List.find?_some hf
      simpa using this
  | none =>
    right
    refine ⟨?_, rfl⟩
    intro p hp
    have := List.find?_eq_none.1 hf p (List.mem_reverse.2 hp)
    simpa using this

/-- the embe and dens blocks: one per element in list order (EAM) -/
theorem C05_embe_dens_blocks (nrho : Nat) (drho : Rat) (nr : Nat) (dr : Rat) (els : List El) (pairs : List PairDecl) :
    (tabeam false nrho drho nr dr els pairs).blocks =
      tabeamPairs els pairs nr dr ++ (els.map fun e => tblock "embe" [e.sp] e.embed nrho drho)
        ++ (els.map fun e => tblock "dens" [e.sp] e.dens nr dr) := by
  rfl

/-! ### non-vacuity -/
example : (tabeam false 3 1 5 (1/2) [⟨"Zr", 40, 91, 3, "hcp", 1, 2, []⟩, ⟨"Al", 13, 27, 4, "fcc", 3, 4, []⟩] [⟨"Zr", "Al", 7⟩]).blocks.map
    (fun b => (b.kw, b.species, b.n, b.hi, b.rows.map (·.length)))
  = [("pair", ["Al", "Al"], 5, 2, [4, 1]), ("pair", ["Zr", "Al"], 5, 2, [4, 1]), ("pair", ["Zr", "Zr"], 5, 2, [4, 1]),
     ("embe", ["Zr"], 3, 2, [3]), ("embe", ["Al"], 3, 2, [3]), ("dens", ["Zr"], 5, 2, [4, 1]), ("dens", ["Al"], 5, 2, [4, 1])] := by
  decide +kernel

end Atsim.C05

/-! ## kernel ties: the arithmetic the code uses at these places, regenerated from the source on every run, is the model's -/
namespace Atsim.C05
open Atsim.Gen Atsim.E
set_option linter.unusedTactic false
set_option linter.unusedSimpArgs false
theorem C05_kernel_args (nrho : Nat) (drho : Rat) (nr : Nat) (dr : Rat) :
    k_tabeam_args.map (evalQ (envQ [nrho, drho, nr, dr])) = [(nrho : Rat), drho, (nr : Rat), dr] := by
  kernel_unfold [k_tabeam_args]
  kernel_close
theorem C05_kernel_sample (i : Nat) (step : Rat) : evalQ (envQ [i, step]) k_tabeam_sample = (i : Rat) * step := by
  kernel_unfold [k_tabeam_sample]
  kernel_close
/-- the end-of-range printed in every block header is `(n - 1) * step` = `tblock.hi` -/
theorem C05_kernel_ends (kw : String) (sp : List Sp) (f : Fid) (n : Nat) (step : Rat) :
    evalQ (envQ [n, step]) k_tabeam_embe_end = (tblock kw sp f n step).hi ∧ evalQ (envQ [n, step]) k_tabeam_dens_end = (tblock kw sp f n step).hi ∧
    evalQ (envQ [n, step]) k_tabeam_dens_end_fs = (tblock kw sp f n step).hi ∧ evalQ (envQ [n, step]) k_tabeam_pair_end = (tblock kw sp f n step).hi := by
  refine ⟨?_, ?_, ?_, ?_⟩
  · kernel_unfold [k_tabeam_embe_end, tblock]
    kernel_close
  · kernel_unfold [k_tabeam_dens_end, tblock]
    kernel_close
  · kernel_unfold [k_tabeam_dens_end_fs, tblock]
    kernel_close
  · kernel_unfold [k_tabeam_pair_end, tblock]
    kernel_close
/-- declared number of functions: the code's true division `n*(n+5)/2` and `3*n*(n+1)/2` are whole numbers and equal the model's counts -/
theorem C05_kernel_counts (n : Nat) :
    evalQ (envQ [n]) k_tabeam_numpots = ((n * (n + 5) / 2 : Nat) : Rat) ∧
    evalQ (envQ [n]) k_tabeam_numpots_fs = ((3 * n * (n + 1) / 2 : Nat) : Rat) := by
  have h1 : 2 ∣ n * (n + 5) := by
    rcases Nat.even_or_odd n with ⟨k, hk⟩ | ⟨k, hk⟩
    · exact ⟨k * (n + 5), by rw [hk]; ring⟩
    · exact ⟨n * (k + 3), by rw [hk]; ring⟩
  have h2 : 2 ∣ 3 * n * (n + 1) := by
    rcases Nat.even_or_odd n with ⟨k, hk⟩ | ⟨k, hk⟩
    · exact ⟨3 * k * (n + 1), by rw [hk]; ring⟩
    · exact ⟨3 * n * (k + 1), by rw [hk]; ring⟩
  constructor
  · rw [Nat.cast_div h1 (by norm_num)]
    kernel_unfold [k_tabeam_numpots]
    push_cast
    kernel_close
  · rw [Nat.cast_div h2 (by norm_num)]
    kernel_unfold [k_tabeam_numpots_fs]
    push_cast
    kernel_close
/-! ## The code itself: the TABEAM writer's pieces regenerated from the source

`Atsim.Gen.Logic.tabeam_tabulate / tabeam_embedding / tabeam_density` are `_dlpoly_writeTABEAM._tabulateFunction / _writeEmbeddingFunction / _writeDensityFunction`
as produced by `translator/py2lean_logic.py` on every run.  For every function, point count, step and prior stream content, and under every interpretation of the
callables that maps function id 0 to zero (`Lemmas/TokSem.lean`), what the code writes means what the model's `tblock` says: the header line names the species and
gives `n`, start `0.0` and end `(n-1)*step`, and is followed by exactly the `n` values `f(i*step)` in records of four (`"%f %f %f %f"`), a shorter last record
holding the remainder. -/
namespace TabeamWriter
open Atsim.Gen.Logic Atsim.TokSem

/-- one record of a TABEAM block: up to four `%f` fields -/
def rowLine (I : String → Nat → Rat → Rat) (g : List Slot) : String × List (Option String × Rat) :=
  (" ".intercalate (g.map fun _ => "%f") ++ "\n", g.map fun s => (none, slotVal I "value" s))

/-- records of four over any element type (the shape of `rowsOf4`) -/
def chunks4 {α : Type} : List α → List (List α)
  | a :: b :: c :: d :: rest => [a, b, c, d] :: chunks4 rest
  | [] => []
  | l => [l]

theorem rowsOf4_eq_chunks4 : ∀ l : List Slot, rowsOf4 l = chunks4 l
  | a :: b :: c :: d :: rest => by simp [rowsOf4, chunks4, rowsOf4_eq_chunks4 rest]
  | [] => rfl
  | [_] => rfl
  | [_, _] => rfl
  | [_, _, _] => rfl

theorem chunks4_map {α β : Type} (g : α → β) : ∀ l : List α, chunks4 (l.map g) = (chunks4 l).map (List.map g)
  | a :: b :: c :: d :: rest => by simp [chunks4, chunks4_map g rest]
  | [] => rfl
  | [_] => rfl
  | [_, _] => rfl
  | [_, _, _] => rfl

/-- the `%f` piece the loop appends to the current row -/
def valTok (f : FnRec) (step : Rat) (i : Int) : Tok := Tok.mk "%f" [evalFnOV f ((i : Rat) * step)]

/-- a finished row: `" ".join(row) + "\n"` -/
def rowTok (row : List Tok) : Tok := tokSuffix (joinToks " " row) "\n"

theorem intRange_zero (n : Nat) : intRange 0 (n : Int) = (List.range n).map fun (k : Nat) => (k : Int) := by
  simp [intRange]

theorem streamSem_append (I : String → Nat → Rat → Rat) (a b : List Tok) : streamSem I (a ++ b) = streamSem I a ++ streamSem I b := by
  simp [streamSem]

/-- the loop: with fewer than four pieces pending in `row`, the rest of the run emits the records of four of `row ++ remaining pieces` -/
theorem tabulate_loop_eq (f : FnRec) (n : Int) (outfile : List Tok) (step : Rat) :
    ∀ (xs : List Int) (ob row : List Tok), row.length < 4 →
      tabeam_tabulate_loop1 f n ob outfile row step xs =
        outfile ++ (ob ++ (chunks4 (row ++ xs.map (valTok f step))).map rowTok) := by
  intro xs
  induction xs with
  | nil =>
    intro ob row h
    match row, h with
    | [], _ => simp [tabeam_tabulate_loop1, chunks4]
    | [_], _ => simp [tabeam_tabulate_loop1, chunks4, rowTok]
    | [_, _], _ => simp [tabeam_tabulate_loop1, chunks4, rowTok]
    | [_, _, _], _ => simp [tabeam_tabulate_loop1, chunks4, rowTok]
    | _ :: _ :: _ :: _ :: _, h => simp at h; omega
  | cons x xs ih =>
    intro ob row h
    match row, h with
    | [], _ =>
      have := ih ob [valTok f step x] (by simp)
      simpa [tabeam_tabulate_loop1, valTok] using this
    | [a], _ =>
      have := ih ob [a, valTok f step x] (by simp)
      simpa [tabeam_tabulate_loop1, valTok] using this
    | [a, b], _ =>
      have := ih ob [a, b, valTok f step x] (by simp)
      simpa [tabeam_tabulate_loop1, valTok] using this
    | [a, b, c], _ =>
      have := ih (ob ++ [rowTok [a, b, c, valTok f step x]]) [] (by simp)
      simpa [tabeam_tabulate_loop1, valTok, chunks4, rowTok] using this
    | _ :: _ :: _ :: _ :: _, h => simp at h; omega

/-- a written row means the model's record: as many `%f` fields as slots, each the function's value (function id 0 is the zero function) -/
theorem tokSem_row (I : String → Nat → Rat → Rat) (hI : ZeroFn I) (f : Fid) (step : Rat) (g : List Nat) :
    tokSem I (rowTok (g.map fun (k : Nat) => valTok ⟨f⟩ step (k : Int))) = rowLine I (g.map fun (k : Nat) => mkSlot f ((k : Rat) * step)) := by
  have hv : ∀ x : Rat, slotVal I "value" (mkSlot f x) = I "value" f x := by
    intro x
    unfold mkSlot
    split
    · next h => subst h; simp [slotVal, hI "value" x]
    · simp [slotVal]
  unfold rowTok rowLine tokSuffix joinToks tokSem
  refine Prod.ext ?_ ?_
  · simp [List.map_map, Function.comp_def, valTok]
  · induction g with
    | nil => rfl
    | cons k ks ih => simpa [valTok, evalFnOV, ovEval, hv] using ih

end TabeamWriter

open Atsim.Gen.Logic Atsim.TokSem in
/-- **code tie**: `_tabulateFunction` appends exactly the model's records: `n` values `f(i*step)`, four per record, the remainder in a last shorter record -/
theorem C05_code_tabulate (I : String → Nat → Rat → Rat) (hI : ZeroFn I) (f : Fid) (n : Nat) (step : Rat) (out : List Tok) :
    streamSem I (tabeam_tabulate out ⟨f⟩ (n : Int) step) = streamSem I out ++ (rowsOf4 (sampled f n step)).map (TabeamWriter.rowLine I) := by
  unfold tabeam_tabulate
  rw [TabeamWriter.tabulate_loop_eq _ _ _ _ _ _ _ (by simp), TabeamWriter.streamSem_append, TabeamWriter.intRange_zero]
  congr 1
  simp only [List.nil_append, List.map_map, TabeamWriter.rowsOf4_eq_chunks4, sampled, TabeamWriter.chunks4_map, streamSem]
  apply List.map_congr_left
  intro g _
  simp only [Function.comp]
  exact TabeamWriter.tokSem_row I hI f step g

open Atsim.Gen.Logic Atsim.TokSem in
/-- **code tie**: the `embe` block: header `embe <species> <nrho> 0.0 <(nrho-1)*drho>` then the model's records of the element's own embedding function -/
theorem C05_code_embedding (I : String → Nat → Rat → Rat) (hI : ZeroFn I) (e : El) (nrho : Nat) (drho : Rat) (out : List Tok) :
    streamSem I (tabeam_embedding (toEam e) (nrho : Int) drho out) =
      streamSem I out ++ [("embe %s %d 0.0 %f\n", [(some e.sp, 0), (none, (nrho : Rat)), (none, ((nrho : Rat) - 1) * drho)])] ++
        (tblock "embe" [e.sp] e.embed nrho drho).rows.map (TabeamWriter.rowLine I) := by
  unfold tabeam_embedding
  rw [TabeamWriter.streamSem_append]
  simp only [toEam, List.nil_append, C05_code_tabulate I hI, tblock, List.append_assoc]
  simp [streamSem, tokSem, ovEval]

open Atsim.Gen.Logic Atsim.TokSem in
/-- **code tie**: a `dens` block for an ordered pair (EEAM): header `dens <A> <B> <nr> 0.0 <(nr-1)*dr>` then the model's records of the function it was handed -/
theorem C05_code_density_pair (I : String → Nat → Rat → Rat) (hI : ZeroFn I) (a b : Sp) (ha : a ≠ "") (hb : b ≠ "") (f : Fid) (nr : Nat) (dr : Rat) (out : List Tok) :
    streamSem I (tabeam_density a (some b) ⟨f⟩ (nr : Int) dr out) =
      streamSem I out ++ [("dens %s %s %d 0.0 %f\n", [(some a, 0), (some b, 0), (none, (nr : Rat)), (none, ((nr : Rat) - 1) * dr)])] ++
        (tblock "dens" [a, b] f nr dr).rows.map (TabeamWriter.rowLine I) := by
  unfold tabeam_density
  simp only [bne_iff_ne, ne_eq, ha, hb, not_false_eq_true, if_true, ite_true]
  rw [TabeamWriter.streamSem_append]
  simp only [List.nil_append, C05_code_tabulate I hI, tblock, List.append_assoc]
  simp [streamSem, tokSem, ovEval]

open Atsim.Gen.Logic Atsim.TokSem in
/-- **code tie**: a `dens` block for one species (EAM): header `dens <A> <nr> 0.0 <(nr-1)*dr>` -/
theorem C05_code_density_single (I : String → Nat → Rat → Rat) (hI : ZeroFn I) (a : Sp) (f : Fid) (nr : Nat) (dr : Rat) (out : List Tok) :
    streamSem I (tabeam_density a none ⟨f⟩ (nr : Int) dr out) =
      streamSem I out ++ [("dens %s %d 0.0 %f\n", [(some a, 0), (none, (nr : Rat)), (none, ((nr : Rat) - 1) * dr)])] ++
        (tblock "dens" [a] f nr dr).rows.map (TabeamWriter.rowLine I) := by
  unfold tabeam_density
  simp only [ite_self]
  rw [TabeamWriter.streamSem_append]
  simp only [List.nil_append, C05_code_tabulate I hI, tblock, List.append_assoc]
  simp [streamSem, tokSem, ovEval]


/-! ## helper lemmas for the whole-file theorems: the insertion sort, the orders on labels and label pairs, the set of pairs, the pair blocks -/
namespace TabeamWriter
open Atsim.Gen.Logic Atsim.TokSem

theorem rowLine_eq (I : String → Nat → Rat → Rat) : rowLine I = tabeamRow I "value" := rfl

/-! ### insertion sort -/
section sort
variable {α : Type} (le : α → α → Bool)

theorem insertBy_perm (x : α) : ∀ l : List α, (insertBy le x l).Perm (x :: l)
  | [] => by simp [insertBy]
  | y :: ys => by
    simp only [insertBy]
    split
    · exact ((insertBy_perm x ys).cons y).trans (List.Perm.swap x y ys)
    · exact List.Perm.refl _

theorem foldl_insertBy_perm : ∀ (l acc : List α), (l.foldl (fun acc x => insertBy le x acc) acc).Perm (acc ++ l)
  | [], acc => by simp
  | x :: xs, acc => by
    simp only [List.foldl_cons]
    refine (foldl_insertBy_perm xs _).trans ?_
    exact ((insertBy_perm le x acc).append_right xs).trans (by simpa using (List.perm_middle (a := x) (l₁ := acc) (l₂ := xs)).symm)

theorem stableSortBy_perm (l : List α) : (stableSortBy le l).Perm l := by
  simpa [stableSortBy] using foldl_insertBy_perm le l []

variable (htot : ∀ a b, le a b = true ∨ le b a = true) (htr : ∀ a b c, le a b = true → le b c = true → le a c = true)
include htot htr

theorem insertBy_pairwise (x : α) : ∀ l : List α, l.Pairwise (fun a b => le a b = true) → (insertBy le x l).Pairwise (fun a b => le a b = true)
  | [], _ => by simp [insertBy]
  | y :: ys, h => by
    simp only [insertBy]
    have ⟨h1, h2⟩ := List.pairwise_cons.1 h
    split
    · next hyx =>
      refine List.pairwise_cons.2 ⟨?_, insertBy_pairwise x ys h2⟩
      intro z hz
      rcases (List.mem_cons.1 ((insertBy_perm le x ys).mem_iff.1 hz)) with rfl | hz'
      · exact hyx
      · exact h1 z hz'
    · next hyx =>
      have hxy : le x y = true := (htot x y).resolve_right hyx
      refine List.pairwise_cons.2 ⟨?_, h⟩
      intro z hz
      rcases List.mem_cons.1 hz with rfl | hz'
      · exact hxy
      · exact htr _ _ _ hxy (h1 z hz')

theorem foldl_insertBy_pairwise : ∀ (l acc : List α), acc.Pairwise (fun a b => le a b = true) →
    (l.foldl (fun acc x => insertBy le x acc) acc).Pairwise (fun a b => le a b = true)
  | [], acc, h => by simpa using h
  | x :: xs, acc, h => by
    simp only [List.foldl_cons]
    exact foldl_insertBy_pairwise xs _ (insertBy_pairwise le htot htr x acc h)

/-- the sort yields THE sorted arrangement of its input -/
theorem stableSortBy_eq (hanti : ∀ a b, le a b = true → le b a = true → a = b) (l t : List α) (hp : l.Perm t)
    (hs : t.Pairwise (fun a b => le a b = true)) : stableSortBy le l = t :=
  List.Perm.eq_of_pairwise (fun a b _ _ => hanti a b)
    (by simpa [stableSortBy] using foldl_insertBy_pairwise le htot htr l [] List.Pairwise.nil) hs
    ((stableSortBy_perm le l).trans hp)
end sort

/-! ### the orders the code sorts by -/
section pairs
attribute [-instance] List.LE'

/-- the code's comparison of label lists (`sorted(pairs)`) -/
abbrev leL : List String → List String → Bool := fun a b => decide (a ≤ b)
/-- the code's comparison of labels (`sorted([a, b])`) -/
abbrev leS : String → String → Bool := fun a b => decide (a ≤ b)

def toL (k : Sp × Sp) : List String := [k.1, k.2]

theorem toL_injective : Function.Injective toL := by
  rintro ⟨a, b⟩ ⟨c, d⟩ h
  simp [toL] at h
  simp [h]

theorem leL_total (a b : List String) : leL a b = true ∨ leL b a = true := by
  simpa [leL] using List.le_total a b

theorem leL_trans (a b c : List String) : leL a b = true → leL b c = true → leL a c = true := by
  simp only [leL, decide_eq_true_eq]
  exact List.le_trans

theorem leL_antisymm (a b : List String) : leL a b = true → leL b a = true → a = b := by
  simp only [leL, decide_eq_true_eq]
  exact List.le_antisymm

theorem sort2_eq (a b : String) : stableSortBy leS [a, b] = toL (pairKey a b) := by
  simp only [stableSortBy, List.foldl_cons, List.foldl_nil, insertBy, leS, decide_eq_true_eq, pairKey, toL]
  split <;> rfl

theorem str_lt_of_le_of_ne {b d : String} (h : b ≤ d) (hne : b ≠ d) : b < d := by
  apply Classical.byContradiction
  intro hn
  exact hne (String.le_antisymm h (String.not_lt.1 hn))

theorem toL_le_of_lt (a b c d : String) (h : a < c) : leL (toL (a, b)) (toL (c, d)) = true :=
  decide_eq_true (List.cons_le_cons_iff.2 (Or.inl h))

theorem toL_le_of_le (a b d : String) (h : b ≤ d) : leL (toL (a, b)) (toL (a, d)) = true := by
  refine decide_eq_true (List.cons_le_cons_iff.2 (Or.inr ⟨rfl, List.cons_le_cons_iff.2 ?_⟩))
  by_cases hbd : b = d
  · exact Or.inr ⟨hbd, List.le_refl _⟩
  · exact Or.inl (str_lt_of_le_of_ne h hbd)
/-! ### the model's enumeration is sorted -/

theorem str_le_of_lt {a b : String} (h : a < b) : a ≤ b := le_of_lt h

theorem insertSp_perm (x : Sp) : ∀ l : List Sp, (insertSp x l).Perm (x :: l)
  | [] => by simp [insertSp]
  | y :: ys => by
    simp only [insertSp]
    split
    · exact List.Perm.refl _
    · exact ((insertSp_perm x ys).cons y).trans (List.Perm.swap x y ys)

theorem sortSp_cons (a : Sp) (l : List Sp) : sortSp (a :: l) = insertSp a (sortSp l) := rfl

theorem sortSp_perm : ∀ l : List Sp, (sortSp l).Perm l
  | [] => by simp [sortSp]
  | a :: rest => by
    rw [sortSp_cons]
    exact (insertSp_perm a _).trans ((sortSp_perm rest).cons a)

theorem insertSp_sorted (x : Sp) : ∀ l : List Sp, l.Pairwise (· ≤ ·) → (insertSp x l).Pairwise (· ≤ ·)
  | [], _ => by simp [insertSp]
  | y :: ys, h => by
    simp only [insertSp]
    have ⟨h1, h2⟩ := List.pairwise_cons.1 h
    split
    · next hxy =>
      refine List.pairwise_cons.2 ⟨?_, h⟩
      intro z hz
      rcases List.mem_cons.1 hz with rfl | hz'
      · exact hxy
      · exact String.le_trans hxy (h1 z hz')
    · next hxy =>
      have hyx : y ≤ x := (String.le_total y x).resolve_right hxy
      refine List.pairwise_cons.2 ⟨?_, insertSp_sorted x ys h2⟩
      intro z hz
      rcases (List.mem_cons.1 ((insertSp_perm x ys).mem_iff.1 hz)) with rfl | hz'
      · exact hyx
      · exact h1 z hz'

theorem sortSp_sorted : ∀ l : List Sp, (sortSp l).Pairwise (· ≤ ·)
  | [] => by simp [sortSp]
  | a :: rest => by
    rw [sortSp_cons]
    exact insertSp_sorted a _ (sortSp_sorted rest)

theorem sortSp_strict (l : List Sp) (h : l.Nodup) : (sortSp l).Pairwise (· < ·) := by
  have hn : (sortSp l).Nodup := (sortSp_perm l).nodup_iff.2 h
  exact ((sortSp_sorted l).and hn).imp (fun ⟨h1, h2⟩ => str_lt_of_le_of_ne h1 h2)

/-- in a strictly sorted list the enumeration lists exactly the ordered pairs of members -/
theorem mem_tri_sorted (l : List Sp) (h : l.Pairwise (· < ·)) (a b : Sp) : (a, b) ∈ tri l ↔ a ∈ l ∧ b ∈ l ∧ a ≤ b := by
  have hle : ∀ a b, (a, b) ∈ tri l → a ≤ b := by
    induction l with
    | nil => simp [tri]
    | cons x rest ih =>
      have ⟨h1, h2⟩ := List.pairwise_cons.1 h
      intro a b
      simp only [tri, List.mem_append, List.mem_map, Prod.mk.injEq]
      rintro (⟨c, hc, rfl, rfl⟩ | hab)
      · rcases List.mem_cons.1 hc with rfl | hc'
        · exact String.le_refl _
        · exact str_le_of_lt (h1 _ hc')
      · exact ih h2 a b hab
  constructor
  · intro hab
    exact ⟨(mem_tri l a b hab).1, (mem_tri l a b hab).2, hle a b hab⟩
  · rintro ⟨ha, hb, hab⟩
    rcases tri_complete l a b ha hb with h' | h'
    · exact h'
    · have : a = b := String.le_antisymm hab (hle b a h')
      subst this; exact h'

theorem tri_map_sorted (l : List Sp) (h : l.Pairwise (· < ·)) : ((tri l).map toL).Pairwise (fun a b => leL a b = true) := by
  induction l with
  | nil => simp [tri]
  | cons x rest ih =>
    have ⟨h1, h2⟩ := List.pairwise_cons.1 h
    simp only [tri, List.map_append, List.map_map]
    rw [List.pairwise_append]
    refine ⟨?_, ih h2, ?_⟩
    · rw [List.pairwise_map]
      have hle : (x :: rest).Pairwise (· ≤ ·) := h.imp str_le_of_lt
      exact hle.imp (fun hbc => toL_le_of_le x _ _ hbc)
    · intro p hp q hq
      obtain ⟨b, _, rfl⟩ := List.mem_map.1 hp
      obtain ⟨⟨c, d⟩, hcd, rfl⟩ := List.mem_map.1 hq
      exact toL_le_of_lt x b c d (h1 c (mem_tri rest c d hcd).1)
/-! ### the set of sorted label pairs the code collects -/

theorem mem_setAdd {α : Type} [BEq α] [LawfulBEq α] (s : List α) (x y : α) : y ∈ setAdd s x ↔ y ∈ s ∨ y = x := by
  unfold setAdd
  split
  · next h =>
    have hx : x ∈ s := by simpa using h
    constructor
    · exact Or.inl
    · rintro (h' | rfl)
      · exact h'
      · exact hx
  · simp

theorem nodup_setAdd {α : Type} [BEq α] [LawfulBEq α] (s : List α) (x : α) (h : s.Nodup) : (setAdd s x).Nodup := by
  unfold setAdd
  split
  · exact h
  · next hx =>
    have hx' : x ∉ s := by simpa using hx
    rw [List.nodup_append]
    refine ⟨h, by simp, ?_⟩
    intro a ha b hb hab
    simp only [List.mem_singleton] at hb
    subst hb; subst hab
    exact hx' ha

theorem pairs_loop2_spec (dr : Rat) (E : List EamRec) (i : EamRec) (nr : Int) (out : List Tok) (PP : List PotRec) :
    ∀ (js : List EamRec) (acc : List (List String)), acc.Nodup →
      (tabeam_pair_potentials_loop2 dr E i nr out PP acc js).Nodup ∧
      ∀ x, x ∈ tabeam_pair_potentials_loop2 dr E i nr out PP acc js ↔
        x ∈ acc ∨ ∃ j ∈ js, x = toL (pairKey i.species j.species)
  | [], acc, h => by simp [tabeam_pair_potentials_loop2, h]
  | j :: js, acc, h => by
    simp only [tabeam_pair_potentials_loop2]
    have := pairs_loop2_spec dr E i nr out PP js _ (nodup_setAdd acc (stableSortBy leS [i.species, j.species]) h)
    refine ⟨this.1, ?_⟩
    intro x
    rw [this.2 x, mem_setAdd, sort2_eq]
    simp only [List.mem_cons, exists_eq_or_imp]
    tauto

theorem pairs_loop1_spec (dr : Rat) (E : List EamRec) (nr : Int) (out : List Tok) (PP : List PotRec) :
    ∀ (is : List EamRec) (acc : List (List String)), acc.Nodup →
      (tabeam_pair_potentials_loop1 dr E nr out PP acc is).Nodup ∧
      ∀ x, x ∈ tabeam_pair_potentials_loop1 dr E nr out PP acc is ↔
        x ∈ acc ∨ ∃ i ∈ is, ∃ j ∈ E, x = toL (pairKey i.species j.species)
  | [], acc, h => by simp [tabeam_pair_potentials_loop1, h]
  | i :: is, acc, h => by
    simp only [tabeam_pair_potentials_loop1]
    have h2 := pairs_loop2_spec dr E i nr out PP E acc h
    have := pairs_loop1_spec dr E nr out PP is _ h2.1
    refine ⟨this.1, ?_⟩
    intro x
    rw [this.2 x, h2.2 x]
    simp only [List.mem_cons, exists_eq_or_imp]
    exact or_assoc
/-- `sorted(pairs)` is the model's enumeration -/
theorem sorted_pairs_eq (els : List El) (hnd : (els.map (·.sp)).Nodup) (dr : Rat) (nr : Int) (out : List Tok) (PP : List PotRec) :
    stableSortBy leL (tabeam_pair_potentials_loop1 dr (els.map toEam) nr out PP [] (els.map toEam)) =
      (tri (sortSp (els.map (·.sp)))).map toL := by
  have hS : (sortSp (els.map (·.sp))).Pairwise (· < ·) := sortSp_strict _ hnd
  have hSn : (sortSp (els.map (·.sp))).Nodup := (sortSp_perm _).nodup_iff.2 hnd
  have hmemS : ∀ a, a ∈ sortSp (els.map (·.sp)) ↔ ∃ e ∈ els, e.sp = a := by
    intro a
    rw [(sortSp_perm _).mem_iff, List.mem_map]
  have hspec := pairs_loop1_spec dr (els.map toEam) nr out PP (els.map toEam) [] List.nodup_nil
  apply stableSortBy_eq leL leL_total leL_trans leL_antisymm _ _ _ (tri_map_sorted _ hS)
  rw [List.perm_ext_iff_of_nodup hspec.1 ((tri_nodup _ hSn).map toL_injective)]
  intro x
  rw [hspec.2 x]
  simp only [List.not_mem_nil, false_or, List.mem_map]
  constructor
  · rintro ⟨i, ⟨ei, hei, rfl⟩, j, ⟨ej, hej, rfl⟩, rfl⟩
    refine ⟨pairKey ei.sp ej.sp, ?_, rfl⟩
    have hi : ei.sp ∈ sortSp (els.map (·.sp)) := (hmemS _).2 ⟨ei, hei, rfl⟩
    have hj : ej.sp ∈ sortSp (els.map (·.sp)) := (hmemS _).2 ⟨ej, hej, rfl⟩
    unfold pairKey
    split
    · next h => exact (mem_tri_sorted _ hS _ _).2 ⟨hi, hj, h⟩
    · next h => exact (mem_tri_sorted _ hS _ _).2 ⟨hj, hi, (String.le_total _ _).resolve_left h⟩
  · rintro ⟨⟨a, b⟩, hab, rfl⟩
    obtain ⟨ha, hb, hle⟩ := (mem_tri_sorted _ hS a b).1 hab
    obtain ⟨ei, hei, rfl⟩ := (hmemS a).1 ha
    obtain ⟨ej, hej, rfl⟩ := (hmemS b).1 hb
    refine ⟨toEam ei, ⟨ei, hei, rfl⟩, toEam ej, ⟨ej, hej, rfl⟩, ?_⟩
    simp [pairKey, toEam, hle]
end pairs

/-! ### `_tabulateFunction` on a pair potential, `_writePairPotential` -/

/-- the `%f` piece the loop appends to the current row of a pair block -/
def valTokE (p : PotRec) (step : Rat) (i : Int) : Tok := Tok.mk "%f" [energyOf p ((i : Rat) * step)]

theorem tabulate_pot_loop_eq (f : PotRec) (n : Int) (outfile : List Tok) (step : Rat) :
    ∀ (xs : List Int) (ob row : List Tok), row.length < 4 →
      tabeam_tabulate_pot_loop1 f n ob outfile row step xs =
        outfile ++ (ob ++ (chunks4 (row ++ xs.map (valTokE f step))).map rowTok) := by
  intro xs
  induction xs with
  | nil =>
    intro ob row h
    match row, h with
    | [], _ => simp [tabeam_tabulate_pot_loop1, chunks4]
    | [_], _ => simp [tabeam_tabulate_pot_loop1, chunks4, rowTok]
    | [_, _], _ => simp [tabeam_tabulate_pot_loop1, chunks4, rowTok]
    | [_, _, _], _ => simp [tabeam_tabulate_pot_loop1, chunks4, rowTok]
    | _ :: _ :: _ :: _ :: _, h => simp at h; omega
  | cons x xs ih =>
    intro ob row h
    match row, h with
    | [], _ =>
      have := ih ob [valTokE f step x] (by simp)
      simpa [tabeam_tabulate_pot_loop1, valTokE] using this
    | [a], _ =>
      have := ih ob [a, valTokE f step x] (by simp)
      simpa [tabeam_tabulate_pot_loop1, valTokE] using this
    | [a, b], _ =>
      have := ih ob [a, b, valTokE f step x] (by simp)
      simpa [tabeam_tabulate_pot_loop1, valTokE] using this
    | [a, b, c], _ =>
      have := ih (ob ++ [rowTok [a, b, c, valTokE f step x]]) [] (by simp)
      simpa [tabeam_tabulate_pot_loop1, valTokE, chunks4, rowTok] using this
    | _ :: _ :: _ :: _ :: _, h => simp at h; omega

theorem tokSem_rowE (I : String → Nat → Rat → Rat) (hI : ZeroFn I) (p : PotRec) (step : Rat) (g : List Nat) :
    tokSem I (rowTok (g.map fun (k : Nat) => valTokE p step (k : Int))) =
      tabeamRow I "energy" (g.map fun (k : Nat) => mkSlot p.fid ((k : Rat) * step)) := by
  have hv : ∀ x : Rat, slotVal I "energy" (mkSlot p.fid x) = I "energy" p.fid x := by
    intro x
    unfold mkSlot
    split
    · next h => rw [h]; simp [slotVal, hI "energy" x]
    · simp [slotVal]
  unfold rowTok tabeamRow tokSuffix joinToks tokSem
  refine Prod.ext ?_ ?_
  · simp [List.map_map, Function.comp_def, valTokE]
  · induction g with
    | nil => rfl
    | cons k ks ih => simpa [valTokE, energyOf, ovEval, hv] using ih

theorem code_tabulate_pot (I : String → Nat → Rat → Rat) (hI : ZeroFn I) (p : PotRec) (n : Nat) (step : Rat) (out : List Tok) :
    streamSem I (tabeam_tabulate_pot out p (n : Int) step) =
      streamSem I out ++ (rowsOf4 (sampled p.fid n step)).map (tabeamRow I "energy") := by
  unfold tabeam_tabulate_pot
  rw [tabulate_pot_loop_eq _ _ _ _ _ _ _ (by simp), streamSem_append, intRange_zero]
  congr 1
  simp only [List.nil_append, List.map_map, rowsOf4_eq_chunks4, sampled, chunks4_map, streamSem]
  apply List.map_congr_left
  intro g _
  simp only [Function.comp]
  exact tokSem_rowE I hI p step g

/-- `_writePairPotential`: the header `pair <A> <B> <nr> 0.0 <(nr-1)*dr>` then the records of the potential's energy -/
theorem code_pair_potential (I : String → Nat → Rat → Rat) (hI : ZeroFn I) (p : PotRec) (nr : Nat) (dr : Rat) (out : List Tok) :
    streamSem I (tabeam_pair_potential p (nr : Int) dr out) =
      streamSem I out ++ tblockSem I (tblock "pair" [p.a, p.b] p.fid nr dr) := by
  unfold tabeam_pair_potential
  rw [streamSem_append]
  simp only [List.nil_append, code_tabulate_pot I hI, tblock, tblockSem]
  simp [streamSem, tokSem, ovEval]

/-! ### the dictionary of declared potentials and the loop over the sorted pairs -/

/-- `pairPotDict` after the loop over the declared potentials -/
def potDict (pairs : List PairDecl) : List (List String × PotRec) := pairs.map fun p => (toL (pairKey p.a p.b), toPot p)

theorem toL_beq (k k' : Sp × Sp) : (toL k == toL k') = (k == k') := by
  obtain ⟨a, b⟩ := k
  obtain ⟨c, d⟩ := k'
  by_cases h : (a, b) = (c, d)
  · rw [h]; simp
  · have h' : toL (a, b) ≠ toL (c, d) := fun e => h (toL_injective e)
    simp [h, h']

theorem lookupLast_potDict (pairs : List PairDecl) (k : Sp × Sp) :
    lookupLast (potDict pairs) (toL k) = (pairs.reverse.find? (fun p => pairKey p.a p.b == k)).map toPot := by
  unfold lookupLast potDict
  rw [← List.map_reverse, List.find?_map, Option.map_map]
  simp only [Function.comp_def, toL_beq]

theorem pairs_loop3_eq (dr : Rat) (E : List EamRec) (nr : Int) (out : List Tok) (PP : List PotRec) (P : List (List String)) :
    ∀ (ps : List PairDecl) (dict : List (List String × PotRec)),
      tabeam_pair_potentials_loop3 dr E nr out dict PP P (ps.map toPot) =
        tabeam_pair_potentials_loop4 dr E nr 0 out (dict ++ potDict ps) PP P (stableSortBy leL P)
  | [], dict => by simp [tabeam_pair_potentials_loop3, potDict]
  | p :: ps, dict => by
    simp only [List.map_cons, tabeam_pair_potentials_loop3]
    rw [pairs_loop3_eq dr E nr out PP P ps]
    simp [potDict, sort2_eq, toPot]

theorem pairs_loop4_sem (I : String → Nat → Rat → Rat) (hI : ZeroFn I) (dr : Rat) (E : List EamRec) (nr : Nat) (PP : List PotRec)
    (P : List (List String)) (pairs : List PairDecl) :
    ∀ (ks : List (Sp × Sp)) (out : List Tok),
      streamSem I (tabeam_pair_potentials_loop4 dr E (nr : Int) 0 out (potDict pairs) PP P (ks.map toL)) =
        streamSem I out ++ (ks.map fun k =>
          match pairs.reverse.find? (fun p => pairKey p.a p.b == k) with
          | some p => tblock "pair" [p.a, p.b] p.fid nr dr
          | none => tblock "pair" [k.1, k.2] 0 nr dr).flatMap (tblockSem I)
  | [], out => by simp [tabeam_pair_potentials_loop4]
  | k :: ks, out => by
    simp only [List.map_cons, tabeam_pair_potentials_loop4, lookupLast_potDict, List.flatMap_cons]
    cases hf : pairs.reverse.find? (fun p => pairKey p.a p.b == k) with
    | some p =>
      simp only [Option.map_some]
      rw [pairs_loop4_sem I hI dr E nr PP P pairs ks, code_pair_potential I hI]
      simp [toPot, List.append_assoc]
    | none =>
      simp only [Option.map_none]
      rw [pairs_loop4_sem I hI dr E nr PP P pairs ks, code_pair_potential I hI]
      simp [toL, listGet, List.append_assoc]

theorem titlePad_eq : "                                                                                                    " = titlePad := by
  decide

theorem except_density_loop_sem (I : String → Nat → Rat → Rat) (hI : ZeroFn I) (dr drho : Rat) (E : List EamRec) (nr : Int) (nrho : Nat)
    (numpots : Rat) (PP : List PotRec) (title : String) :
    ∀ (els : List El) (out : List Tok),
      streamSem I (tabeam_except_density_loop1 dr drho E nr (nrho : Int) numpots out PP title (els.map toEam)) =
        streamSem I out ++ (els.map fun e => tblock "embe" [e.sp] e.embed nrho drho).flatMap (tblockSem I)
  | [], out => by simp [tabeam_except_density_loop1]
  | e :: els, out => by
    simp only [List.map_cons, tabeam_except_density_loop1, List.flatMap_cons]
    rw [except_density_loop_sem I hI dr drho E nr nrho numpots PP title els, C05_code_embedding I hI, rowLine_eq]
    simp [tblockSem, tblock, List.append_assoc]

theorem write_loop_sem (I : String → Nat → Rat → Rat) (hI : ZeroFn I) (dr drho : Rat) (E : List EamRec) (nr : Nat) (nrho : Int)
    (numpots : Rat) (PP : List PotRec) (title : String) (out0 : List Tok) :
    ∀ (els : List El) (out : List Tok),
      streamSem I (tabeam_write_loop1 dr drho E (nr : Int) nrho numpots out0 out PP title (els.map toEam)) =
        streamSem I out0 ++ (streamSem I out ++ (els.map fun e => tblock "dens" [e.sp] e.dens nr dr).flatMap (tblockSem I))
  | [], out => by simp [tabeam_write_loop1, streamSem_append]
  | e :: els, out => by
    simp only [List.map_cons, tabeam_write_loop1, List.flatMap_cons]
    rw [write_loop_sem I hI dr drho E nr nrho numpots PP title out0 els]
    have := C05_code_density_single I hI e.sp e.dens nr dr out
    simp only [toEam]
    rw [this, rowLine_eq]
    simp [tblockSem, tblock, List.append_assoc]

end TabeamWriter

/-! ## The code itself: the whole TABEAM file

`Atsim.Gen.Logic.tabeam_pair_potentials / tabeam_except_density / tabeam_write` are `_writePairPotentials`, `_writeTABEAM_exceptDensity` and `writeTABEAM` as regenerated on
every run - the `pairs` set of sorted label pairs, the `pairPotDict` dictionary (a later potential for the same unordered pair replaces an earlier one), the `nullfunc`
potential for pairs nobody declared, `numpots = n(n+5)/2`, the title padded with a hundred blanks.  For all element lists with distinct species labels, all declared pair
potentials, grids, titles and prior stream contents, under every interpretation with function 0 the zero function, what the code writes is the model's `tabeam false …`:
title, declared count, the `pair` blocks in sorted order of the unordered label pairs, the `embe` blocks and then the `dens` blocks in element order. -/

open Atsim.Gen.Logic Atsim.TokSem in
/-- **code tie**: the `pair` blocks: one per unordered pair of the elements' labels, in sorted order; a declared potential is written under its own label order, an
    undeclared pair as the zero function under the sorted labels -/
theorem C05_code_pair_potentials (I : String → Nat → Rat → Rat) (hI : ZeroFn I) (els : List El) (pairs : List PairDecl)
    (hnd : (els.map (·.sp)).Nodup) (nr : Nat) (dr : Rat) (out : List Tok) :
    streamSem I (tabeam_pair_potentials (els.map toEam) (pairs.map toPot) (nr : Int) dr out) =
      streamSem I out ++ (tabeamPairs els pairs nr dr).flatMap (tblockSem I) := by
  unfold tabeam_pair_potentials
  simp only []
  rw [TabeamWriter.pairs_loop3_eq, TabeamWriter.sorted_pairs_eq els hnd, List.nil_append,
    TabeamWriter.pairs_loop4_sem I hI]
  rfl

open Atsim.Gen.Logic Atsim.TokSem in
/-- **code tie**: the part common to both variants (`_writeTABEAM_exceptDensity`): title, the count it is handed, the `pair` blocks, then one `embe` block per element -/
theorem C05_code_except_density (I : String → Nat → Rat → Rat) (hI : ZeroFn I) (els : List El) (pairs : List PairDecl)
    (hnd : (els.map (·.sp)).Nodup) (nrho nr : Nat) (drho dr : Rat) (title : String) (numpots : Rat) (out : List Tok) :
    streamSem I (tabeam_except_density (nrho : Int) drho (nr : Int) dr (els.map toEam) (pairs.map toPot) title numpots out) =
      streamSem I out ++ [("%s%s\n", [(some title, 0), (some titlePad, 0)]), ("%d\n", [(none, numpots)])] ++
        (tabeamPairs els pairs nr dr ++ els.map fun e => tblock "embe" [e.sp] e.embed nrho drho).flatMap (tblockSem I) := by
  unfold tabeam_except_density
  simp only []
  rw [TabeamWriter.except_density_loop_sem I hI, C05_code_pair_potentials I hI els pairs hnd, TabeamWriter.streamSem_append]
  unfold tabeam_title
  rw [TabeamWriter.streamSem_append, TabeamWriter.titlePad_eq]
  simp [streamSem, tokSem, ovEval, tokSuffix, List.append_assoc]

open Atsim.Gen.Logic Atsim.TokSem in
/-- **code tie**: `writeTABEAM` writes the model's file -/
theorem C05_code_write (I : String → Nat → Rat → Rat) (hI : ZeroFn I) (els : List El) (pairs : List PairDecl)
    (hnd : (els.map (·.sp)).Nodup) (nrho nr : Nat) (drho dr : Rat) (title : String) (out : List Tok) :
    streamSem I (tabeam_write (nrho : Int) drho (nr : Int) dr (els.map toEam) (pairs.map toPot) out title) =
      streamSem I out ++ tabeamSem I title (tabeam false nrho drho nr dr els pairs) := by
  unfold tabeam_write
  simp only []
  rw [TabeamWriter.write_loop_sem I hI, C05_code_except_density I hI els pairs hnd]
  have h1 : 2 ∣ els.length * (els.length + 5) := by
    rcases Nat.even_or_odd els.length with ⟨k, hk⟩ | ⟨k, hk⟩
    · exact ⟨k * (els.length + 5), by rw [hk]; ring⟩
    · exact ⟨els.length * (k + 3), by rw [hk]; ring⟩
  have hn : (((els.length * (els.length + 5) / 2 : Nat) : Nat) : Rat) = ((els.length : Rat) * ((els.length : Rat) + 5)) / 2 := by
    rw [Nat.cast_div h1 (by norm_num)]
    push_cast
    rfl
  simp only [tabeamSem, tabeam, Bool.false_eq_true, if_false, hn, List.length_map, Int.cast_natCast, List.flatMap_append,
    List.append_assoc]
  simp [streamSem]


open Atsim.Gen.Logic in
/-- the `dr` property of the tabulation object is the model's step -/
theorem eamtab_dr_eq (nr nrho : Nat) (cut cutrho : Rat) (a : List EamRec) (b c d : List PotRec) :
    eamtab_dr ⟨(nr : Int), cut, (nrho : Int), cutrho, a, b, c, d⟩ = tabStep cut nr := by
  simp only [eamtab_dr, tabStep]
  push_cast
  rfl

open Atsim.Gen.Logic in
/-- the `drho` property of the tabulation object is the model's step -/
theorem eamtab_drho_eq (nr nrho : Nat) (cut cutrho : Rat) (a : List EamRec) (b c d : List PotRec) :
    eamtab_drho ⟨(nr : Int), cut, (nrho : Int), cutrho, a, b, c, d⟩ = tabStep cutrho nrho := by
  simp only [eamtab_drho, tabStep]
  push_cast
  rfl

open Atsim.Gen.Logic Atsim.TokSem in
/-- **code tie (the tabulation object)**: `TABEAM_EAMTabulation.write` writes `tabeamTab false` (empty title) -/
theorem C05_code_tabulation_write (I : String → Nat → Rat → Rat) (hI : ZeroFn I) (els : List El) (pairs dip quad : List PairDecl)
    (hnd : (els.map (·.sp)).Nodup) (cut : Rat) (nr : Nat) (cutrho : Rat) (nrho : Nat) (out : List Tok) :
    streamSem I (tabeam_tab_write ⟨(nr : Int), cut, (nrho : Int), cutrho, els.map toEam, pairs.map toPot, dip.map toPot, quad.map toPot⟩ out) =
      streamSem I out ++ tabeamSem I "" (tabeamTab false els pairs cut nr cutrho nrho) := by
  unfold tabeam_tab_write
  simp only [eamtab_dr_eq, eamtab_drho_eq]
  rw [C05_code_write I hI els pairs hnd]
  rfl

end Atsim.C05
