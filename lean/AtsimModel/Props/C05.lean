import AtsimModel.Model.Eam
import Mathlib.Tactic.Ring
import Mathlib.Tactic.Linarith
import Mathlib.Tactic.NormNum
import Mathlib.Data.Rat.Defs
import Mathlib.Algebra.Order.Field.Rat
import Mathlib.Data.String.Basic
import Mathlib.Data.List.Nodup
import AtsimModel.Lemmas.KernelQ
/-!
# C05 — DL_POLY TABEAM: declared function count, block headers and values

Theorems about `Atsim.tabeam` (`writeTABEAM`, `writeTABEAMFinnisSinclair`) for element lists of ANY
length.  Tie to the code: `harness/props/C05.py`.
-/
namespace Atsim.C05
open Atsim

/-! ### records of four -/

theorem rowsOf4_flatten (l : List Slot) : (rowsOf4 l).flatten = l := by
  fun_induction rowsOf4 l with
  | case1 a b c d rest ih => simp [ih]
  | case2 => rfl
  | case3 l h1 h2 => simp

/-- every record holds at most four values and no record is empty -/
theorem rowsOf4_sizes (l : List Slot) : ∀ r ∈ rowsOf4 l, 1 ≤ r.length ∧ r.length ≤ 4 := by
  fun_induction rowsOf4 l with
  | case1 a b c d rest ih =>
    intro r hr
    rcases List.mem_cons.1 hr with h | h
    · subst h; simp
    · exact ih r h
  | case2 => intro r hr; simp at hr
  | case3 l h1 h2 =>
    intro r hr
    simp only [List.mem_singleton] at hr
    subst hr
    match r, h1, h2 with
    | [], _, h2 => exact absurd rfl h2
    | [_], _, _ => simp
    | [_, _], _, _ => simp
    | [_, _, _], _, _ => simp
    | a :: b :: c :: d :: rest, h1, _ => exact absurd rfl (h1 a b c d rest)

/-! ### block header agrees with block body -/

/-- a block header `kw species n 0.0 (n-1)*step` is followed by exactly `n` values, the `k`-th being the
    block's own function at `k*step` -/
theorem C05_header_body (kw : String) (sp : List Sp) (f : Fid) (n : Nat) (step : Rat) :
    let b := tblock kw sp f n step
    b.n = n ∧ b.lo = 0 ∧ b.hi = ((n : Rat) - 1) * step ∧ b.rows.flatten.length = n ∧
    ∀ k (h : k < b.rows.flatten.length), b.rows.flatten[k] = mkSlot f ((k : Rat) * step) := by
  simp only [tblock, rowsOf4_flatten, sampled, List.length_map, List.length_range, List.getElem_map,
    List.getElem_range, true_and]
  intro k h
  trivial

/-! ### the number of functions -/

theorem tri_length (l : List Sp) : (tri l).length * 2 = l.length * (l.length + 1) := by
  induction l with
  | nil => simp [tri]
  | cons a rest ih =>
    simp only [tri, List.length_append, List.length_map, List.length_cons]
    rw [Nat.add_mul, ih]
    ring

theorem insertSp_length (x : Sp) (l : List Sp) : (insertSp x l).length = l.length + 1 := by
  induction l with
  | nil => simp [insertSp]
  | cons y ys ih =>
    simp only [insertSp]
    split <;> simp [ih]

theorem sortSp_length (l : List Sp) : (sortSp l).length = l.length := by
  induction l with
  | nil => simp [sortSp]
  | cons a rest ih =>
    have : sortSp (a :: rest) = insertSp a (sortSp rest) := rfl
    rw [this, insertSp_length, ih]; simp

theorem tabeamPairs_length (els : List El) (pairs : List PairDecl) (nr : Nat) (dr : Rat) :
    (tabeamPairs els pairs nr dr).length * 2 = els.length * (els.length + 1) := by
  simp only [tabeamPairs, List.length_map]
  rw [tri_length, sortSp_length, List.length_map]

theorem length_flatMap_const {α β : Type} (l : List α) (f : α → List β) (k : Nat)
    (h : ∀ a, (f a).length = k) : (l.flatMap f).length = l.length * k := by
  induction l with
  | nil => simp
  | cons a rest ih =>
    simp only [List.flatMap_cons, List.length_append, ih, h, List.length_cons]
    ring

/-- EAM: `n(n+1)/2` pair blocks + `n` embe + `n` dens blocks are emitted, and that is the declared count `n(n+5)/2` -/
theorem C05_count_eam (nrho : Nat) (drho : Rat) (nr : Nat) (dr : Rat) (els : List El) (pairs : List PairDecl) :
    (tabeam false nrho drho nr dr els pairs).blocks.length = (tabeam false nrho drho nr dr els pairs).declared ∧
    (tabeam false nrho drho nr dr els pairs).declared * 2 = els.length * (els.length + 5) := by
  have hT := tabeamPairs_length els pairs nr dr
  simp only [tabeam, Bool.false_eq_true, if_false, List.length_append, List.length_map]
  generalize (tabeamPairs els pairs nr dr).length = T at hT ⊢
  generalize els.length = n at hT ⊢
  have h1 : n * (n + 5) = 2 * (T + n + n) := by
    have : n * (n + 5) = n * (n + 1) + 4 * n := by ring
    omega
  generalize n * (n + 5) = m at h1 ⊢
  omega

/-- EEAM: `n(n+1)/2 + n + n²` blocks are emitted, and that is the declared count `3n(n+1)/2` -/
theorem C05_count_eeam (nrho : Nat) (drho : Rat) (nr : Nat) (dr : Rat) (els : List El) (pairs : List PairDecl) :
    (tabeam true nrho drho nr dr els pairs).blocks.length = (tabeam true nrho drho nr dr els pairs).declared ∧
    (tabeam true nrho drho nr dr els pairs).declared * 2 = 3 * els.length * (els.length + 1) := by
  have hT := tabeamPairs_length els pairs nr dr
  simp only [tabeam, if_true, List.length_append, List.length_map]
  rw [length_flatMap_const els _ els.length (by intro a; simp [sortSp_length])]
  generalize (tabeamPairs els pairs nr dr).length = T at hT ⊢
  generalize els.length = n at hT ⊢
  have h1 : 3 * n * (n + 1) = 2 * (T + n + n * n) := by
    have : 3 * n * (n + 1) = n * (n + 1) + 2 * n + 2 * (n * n) := by ring
    omega
  generalize 3 * n * (n + 1) = m at h1 ⊢
  omega

/-! ### exactly one pair block per unordered element pair -/

theorem mem_tri (l : List Sp) (a b : Sp) : (a, b) ∈ tri l → a ∈ l ∧ b ∈ l := by
  induction l with
  | nil => simp [tri]
  | cons x rest ih =>
    simp only [tri, List.mem_append, List.mem_map, Prod.mk.injEq]
    rintro (⟨c, hc, rfl, rfl⟩ | h)
    · exact ⟨List.mem_cons_self, hc⟩
    · exact ⟨List.mem_cons_of_mem _ (ih h).1, List.mem_cons_of_mem _ (ih h).2⟩

/-- every unordered pair of listed species occurs (one way round or the other) -/
theorem tri_complete (l : List Sp) (a b : Sp) (ha : a ∈ l) (hb : b ∈ l) : (a, b) ∈ tri l ∨ (b, a) ∈ tri l := by
  induction l with
  | nil => simp at ha
  | cons x rest ih =>
    simp only [tri, List.mem_append, List.mem_map, Prod.mk.injEq]
    rcases List.mem_cons.1 ha with rfl | ha'
    · exact Or.inl (Or.inl ⟨b, hb, rfl, rfl⟩)
    · rcases List.mem_cons.1 hb with rfl | hb'
      · exact Or.inr (Or.inl ⟨a, ha, rfl, rfl⟩)
      · rcases ih ha' hb' with h | h
        · exact Or.inl (Or.inr h)
        · exact Or.inr (Or.inr h)

/-- … and only once: no key is repeated, and a key and its reversal are never both present (except `(a, a)`) -/
theorem tri_nodup (l : List Sp) (h : l.Nodup) : (tri l).Nodup := by
  induction l with
  | nil => simp [tri]
  | cons x rest ih =>
    have hx : x ∉ rest := (List.nodup_cons.1 h).1
    have hr : rest.Nodup := (List.nodup_cons.1 h).2
    simp only [tri]
    rw [List.nodup_append]
    refine ⟨?_, ih hr, ?_⟩
    · exact List.Nodup.map (fun b c hbc => (Prod.mk.inj hbc).2) h
    · intro p hp q hq hpq
      subst hpq
      obtain ⟨c, _, rfl⟩ := List.mem_map.1 hp
      exact hx (mem_tri rest x c hq).1

theorem tri_no_reversal (l : List Sp) (h : l.Nodup) (a b : Sp) (hab : a ≠ b) (h1 : (a, b) ∈ tri l) : (b, a) ∉ tri l := by
  induction l with
  | nil => simp [tri] at h1
  | cons x rest ih =>
    have hx : x ∉ rest := (List.nodup_cons.1 h).1
    have hr : rest.Nodup := (List.nodup_cons.1 h).2
    simp only [tri, List.mem_append, List.mem_map, Prod.mk.injEq] at h1 ⊢
    rintro (⟨c, hc, rfl, rfl⟩ | h2)
    · rcases h1 with ⟨d, hd, rfl, rfl⟩ | h1
      · exact hab rfl
      · exact hx (mem_tri rest _ _ h1).2
    · rcases h1 with ⟨d, hd, rfl, rfl⟩ | h1
      · exact hx (mem_tri rest _ _ h2).2
      · exact ih hr h1 h2

/-- each pair block is the declared potential for that key (found whichever way round it was declared, header in the
    declared label order) or the zero function under the sorted key -/
theorem C05_pair_block (els : List El) (pairs : List PairDecl) (nr : Nat) (dr : Rat) :
    (tabeamPairs els pairs nr dr).length = (tri (sortSp (els.map (·.sp)))).length ∧
    ∀ i (h : i < (tabeamPairs els pairs nr dr).length) (h' : i < (tri (sortSp (els.map (·.sp)))).length),
      let k := (tri (sortSp (els.map (·.sp))))[i]
      ((∃ p ∈ pairs, pairKey p.a p.b = k ∧ (tabeamPairs els pairs nr dr)[i] = tblock "pair" [p.a, p.b] p.fid nr dr) ∨
       ((∀ p ∈ pairs, pairKey p.a p.b ≠ k) ∧ (tabeamPairs els pairs nr dr)[i] = tblock "pair" [k.1, k.2] 0 nr dr)) := by
  refine ⟨by simp [tabeamPairs], ?_⟩
  intro i h h'
  simp only [tabeamPairs, List.getElem_map]
  cases hf : pairs.reverse.find? (fun p => pairKey p.a p.b == (tri (sortSp (els.map (·.sp))))[i]) with
  | some p =>
    left
    refine ⟨p, ?_, ?_, rfl⟩
    · exact List.mem_reverse.1 (List.mem_of_find?_eq_some hf)
    · have := List.find?_some hf
      simpa using this
  | none =>
    right
    refine ⟨?_, rfl⟩
    intro p hp
    have := List.find?_eq_none.1 hf p (List.mem_reverse.2 hp)
    simpa using this

/-- the embe and dens blocks: one per element in list order (EAM) -/
theorem C05_embe_dens_blocks (nrho : Nat) (drho : Rat) (nr : Nat) (dr : Rat) (els : List El) (pairs : List PairDecl) :
    (tabeam false nrho drho nr dr els pairs).blocks =
      tabeamPairs els pairs nr dr ++ (els.map fun e => tblock "embe" [e.sp] e.embed nrho drho)
        ++ (els.map fun e => tblock "dens" [e.sp] e.dens nr dr) := by
  rfl

/-! ### non-vacuity -/
example : (tabeam false 3 1 5 (1/2) [⟨"Zr", 40, 91, 3, "hcp", 1, 2, []⟩, ⟨"Al", 13, 27, 4, "fcc", 3, 4, []⟩] [⟨"Zr", "Al", 7⟩]).blocks.map
    (fun b => (b.kw, b.species, b.n, b.hi, b.rows.map (·.length)))
  = [("pair", ["Al", "Al"], 5, 2, [4, 1]), ("pair", ["Zr", "Al"], 5, 2, [4, 1]), ("pair", ["Zr", "Zr"], 5, 2, [4, 1]),
     ("embe", ["Zr"], 3, 2, [3]), ("embe", ["Al"], 3, 2, [3]), ("dens", ["Zr"], 5, 2, [4, 1]), ("dens", ["Al"], 5, 2, [4, 1])] := by
  decide +kernel

end Atsim.C05

/-! ## kernel ties: the arithmetic the code uses at these places, regenerated from the source on every run, is the model's -/
namespace Atsim.C05
open Atsim.Gen Atsim.E
set_option linter.unusedTactic false
set_option linter.unusedSimpArgs false
theorem C05_kernel_args (nrho : Nat) (drho : Rat) (nr : Nat) (dr : Rat) :
    k_tabeam_args.map (evalQ (envQ [nrho, drho, nr, dr])) = [(nrho : Rat), drho, (nr : Rat), dr] := by
  kernel_unfold [k_tabeam_args]
  kernel_close
theorem C05_kernel_sample (i : Nat) (step : Rat) : evalQ (envQ [i, step]) k_tabeam_sample = (i : Rat) * step := by
  kernel_unfold [k_tabeam_sample]
  kernel_close
/-- the end-of-range printed in every block header is `(n - 1) * step` = `tblock.hi` -/
theorem C05_kernel_ends (kw : String) (sp : List Sp) (f : Fid) (n : Nat) (step : Rat) :
    evalQ (envQ [n, step]) k_tabeam_embe_end = (tblock kw sp f n step).hi ∧ evalQ (envQ [n, step]) k_tabeam_dens_end = (tblock kw sp f n step).hi ∧
    evalQ (envQ [n, step]) k_tabeam_dens_end_fs = (tblock kw sp f n step).hi ∧ evalQ (envQ [n, step]) k_tabeam_pair_end = (tblock kw sp f n step).hi := by
  refine ⟨?_, ?_, ?_, ?_⟩
  · kernel_unfold [k_tabeam_embe_end, tblock]
    kernel_close
  · kernel_unfold [k_tabeam_dens_end, tblock]
    kernel_close
  · kernel_unfold [k_tabeam_dens_end_fs, tblock]
    kernel_close
  · kernel_unfold [k_tabeam_pair_end, tblock]
    kernel_close
/-- declared number of functions: the code's true division `n*(n+5)/2` and `3*n*(n+1)/2` are whole numbers and equal the model's counts -/
theorem C05_kernel_counts (n : Nat) :
    evalQ (envQ [n]) k_tabeam_numpots = ((n * (n + 5) / 2 : Nat) : Rat) ∧
    evalQ (envQ [n]) k_tabeam_numpots_fs = ((3 * n * (n + 1) / 2 : Nat) : Rat) := by
  have h1 : 2 ∣ n * (n + 5) := by
    rcases Nat.even_or_odd n with ⟨k, hk⟩ | ⟨k, hk⟩
    · exact ⟨k * (n + 5), by rw [hk]; ring⟩
    · exact ⟨n * (k + 3), by rw [hk]; ring⟩
  have h2 : 2 ∣ 3 * n * (n + 1) := by
    rcases Nat.even_or_odd n with ⟨k, hk⟩ | ⟨k, hk⟩
    · exact ⟨3 * k * (n + 1), by rw [hk]; ring⟩
    · exact ⟨3 * n * (k + 1), by rw [hk]; ring⟩
  constructor
  · rw [Nat.cast_div h1 (by norm_num)]
    kernel_unfold [k_tabeam_numpots]
    push_cast
    kernel_close
  · rw [Nat.cast_div h2 (by norm_num)]
    kernel_unfold [k_tabeam_numpots_fs]
    push_cast
    kernel_close
end Atsim.C05
