import AtsimModel.Model.PairTables
import AtsimModel.Gen.Logic
import AtsimModel.Model.Eam
import Mathlib.Analysis.SpecialFunctions.Sqrt
import Mathlib.Analysis.SpecialFunctions.Pow.Real
import Mathlib.Tactic.Ring
import Mathlib.Tactic.FieldSimp
import Mathlib.Tactic.Linarith
import Mathlib.Tactic.NormNum
import Mathlib.Data.Rat.Defs
import Mathlib.Algebra.Order.Field.Rat
import Mathlib.Data.String.Basic
import AtsimModel.Props.C03
import AtsimModel.Lemmas.KernelQ
import AtsimModel.Lemmas.TokSem
/-!
# C19 — GULP, ADP, funcfl and Excel targets carry the same functions on the same grids

Models: `gulpTable` (Model/PairTables.lean), `adp`, `funcfl`, `sheet`/`pairSheet`/`excelEam` (Model/Eam.lean).
Tie to the code: `harness/props/C19.py`.
-/
namespace Atsim.C19
open Atsim

/-! ### GULP: one `spline cubic` block per potential, exactly nr rows `energy separation` at r_i = i*cutoff/(nr-1) -/
theorem C19_gulp (pots : List Pot) (cut : Rat) (nr : Nat) :
    (gulpTable pots cut nr).length = pots.length ∧
    ∀ i (h : i < pots.length) (h' : i < (gulpTable pots cut nr).length),
      let b := (gulpTable pots cut nr)[i]
      b.a = pots[i].a ∧ b.b = pots[i].b ∧ b.cutoff = cut ∧ b.rows.length = nr ∧
      ∀ k (hk : k < b.rows.length),
        b.rows[k] = (Slot.val pots[i].fid ((k : Rat) * cut / ((nr : Rat) - 1)), (k : Rat) * cut / ((nr : Rat) - 1)) := by
  refine ⟨by simp [gulpTable], ?_⟩
  intro i h h'
  simp only [gulpTable, List.getElem_map, List.length_map, List.length_range, List.getElem_range, rValue,
    true_and]
  intro k hk
  trivial

/-- the last row is at the cutoff -/
theorem C19_gulp_last (cut : Rat) (nr : Nat) (h : 2 ≤ nr) : rValue cut nr (nr - 1) = cut := by
  have h1 : (2 : Rat) ≤ (nr : Rat) := by exact_mod_cast h
  have a1 : (nr : Rat) - 1 ≠ 0 := by linarith
  unfold rValue
  rw [Nat.cast_sub (by omega), Nat.cast_one]
  field_simp

/-! ### ADP: the setfl file of the same model, followed by the dipole then the quadrupole functions, unscaled -/
theorem C19_adp_prefix (els : List El) (pairs dip quad : List PairDecl) (cut : Rat) (nr : Nat) (cutrho : Rat) (nrho : Nat) :
    let f := adp els pairs dip quad cut nr cutrho nrho
    let s := setflTab false els pairs cut nr cutrho nrho
    f.names = s.names ∧ f.ntypes = s.ntypes ∧ f.nrho = s.nrho ∧ f.drho = s.drho ∧ f.nr = s.nr ∧ f.dr = s.dr ∧
    f.elements = s.elements ∧ f.pairs = s.pairs ∧
    f.dipoles = pairBlocks false els dip nr (tabStep cut nr) ∧
    f.quadrupoles = pairBlocks false els quad nr (tabStep cut nr) := by
  simp [adp]

/-- unscaled: the k-th value of a dipole/quadrupole block is the function itself at k*dr, k = 0..nr-1 (no factor r, no special case at 0) -/
theorem C19_adp_unscaled (f : Fid) (nr : Nat) (dr : Rat) :
    (pairSlots false f nr dr).length = nr ∧
    ∀ k (h : k < (pairSlots false f nr dr).length), (pairSlots false f nr dr)[k] = mkSlot f ((k : Rat) * dr) := by
  refine ⟨by simp [pairSlots], ?_⟩
  intro k h
  simp [pairSlots]

/-- one block per element pair (i, j ≤ i) in header order – n(n+1)/2 of them – zero where undeclared -/
theorem C19_adp_blocks (els : List El) (decls : List PairDecl) (nr : Nat) (dr : Rat) :
    (pairBlocks false els decls nr dr).length * 2 = els.length * (els.length + 1) ∧
    (∀ x y : Sp, (∀ q ∈ decls, pairKey q.a q.b ≠ pairKey x y) → pairLookup decls (pairKey x y) = 0) := by
  exact ⟨C03.C03_pair_count false els decls nr dr, fun x y h => C03.C03_pair_lookup_missing decls x y h⟩

/-! ### funcfl -/

theorem rowsOf5_flatten (l : List Slot) : (rowsOf5 l).flatten = l := by
  fun_induction rowsOf5 l with
  | case1 a b c d e rest ih => simp [ih]
  | case2 => rfl
  | case3 l h1 h2 => simp

/-- the header declares the grid actually tabulated: `nrho drho nr dr` are the arguments and `cutoff = (nr-1)*dr`;
    each block holds exactly nrho / nr / nr values at i*drho / i*dr / i*dr (the effective charge at r = 0 is the literal 0, as for r*phi) -/
theorem C19_funcfl_header (nrho : Nat) (drho : Rat) (nr : Nat) (dr : Rat) (e : El) (pf : Fid) :
    let f := funcfl nrho drho nr dr e pf
    f.nrho = nrho ∧ f.drho = drho ∧ f.nr = nr ∧ f.dr = dr ∧ f.cutoff = ((nr : Rat) - 1) * dr ∧
    f.embed.flatten = sampled e.embed nrho drho ∧ f.charge.flatten = pairSlots true pf nr dr ∧ f.dens.flatten = sampled e.dens nr dr := by
  simp only [funcfl, rowsOf5_flatten, true_and]
  exact ⟨mul_comm _ _, trivial⟩

/-- every record holds at most five values -/
theorem rowsOf5_sizes (l : List Slot) : ∀ r ∈ rowsOf5 l, 1 ≤ r.length ∧ r.length ≤ 5 := by
  fun_induction rowsOf5 l with
  | case1 a b c d e rest ih =>
    intro r hr
    rcases List.mem_cons.1 hr with h | h
    · subst h; simp
    · exact ih r h
  | case2 => intro r hr; simp at hr
  | case3 l h1 h2 =>
    intro r hr
    simp only [List.mem_singleton] at hr
    subst hr
    match r, h1, h2 with
    | [], _, h2 => exact absurd rfl h2
    | [_], _, _ => simp
    | [_, _], _, _ => simp
    | [_, _, _], _, _ => simp
    | [_, _, _, _], _, _ => simp
    | a :: b :: c :: d :: e :: rest, h1, _ => exact absurd rfl (h1 a b c d e rest)

/-- the effective-charge column squared and converted back (× 27.2 × 0.529 / r) returns the pair potential:
    `Z(r) = sqrt(phi(r) * r * (1/27.2) * (1/0.529))` as coded, for r > 0 and phi(r) * r ≥ 0 -/
theorem C19_funcfl_inverse (phi r : ℝ) (hr : 0 < r) (hpos : 0 ≤ phi * r) :
    (Real.sqrt (phi * r * 1 / (272 / 10) * 1 / (529 / 1000))) ^ 2 * (272 / 10) * (529 / 1000) / r = phi := by
  have hx : 0 ≤ phi * r * 1 / (272 / 10) * 1 / (529 / 1000) := by
    have : phi * r * 1 / (272 / 10) * 1 / (529 / 1000) = (phi * r) * (10 / 272 * (1000 / 529)) := by ring
    rw [this]
    exact mul_nonneg hpos (by norm_num)
  rw [Real.sq_sqrt hx]
  have hr' : r ≠ 0 := ne_of_gt hr
  field_simp

/-! ### Excel sheets -/

/-- first column r (or rho) at row i is i*cutoff/(n-1); the header row is the first-column name followed by the labels;
    the cell under a label is that label's function at the row's abscissa -/
theorem C19_excel_cells (name first : String) (n : Nat) (cut : Rat) (cols : List (String × Fid)) :
    let sh := sheet name first n cut cols
    sh.rows.length = n ∧ sh.header.head? = some first ∧
    ∀ i (h : i < sh.rows.length),
      sh.rows[i].1 = (i : Rat) * cut / ((n : Rat) - 1) ∧
      sh.rows[i].2.length = sh.header.length - 1 ∧
      ∀ j (hj : j < sh.rows[i].2.length) (hj' : j + 1 < sh.header.length),
        sh.rows[i].2[j] = mkSlot ((dictGet cols sh.header[j + 1]).getD 0) ((i : Rat) * cut / ((n : Rat) - 1)) := by
  simp only [sheet, List.length_map, List.length_range, List.head?_cons, List.getElem_map, List.getElem_range,
    List.length_cons, Nat.add_sub_cancel, List.getElem_cons_succ, true_and]
  intro i h j hj hj'
  trivial

/-- pair sheet labels are `a-b` with the two species sorted -/
theorem C19_excel_pair_label (p : PairDecl) :
    ((pairKey p.a p.b).1 ≤ (pairKey p.a p.b).2) := by
  unfold pairKey
  by_cases h : p.a ≤ p.b
  · simp [h]
  · simp only [h, if_false]
    rcases le_total p.a p.b with h' | h'
    · exact absurd h' h
    · exact h'

/-! non-vacuity -/
example : (gulpTable [⟨"A", "B", 1⟩] 2 3).map (fun b => b.rows) = [[(.val 1 0, 0), (.val 1 1, 1), (.val 1 2, 2)]] := by decide +kernel
example : (funcfl 3 1 7 (1/2) ⟨"Al", 13, 27, 4, "fcc", 1, 2, []⟩ 3).charge.map (·.length) = [5, 2] := by decide +kernel

end Atsim.C19

/-! ## kernel ties: the arithmetic the code uses at these places, regenerated from the source on every run, is the model's -/
namespace Atsim.C19
open Atsim.Gen Atsim.E
set_option linter.unusedTactic false
set_option linter.unusedSimpArgs false
theorem C19_kernel_r_iter (cut : Rat) (nr n : Nat) : evalQ (envQ [n, cut, nr]) k_r_iter = rValue cut nr n := by
  kernel_unfold [k_r_iter, rValue]
  kernel_close
theorem C19_kernel_rho_iter (cut : Rat) (nrho n : Nat) : evalQ (envQ [n, cut, nrho]) k_rho_iter = gridPt cut nrho n := by
  kernel_unfold [k_rho_iter, gridPt]
  kernel_close
/-- funcfl: `cutoff = dr*(nr-1)`; the quantity under the square root is `phi(r)*r / 27.2 / 0.529` -/
theorem C19_kernel_funcfl (dr e sep : Rat) (nr : Nat) (el : El) (nrho : Nat) (drho : Rat) (pf : Fid) :
    evalQ (envQ [dr, nr]) k_funcfl_cutoff = (funcfl nrho drho nr dr el pf).cutoff ∧
    evalQ (envQ [evalQ (envQ [e, sep]) k_funcfl_rphi]) k_funcfl_charge = e * sep / (272 / 10) / (529 / 1000) := by
  constructor
  · kernel_unfold [k_funcfl_cutoff, funcfl]
    kernel_close
  · kernel_unfold [k_funcfl_rphi, k_funcfl_charge]
    kernel_close

/-! ## The code itself: the GULP writer regenerated from the source

`Atsim.Gen.Logic.gulp_write / gulp_write_pot / r_value_iterator` are `GULP_PairTabulation.write / _write_pot` and `_r_value_iterator` as produced by
`translator/py2lean_logic.py` on every run.  `C19_code_gulp_writer`: for every tabulation (any potentials, cutoff, row count) and prior stream content the code
appends exactly the model's `gulpTable`: per potential `spline cubic`, the header `speciesA speciesB cutoff` with the cutoff as given, then `nr` rows
`energy separation` at `n * cutoff / (nr - 1)`, `n = 0 .. nr-1`, in `{:.10f}` format. -/
namespace GulpWriter
open Atsim.Gen.Logic

def toRec (p : Pot) : PotRec := ⟨p.a, p.b, p.fid⟩

def slotOV : Slot → OV
  | .val fid x => .fn "energy" fid x
  | .zero => .num 0

def renderBlock (b : GBlock) : List Tok :=
  [⟨"spline cubic\n", []⟩, ⟨"{} {} {}\n", [.str b.a, .str b.b, .num b.cutoff]⟩] ++ b.rows.map (fun row => ⟨"{:.10f} {:.10f}\n", [slotOV row.1, .num row.2]⟩)

end GulpWriter

namespace GulpWriter
open Atsim.Gen.Logic

theorem r_loop_eq (tab : TabRec) (l : List Int) (acc : List Rat) :
    r_value_iterator_loop1 acc tab l
      = acc ++ l.map (fun n => ((n : Int) : Rat) * tab.cutoff / (((tab.nr : Int) : Rat) - 1)) := by
  induction l generalizing acc with
  | nil => simp [r_value_iterator_loop1]
  | cons x rest ih =>
    simp only [r_value_iterator_loop1, ih, List.map_cons, List.append_assoc, List.singleton_append]

theorem r_values_eq (pots : List PotRec) (cut : Rat) (nr : Nat) :
    r_value_iterator ⟨(nr : Int), cut, pots⟩ = (List.range nr).map (fun n => rValue cut nr n) := by
  simp only [r_value_iterator, r_loop_eq, intRange, List.nil_append, List.map_map, sub_zero, Int.toNat_natCast]
  apply List.map_congr_left
  intro n _
  simp only [Function.comp, rValue]
  push_cast
  ring

theorem pot_loop_eq (pot : PotRec) (self : TabRec) (l : List Rat) (fp : List Tok) :
    gulp_write_pot_loop1 fp pot self l
      = fp ++ l.map (fun r => (⟨"{:.10f} {:.10f}\n", [energyOf pot r, .num r]⟩ : Tok)) := by
  induction l generalizing fp with
  | nil => simp [gulp_write_pot_loop1]
  | cons x rest ih =>
    simp only [gulp_write_pot_loop1, ih, List.map_cons, List.append_assoc, List.singleton_append]

theorem write_pot_eq (p : Pot) (pots : List PotRec) (cut : Rat) (nr : Nat) (fp : List Tok) :
    gulp_write_pot ⟨(nr : Int), cut, pots⟩ (toRec p) fp
      = fp ++ renderBlock (⟨p.a, p.b, cut,
          (List.range nr).map (fun n => (Slot.val p.fid (rValue cut nr n), rValue cut nr n))⟩ : GBlock) := by
  simp only [gulp_write_pot, pot_loop_eq, r_values_eq, renderBlock, toRec, energyOf, slotOV, List.map_map,
    List.append_assoc, List.singleton_append, List.cons_append, List.nil_append, Function.comp_def]

theorem write_loop_eq (pots : List PotRec) (cut : Rat) (nr : Nat) (l : List Pot) (fp sb : List Tok) :
    gulp_write_loop1 fp sb ⟨(nr : Int), cut, pots⟩ (l.map toRec)
      = fp ++ sb ++ (gulpTable l cut nr).flatMap renderBlock := by
  induction l generalizing sb with
  | nil => simp [gulp_write_loop1, gulpTable]
  | cons x rest ih =>
    simp only [List.map_cons, gulp_write_loop1, write_pot_eq, ih]
    simp [gulpTable, List.flatMap_cons, List.append_assoc]

end GulpWriter

open Atsim.Gen.Logic in
/-- **code tie**: the grid iterator yields `n * cutoff / (nr - 1)` for `n = 0 .. nr-1` -/
theorem C19_code_r_values (pots : List PotRec) (cut : Rat) (nr : Nat) :
    r_value_iterator ⟨(nr : Int), cut, pots⟩ = (List.range nr).map (fun n => rValue cut nr n) :=
  GulpWriter.r_values_eq pots cut nr

open Atsim.Gen.Logic in
/-- **code tie (whole table)** -/
theorem C19_code_gulp_writer (pots : List Pot) (cut : Rat) (nr : Nat) (out : List Tok) :
    gulp_write ⟨(nr : Int), cut, pots.map GulpWriter.toRec⟩ out = out ++ (gulpTable pots cut nr).flatMap GulpWriter.renderBlock := by
  simp only [gulp_write, GulpWriter.write_loop_eq, List.append_nil]


open Atsim.Gen.Logic Atsim.TokSem in
/-- **code tie (ADP)**: `ADP_EAMTabulation.write` with `_write_dipole` / `_write_quadrupole` as regenerated writes the model's `adp`: the complete eam/alloy file of
    the same elements and pair potentials, then the dipole blocks, then the quadrupole blocks - same lower-triangular order, same grid, the function itself
    (`u(r)`, `w(r)`), not `r` times it -/
theorem C19_code_adp_write (I : String → Nat → Rat → Rat) (hI : ZeroFn I) (els : List El) (pairs dip quad : List PairDecl)
    (cut : Rat) (nr : Nat) (cutrho : Rat) (nrho : Nat) (out : List Tok) :
    streamSem I (adp_tab_write ⟨(nr : Int), cut, (nrho : Int), cutrho, els.map toEam, pairs.map toPot, dip.map toPot, quad.map toPot⟩ out) =
      streamSem I out ++ setflSem I ["", "", ""] ((nr : Rat) * tabStep cut nr) (setflTab false els pairs cut nr cutrho nrho) ++
        ((adp els pairs dip quad cut nr cutrho nrho).dipoles.flatten).map (fun s => numLine (pairSlotVal I false s)) ++
        ((adp els pairs dip quad cut nr cutrho nrho).quadrupoles.flatten).map (fun s => numLine (pairSlotVal I false s)) := by
  unfold adp_tab_write adp_write_quadrupole adp_write_dipole
  simp only [Atsim.C03.eamtab_dr_eq, Atsim.C03.eamtab_drho_eq]
  rw [Atsim.C03.SetflWriter.streamSem_append, Atsim.C03.C03_code_pair_pots I hI, Atsim.C03.C03_code_pair_pots I hI,
    Atsim.C03.C03_code_write_alloy I hI]
  simp only [Atsim.C03.SetflWriter.streamSem_nil, List.nil_append, List.append_assoc]
  rfl

open Atsim.Gen.Logic in
/-- **code tie (ADP factory)**: `create_tabulation` as it runs on an `ADP_EAMTabulationFactory` (its own `extract_tabulation_args`, which unpacks the six values of the
EAM factory's - reached through `super()` - and adds the objects of the two ADP sections): the tabulation class is constructed with the pair objects, the EAM objects,
the objects of `[EAM-ADP-Dipole]` THEN those of `[EAM-ADP-Quadrupole]` (not swapped, each read from its own section), and the grid values in the order
`cutoff, nr, cutoff_rho, nrho`; the first builder that fails ends the construction -/
theorem C19_code_create_tabulation_adp (pairObjects : Unit → Unit → CpRec → Except FactoryErr (List PotObj)) (mkRefData : CpRec → RefObj)
    (eamBuilder : CpRec → Unit → Unit → RefObj → Except FactoryErr BuilderObj) (eamPotentialsOf : BuilderObj → List EamRec)
    (sectionObjects : CpRec → Unit → Unit → String → Except FactoryErr (List PotObj))
    (tabClass : (List PotObj × List EamRec × List PotObj × List PotObj × Rat × Int × Rat × Int) → TabObj) (t : TabSec) :
    adp_create_tabulation pairObjects mkRefData eamBuilder eamPotentialsOf sectionObjects tabClass ⟨t⟩ =
      (match pairObjects () () ⟨t⟩ with
       | .error e => .error e
       | .ok pots => match eamBuilder ⟨t⟩ () () (mkRefData ⟨t⟩) with
         | .error e => .error e
         | .ok b => match sectionObjects ⟨t⟩ () () "EAM-ADP-Dipole" with
           | .error e => .error e
           | .ok dip => match sectionObjects ⟨t⟩ () () "EAM-ADP-Quadrupole" with
             | .error e => .error e
             | .ok quad => .ok (tabClass (pots, eamPotentialsOf b, dip, quad, t.cutoff.getD 10, t.nr.getD 1001, t.cutoff_rho.getD 100, t.nrho.getD 1001))) := by
  unfold adp_create_tabulation pair_extract_potential_objects adp_extract_tabulation_args eam_extract_tabulation_args adp_extract_dipoles adp_extract_quadrupoles
  have hc : eam_extract_cutoffs ⟨t⟩ = ⟨t.cutoff.getD 10, t.nr.getD 1001, t.cutoff_rho.getD 100, t.nrho.getD 1001⟩ := by
    unfold eam_extract_cutoffs pair_extract_cutoffs
    cases h1 : t.cutoff <;> cases h2 : t.nr <;> cases h3 : t.cutoff_rho <;> cases h4 : t.nrho <;> simp [h1, h2, h3, h4]
  rw [hc]
  cases pairObjects () () ⟨t⟩ with
  | error e => rfl
  | ok pots =>
    simp only [andThen]
    cases eamBuilder ⟨t⟩ () () (mkRefData ⟨t⟩) with
    | error e => rfl
    | ok b =>
      simp only []
      cases sectionObjects ⟨t⟩ () () "EAM-ADP-Dipole" with
      | error e => rfl
      | ok dip =>
        simp only []
        cases sectionObjects ⟨t⟩ () () "EAM-ADP-Quadrupole" <;> rfl

open Atsim.Gen.Logic in
theorem rho_loop_eq (t : EamTabRec) (l : List Int) (acc : List Rat) :
    rho_value_iterator_loop1 acc t l = acc ++ l.map (fun n => (((n : Int) : Rat) * t.cutoff_rho) / (((t.nrho : Int) : Rat) - 1)) := by
  induction l generalizing acc with
  | nil => simp [rho_value_iterator_loop1]
  | cons x rest ih =>
    simp only [rho_value_iterator_loop1, ih, List.map_cons, List.append_assoc, List.singleton_append]

open Atsim.Gen.Logic in
/-- **code tie**: the density grid of the spreadsheet targets (`_rho_value_iterator`) is built from `nrho` and `cutoff_rho` - not from the separation grid's `nr` or
`cutoff` (round-6 seed C11_10): `nrho` values `i * cutoff_rho / (nrho - 1)` -/
theorem C19_code_rho_values (t : EamTabRec) (nrho : Nat) (h : t.nrho = (nrho : Int)) :
    rho_value_iterator t = (List.range nrho).map (fun n => rValue t.cutoff_rho nrho n) := by
  simp only [rho_value_iterator, rho_loop_eq, intRange, List.nil_append, List.map_map, sub_zero, h, Int.toNat_natCast]
  apply List.map_congr_left
  intro n _
  simp only [Function.comp, rValue]
  push_cast
  ring

end Atsim.C19
