import AtsimModel.Model.Dups
import AtsimModel.Model.Validate
import AtsimModel.Gen.Logic
/-!
# C20 — each interaction / form is defined at most once; duplicates are rejected

INI level: `readIni currentCfg` (configparser strict mode with the normalising `optionxform`).  Above it: `dupPairs`,
`dupTableForms`, `registryClash` (Model/Dups.lean).  Tie to the code: `harness/props/C20.py`.
-/
namespace Atsim.C20
open Atsim

/-! ### helper lemmas: `readStep` on key lines -/

/-- a key line read inside a section either is a duplicate or records `(section, tested key)` and keeps the section -/
theorem step_kv (c : IniCfg) (st : ReadState) (s k v : String) (hcur : st.cur = some s) :
    readStep c st (.kv k v) = .error .duplicate ∨
    ∃ st', readStep c st (.kv k v) = .ok st' ∧ st'.cur = some s ∧ st'.seen = st.seen ++ [(s, testKey c k)] := by
  simp only [readStep, hcur]
  split
  · left; rfl
  · right
    split
    · exact ⟨_, rfl, rfl, rfl⟩
    · exact ⟨_, rfl, rfl, rfl⟩

/-- a key line whose `(section, tested key)` was already seen is rejected as a duplicate -/
theorem step_kv_dup (c : IniCfg) (st : ReadState) (s k v : String) (hcur : st.cur = some s)
    (hseen : (s, testKey c k) ∈ st.seen) : readStep c st (.kv k v) = .error .duplicate := by
  have : st.seen.contains (s, testKey c k) = true := by simpa using hseen
  simp only [readStep, hcur, this]
  rfl

/-- a run of key lines inside a section: a duplicate error, or the section is unchanged and nothing seen is forgotten -/
theorem fold_kvs (c : IniCfg) (mid : List Line) (hmid : ∀ l ∈ mid, ∃ k v, l = .kv k v) (st : ReadState) (s : String)
    (hcur : st.cur = some s) :
    mid.foldlM (readStep c) st = .error .duplicate ∨
    ∃ st', mid.foldlM (readStep c) st = .ok st' ∧ st'.cur = some s ∧ ∀ p ∈ st.seen, p ∈ st'.seen := by
  induction mid generalizing st with
  | nil => exact .inr ⟨st, rfl, hcur, fun _ h => h⟩
  | cons l rest ih =>
    obtain ⟨k, v, rfl⟩ := hmid _ (List.mem_cons_self ..)
    have hrest : ∀ l ∈ rest, ∃ k v, l = .kv k v := fun l hl => hmid l (List.mem_cons_of_mem _ hl)
    rw [List.foldlM_cons]
    rcases step_kv c st s k v hcur with h | ⟨st1, h, hcur1, hseen1⟩
    · left; rw [h]; rfl
    · rw [h]
      rcases ih hrest st1 hcur1 with h2 | ⟨st2, h2, hcur2, hseen2⟩
      · left; exact h2
      · right
        refine ⟨st2, h2, hcur2, fun p hp => hseen2 p ?_⟩
        rw [hseen1]; exact List.mem_append_left _ hp

theorem fold_err_append (c : IniCfg) (l l' : List Line) (st : ReadState) (e : IniErr)
    (h : l.foldlM (readStep c) st = .error e) : (l ++ l').foldlM (readStep c) st = .error e := by
  rw [List.foldlM_append, h]; rfl

theorem fold_ok_append (c : IniCfg) (l l' : List Line) (st st' : ReadState)
    (h : l.foldlM (readStep c) st = .ok st') : (l ++ l').foldlM (readStep c) st = l'.foldlM (readStep c) st' := by
  rw [List.foldlM_append, h]; rfl

theorem fold_single (c : IniCfg) (a : Line) (st : ReadState) : [a].foldlM (readStep c) st = readStep c st a := by
  simp [List.foldlM_cons]

/-- the strengthened form: inside a section only `duplicate` can go wrong, so the file is rejected with exactly that error
    (no extra hypothesis on `mid` / `post` is needed) -/
theorem C20_detects_same_key_exact (c : IniCfg) (hc : c.normKeys = true) (pre mid post : List Line) (k1 k2 v1 v2 : String)
    (hk : norm k1 = norm k2) (hmid : ∀ l ∈ mid, ∃ k v, l = .kv k v)
    (hpre : ∃ st, pre.foldlM (readStep c) ⟨⟨[], []⟩, none, [], []⟩ = .ok st ∧ st.cur.isSome) :
    readIni c (pre ++ [.kv k1 v1] ++ mid ++ [.kv k2 v2] ++ post) = .error .duplicate := by
  obtain ⟨st0, hpre, hsome⟩ := hpre
  obtain ⟨s, hcur0⟩ := Option.isSome_iff_exists.1 hsome
  have htk : testKey c k1 = testKey c k2 := by simp [testKey, hc, hk]
  have hmem1 : ∀ st1 : ReadState, st1.seen = st0.seen ++ [(s, testKey c k1)] → (s, testKey c k2) ∈ st1.seen := by
    intro st1 h; rw [h, htk]; simp
  have key : (pre ++ [Line.kv k1 v1] ++ mid ++ [Line.kv k2 v2] ++ post).foldlM (readStep c) ⟨⟨[], []⟩, none, [], []⟩
      = .error .duplicate := by
    apply fold_err_append
    rcases step_kv c st0 s k1 v1 hcur0 with h | ⟨st1, h, hcur1, hseen1⟩
    · apply fold_err_append; apply fold_err_append
      rw [fold_ok_append _ _ _ _ _ hpre, fold_single]; exact h
    · have h1 : (pre ++ [Line.kv k1 v1]).foldlM (readStep c) ⟨⟨[], []⟩, none, [], []⟩ = .ok st1 := by
        rw [fold_ok_append _ _ _ _ _ hpre, fold_single]; exact h
      rcases fold_kvs c mid hmid st1 s hcur1 with h2 | ⟨st2, h2, hcur2, hseen2⟩
      · apply fold_err_append
        rw [fold_ok_append _ _ _ _ _ h1]; exact h2
      · have h3 : (pre ++ [Line.kv k1 v1] ++ mid).foldlM (readStep c) ⟨⟨[], []⟩, none, [], []⟩ = .ok st2 := by
          rw [fold_ok_append _ _ _ _ _ h1]; exact h2
        rw [fold_ok_append _ _ _ _ _ h3, fold_single]
        exact step_kv_dup c st2 s k2 v2 hcur2 (hseen2 _ (hmem1 st1 hseen1))
  unfold readIni
  rw [key]; rfl

/-- a second line of the same section whose key equals an earlier one modulo embedded whitespace is a duplicate, wherever the two lines are:
    the file `pre ++ [k1 line] ++ mid ++ [k2 line] ++ post` is rejected when no section header lies between the two lines -/
theorem C20_detects_same_key (c : IniCfg) (hc : c.normKeys = true) (pre mid post : List Line) (k1 k2 v1 v2 : String)
    (hk : norm k1 = norm k2) (hmid : ∀ l ∈ mid, ∃ k v, l = .kv k v)
    (hpre : ∃ st, pre.foldlM (readStep c) ⟨⟨[], []⟩, none, [], []⟩ = .ok st ∧ st.cur.isSome) :
    readIni c (pre ++ [.kv k1 v1] ++ mid ++ [.kv k2 v2] ++ post) = .error .duplicate ∨
    (∃ e, readIni c (pre ++ [.kv k1 v1] ++ mid ++ [.kv k2 v2] ++ post) = .error e) := by
  exact .inl (C20_detects_same_key_exact c hc pre mid post k1 k2 v1 v2 hk hmid hpre)

/-- concrete instances of every whitespace class named in the property -/
theorem C20_whitespace_examples :
    readIni currentCfg [.sec "Pair", .kv "A-B" "x", .kv "A - B" "y"] = .error .duplicate ∧
    readIni currentCfg [.sec "EAM-Density", .kv "Al->Al" "x", .kv "Al -> Al" "y"] = .error .duplicate ∧
    readIni currentCfg [.sec "Potential-Form", .kv "f(r,a)" "x", .kv "f(r, a)" "y"] = .error .duplicate ∧
    readIni currentCfg [.sec "EAM-Embed", .kv "Al" "x", .kv "A l" "y"] = .error .duplicate := by
  refine ⟨?_, ?_, ?_, ?_⟩ <;> rfl

/-- SHIPPED (regression witness): the whitespace variant was accepted and silently replaced the first definition -/
theorem C20_shipped_witness :
    readIni shippedCfg [.sec "Pair", .kv "A-B" "x", .kv "A - B" "y"] = .ok ⟨[("Pair", [("A-B", "y")])], []⟩ := by
  rfl

/-! ### helper lemmas: the `seen`-set walks as pairwise relations -/

theorem swap_eq_iff (p q : String × String) : (q.2, q.1) = p ↔ q = (p.2, p.1) := by
  obtain ⟨a, b⟩ := p
  obtain ⟨x, y⟩ := q
  simp only [Prod.mk.injEq]
  constructor <;> (rintro ⟨h1, h2⟩; exact ⟨h2, h1⟩)

/-- invariant of `_check_for_duplicate_pairs`: no duplicate is reported iff no pair (or its reversal) is in `seen`
    and no later pair equals an earlier one or its reversal -/
theorem dupPairsAux_false_iff (seen l : List (String × String)) :
    dupPairsAux seen l = false ↔
      (∀ q ∈ l, q ∉ seen ∧ (q.2, q.1) ∉ seen) ∧ l.Pairwise (fun a b => b ≠ a ∧ b ≠ (a.2, a.1)) := by
  induction l generalizing seen with
  | nil => simp [dupPairsAux]
  | cons p rest ih =>
    simp only [dupPairsAux, List.pairwise_cons, List.forall_mem_cons]
    by_cases hp : (seen.contains p || seen.contains (p.2, p.1)) = true
    · simp only [hp, if_true]
      have : p ∈ seen ∨ (p.2, p.1) ∈ seen := by simpa using hp
      constructor
      · intro h; cases h
      · rintro ⟨⟨⟨h1, h2⟩, _⟩, _⟩
        rcases this with h | h
        · exact absurd h h1
        · exact absurd h h2
    · simp only [hp, Bool.false_eq_true, if_false]
      have hp' : p ∉ seen ∧ (p.2, p.1) ∉ seen := by simpa using hp
      rw [ih]
      constructor
      · rintro ⟨h1, h2⟩
        refine ⟨⟨hp', fun q hq => ?_⟩, fun q hq => ?_, h2⟩
        · have := h1 q hq
          simp only [List.mem_append, List.mem_singleton, not_or] at this
          exact ⟨this.1.1, this.2.1⟩
        · have := h1 q hq
          simp only [List.mem_append, List.mem_singleton, not_or] at this
          exact ⟨this.1.2, fun h => this.2.2 ((swap_eq_iff p q).2 h)⟩
      · rintro ⟨⟨_, h1⟩, h3, h2⟩
        refine ⟨fun q hq => ?_, h2⟩
        simp only [List.mem_append, List.mem_singleton, not_or]
        exact ⟨⟨(h1 q hq).1, (h3 q hq).1⟩, (h1 q hq).2, fun h => (h3 q hq).2 ((swap_eq_iff p q).1 h)⟩

/-- reversed or repeated pairs: `dupPairs` fires exactly when some later pair equals an earlier one or its reversal -/
theorem C20_dupPairs_iff (l : List (String × String)) :
    dupPairs l = true ↔ ∃ i j, ∃ (hi : i < l.length) (hj : j < l.length), i < j ∧ (l[j] = l[i] ∨ l[j] = ((l[i]).2, (l[i]).1)) := by
  have h := dupPairsAux_false_iff [] l
  simp only [List.not_mem_nil, not_false_eq_true, and_self, implies_true, true_and,
    List.pairwise_iff_getElem] at h
  constructor
  · intro ht
    apply Classical.byContradiction
    intro hne
    have : dupPairs l = false := by
      unfold dupPairs
      rw [h]
      intro i j hi hj hij
      exact ⟨fun e => hne ⟨i, j, hi, hj, hij, .inl e⟩, fun e => hne ⟨i, j, hi, hj, hij, .inr e⟩⟩
    rw [this] at ht; cases ht
  · rintro ⟨i, j, hi, hj, hij, hd⟩
    cases hf : dupPairs l with
    | true => rfl
    | false =>
      have := (h.1 hf) i j hi hj hij
      rcases hd with e | e
      · exact absurd e this.1
      · exact absurd e this.2

theorem dupLabels_false_iff (l : List String) : dupLabels l = false ↔ l.Nodup := by
  induction l with
  | nil => simp [dupLabels]
  | cons x rest ih =>
    simp only [dupLabels, List.nodup_cons, Bool.or_eq_false_iff, ih]
    simp

theorem dupLabels_iff (l : List String) :
    dupLabels l = true ↔ ∃ i j, ∃ (hi : i < l.length) (hj : j < l.length), i < j ∧ l[i] = l[j] := by
  have h := dupLabels_false_iff l
  rw [List.nodup_iff_pairwise_ne, List.pairwise_iff_getElem] at h
  constructor
  · intro ht
    apply Classical.byContradiction
    intro hne
    have : dupLabels l = false := by
      rw [h]
      intro i j hi hj hij e
      exact hne ⟨i, j, hi, hj, hij, e⟩
    rw [this] at ht; cases ht
  · rintro ⟨i, j, hi, hj, hij, e⟩
    cases hf : dupLabels l with
    | true => rfl
    | false => exact absurd e ((h.1 hf) i j hi hj hij)

/-- table-form sections whose names agree modulo surrounding whitespace are duplicates -/
theorem C20_tables_iff (names : List String) :
    dupTableForms names = true ↔ ∃ i j, ∃ (hi : i < names.length) (hj : j < names.length), i < j ∧ strip names[i] = strip names[j] := by
  unfold dupTableForms
  rw [dupLabels_iff]
  constructor
  · rintro ⟨i, j, hi, hj, hij, e⟩
    rw [List.length_map] at hi hj
    exact ⟨i, j, hi, hj, hij, by simpa using e⟩
  · rintro ⟨i, j, hi, hj, hij, e⟩
    exact ⟨i, j, by simpa using hi, by simpa using hj, hij, by simpa using e⟩

/-- a table form named like a custom or a standard form, a custom form named like a table form or like another custom form: all rejected -/
theorem C20_registry (standard tables customs : List String) (x : String) :
    ((x ∈ tables ∧ x ∈ customs) → registryClash standard tables customs = true) ∧
    ((x ∈ tables ∧ x ∈ standard) → registryClash standard tables customs = true) ∧
    ((x ∈ customs ∧ x ∈ standard) → registryClash standard tables customs = true) := by
  simp only [registryClash, Bool.or_eq_true, List.any_eq_true, List.contains_iff_mem]
  refine ⟨?_, ?_, ?_⟩
  · rintro ⟨h1, h2⟩
    exact .inr ⟨x, h2, .inr h1⟩
  · rintro ⟨h1, h2⟩
    exact .inl (.inl (.inl ⟨x, h1, h2⟩))
  · rintro ⟨h1, h2⟩
    exact .inr ⟨x, h1, .inl h2⟩

/-- and when there is no clash every label names exactly one form -/
theorem C20_registry_ok (standard tables customs : List String) (h : registryClash standard tables customs = false) :
    tables.Nodup ∧ customs.Nodup ∧ (∀ x ∈ tables, x ∉ standard ∧ x ∉ customs) ∧ (∀ x ∈ customs, x ∉ standard) := by
  simp only [registryClash, Bool.or_eq_false_iff, dupLabels_false_iff, List.any_eq_false, List.contains_iff_mem,
    Bool.or_eq_true, not_or] at h
  obtain ⟨⟨⟨h1, h2⟩, h3⟩, h4⟩ := h
  refine ⟨h2, h3, fun x hx => ⟨h1 x hx, fun hc => (h4 x hc).2 hx⟩, fun x hx => (h4 x hx).1⟩

/-- **binding**: in a file that is accepted, a key's stored value is the value of the one line that defines it -/
theorem C20_binding_example :
    readIni currentCfg [.sec "Pair", .kv "A-B" "x", .kv "B - B" "y", .sec "EAM-Embed", .kv "A" "z"]
      = .ok ⟨[("Pair", [("A-B", "x"), ("B-B", "y")]), ("EAM-Embed", [("A", "z")])], []⟩ := by
  rfl

/-! ## The code itself: the duplicate checks regenerated from the source

`Atsim.Gen.Logic.dup_pairs` / `dup_table_forms` are `ConfigParser._check_for_duplicate_pairs` and `_TableFormSection.check_for_duplicate_table_forms` as
`translator/py2lean_logic.py` produces them on every run: the loops over sections and keys, the `seen` set (members in order of first insertion; only membership is
used) and the `seen.setdefault(label, []).append(name)` dictionary are the code's own.  For EVERY configuration (sections with their keys in file order) they decide
what the model's `dupPairs` / `dupLabels` decide. -/
namespace CodeTie
open Atsim.Gen.Logic

/-- the pair a key stands for (`_pair_species_func`), when it is one -/
def keyPair (k : String) : Option (String × String) := splitKey (pySplit1 k '-')

def pairSections : List String := ["Pair", "EAM-ADP-Dipole", "EAM-ADP-Quadrupole"]

end CodeTie

/-! ### helper lemmas for the code ties -/
section CodeTieProofs
open Atsim.Gen.Logic CodeTie

theorem psf_some (k : String) (p : String × String) (h : keyPair k = some p) :
    pair_species_func strip k = .ok p := by
  unfold keyPair at h
  unfold pair_species_func
  generalize pySplit1 k '-' = l at h ⊢
  match l, h with
  | [], h => simp [splitKey] at h
  | [a], h => simp [splitKey] at h
  | [a, b], h =>
    simp only [splitKey] at h
    split at h
    · cases h
    · rename_i hb
      simp only [Bool.or_eq_true, beq_iff_eq, not_or] at hb
      cases h
      simp [hb.1, hb.2]
  | a :: b :: c :: r, h => simp [splitKey] at h

theorem psf_none (k : String) (h : keyPair k = none) :
    ∃ e, pair_species_func strip k = .error e := by
  unfold keyPair at h
  unfold pair_species_func
  generalize pySplit1 k '-' = l at h ⊢
  match l, h with
  | [], h => exact ⟨.notTwoParts, by simp⟩
  | [a], h => exact ⟨.notTwoParts, by simp⟩
  | [a, b], h =>
    simp only [splitKey] at h
    split at h
    · rename_i hb
      simp only [Bool.or_eq_true, beq_iff_eq] at hb
      by_cases ha : strip a = ""
      · exact ⟨.blankSpecies, by simp [ha]⟩
      · have hb' := hb.resolve_left ha
        exact ⟨.blankSpecies, by simp [ha, hb']⟩
    · cases h
  | a :: b :: c :: r, h => exact ⟨.notTwoParts, by simp; omega⟩


theorem loop2_wf (sn : String) (cfg : CfgRec) (keys : List String) (hk : ∀ k ∈ keys, (keyPair k).isSome)
    (seen : List (String × String)) :
    dup_pairs_loop2 strip sn seen cfg keys =
      if dupPairsAux seen (keys.filterMap keyPair) then .error CfgErr.duplicatePair
      else .ok (seen ++ keys.filterMap keyPair) := by
  induction keys generalizing seen with
  | nil => simp [dup_pairs_loop2, dupPairsAux]
  | cons k rest ih =>
    obtain ⟨p, hp⟩ := Option.isSome_iff_exists.1 (hk k (List.mem_cons_self ..))
    have hrest : ∀ k ∈ rest, (keyPair k).isSome := fun k h => hk k (List.mem_cons_of_mem _ h)
    rw [dup_pairs_loop2, psf_some k p hp, List.filterMap_cons, hp]
    simp only [andThen, dupPairsAux]
    by_cases h1 : seen.contains p = true
    · simp only [h1, if_true, Bool.true_or]
    · by_cases h2 : seen.contains (p.2, p.1) = true
      · simp only [h2, if_true, Bool.or_true, ite_self]
      · have h1' : seen.contains p = false := by simpa using h1
        have h2' : seen.contains (p.2, p.1) = false := by simpa using h2
        simp only [h1', h2', Bool.false_eq_true, if_false, Bool.or_self, setAdd]
        rw [ih hrest (seen ++ [p])]
        simp

theorem loop2_not_wf (sn : String) (cfg : CfgRec) (keys : List String) (hk : ¬ ∀ k ∈ keys, (keyPair k).isSome)
    (seen : List (String × String)) :
    ∃ e, dup_pairs_loop2 strip sn seen cfg keys = .error e := by
  induction keys generalizing seen with
  | nil => exact absurd (by simp) hk
  | cons k rest ih =>
    rw [dup_pairs_loop2]
    cases hp : keyPair k with
    | none =>
      obtain ⟨e, he⟩ := psf_none k hp
      exact ⟨e, by rw [he]; rfl⟩
    | some p =>
      have hrest : ¬ ∀ k ∈ rest, (keyPair k).isSome := by
        intro h
        apply hk
        intro k' hk'
        rcases List.mem_cons.1 hk' with rfl | h'
        · simp [hp]
        · exact h k' h'
      rw [psf_some k p hp]
      simp only [andThen]
      by_cases h1 : seen.contains p = true
      · exact ⟨_, by rw [if_pos h1]⟩
      · by_cases h2 : seen.contains (p.2, p.1) = true
        · exact ⟨_, by rw [if_neg h1, if_pos h2]⟩
        · obtain ⟨e, he⟩ := ih hrest (setAdd seen p)
          exact ⟨e, by rw [if_neg h1, if_neg h2]; exact he⟩

theorem loop1_wf (cfg : CfgRec) (ss : List String)
    (hkeys : ∀ s ∈ ss, ∀ k ∈ cfgKeys cfg s, (keyPair k).isSome) :
    dup_pairs_loop1 strip cfg ss =
      if ss.any (fun s => cfgHas cfg s && dupPairs ((cfgKeys cfg s).filterMap keyPair)) then .error CfgErr.duplicatePair
      else .ok () := by
  induction ss with
  | nil => simp [dup_pairs_loop1]
  | cons s rest ih =>
    have ih' := ih (fun s h => hkeys s (List.mem_cons_of_mem _ h))
    rw [dup_pairs_loop1, List.any_cons]
    by_cases hh : cfgHas cfg s = true
    · simp only [hh, if_true, Bool.true_and]
      rw [loop2_wf _ _ _ (hkeys s (List.mem_cons_self ..))]
      unfold dupPairs
      by_cases hd : dupPairsAux [] ((cfgKeys cfg s).filterMap keyPair) = true
      · simp [hd, andThen]
      · have hd' : dupPairsAux [] ((cfgKeys cfg s).filterMap keyPair) = false := by simpa using hd
        simp only [hd', Bool.false_eq_true, if_false, andThen, Bool.false_or]
        exact ih'
    · have hh' : cfgHas cfg s = false := by simpa using hh
      simp only [hh', Bool.false_eq_true, if_false, Bool.false_and, Bool.false_or]
      exact ih'

theorem loop1_ok_iff (cfg : CfgRec) (ss : List String) :
    dup_pairs_loop1 strip cfg ss = .ok () ↔
      ∀ s ∈ ss, cfgHas cfg s = true →
        (∀ k ∈ cfgKeys cfg s, (keyPair k).isSome) ∧ dupPairs ((cfgKeys cfg s).filterMap keyPair) = false := by
  induction ss with
  | nil => simp [dup_pairs_loop1]
  | cons s rest ih =>
    rw [dup_pairs_loop1, List.forall_mem_cons]
    by_cases hh : cfgHas cfg s = true
    · simp only [hh, if_true, true_implies]
      by_cases hw : ∀ k ∈ cfgKeys cfg s, (keyPair k).isSome
      · rw [loop2_wf _ _ _ hw]
        unfold dupPairs
        by_cases hd : dupPairsAux [] ((cfgKeys cfg s).filterMap keyPair) = true
        · simp [hd, andThen]
        · have hd' : dupPairsAux [] ((cfgKeys cfg s).filterMap keyPair) = false := by simpa using hd
          simp only [hd', Bool.false_eq_true, if_false, andThen]
          rw [ih]
          unfold dupPairs
          exact ⟨fun h => ⟨⟨hw, trivial⟩, h⟩, fun h => h.2⟩
      · obtain ⟨e, he⟩ := loop2_not_wf s cfg _ hw []
        rw [he]
        simp only [andThen]
        constructor
        · intro h; cases h
        · intro h; exact absurd h.1.1 hw
    · have hh' : cfgHas cfg s = false := by simpa using hh
      simp only [hh', Bool.false_eq_true, if_false, false_implies, true_and]
      exact ih

theorem andThen_unit (x : Except CfgErr Unit) : andThen x (fun _ => .ok ()) = x := by
  cases x <;> rfl


theorem tf_loop2 (isRelevant : String → Bool) (parseName : String → String) (cfg : CfgRec)
    (seen l : List (String × List String)) :
    dup_table_forms_loop2 isRelevant parseName cfg seen l =
      if l.any (fun e => decide (1 < e.2.length)) then .error CfgErr.duplicateTableForm else .ok () := by
  induction l with
  | nil => simp [dup_table_forms_loop2]
  | cons e rest ih =>
    rw [dup_table_forms_loop2, ih, List.any_cons]
    by_cases h : 1 < e.2.length
    · have h' : ((e.2.length : Nat) : Int) > 1 := by omega
      simp [h, h']
    · have h' : ¬ ((e.2.length : Nat) : Int) > 1 := by omega
      have hd : decide (1 < e.2.length) = false := by simpa using h
      rw [hd, Bool.false_or, if_neg (by simpa using h')]

/-- the `seen` dictionary against the labels processed so far: every entry lists as many names as its label occurred, and every label has an entry -/
def TfInv (seen : List (String × List String)) (L : List String) : Prop :=
  (∀ e ∈ seen, e.2.length = L.count e.1) ∧ (∀ x ∈ L, ∃ e ∈ seen, e.1 = x)

theorem tfInv_step (seen : List (String × List String)) (L : List String) (k v : String) (h : TfInv seen L) :
    TfInv (multiAppend seen k v) (L ++ [k]) := by
  obtain ⟨h1, h2⟩ := h
  unfold multiAppend
  by_cases ha : (seen.any fun e => e.1 == k) = true
  · rw [if_pos ha]
    constructor
    · intro e he
      obtain ⟨e0, he0, rfl⟩ := List.mem_map.1 he
      by_cases hk : e0.1 = k
      · have hc : List.count k [k] = 1 := by simp
        simp only [hk, beq_self_eq_true, if_true, List.length_append, List.length_singleton, List.count_append, hc]
        rw [h1 e0 he0, hk]
      · have hc : List.count e0.1 [k] = 0 := List.count_eq_zero_of_not_mem (by simpa using hk)
        have hb : (e0.1 == k) = false := by simpa using hk
        simp only [hb, Bool.false_eq_true, if_false, List.count_append, hc, Nat.add_zero]
        exact h1 e0 he0
    · intro x hx
      rcases List.mem_append.1 hx with hx | hx
      · obtain ⟨e, he, rfl⟩ := h2 x hx
        refine ⟨_, List.mem_map.2 ⟨e, he, rfl⟩, ?_⟩
        by_cases hk : e.1 = k <;> simp [hk]
      · have : x = k := by simpa using hx
        subst this
        obtain ⟨e, he, hek⟩ := List.any_eq_true.1 ha
        have hek' : e.1 = x := by simpa using hek
        refine ⟨_, List.mem_map.2 ⟨e, he, rfl⟩, ?_⟩
        simp [hek']
  · rw [if_neg ha]
    have hnone : ∀ e ∈ seen, e.1 ≠ k := by
      intro e he hk
      exact ha (List.any_eq_true.2 ⟨e, he, by simp [hk]⟩)
    have hkL : k ∉ L := by
      intro hk
      obtain ⟨e, he, hek⟩ := h2 k hk
      exact hnone e he hek
    constructor
    · intro e he
      rcases List.mem_append.1 he with he | he
      · have hc : List.count e.1 [k] = 0 := List.count_eq_zero_of_not_mem (by simpa using hnone e he)
        simp only [List.count_append, hc, Nat.add_zero]
        exact h1 e he
      · have : e = (k, [v]) := by simpa using he
        subst this
        simp [List.count_append, List.count_eq_zero_of_not_mem hkL]
    · intro x hx
      rcases List.mem_append.1 hx with hx | hx
      · obtain ⟨e, he, hex⟩ := h2 x hx
        exact ⟨e, List.mem_append_left _ he, hex⟩
      · have : x = k := by simpa using hx
        subst this
        exact ⟨(x, [v]), by simp, rfl⟩

theorem tfInv_final (seen : List (String × List String)) (L : List String) (h : TfInv seen L) :
    (seen.any (fun e => decide (1 < e.2.length))) = dupLabels L := by
  obtain ⟨h1, h2⟩ := h
  cases hd : dupLabels L with
  | false =>
    have hn : L.Nodup := (dupLabels_false_iff L).1 hd
    rw [List.any_eq_false]
    intro e he
    have := List.nodup_iff_count.1 hn e.1
    rw [← h1 e he] at this
    simp; omega
  | true =>
    have hn : ¬ L.Nodup := by
      intro hn
      rw [(dupLabels_false_iff L).2 hn] at hd
      cases hd
    rw [List.nodup_iff_count] at hn
    obtain ⟨x, hx⟩ := Classical.not_forall.1 hn
    have hx : 1 < List.count x L := by omega
    have hxL : x ∈ L := List.count_pos_iff.1 (by omega)
    obtain ⟨e, he, rfl⟩ := h2 x hxL
    rw [List.any_eq_true]
    exact ⟨e, he, by rw [h1 e he]; simpa using hx⟩

theorem tf_loop1 (isRelevant : String → Bool) (parseName : String → String) (cfg : CfgRec)
    (ss : List String) (seen : List (String × List String)) (L : List String) (h : TfInv seen L) :
    dup_table_forms_loop1 isRelevant parseName cfg seen ss =
      if dupLabels (L ++ (ss.filter isRelevant).map parseName) then .error CfgErr.duplicateTableForm else .ok () := by
  induction ss generalizing seen L with
  | nil =>
    rw [dup_table_forms_loop1, tf_loop2, tfInv_final seen L h]
    simp
  | cons s rest ih =>
    rw [dup_table_forms_loop1]
    by_cases hr : isRelevant s = true
    · rw [if_pos hr, List.filter_cons_of_pos hr, List.map_cons]
      rw [ih _ (L ++ [parseName s]) (tfInv_step seen L _ s h)]
      simp
    · rw [if_neg hr, List.filter_cons_of_neg hr]
      exact ih seen L h

end CodeTieProofs

open Atsim.Gen.Logic CodeTie in
/-- **code tie**: when every key of the pair sections is a well-formed `A-B` key, `_check_for_duplicate_pairs` raises its duplicate error exactly when one of the three
    sections, taken on its own, names some unordered pair twice (`dupPairs` of the pairs in file order), and otherwise accepts -/
theorem C20_code_dup_pairs (cfg : CfgRec)
    (hkeys : ∀ s ∈ pairSections, ∀ k ∈ cfgKeys cfg s, (keyPair k).isSome) :
    dup_pairs strip cfg =
      if pairSections.any (fun s => cfgHas cfg s && dupPairs ((cfgKeys cfg s).filterMap keyPair)) then .error CfgErr.duplicatePair else .ok () := by
  unfold dup_pairs
  rw [andThen_unit]
  exact loop1_wf cfg pairSections hkeys

open Atsim.Gen.Logic CodeTie in
/-- **code tie**, without any assumption on the keys: the check passes iff in each of the three sections that exist every key is well-formed and no unordered pair
    is named twice -/
theorem C20_code_dup_pairs_ok_iff (cfg : CfgRec) :
    dup_pairs strip cfg = .ok () ↔
      ∀ s ∈ pairSections, cfgHas cfg s = true →
        (∀ k ∈ cfgKeys cfg s, (keyPair k).isSome) ∧ dupPairs ((cfgKeys cfg s).filterMap keyPair) = false := by
  unfold dup_pairs
  rw [andThen_unit]
  exact loop1_ok_iff cfg pairSections

open Atsim.Gen.Logic in
/-- **code tie**: `check_for_duplicate_table_forms` raises exactly when two `[Table-Form:…]` sections have the same (parsed, stripped) name -/
theorem C20_code_dup_table_forms (isRelevant : String → Bool) (parseName : String → String) (cfg : CfgRec) :
    dup_table_forms isRelevant parseName cfg =
      if dupLabels (((cfgSections cfg).filter isRelevant).map parseName) then .error CfgErr.duplicateTableForm else .ok () := by
  unfold dup_table_forms
  have := tf_loop1 isRelevant parseName cfg (cfgSections cfg) [] [] ⟨by simp, by simp⟩
  simpa using this


/-! ## The code itself: the label checks of `Potential_Form_Registry`

`Atsim.Gen.Logic.build_potential_forms / build_table_forms / check_labels_case` are `_build_potential_forms`, `_build_table_forms` and
`_check_labels_differ_by_more_than_case` as regenerated on every run (the objects they build are opaque: `mkFunc`, `mkForm`, `mkTable` are handed in).  The order in
which `__init__` calls them - standard forms, table forms against those, custom forms against both, then the case check - is the hand model `registryClash`. -/

namespace RegistryTieProofs
open Atsim.Gen.Logic

theorem lookupLast_eq_none_iff {β : Type} (d : List (String × β)) (k : String) :
    lookupLast d k = none ↔ k ∉ d.map (·.1) := by
  simp [lookupLast, List.find?_eq_none]
  constructor
  · intro h b hb; exact h k b hb rfl
  · intro h a b hab hak; subst hak; exact h b hab

theorem dupLabels_true_of_not_nodup (l : List String) (h : ¬ l.Nodup) : dupLabels l = true := by
  cases hd : dupLabels l with
  | true => rfl
  | false => exact absurd ((dupLabels_false_iff l).1 hd) h

theorem dupLabels_mid_mem (L R : List String) (x : String) (h : x ∈ L) : dupLabels (L ++ x :: R) = true := by
  apply dupLabels_true_of_not_nodup
  intro hn
  have := List.nodup_append.1 hn
  exact this.2.2 x h x (by simp) rfl

theorem pf_loop1 (mkFunc : DefRec → FuncObj) (mkForm : FuncObj → FormObj) (c : List DefRec) :
    ∀ (xs : List DefRec) (acc : List (String × FormObj)), (acc.map (·.1)).Nodup →
      build_potential_forms_loop1 mkFunc mkForm c acc xs =
        if dupLabels (acc.map (·.1) ++ xs.map fun d => d.signature.label) then .error RegErr.sameCustomLabel
        else .ok (acc ++ xs.map fun d => (d.signature.label, mkForm (mkFunc d))) := by
  intro xs
  induction xs with
  | nil =>
    intro acc h
    simp [build_potential_forms_loop1, (dupLabels_false_iff _).2 h]
  | cons x rest ih =>
    intro acc h
    rw [build_potential_forms_loop1]
    cases hl : lookupLast acc x.signature.label with
    | some f =>
      have hm : x.signature.label ∈ acc.map (·.1) := by
        apply Classical.byContradiction; intro hc
        rw [(lookupLast_eq_none_iff acc _).2 hc] at hl
        cases hl
      simp only [List.map_cons]
      rw [dupLabels_mid_mem _ _ _ hm]
      rfl
    | none =>
      have hm : x.signature.label ∉ acc.map (·.1) := (lookupLast_eq_none_iff acc _).1 hl
      simp only []
      rw [ih]
      · simp
      · rw [List.map_append, List.nodup_append]
        refine ⟨h, by simp, ?_⟩
        intro a ha b hb hab
        simp at hb
        subst hb; subst hab
        exact hm ha

theorem tf_reg_loop1 (mkTable : TDefRec → FormObj) (c : List TDefRec) (existing : List (String × FormObj)) :
    ∀ (xs : List TDefRec) (acc : List (String × FormObj)), (acc.map (·.1)).Nodup →
      build_table_forms_loop1 mkTable c existing acc xs =
        if xs.any (fun d => existing.any fun e => e.1 == d.name) || dupLabels (acc.map (·.1) ++ xs.map fun d => d.name)
        then .error RegErr.tableLabelTaken
        else .ok (acc ++ xs.map fun d => (d.name, mkTable d)) := by
  intro xs
  induction xs with
  | nil =>
    intro acc h
    simp [build_table_forms_loop1, (dupLabels_false_iff _).2 h]
  | cons x rest ih =>
    intro acc h
    rw [build_table_forms_loop1]
    cases he : (existing.any fun e => e.1 == x.name) with
    | true => simp [he]
    | false =>
      cases hl : lookupLast acc x.name with
      | some f =>
        have hm : x.name ∈ acc.map (·.1) := by
          apply Classical.byContradiction; intro hc
          rw [(lookupLast_eq_none_iff acc _).2 hc] at hl
          cases hl
        simp only [List.map_cons]
        rw [dupLabels_mid_mem _ _ _ hm]
        simp
      | none =>
        have hm : x.name ∉ acc.map (·.1) := (lookupLast_eq_none_iff acc _).1 hl
        simp only [Bool.false_eq_true, if_false]
        rw [ih]
        · rw [List.any_cons, he]
          simp only [Bool.false_or, List.map_append, List.map_cons, List.map_nil, List.append_assoc,
            List.cons_append, List.nil_append]
        · rw [List.map_append, List.nodup_append]
          refine ⟨h, by simp, ?_⟩
          intro a ha b hb hab
          simp at hb
          subst hb; subst hab
          exact hm ha

theorem lc_loop1 (lower : String → String) (c : List String) :
    ∀ (xs : List String) (seen : List (String × String)), (seen.map (·.1)).Nodup →
      check_labels_case_loop1 lower seen c xs =
        if dupLabels (seen.map (·.1) ++ xs.map lower) then .error RegErr.caseOnlyDifference else .ok () := by
  intro xs
  induction xs with
  | nil =>
    intro acc h
    simp [check_labels_case_loop1, (dupLabels_false_iff _).2 h]
  | cons x rest ih =>
    intro acc h
    rw [check_labels_case_loop1]
    cases hl : lookupLast acc (lower x) with
    | some f =>
      have hm : lower x ∈ acc.map (·.1) := by
        apply Classical.byContradiction; intro hc
        rw [(lookupLast_eq_none_iff acc _).2 hc] at hl
        cases hl
      simp only [List.map_cons]
      rw [dupLabels_mid_mem _ _ _ hm]
      rfl
    | none =>
      have hm : lower x ∉ acc.map (·.1) := (lookupLast_eq_none_iff acc _).1 hl
      simp only []
      rw [ih]
      · simp
      · rw [List.map_append, List.nodup_append]
        refine ⟨h, by simp, ?_⟩
        intro a ha b hb hab
        simp at hb
        subst hb; subst hab
        exact hm ha

theorem insertBy_perm' {α : Type} (le : α → α → Bool) (x : α) : ∀ l : List α, (insertBy le x l).Perm (x :: l)
  | [] => by simp [insertBy]
  | y :: ys => by
    simp only [insertBy]
    split
    · exact ((insertBy_perm' le x ys).cons y).trans (List.Perm.swap x y ys)
    · exact List.Perm.refl _

theorem foldl_insertBy_perm' {α : Type} (le : α → α → Bool) :
    ∀ (l acc : List α), (l.foldl (fun acc x => insertBy le x acc) acc).Perm (acc ++ l)
  | [], acc => by simp
  | x :: xs, acc => by
    simp only [List.foldl_cons]
    refine (foldl_insertBy_perm' le xs _).trans ?_
    exact ((insertBy_perm' le x acc).append_right xs).trans
      (by simpa using (List.perm_middle (a := x) (l₁ := acc) (l₂ := xs)).symm)

theorem stableSortBy_perm' {α : Type} (le : α → α → Bool) (l : List α) : (stableSortBy le l).Perm l := by
  simpa [stableSortBy] using foldl_insertBy_perm' le l []

theorem dupLabels_perm {l₁ l₂ : List String} (h : l₁.Perm l₂) : dupLabels l₁ = dupLabels l₂ := by
  have h1 := dupLabels_false_iff l₁
  have h2 := dupLabels_false_iff l₂
  have := h.nodup_iff
  cases hd1 : dupLabels l₁ <;> cases hd2 : dupLabels l₂ <;> simp_all

end RegistryTieProofs

open Atsim.Gen.Logic in
/-- **code tie**: two `[Potential-Form]` entries with one label are refused; otherwise every definition is registered under its label, in order -/
theorem C20_code_build_potential_forms (mkFunc : DefRec → FuncObj) (mkForm : FuncObj → FormObj) (defs : List DefRec) :
    build_potential_forms mkFunc mkForm defs =
      if dupLabels (defs.map fun d => d.signature.label) then .error RegErr.sameCustomLabel
      else .ok (defs.map fun d => (d.signature.label, mkForm (mkFunc d))) := by
  unfold build_potential_forms
  have h := RegistryTieProofs.pf_loop1 mkFunc mkForm defs defs [] (by simp)
  simp only [List.map_nil, List.nil_append] at h
  exact h

open Atsim.Gen.Logic in
/-- **code tie**: a table form is refused when its name is already registered (a standard form) or is the name of an earlier table form -/
theorem C20_code_build_table_forms (mkTable : TDefRec → FormObj) (existing : List (String × FormObj)) (defs : List TDefRec) :
    build_table_forms mkTable existing defs =
      if defs.any (fun d => existing.any fun e => e.1 == d.name) || dupLabels (defs.map fun d => d.name) then .error RegErr.tableLabelTaken
      else .ok (defs.map fun d => (d.name, mkTable d)) := by
  unfold build_table_forms
  have h := RegistryTieProofs.tf_reg_loop1 mkTable defs existing defs [] (by simp)
  simp only [List.map_nil, List.nil_append] at h
  exact h

open Atsim.Gen.Logic in
/-- **code tie**: labels that differ only by case are refused (inside formulas function names are not case-sensitive), whatever the order the labels were registered in -/
theorem C20_code_check_labels_case (labels : List String) :
    check_labels_case String.toLower labels =
      if dupLabels (labels.map String.toLower) then .error RegErr.caseOnlyDifference else .ok () := by
  unfold check_labels_case
  have h := RegistryTieProofs.lc_loop1 String.toLower labels
    (stableSortBy (fun a b => decide (a ≤ b)) labels) [] (by simp)
  simp only [List.map_nil, List.nil_append] at h
  rw [h, RegistryTieProofs.dupLabels_perm ((RegistryTieProofs.stableSortBy_perm' _ labels).map String.toLower)]


end Atsim.C20
