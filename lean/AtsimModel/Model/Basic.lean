/-!
Shared vocabulary of the executable models (core Lean only: no Mathlib import, so that the
line-protocol driver starts in well under a second).

Numbers are exact rationals (`Rat`): every IEEE double and every printed decimal is a rational,
so models never compare floats.  Potentials are opaque: a model only ever sees a function
identifier `Fid` and the abscissa at which the function was sampled.
-/
namespace Atsim

abbrev Sp := String
abbrev Fid := Nat

/-- `i`-th point of an `n`-point grid on `[0, cut]` : `i * cut / (n - 1)` -/
def gridPt (cut : Rat) (n i : Nat) : Rat := (i : Rat) * cut / ((n : Rat) - 1)

/-- A number written to a table, as the tracer tokeniser sees it: "function `fid` sampled at `x`",
    or a literal zero (zero-filled function, or `r * phi(r)` at `r = 0`). -/
inductive Slot where
  | val (fid : Fid) (x : Rat)
  | zero
deriving DecidableEq, Repr

end Atsim
