/-!
Event view of the writers (C17): a trace is the sequence of function evaluations (`ev`) and of `write` calls on the
destination (`wr`) that a tabulation performs.  If the k-th evaluation raises, the destination holds exactly what
was written before it.
-/
namespace Atsim

inductive Ev where
  | ev            -- one evaluation of a model function (energy, force, density, embedding, dipole, ...)
  | wr            -- one non-empty `write` on the destination file object
deriving DecidableEq, Repr

/-- all evaluations first, the whole text in one `write` at the end
    (LAMMPS, DL_POLY, setfl, setfl_fs, TABEAM, TABEAM_fs, funcfl, Excel; after the `fix:` commits also GULP and ADP) -/
def traceBuffered (n : Nat) : List Ev := List.replicate n .ev ++ [.wr]

/-- SHIPPED `GULP_PairTabulation.write`: per potential two header writes, then one evaluation and one write per row -/
def traceGulpStreamed (npots nr : Nat) : List Ev :=
  (List.replicate npots ([.wr, .wr] ++ (List.replicate nr [Ev.ev, Ev.wr]).flatten)).flatten

/-- SHIPPED `ADP_EAMTabulation.write`: setfl part, dipole part, quadrupole part, each evaluated and then written -/
def traceAdpThreeWrites (n1 n2 n3 : Nat) : List Ev :=
  List.replicate n1 .ev ++ [.wr] ++ List.replicate n2 .ev ++ [.wr] ++ List.replicate n3 .ev ++ [.wr]

/-- number of writes that reached the destination before the k-th evaluation (k = 1, 2, ...) -/
def writesBeforeFailure : List Ev → Nat → Nat
  | [], _ => 0
  | .wr :: rest, k => 1 + writesBeforeFailure rest k
  | .ev :: rest, k => if k ≤ 1 then 0 else writesBeforeFailure rest (k - 1)

def evalCount (t : List Ev) : Nat := t.count .ev

end Atsim
