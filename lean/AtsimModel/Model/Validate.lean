import AtsimModel.Model.PotLang
import AtsimModel.Model.Cutoff
import AtsimModel.Model.Ini
/-!
Validation logic of potable models (C16): the decision procedures that turn a structurally malformed input into a configuration
error, transcribed from the code, each next to the well-formedness predicate the reference manual states.

* `splitKey`      – `_pair_species_func` / the `A->B` key parser: exactly one separator
* `validateSpline`– the `spline()` modifier and its two factories (atsim/potentials/_modifiers.py)
* `validateTable` – `_TableFormSection._parse_data/_parse_x_y/_parse_xy` + the interpolation's own requirements
* `validateTarget`– target names incl. synonyms (`_TabulationSection._target_synonyms`, `TABULATION_FACTORIES`)
The [Tabulation] grid rules are `initCutoff` (Model/Cutoff.lean, C11), definition syntax is `parseDefinition` (Model/PotLang.lean, C09),
duplicate rules are `readIni`/`dupPairs` (C20).
-/
namespace Atsim

/-- number of parts when splitting at a separator must be exactly two, and neither part may be blank -/
def splitKey (parts : List String) : Option (String × String) :=
  match parts with
  | [a, b] => if strip a == "" || strip b == "" then none else some (strip a, strip b)      -- (a species needs a name: fix adc5aa1)
  | _ => none

inductive SplineErr where
  | argCount | onePart | notASplineType | twoParts | moreThanThree | detachOrder | attachOrder | expParams | buck4Params | rminRange
deriving Repr, DecidableEq

/-- `spline(potential_forms, builder)`: `args` are the comma separated arguments, each a multi-range definition -/
def validateSpline (args : List MultiRange) : Except SplineErr Unit :=
  match args with
  | [m] =>
    match m with
    | [] => .error .onePart
    | [_] => .error .onePart
    | (s1, _) :: (s2, p2) :: rest =>
      -- the middle piece must be a form whose label is a spline type
      match p2 with
      | .modifier _ _ => .error .notASplineType
      | .form label params =>
        if label != "exp_spline" && label != "buck4_spline" then .error .notASplineType
        else match rest with
          | [] => .error .twoParts
          | _ :: _ :: _ => .error .moreThanThree
          | [(s3, _)] =>
            if !(s1.2 < s2.2) then .error .detachOrder
            else if !(s2.2 < s3.2) then .error .attachOrder
            else if label == "exp_spline" then
              (if params.isEmpty then .ok () else .error .expParams)
            else match params with
              | [rmin] => if s2.2 < rmin && rmin < s3.2 then .ok () else .error .rminRange
              | _ => .error .buck4Params
  | _ => .error .argCount

/-- the reference manual's well-formedness of a spline definition -/
def WellFormedSpline (args : List MultiRange) : Prop :=
  ∃ s1 p1 s2 label params s3 p3, args = [[(s1, p1), (s2, .form label params), (s3, p3)]] ∧
    s1.2 < s2.2 ∧ s2.2 < s3.2 ∧
    ((label = "exp_spline" ∧ params = []) ∨ (label = "buck4_spline" ∧ ∃ rmin, params = [rmin] ∧ s2.2 < rmin ∧ rmin < s3.2))

inductive TableErr where
  | noData | xyAndXY | missingXorY | lengthMismatch | oddXY | unknownInterpolation | tooFewPoints | notIncreasing
deriving Repr, DecidableEq

/-- data shape of one [Table-Form] section: which entries are present and the numeric x values obtained (after de-interleaving) -/
structure TableShape where
  hasX : Bool
  hasY : Bool
  hasXY : Bool
  nx : Nat
  ny : Nat
  nxy : Nat
  interpolation : String
  /-- the x values that will be handed to the interpolation (valid when the shape checks pass) -/
  xs : List Rat

def strictlyIncreasing : List Rat → Bool
  | a :: b :: rest => a < b && strictlyIncreasing (b :: rest)
  | _ => true

def validateTable (t : TableShape) : Except TableErr Unit :=
  if t.hasX || t.hasY then
    if !(t.hasX && t.hasY) then .error .missingXorY
    else if t.hasXY then .error .xyAndXY
    else if t.nx != t.ny then .error .lengthMismatch
    else if t.interpolation != "cubic_spline" then .error .unknownInterpolation
    else if t.xs.length < 4 then .error .tooFewPoints
    else if !strictlyIncreasing t.xs then .error .notIncreasing
    else .ok ()
  else if t.hasXY then
    if t.nxy % 2 != 0 then .error .oddXY
    else if t.interpolation != "cubic_spline" then .error .unknownInterpolation
    else if t.xs.length < 4 then .error .tooFewPoints
    else if !strictlyIncreasing t.xs then .error .notIncreasing
    else .ok ()
  else .error .noData

/-! ### signatures of `[Potential-Form]` entries

The formula language is case-insensitive: the symbol table of a custom form is keyed by the lower-cased name.  `bindParams` is what
`_Cexptrk_Potential_Function.__call__` does (one write per parameter, in signature order), `lookupParam` what the expression reads. -/

/-- `for (pn, v) in zip(parameter_names, args): symbol_table.variables[pn] = v` on a case-insensitive table: the writes, in order -/
def bindParams : List String → List Rat → List (String × Rat)
  | n :: ns, v :: vs => (n.toLower, v) :: bindParams ns vs
  | _, _ => []

/-- the value the expression sees for a name: the most recent write under that (case-folded) name -/
def lookupParam : List (String × Rat) → String → Option Rat
  | [], _ => none
  | (k, v) :: rest, n =>
    match lookupParam rest n with
    | some x => some x
    | none => if k == n.toLower then some v else none

/-- the check added by the `fix:` commit: the first parameter that is, up to case, an earlier one -/
def sigClash : List String → List String → Option (String × String)
  | _, [] => none
  | seen, n :: ns => match seen.find? (fun s => s.toLower == n.toLower) with
    | some s => some (s, n)
    | none => sigClash (seen ++ [n]) ns

def validSignature (ns : List String) : Bool := (sigClash [] ns).isNone

/-- documented target names, synonyms included -/
def documentedTargets : List String :=
  ["DL_POLY", "DLPOLY", "DL_POLY_EAM_fs", "DL_POLY_EAM", "eam_adp", "excel", "excel_eam", "excel_eam_fs", "GULP", "LAMMPS_eam_alloy", "setfl", "LAMMPS", "setfl_fs"]

/-- `_target_synonyms` then membership in `TABULATION_FACTORIES`; an omitted target defaults to LAMMPS -/
def validateTarget (t : Option String) : Option String :=
  match t with
  | none => some "LAMMPS"
  | some t =>
    let t' := if t == "lammps_eam_alloy" || t == "LAMMPS_eam_alloy" then "setfl" else if t == "DL_POLY" then "DLPOLY" else t
    if ["LAMMPS", "DLPOLY", "GULP", "excel", "setfl", "setfl_fs", "DL_POLY_EAM", "DL_POLY_EAM_fs", "excel_eam", "excel_eam_fs", "eam_adp"].contains t' then some t' else none

end Atsim
