import AtsimModel.Model.Basic
/-!
Model of `FilteredConfigParser` (atsim/potentials/config/_filtered_config_parser.py).

An entry of `[Pair]`, `[EAM-Embed]`, `[EAM-Density]` is abstracted to the tuple of species it mentions and an identifier.
`checkTuple` transcribes `_check_tuple` (loop with early returns).  Views are modelled as a small state machine in two
variants: `Shared` – the shipped behaviour, where `_species_list` / `_exclude_flag` were stored on the WRAPPED parser
(wrapt forwards attributes not prefixed `_self_`), and `PerView` – the behaviour after the `fix:` commit.
-/
namespace Atsim

structure Entry where
  species : List Sp
  id : Nat
deriving DecidableEq, Repr

/-- `_check_tuple` -/
def checkTuple (exclude : Bool) (S : List Sp) : List Sp → Bool
  | [] => true
  | v :: rest =>
    let vIn := S.contains v
    if exclude && vIn then false
    else if !exclude && !vIn then false
    else checkTuple exclude S rest

/-- the four filtered properties all have this shape: `[p for p in wrapped.X if self._check_tuple(species of p)]` -/
def filteredView (exclude : Bool) (S : List Sp) (entries : List Entry) : List Entry :=
  entries.filter fun e => checkTuple exclude S e.species

/-- the specification: delete by hand every entry that mentions a species outside S (include) / a species in S (exclude) -/
def deleteByHand (exclude : Bool) (S : List Sp) (entries : List Entry) : List Entry :=
  entries.filter fun e => if exclude then e.species.all (fun s => !S.contains s) else e.species.all (fun s => S.contains s)

/-- constructor's choice of mode.  SHIPPED: by truthiness of `exclude` (so `exclude=[]` became include-mode with an empty list).
    CURRENT: include-mode iff `include` was given and `exclude` is empty/absent; otherwise exclude-mode (an absent or empty exclude set filters nothing). -/
def modeShipped (excl incl : Option (List Sp)) : Bool × List Sp :=
  match excl with
  | some (x :: xs) => (true, x :: xs)
  | _ => (false, incl.getD [])

def modeCurrent (excl incl : Option (List Sp)) : Bool × List Sp :=
  match excl, incl with
  | some (x :: xs), _ => (true, x :: xs)
  | _, some inc => (false, inc)
  | e, none => (true, e.getD [])

/-! ### views as a state machine -/

inductive ViewOp where
  | create (exclude : Bool) (S : List Sp)     -- a new view (its index is the number of views created before)
  | read (view : Nat)
deriving Repr

/-- PerView: every view keeps its own settings -/
def stepPerView (entries : List Entry) (views : List (Bool × List Sp)) : ViewOp → List (Bool × List Sp) × Option (List Entry)
  | .create ex S => (views ++ [(ex, S)], none)
  | .read i => (views, (views[i]?).map fun v => filteredView v.1 v.2 entries)

/-- Shared: the settings live on the wrapped parser; creating a view overwrites them for all views -/
def stepShared (entries : List Entry) (st : Nat × Option (Bool × List Sp)) : ViewOp → (Nat × Option (Bool × List Sp)) × Option (List Entry)
  | .create ex S => ((st.1 + 1, some (ex, S)), none)
  | .read i => (st, if i < st.1 then st.2.map fun v => filteredView v.1 v.2 entries else none)

def runPerView (entries : List Entry) (ops : List ViewOp) : List (Option (List Entry)) :=
  (ops.foldl (fun (acc : List (Bool × List Sp) × List (Option (List Entry))) op =>
      let r := stepPerView entries acc.1 op
      (r.1, acc.2 ++ [r.2])) ([], [])).2

def runShared (entries : List Entry) (ops : List ViewOp) : List (Option (List Entry)) :=
  (ops.foldl (fun (acc : (Nat × Option (Bool × List Sp)) × List (Option (List Entry))) op =>
      let r := stepShared entries acc.1 op
      (r.1, acc.2 ++ [r.2])) ((0, none), [])).2

end Atsim
