/-! Hand model of `potentialfunctions._polynomial` (the varargs comprehension is outside the translator's fragment):
    `sum([r**float(i) * c for (i,c) in enumerate(coefs)])`, and the two derivative methods (after the `fix:` commit
    the terms with i < 1 / i < 2 are skipped instead of being computed and sliced away). Executable at Float. -/
namespace Atsim

def polyValF (i0 : Nat) : List Float → Float → Float
  | [], _ => 0.0
  | c :: cs, r => Float.pow r (Float.ofNat i0) * c + polyValF (i0 + 1) cs r

/-- Python sums left to right starting from 0: `sum(v)` = ((0 + v0) + v1) + … -/
def sumLeft (l : List Float) : Float := l.foldl (· + ·) 0.0

def polyTerms (r : Float) (cs : List Float) : List Float :=
  (List.range cs.length).map fun i => Float.pow r (Float.ofNat i) * cs.getD i 0.0
def polyD1Terms (r : Float) (cs : List Float) : List Float :=
  ((List.range cs.length).filter (· ≥ 1)).map fun i => Float.ofNat i * Float.pow r (Float.ofNat (i - 1)) * cs.getD i 0.0
def polyD2Terms (r : Float) (cs : List Float) : List Float :=
  ((List.range cs.length).filter (· ≥ 2)).map fun i => Float.ofNat i * Float.ofNat (i - 1) * Float.pow r (Float.ofNat (i - 2)) * cs.getD i 0.0

def polyCall (r : Float) (cs : List Float) : Float := sumLeft (polyTerms r cs)
def polyDeriv (r : Float) (cs : List Float) : Float := sumLeft (polyD1Terms r cs)
def polyDeriv2 (r : Float) (cs : List Float) : Float := sumLeft (polyD2Terms r cs)

end Atsim
