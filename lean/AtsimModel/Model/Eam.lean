import AtsimModel.Model.Basic
/-!
Models of the EAM writers and of the potable EAM builder.

* `setfl`, `setflFS`     – `_lammpsWriteEAM._writeSetFL` with `_writeSetFLDensityFunction` / `…FinnisSinclair`
* `adp`                  – `ADP_EAMTabulation.write` = setfl ++ dipole blocks ++ quadrupole blocks (unscaled)
* `tabeam`, `tabeamFS`   – `_dlpoly_writeTABEAM.writeTABEAM` / `writeTABEAMFinnisSinclair`
* `eamBuild`, `eamBuildFS` – `EAM_Potential_Builder(_FS)._init_eampotentials`
* `refResolve`           – `Reference_Data.get` + the builder's defaults

Function id `0` stands for the zero function (`zero()` / `ZeroPair` / `nullfunc`).
-/
namespace Atsim

/-- one `EAMPotential` object, as the writers see it -/
structure El where
  sp : Sp
  z : Int
  mass : Rat
  a0 : Rat
  lat : String
  embed : Fid
  /-- conventional EAM: the single density function -/
  dens : Fid
  /-- Finnis-Sinclair: the dict `{neighbour species : function}` of this (central) species -/
  densTo : List (Sp × Fid)
deriving DecidableEq, Repr

/-- a declared pair potential (also dipole / quadrupole function) -/
structure PairDecl where
  a : Sp
  b : Sp
  fid : Fid
deriving DecidableEq, Repr

def mkSlot (f : Fid) (x : Rat) : Slot := if f = 0 then .zero else .val f x

/-- `for i in range(n): func(float(i) * step)` -/
def sampled (f : Fid) (n : Nat) (step : Rat) : List Slot :=
  (List.range n).map fun (i : Nat) => mkSlot f ((i : Rat) * step)

/-- `pairkey(a, b)` : the two labels, sorted -/
def pairKey (a b : Sp) : Sp × Sp := if a ≤ b then (a, b) else (b, a)

/-- `pairpotsdict[pairkey(..)] = pp` in list order, then `.get(k, zeroPair)`: the LAST declaration of a key wins -/
def pairLookup (pairs : List PairDecl) (k : Sp × Sp) : Fid :=
  match pairs.reverse.find? (fun p => pairKey p.a p.b == k) with
  | some p => p.fid
  | none => 0

def dictGet (d : List (Sp × Fid)) (k : Sp) : Option Fid :=
  match d.reverse.find? (fun p => p.1 == k) with
  | some p => some p.2
  | none => none

/-- `r * phi(r)` (or `phi(r)` when unscaled) at `r = k * dr`, `k = 0..nr-1`;  `0 * phi(0)` is the literal `0` -/
def pairSlots (scale : Bool) (f : Fid) (nr : Nat) (dr : Rat) : List Slot :=
  (List.range nr).map fun (k : Nat) => if scale && k == 0 then Slot.zero else mkSlot f ((k : Rat) * dr)

/-- the lower-triangular enumeration `for i in range(n): for j in range(i+1)` -/
def lowerTri (n : Nat) : List (Nat × Nat) :=
  (List.range n).flatMap fun i => (List.range (i + 1)).map fun j => (i, j)

/-- `_writeSetFLPairPots` -/
def pairBlocks (scale : Bool) (els : List El) (pairs : List PairDecl) (nr : Nat) (dr : Rat) : List (List Slot) :=
  (lowerTri els.length).map fun (i, j) =>
    match els[i]?, els[j]? with
    | some ei, some ej => pairSlots scale (pairLookup pairs (pairKey ei.sp ej.sp)) nr dr
    | _, _ => []

structure ElBlock where
  z : Int
  mass : Rat
  a0 : Rat
  lat : String
  embed : List Slot
  /-- one list (conventional) or one per element in header order (Finnis-Sinclair) -/
  dens : List (List Slot)
deriving DecidableEq, Repr

structure SetflFile where
  ntypes : Nat
  names : List Sp
  nrho : Nat
  drho : Rat
  nr : Nat
  dr : Rat
  elements : List ElBlock
  pairs : List (List Slot)
  /-- ADP only -/
  dipoles : List (List Slot)
  quadrupoles : List (List Slot)
deriving DecidableEq, Repr

def elBlock (fs : Bool) (els : List El) (nrho : Nat) (drho : Rat) (nr : Nat) (dr : Rat) (e : El) : ElBlock :=
  { z := e.z, mass := e.mass, a0 := e.a0, lat := e.lat,
    embed := sampled e.embed nrho drho,
    dens := if fs then
        -- `for otherpot in eampots: otherpot.electronDensityFunction[eampot.species]`
        els.map fun other => sampled ((dictGet other.densTo e.sp).getD 0) nr dr
      else [sampled e.dens nr dr] }

/-- `_writeSetFL` (`fs = true` for `writeSetFLFinnisSinclair`) -/
def setfl (fs : Bool) (nrho : Nat) (drho : Rat) (nr : Nat) (dr : Rat) (els : List El) (pairs : List PairDecl) : SetflFile :=
  { ntypes := els.length, names := els.map (·.sp), nrho := nrho, drho := drho, nr := nr, dr := dr,
    elements := els.map (elBlock fs els nrho drho nr dr),
    pairs := pairBlocks true els pairs nr dr, dipoles := [], quadrupoles := [] }

/-- the tabulation classes: `drho = cutoff_rho / float(nrho-1)`, `dr = cutoff / float(nr-1)` -/
def tabStep (cut : Rat) (n : Nat) : Rat := cut / ((n : Rat) - 1)

def setflTab (fs : Bool) (els : List El) (pairs : List PairDecl) (cut : Rat) (nr : Nat) (cutrho : Rat) (nrho : Nat) : SetflFile :=
  setfl fs nrho (tabStep cutrho nrho) nr (tabStep cut nr) els pairs

/-- `ADP_EAMTabulation.write` -/
def adp (els : List El) (pairs dip quad : List PairDecl) (cut : Rat) (nr : Nat) (cutrho : Rat) (nrho : Nat) : SetflFile :=
  { setflTab false els pairs cut nr cutrho nrho with
    dipoles := pairBlocks false els dip nr (tabStep cut nr),
    quadrupoles := pairBlocks false els quad nr (tabStep cut nr) }

/-! ### DL_POLY TABEAM -/

structure TBlock where
  kw : String
  species : List Sp
  n : Nat
  lo : Rat
  hi : Rat
  /-- values in records of four, a shorter last record allowed -/
  rows : List (List Slot)
deriving DecidableEq, Repr

structure TabeamFile where
  declared : Nat
  blocks : List TBlock
deriving DecidableEq, Repr

/-- `_tabulateFunction`: rows of four, then the remainder -/
def rowsOf4 : List Slot → List (List Slot)
  | a :: b :: c :: d :: rest => [a, b, c, d] :: rowsOf4 rest
  | [] => []
  | l => [l]

def tblock (kw : String) (species : List Sp) (f : Fid) (n : Nat) (step : Rat) : TBlock :=
  { kw := kw, species := species, n := n, lo := 0, hi := ((n : Rat) - 1) * step, rows := rowsOf4 (sampled f n step) }

/-- upper-triangular enumeration of a list: `(l[i], l[j])` for `i ≤ j` – what `sorted(set(tuple(sorted(..))))`
    over `els × els` yields when `l` is the sorted list of distinct species -/
def tri : List Sp → List (Sp × Sp)
  | [] => []
  | a :: rest => ((a :: rest).map fun b => (a, b)) ++ tri rest

/-- insertion into a sorted list of labels (structural, so that the kernel can evaluate it) -/
def insertSp (x : Sp) : List Sp → List Sp
  | [] => [x]
  | y :: ys => if x ≤ y then x :: y :: ys else y :: insertSp x ys

/-- `sorted(...)` on a list of strings -/
def sortSp (l : List Sp) : List Sp := l.foldr insertSp []

/-- `_writePairPotentials`: header uses the declared potential's own label order, or the sorted key for the null function -/
def tabeamPairs (els : List El) (pairs : List PairDecl) (nr : Nat) (dr : Rat) : List TBlock :=
  (tri (sortSp (els.map (·.sp)))).map fun k =>
    match pairs.reverse.find? (fun p => pairKey p.a p.b == k) with
    | some p => tblock "pair" [p.a, p.b] p.fid nr dr
    | none => tblock "pair" [k.1, k.2] 0 nr dr

def tabeam (fs : Bool) (nrho : Nat) (drho : Rat) (nr : Nat) (dr : Rat) (els : List El) (pairs : List PairDecl) : TabeamFile :=
  let n := els.length
  { declared := if fs then 3 * n * (n + 1) / 2 else n * (n + 5) / 2,
    blocks := tabeamPairs els pairs nr dr
      ++ (els.map fun e => tblock "embe" [e.sp] e.embed nrho drho)
      ++ (if fs then
            els.flatMap fun a => (sortSp (els.map (·.sp))).map fun b =>
              tblock "dens" [a.sp, b] ((dictGet a.densTo b).getD 0) nr dr
          else els.map fun e => tblock "dens" [e.sp] e.dens nr dr) }

def tabeamTab (fs : Bool) (els : List El) (pairs : List PairDecl) (cut : Rat) (nr : Nat) (cutrho : Rat) (nrho : Nat) : TabeamFile :=
  tabeam fs nrho (tabStep cutrho nrho) nr (tabStep cut nr) els pairs

/-! ### DYNAMO funcfl (`writeFuncFL`) -/

structure FuncflFile where
  z : Int
  mass : Rat
  a0 : Rat
  lat : String
  nrho : Nat
  drho : Rat
  nr : Nat
  dr : Rat
  /-- `cutoff = dr * (nr - 1)` -/
  cutoff : Rat
  /-- records of (at most) five values; each of the three blocks starts on a new record -/
  embed : List (List Slot)
  /-- effective charge `sqrt(phi(r) * r / 27.2 / 0.529)`, recorded as the slot of `phi` it was computed from -/
  charge : List (List Slot)
  dens : List (List Slot)
deriving DecidableEq, Repr

/-- `_writeValueBlock`: five values per record, a shorter last record -/
def rowsOf5 : List Slot → List (List Slot)
  | a :: b :: c :: d :: e :: rest => [a, b, c, d, e] :: rowsOf5 rest
  | [] => []
  | l => [l]

/-- `writeFuncFL(nrho, drho, nr, dr, [eampot], [pairpot])` -/
def funcfl (nrho : Nat) (drho : Rat) (nr : Nat) (dr : Rat) (e : El) (pairFid : Fid) : FuncflFile :=
  { z := e.z, mass := e.mass, a0 := e.a0, lat := e.lat, nrho := nrho, drho := drho, nr := nr, dr := dr,
    cutoff := dr * ((nr : Rat) - 1),
    embed := rowsOf5 (sampled e.embed nrho drho),
    charge := rowsOf5 (pairSlots true pairFid nr dr),      -- phi(r)*r under the square root: the r = 0 value is the literal 0
    dens := rowsOf5 (sampled e.dens nr dr) }

/-! ### Excel workbooks (cell grids) -/

structure Sheet where
  name : String
  /-- header row: first-column name, then the column labels -/
  header : List String
  /-- data rows: first-column value, then one slot per labelled column -/
  rows : List (Rat × List Slot)
deriving DecidableEq, Repr

def sortStr (l : List String) : List String := sortSp l

/-- `_populate_worksheet`: `column_dict[label](r)` for each label in `column_keys`, one row per first-column value -/
def sheet (name first : String) (n : Nat) (cut : Rat) (cols : List (String × Fid)) : Sheet :=
  let keys := sortStr (eraseDupsStr (cols.map (·.1)))
  { name := name, header := first :: keys,
    rows := (List.range n).map fun (i : Nat) =>
      let x := (i : Rat) * cut / ((n : Rat) - 1)
      (x, keys.map fun k => mkSlot ((dictGet cols k).getD 0) x) }
where eraseDupsStr (l : List String) : List String := l.foldl (fun acc s => if acc.contains s then acc else acc ++ [s]) []

/-- `Excel_PairTabulation._add_pair_worksheet`: key `"{}-{}".format(*sorted([a, b]))`, later declarations overwrite -/
def pairSheet (pairs : List PairDecl) (cut : Rat) (nr : Nat) : Sheet :=
  sheet "Pair" "r" nr cut (pairs.map fun p => ((pairKey p.a p.b).1 ++ "-" ++ (pairKey p.a p.b).2, p.fid))

/-- `Excel_EAMTabulation` / `Excel_FinnisSinclair_EAMTabulation` -/
def excelEam (fs : Bool) (els : List El) (pairs : List PairDecl) (cut : Rat) (nr : Nat) (cutrho : Rat) (nrho : Nat) : List Sheet :=
  [ pairSheet pairs cut nr,
    sheet "EAM-Density" "r" nr cut
      (if fs then els.flatMap fun e => e.densTo.map fun (t, f) => (e.sp ++ "->" ++ t, f)
       else els.map fun e => (e.sp, e.dens)),
    sheet "EAM-Embed" "rho" nrho cutrho (els.map fun e => (e.sp, e.embed)) ]

/-! ### potable: reference data and the EAM builders -/

/-- `[Species]` override, else built-in element table, else the builder's default (`none` = configuration error) -/
def refResolve {α : Type} (extra builtin dflt : Option α) : Option α :=
  match extra with
  | some v => some v
  | none => match builtin with
    | some v => some v
    | none => dflt

structure SpMeta where
  z : Option Int
  mass : Option Rat
  a0 : Option Rat
  lat : Option String
deriving DecidableEq, Repr

/-- `extra`/`builtin` give, per species, what `[Species]` and the element table hold -/
def resolveMeta (extra builtin : Sp → SpMeta) (s : Sp) : Option (Int × Rat × Rat × String) :=
  match refResolve (extra s).z (builtin s).z none, refResolve (extra s).mass (builtin s).mass none,
        refResolve (extra s).a0 (builtin s).a0 (some 0), refResolve (extra s).lat (builtin s).lat (some "fcc") with
  | some z, some m, some a, some l => some (z, m, a, l)
  | _, _, _, _ => none

def eraseDupsSp (l : List Sp) : List Sp := l.foldl (fun acc s => if acc.contains s then acc else acc ++ [s]) []

/-- `EAM_Potential_Builder._init_eampotentials` with the iteration order of the zero-filled species as an explicit
    parameter `extraOrder`.  At the pinned commit that order was the iteration order of a Python `set` (whatever the
    hash seed made it); since the `fix:` commit it is `sorted(...)`, see `eamBuild`. -/
def eamBuildWith (embed dens : List (Sp × Fid)) (extraOrder : List Sp) (spMeta : Sp → Option (Int × Rat × Rat × String)) : Option (List El) :=
  let embedKeys := eraseDupsSp (embed.map (·.1))
  let extras := extraOrder.filter fun s => (dens.map (·.1)).contains s && !embedKeys.contains s
  (embedKeys ++ extras).mapM fun s =>
    match spMeta s with
    | none => none
    | some (z, m, a, l) =>
      some { sp := s, z := z, mass := m, a0 := a, lat := l, embed := (dictGet embed s).getD 0,
             dens := (dictGet dens s).getD 0, densTo := [] }

/-- current behaviour: element order = `[EAM-Embed]` order followed by the zero-filled species in SORTED order -/
def eamBuild (embed dens : List (Sp × Fid)) (spMeta : Sp → Option (Int × Rat × Rat × String)) : Option (List El) :=
  eamBuildWith embed dens (sortSp (eraseDupsSp (dens.map (·.1)))) spMeta

/-- `EAM_Potential_Builder_FS`: density species are the from- and to-species of every `A->B` entry;
    `dict[A][B]` for every pair over embed ∪ density species, zero when undeclared -/
def eamBuildFSWith (embed : List (Sp × Fid)) (dens : List (Sp × Sp × Fid)) (extraOrder : List Sp)
    (spMeta : Sp → Option (Int × Rat × Rat × String)) : Option (List El) :=
  let embedKeys := eraseDupsSp (embed.map (·.1))
  let densSpecies := dens.flatMap fun d => [d.1, d.2.1]
  let extras := extraOrder.filter fun s => densSpecies.contains s && !embedKeys.contains s
  let all := embedKeys ++ extras
  all.mapM fun s =>
    match spMeta s with
    | none => none
    | some (z, m, a, l) =>
      some { sp := s, z := z, mass := m, a0 := a, lat := l, embed := (dictGet embed s).getD 0, dens := 0,
             densTo := all.map fun o =>
               (o, match dens.find? (fun d => d.1 == s && d.2.1 == o) with
                   | some d => d.2.2
                   | none => 0) }

def eamBuildFS (embed : List (Sp × Fid)) (dens : List (Sp × Sp × Fid)) (spMeta : Sp → Option (Int × Rat × Rat × String)) : Option (List El) :=
  eamBuildFSWith embed dens (sortSp (eraseDupsSp (dens.flatMap fun d => [d.1, d.2.1]))) spMeta

end Atsim
