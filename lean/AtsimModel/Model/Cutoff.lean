/-!
Model of `_TabulationCutoff._init_cutoff` (atsim/potentials/config/_config_parser.py) and of the
factories' defaults (`extract_cutoffs`).

`initCutoff` is generic in the number type of `dr`/`cutoff` through the record `CutOps`, so that the same
transcription is instantiated at `Rat` (the specification's arithmetic; theorems in `Props/C11.lean`) and
at `Float` (what actually runs; executed by the driver and compared bit for bit with the implementation).
-/
namespace Atsim

inductive CutErr where
  | allThree      -- nr, dr and cutoff all given
  | stepAlone     -- dr without nr or cutoff
  | nonPositive   -- a given value is zero or negative
  | tooFewRows    -- a row count of 1 (a table needs two rows to define its step)
deriving DecidableEq, Repr

structure CutOps (α : Type) where
  le0 : α → Bool                 -- `x <= 0`
  mulPred : Int → α → α          -- `(nr - 1) * dr`
  rows : α → α → Int             -- row count for (cutoff, dr)

/-- SHIPPED behaviour at the pinned commit (kept for the record and for the defect witnesses):
    combination tests used Python truthiness, so `0` / `0.0` counted as "not given". -/
def initCutoffTruthy {α : Type} (o : CutOps α) (isZero : α → Bool) (nr : Option Int) (dr cutoff : Option α) :
    Except CutErr (Option Int × Option α) :=
  let tn := match nr with | some n => n != 0 | none => false
  let td := match dr with | some d => !isZero d | none => false
  let tc := match cutoff with | some c => !isZero c | none => false
  let step : Except CutErr (Option Int × Option α) :=
    if tn && td && tc then .error .allThree
    else if tn && td then
      match nr, dr with
      | some n, some d => .ok (some n, some (o.mulPred n d))
      | _, _ => .ok (nr, cutoff)
    else if tc && td then
      match cutoff, dr with
      | some c, some d => .ok (some (o.rows c d), some c)
      | _, _ => .ok (nr, cutoff)
    else if dr.isSome then .error .stepAlone
    else .ok (nr, cutoff)
  match step with
  | .error e => .error e
  | .ok (n, c) =>
    if (match n with | some n => decide (n ≤ 0) | none => false) then .error .nonPositive
    else if (match dr with | some d => o.le0 d | none => false) then .error .nonPositive
    else if (match c with | some c => o.le0 c | none => false) then .error .nonPositive
    else .ok (n, c)

/-- `_check_positive`: the first complaint, in the order the code tests (nr <= 0, nr < 2, dr <= 0, cutoff <= 0) -/
def checkPositive {α : Type} (o : CutOps α) (n : Option Int) (d c : Option α) : Option CutErr :=
  if (match n with | some n => decide (n ≤ 0) | none => false) then some .nonPositive
  else if (match n with | some n => decide (n < 2) | none => false) then some .tooFewRows
  else if (match d with | some d => o.le0 d | none => false) then some .nonPositive
  else if (match c with | some c => o.le0 c | none => false) then some .nonPositive
  else none

/-- CURRENT behaviour (after the `fix:` commits): signs (and the one-row grid) are validated first, presence is tested with `is not None`,
    and the combined values are validated again. -/
def initCutoff {α : Type} (o : CutOps α) (nr : Option Int) (dr cutoff : Option α) :
    Except CutErr (Option Int × Option α) :=
  match checkPositive o nr dr cutoff with
  | some e => .error e
  | none =>
    match nr, dr, cutoff with
    | some _, some _, some _ => .error .allThree
    | some n, some d, none =>
        let c := o.mulPred n d
        match checkPositive o (some n) (some d) (some c) with
        | some e => .error e
        | none => .ok (some n, some c)
    | none, some d, some c =>
        let n := o.rows c d
        match checkPositive o (some n) (some d) (some c) with
        | some e => .error e
        | none => .ok (some n, some c)
    | _, some _, none => .error .stepAlone
    | n, none, c => .ok (n, c)

/-- exact arithmetic: `⌊cutoff/dr⌋ + 1` rows (for a whole multiple `k*dr` this is `k + 1`) -/
def ratOps : CutOps Rat :=
  { le0 := fun x => decide (x ≤ 0), mulPred := fun n d => ((n : Rat) - 1) * d, rows := fun c d => (c / d).floor + 1 }

/-- SHIPPED row count: `int(cutoff/dr + 1)` in binary64 -/
def rowsTrunc (c d : Float) : Int := ((c / d + 1).toUInt64.toNat : Int)

/-- CURRENT row count (`_rows_for_step`): snap to the nearest integer when the quotient is within 1e-9 relative of it, else truncate -/
def rowsSnap (c d : Float) : Int :=
  let q := c / d
  let nearest := q.round
  if (q - nearest).abs ≤ 1e-9 * (if q.abs > 1.0 then q.abs else 1.0) then      -- `max(1.0, abs(q))`: Python returns the second argument only when it is greater
    ((nearest.toUInt64.toNat : Int)) + 1
  else ((q + 1).toUInt64.toNat : Int)

def floatOps (rows : Float → Float → Int) : CutOps Float :=
  { le0 := fun x => x ≤ 0, mulPred := fun n d => (Float.ofInt (n - 1)) * d, rows := rows }

/-- defaults of `PairTabulationFactory.extract_cutoffs` / `EAMTabulationFactory.extract_cutoffs` -/
def withDefaults (r : Option Int × Option Rat) (defNr : Int) (defCut : Rat) : Int × Rat :=
  (r.1.getD defNr, r.2.getD defCut)

end Atsim
