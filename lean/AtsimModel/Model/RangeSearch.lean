/-!
Model of `Multi_Range_Potential_Form` (atsim/potentials/_multi_range_potential_form.py).

Range starts and the query point are integers here: the selection only depends on their ORDER, and
the harness sends the ranks of the (finitely many) starts and of `r` in their common order
(`float("-inf")` is simply the lowest rank).
-/
namespace Atsim

structure RD where
  /-- `range_type == ">="` -/
  incl : Bool
  start : Int
  /-- identifies the range's potential form -/
  f : Nat
deriving DecidableEq, Repr

/-- `_range_defn_cmp(a, b) <= 0` -/
def rdLe (a b : RD) : Bool :=
  if a.start == b.start then (a.incl || !b.incl) else decide (a.start < b.start)

/-- stable insertion: `x` goes after every element that compares `<=` to it -/
def insertRD (x : RD) : List RD → List RD
  | [] => [x]
  | y :: ys => if rdLe y x then y :: insertRD x ys else x :: y :: ys

/-- `tuples.sort(key = cmp_to_key(_range_defn_cmp))` – Python's sort is stable -/
def sortRD (l : List RD) : List RD := l.foldl (fun acc x => insertRD x acc) []

/-- the `for t in rt` loop of `_range_search`, `last` being the loop variable of that name -/
def searchLoop (r : Int) : Option RD → List RD → Option RD
  | last, [] => match last with
      | some l => if r > l.start then some l else none
      | none => none
  | last, t :: ts =>
      if r == t.start && t.incl then some t
      else match last with
        | some l => if r ≤ t.start && r > l.start then some l else searchLoop r (some t) ts
        | none => searchLoop r (some t) ts

/-- `_range_search` -/
def rangeSearch (rt : List RD) (r : Int) : Option RD :=
  match rt with
  | [] => none
  | t0 :: _ => if r < t0.start || (r == t0.start && !t0.incl) then none else searchLoop r none rt

/-- what `__call__`, `deriv`, `deriv2` evaluate: the selected range's form, or the default (0) when none -/
def selected (l : List RD) (r : Int) : Option Nat := (rangeSearch (sortRD l) r).map (·.f)

end Atsim
