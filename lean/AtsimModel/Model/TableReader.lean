/-!
Models for tabulated input (C18), over exact rationals:

* `DatReader._populate` / `TableReaderBase.getValue` / `_findIndex` (atsim/potentials/_tablereaders.py): the data rows of the file
  (after comment and blank-line removal, first two fields of each line) are sorted, looked up with `bisect_left`, linearly interpolated;
* `_parse_xy` (de-interleaving of `xy` data) and `_parse_x_y`;
* `plotToFile` (atsim/potentials/__init__.py).
The cubic-spline table form is a wrapper around SciPy's `InterpolatedUnivariateSpline(ext=1)`: SciPy is an external library, its
contract (interpolation through the knots, zero outside, derivative of the interpolant) is tested by the harness, not modelled here.
-/
namespace Atsim

abbrev Row := Rat × Rat

/-- tuple comparison `(x1, y1) <= (x2, y2)` as `list.sort()` uses it -/
def rowLe (a b : Row) : Bool := a.1 < b.1 || (a.1 == b.1 && a.2 ≤ b.2)

def insertRow (r : Row) : List Row → List Row
  | [] => [r]
  | s :: rest => if rowLe r s then r :: s :: rest else s :: insertRow r rest

/-- `results.sort()` -/
def sortRows (l : List Row) : List Row := l.foldr insertRow []

/-- `bisect.bisect_left(xs, x)` on a sorted list: the number of elements strictly below x -/
def bisectLeft (tbl : List Row) (x : Rat) : Nat := (tbl.takeWhile (fun r => r.1 < x)).length

/-- `_findIndex` (for a non-empty table) -/
def findIndex (tbl : List Row) (x : Rat) : Option Nat :=
  match tbl.head?, tbl.getLast? with
  | some f, some l =>
    if x < f.1 || x > l.1 then none
    else
      let idx := bisectLeft tbl x
      match tbl[idx]? with
      | some r => if r.1 == x then some idx else some (idx - 1)
      | none => some (idx - 1)
  | _, _ => none

/-- `getValue` -/
def getValue (tbl : List Row) (x : Rat) : Rat :=
  match findIndex tbl x with
  | none => 0
  | some lowidx =>
    match tbl[lowidx]? with
    | none => 0
    | some (lx, ly) =>
      if lx == x then ly
      else
        match tbl[lowidx + 1]? with
        | none => 0
        | some (hx, hy) =>
          let m := (hy - ly) / (hx - lx)
          ly + m * (x - lx)

/-- `TableReader(fileobj)(x)`: rows in file order are sorted first -/
def tableReader (rows : List Row) (x : Rat) : Rat := getValue (sortRows rows) x

/-- `_parse_xy`: alternate values go to x and y -/
def deinterleave : List Rat → List Rat × List Rat
  | a :: b :: rest => let (xs, ys) := deinterleave rest; (a :: xs, b :: ys)
  | [a] => ([a], [])
  | [] => ([], [])

def interleave : List Rat → List Rat → List Rat
  | a :: xs, b :: ys => a :: b :: interleave xs ys
  | _, _ => []

/-- `plotToFile`: `step = (highx - lowx)/float(steps)`; rows `v = lowx + float(i)*step` for `i in range(steps)` -/
def plotXs (lowx highx : Rat) (steps : Nat) : List Rat :=
  (List.range steps).map fun (i : Nat) => lowx + (i : Rat) * ((highx - lowx) / (steps : Rat))

end Atsim
