import AtsimModel.Model.Basic
/-!
Models of the two primary pair-table writers.

* `lammpsTable`  mirrors `LAMMPS_PairTabulation.write` -> `_lammps_writeTABLE.writePotentials(pots, dr, cutoff, nr-1)`
  -> `_writeSinglePotential` (atsim/potentials/_lammps_writeTABLE.py, pair_tabulation.py).
* `dlpolyTable`  mirrors `DLPoly_PairTabulation.write` -> `_dlpoly_writeTABLE.writePotentials(pots, cutoff, nr)`
  -> `_writeTableHeader`, `_writePotential`.

The arithmetic is transcribed in the shape the code has it (same sub-expressions, same loop order),
over exact rationals.
-/
namespace Atsim

structure Pot where
  a : Sp
  b : Sp
  fid : Fid
deriving DecidableEq, Repr

/-! ### LAMMPS `pair_style table` -/

structure LRow where
  n : Nat
  r : Rat
  e : Slot      -- energy column
  f : Slot      -- force column, decoded as "minus the derivative of function fid at x"
deriving DecidableEq, Repr

structure LBlock where
  a : Sp
  b : Sp
  N : Nat
  lo : Rat
  hi : Rat
  rows : List LRow
deriving DecidableEq, Repr

/-- `r = minr + float(n-1) * (maxr - minr) / (float(gridPoints) - 1)`  (_lammps_writeTABLE.py:28) -/
def rowR (minr maxr : Rat) (N n : Nat) : Rat :=
  minr + ((n : Rat) - 1) * (maxr - minr) / ((N : Rat) - 1)

/-- `_writeSinglePotential`: `for n in range(1, gridPoints+1)` -/
def lammpsSingle (p : Pot) (minr maxr : Rat) (N : Nat) : LBlock :=
  { a := p.a, b := p.b, N := N, lo := minr, hi := maxr,
    rows := (List.range N).map fun k =>
      let r := rowR minr maxr N (k + 1)
      ⟨k + 1, r, .val p.fid r, .val p.fid r⟩ }

/-- `PairTabulation_AbstractBase.dr` : `cutoff / float(nr - 1)` -/
def pairDr (cut : Rat) (nr : Nat) : Rat := cut / ((nr : Rat) - 1)

/-- `LAMMPS_PairTabulation.write`: `lmp_writePotentials(self.potentials, self.dr, self.cutoff, self.nr-1, fp)` -/
def lammpsTable (pots : List Pot) (cut : Rat) (nr : Nat) : List LBlock :=
  pots.map fun p => lammpsSingle p (pairDr cut nr) cut (nr - 1)

/-! ### DL_POLY `TABLE` -/

structure DBlock where
  a : Sp
  b : Sp
  /-- records of (at most) four energy slots, in file order -/
  energies : List (List Slot)
  /-- records of four `-r dU/dr` slots -/
  forces : List (List Slot)
deriving DecidableEq, Repr

structure DTable where
  delpot : Rat
  cutpot : Rat
  ngrid : Nat
  blocks : List DBlock
deriving DecidableEq, Repr

/-- `r = 0.0; for i in range(gridPoints): r += meshResolution` – the separation used for the
    `i`-th value (0-based) is the `(i+1)`-fold sum. -/
def accum (step : Rat) : Nat → Rat
  | 0 => 0
  | k + 1 => accum step k + step

/-- the `l.append(...)`/`if len(l) == 4: dump` loop: complete groups of four are emitted,
    an incomplete trailing group is dropped (it cannot occur when `4 ∣ n`). -/
def groupsOf4 : List Slot → List (List Slot)
  | a :: b :: c :: d :: rest => [a, b, c, d] :: groupsOf4 rest
  | _ => []

/-- `meshResolution = cutoff / (gridPoints - 4.0)` -/
def meshResolution (cut : Rat) (ngrid : Nat) : Rat := cut / ((ngrid : Rat) - 4)

def dlpolyBlock (p : Pot) (ngrid : Nat) (mesh : Rat) : DBlock :=
  let slots := (List.range ngrid).map fun i => Slot.val p.fid (accum mesh (i + 1))
  { a := p.a, b := p.b, energies := groupsOf4 slots, forces := groupsOf4 slots }

/-- `none` = rejected (`WritePotentialException`; nothing is written).  With an empty list of
    potentials the code never reaches the `% 4` test and writes a bare header. -/
def dlpolyTable (pots : List Pot) (cut : Rat) (ngrid : Nat) : Option DTable :=
  if ngrid % 4 != 0 && !pots.isEmpty then none
  else some { delpot := meshResolution cut ngrid, cutpot := cut, ngrid := ngrid,
              blocks := pots.map fun p => dlpolyBlock p ngrid (meshResolution cut ngrid) }

/-! ### GULP `spline cubic` blocks (C19) -/

structure GBlock where
  a : Sp
  b : Sp
  cutoff : Rat
  /-- rows as written: (energy slot, separation) -/
  rows : List (Slot × Rat)
deriving DecidableEq, Repr

/-- `_r_value_iterator`: `for n in range(nr): float(n) * cutoff / (float(nr) - 1)` -/
def rValue (cut : Rat) (nr n : Nat) : Rat := (n : Rat) * cut / ((nr : Rat) - 1)

def gulpTable (pots : List Pot) (cut : Rat) (nr : Nat) : List GBlock :=
  pots.map fun p =>
    { a := p.a, b := p.b, cutoff := cut,
      rows := (List.range nr).map fun n => (Slot.val p.fid (rValue cut nr n), rValue cut nr n) }

end Atsim
