import AtsimModel.Model.Ini
import AtsimModel.Model.Basic
/-!
Duplicate detection above the INI layer (C20): `_check_for_duplicate_pairs`, `check_for_duplicate_table_forms`
(atsim/potentials/config/_config_parser.py) and the label-clash checks of `Potential_Form_Registry`.
-/
namespace Atsim

/-- `_check_for_duplicate_pairs`: walk the pair keys in file order keeping a `seen` set; a pair or its reversal already seen is a duplicate -/
def dupPairsAux (seen : List (String × String)) : List (String × String) → Bool
  | [] => false
  | p :: rest => if seen.contains p || seen.contains (p.2, p.1) then true else dupPairsAux (seen ++ [p]) rest

def dupPairs (l : List (String × String)) : Bool := dupPairsAux [] l

/-- `check_for_duplicate_table_forms`: labels are the text after `Table-Form:` stripped; two sections with one label are duplicates -/
def dupLabels : List String → Bool
  | [] => false
  | x :: rest => rest.contains x || dupLabels rest

def dupTableForms (names : List String) : Bool := dupLabels (names.map strip)

/-- `Potential_Form_Registry.__init__` (current): table forms must not clash with the standard `as.*` forms nor with each other,
    custom `[Potential-Form]` labels must not clash with each other, with table forms or with standard forms -/
def registryClash (standard tables customs : List String) : Bool :=
  tables.any (fun t => standard.contains t) || dupLabels tables || dupLabels customs ||
  customs.any (fun c => standard.contains c || tables.contains c)

end Atsim
