/-!
Custom potential forms (`[Potential-Form] NAME(r, p1..pn) = FORMULA`) as evaluated by
`_Cexptrk_Potential_Function.__call__` (atsim/potentials/config/_cexprtk_potential_function.py):

* every form owns ONE symbol table (`_local_symbol_table`); a call first overwrites the table's variables with the
  actual arguments (`self._local_symbol_table.variables[pn] = v`), then evaluates the expression, which reads its
  parameters from that table;
* forms are registered with each other, so a formula may call any other custom form.

`evalS` is that stateful semantics (with evaluation fuel, because forms may call each other cyclically and terminate
only through `if`).  `evalP` is the documented meaning: the formula with parameters substituted positionally.
The sub-language is the documented one restricted to exact arithmetic: `+ - * /`, literals, parameters, calls, `if(a > b, t, e)`.
-/
namespace Atsim

inductive Ex where
  | lit (v : Rat)
  | var (i : Nat)                 -- i-th name of the signature (0 is the separation r)
  | add (a b : Ex)
  | sub (a b : Ex)
  | mul (a b : Ex)
  | div (a b : Ex)
  | ite (a b : Ex) (t e : Ex)     -- if(a > b, t, e): only the selected branch is evaluated
  | call (f : Nat) (args : List Ex)
deriving Repr

/-- one symbol table per form: variable index ↦ value -/
abbrev Tables := Nat → Nat → Rat

def writeTable (σ : Tables) (f : Nat) (vals : List Rat) : Tables :=
  fun g i => if g = f then vals.getD i 0 else σ g i

mutual
/-- stateful evaluation of an expression inside form `cur` -/
def evalS (body : Nat → Ex) : Nat → Nat → Tables → Ex → Option (Rat × Tables)
  | 0, _, _, _ => none
  | _ + 1, _, σ, .lit v => some (v, σ)
  | _ + 1, cur, σ, .var i => some (σ cur i, σ)
  | n + 1, cur, σ, .add a b =>
      match evalS body n cur σ a with
      | none => none
      | some (x, σ1) => match evalS body n cur σ1 b with
        | none => none
        | some (y, σ2) => some (x + y, σ2)
  | n + 1, cur, σ, .sub a b =>
      match evalS body n cur σ a with
      | none => none
      | some (x, σ1) => match evalS body n cur σ1 b with
        | none => none
        | some (y, σ2) => some (x - y, σ2)
  | n + 1, cur, σ, .mul a b =>
      match evalS body n cur σ a with
      | none => none
      | some (x, σ1) => match evalS body n cur σ1 b with
        | none => none
        | some (y, σ2) => some (x * y, σ2)
  | n + 1, cur, σ, .div a b =>
      match evalS body n cur σ a with
      | none => none
      | some (x, σ1) => match evalS body n cur σ1 b with
        | none => none
        | some (y, σ2) => some (x / y, σ2)
  | n + 1, cur, σ, .ite a b t e =>
      match evalS body n cur σ a with
      | none => none
      | some (x, σ1) => match evalS body n cur σ1 b with
        | none => none
        | some (y, σ2) => if x > y then evalS body n cur σ2 t else evalS body n cur σ2 e
  | n + 1, cur, σ, .call f args =>
      match evalArgsS body n cur σ args with
      | none => none
      | some (vals, σ1) => evalS body n f (writeTable σ1 f vals) (body f)
def evalArgsS (body : Nat → Ex) : Nat → Nat → Tables → List Ex → Option (List Rat × Tables)
  | 0, _, _, _ => none
  | _ + 1, _, σ, [] => some ([], σ)
  | n + 1, cur, σ, a :: as =>
      match evalS body n cur σ a with
      | none => none
      | some (x, σ1) => match evalArgsS body n cur σ1 as with
        | none => none
        | some (xs, σ2) => some (x :: xs, σ2)
end

mutual
/-- the documented meaning: parameters substituted positionally (environment `env` = the actual arguments) -/
def evalP (body : Nat → Ex) : Nat → List Rat → Ex → Option Rat
  | 0, _, _ => none
  | _ + 1, _, .lit v => some v
  | _ + 1, env, .var i => some (env.getD i 0)
  | n + 1, env, .add a b =>
      match evalP body n env a, evalP body n env b with
      | some x, some y => some (x + y)
      | _, _ => none
  | n + 1, env, .sub a b =>
      match evalP body n env a, evalP body n env b with
      | some x, some y => some (x - y)
      | _, _ => none
  | n + 1, env, .mul a b =>
      match evalP body n env a, evalP body n env b with
      | some x, some y => some (x * y)
      | _, _ => none
  | n + 1, env, .div a b =>
      match evalP body n env a, evalP body n env b with
      | some x, some y => some (x / y)
      | _, _ => none
  | n + 1, env, .ite a b t e =>
      match evalP body n env a, evalP body n env b with
      | some x, some y => if x > y then evalP body n env t else evalP body n env e
      | _, _ => none
  | n + 1, env, .call f args =>
      match evalArgsP body n env args with
      | none => none
      | some vals => evalP body n vals (body f)
def evalArgsP (body : Nat → Ex) : Nat → List Rat → List Ex → Option (List Rat)
  | 0, _, _ => none
  | _ + 1, _, [] => some []
  | n + 1, env, a :: as =>
      match evalP body n env a, evalArgsP body n env as with
      | some x, some xs => some (x :: xs)
      | _, _ => none
end

/-- `potential(r) = form(r, p1..pn)`: what a potential built from custom form `f` evaluates, starting from tables `σ` -/
def energyS (body : Nat → Ex) (fuel : Nat) (σ : Tables) (f : Nat) (vals : List Rat) : Option Rat :=
  (evalS body fuel f (writeTable σ f vals) (body f)).map (·.1)

def energyP (body : Nat → Ex) (fuel : Nat) (f : Nat) (vals : List Rat) : Option Rat :=
  evalP body fuel vals (body f)

end Atsim
