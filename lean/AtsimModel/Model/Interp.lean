import AtsimModel.Model.Ini
/-!
Model of placeholder resolution (`configparser.ExtendedInterpolation` as configured by `_RawConfigParser`, default section
`[Variables]`): a value is a sequence of literal text, `${NAME}` and `${SECTION:KEY}` parts.  `${NAME}` is looked up in the
section the value belongs to, then in `[Variables]`; `${SECTION:KEY}` in that section (then `[Variables]`).  Resolution is
recursive with the library's depth limit.  The library itself is external; this model is tied to it by `harness/props/C15.py`.
-/
namespace Atsim

inductive Part where
  | lit (s : String)
  | ref (name : String)
  | xref (sec name : String)
deriving Repr, DecidableEq

abbrev TVal := List Part

structure TIni where
  sections : List (String × List (String × TVal))
  vars : List (String × TVal)
deriving Repr

def tLookup (ini : TIni) (sec key : String) : Option TVal :=
  let own : Option TVal := match ini.sections.find? (fun (p : String × List (String × TVal)) => p.1 == sec) with
    | some (_, kvs) => (kvs.find? (fun (p : String × TVal) => p.1 == norm key)).map (fun p => p.2)
    | none => none
  match own with
  | some v => some v
  | none => (ini.vars.find? (fun (p : String × TVal) => p.1 == norm key)).map (fun p => p.2)

/-- what `${SECTION:KEY}` reads: an entry of that section itself (`parser.get(SECTION, KEY)` looks among the section's own options;
    only `SECTION = Variables` names the variables) -/
def tLookupX (ini : TIni) (sec key : String) : Option TVal :=
  if sec == "Variables" then (ini.vars.find? (fun (p : String × TVal) => p.1 == norm key)).map (fun p => p.2)
  else match ini.sections.find? (fun (p : String × List (String × TVal)) => p.1 == sec) with
    | some (_, kvs) => (kvs.find? (fun (p : String × TVal) => p.1 == norm key)).map (fun p => p.2)
    | none => none

/-- the parts of one value, left to right; `lower` resolves a referenced value one level deeper -/
def resolveParts (lower : String → TVal → Option String) (ini : TIni) (cur : String) : TVal → Option String
  | [] => some ""
  | .lit s :: rest => (resolveParts lower ini cur rest).map (s ++ ·)
  | .ref name :: rest =>
    match tLookup ini cur name with
    | none => none
    | some v => match lower cur v, resolveParts lower ini cur rest with
      | some a, some b => some (a ++ b)
      | _, _ => none
  | .xref sec name :: rest =>
    match tLookupX ini sec name with
    | none => none
    | some v => match lower sec v, resolveParts lower ini cur rest with
      | some a, some b => some (a ++ b)
      | _, _ => none

/-- resolve a value that lives in section `cur`; `none` = InterpolationMissingOptionError / depth exceeded -/
def resolveVal (ini : TIni) : Nat → String → TVal → Option String
  | 0 => fun _ _ => none
  | n + 1 => fun cur v => resolveParts (resolveVal ini n) ini cur v

end Atsim
