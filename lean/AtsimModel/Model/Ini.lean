/-!
Model of the INI layer of potable (`_RawConfigParser`, `_ConfigParserDict`, `ConfigParser._init_config_parser`,
`tools/potable/__init__.py:_make_config_parser`, `_query_actions._list_items`) – the part shared by C14, C15 and C20.

The input is the file AFTER configparser's line splitting: a list of section headers and `(raw key, value)` lines in file
order.  `[Variables]` is the default section.  Two behaviours are distinguished by `IniCfg`:

* `normKeys`: option keys are compared modulo embedded blanks/tabs everywhere (duplicate detection, `has_option`, look-up) –
  CURRENT, after the `fix:` commit that moved the normalisation into `optionxform`.  SHIPPED (`false`): configparser compared
  keys only stripped, then `_ConfigParserDict` removed inner whitespace when storing, so a whitespace variant passed the
  duplicate test / the existence test and silently overwrote the stored entry.
* `ownKeys`: iterating a section yields its own keys only – CURRENT.  SHIPPED (`false`): own keys followed by the
  `[Variables]` keys it does not shadow (configparser's default-section behaviour).
-/
namespace Atsim

def isBlank (c : Char) : Bool := c == ' ' || c == '\t'

/-- `str.strip()` restricted to blanks and tabs (keys never contain other white space after line splitting) -/
def strip (s : String) : String := String.ofList ((s.toList.dropWhile isBlank).reverse.dropWhile isBlank).reverse

/-- `_ConfigParserDict._key_transform`: strip, then delete every blank and tab -/
def norm (s : String) : String := String.ofList (s.toList.filter (fun c => !isBlank c))

structure IniCfg where
  normKeys : Bool
  ownKeys : Bool
  /-- `--list-items` also reports the `[Variables]` entries (since fix b361770) -/
  listVars : Bool
deriving Repr

def currentCfg : IniCfg := ⟨true, true, true⟩
def shippedCfg : IniCfg := ⟨false, false, false⟩

inductive Line where
  | sec (name : String)
  | kv (rawKey value : String)
deriving Repr, DecidableEq

abbrev KV := String × String

structure Ini where
  /-- sections in file order; keys are stored normalised -/
  sections : List (String × List KV)
  /-- `[Variables]`, the default section -/
  vars : List KV
deriving Repr, DecidableEq

inductive IniErr where
  | duplicate       -- ConfigParserDuplicateEntryException
  | missing         -- ConfigOverrideException (override / remove of an item that does not exist)
  | exists          -- ConfigOverrideDuplicateException (add of an item that exists)
  | noHeader        -- text before the first section header
deriving Repr, DecidableEq

def assocSet (l : List KV) (k v : String) : List KV :=
  if l.any (fun p => p.1 == k) then l.map (fun p => if p.1 == k then (k, v) else p) else l ++ [(k, v)]

def assocGet (l : List KV) (k : String) : Option String := (l.find? (fun p => p.1 == k)).map (·.2)

/-- the key as the duplicate test / existence test sees it -/
def testKey (c : IniCfg) (k : String) : String := if c.normKeys then norm k else strip k

structure ReadState where
  ini : Ini
  cur : Option String          -- current section name (`Variables` for the default section)
  seen : List (String × String) -- (section, key as tested) already added
  seenSecs : List String

def readStep (c : IniCfg) (st : ReadState) : Line → Except IniErr ReadState
  | .sec name =>
    if name == "Variables" then .ok { st with cur := some name }
    else if st.seenSecs.contains name then .error .duplicate
    else .ok { st with cur := some name, seenSecs := st.seenSecs ++ [name],
                       ini := { st.ini with sections := st.ini.sections ++ [(name, [])] } }
  | .kv rawKey value =>
    match st.cur with
    | none => .error .noHeader
    | some s =>
      let tk := testKey c rawKey
      if st.seen.contains (s, tk) then .error .duplicate
      else
        let st' := { st with seen := st.seen ++ [(s, tk)] }
        if s == "Variables" then .ok { st' with ini := { st.ini with vars := assocSet st.ini.vars (norm rawKey) value } }
        else .ok { st' with ini := { st.ini with sections := st.ini.sections.map fun (n, kvs) => if n == s then (n, assocSet kvs (norm rawKey) value) else (n, kvs) } }

/-- `cp.read_file(fp)` with `strict=True` -/
def readIni (c : IniCfg) (lines : List Line) : Except IniErr Ini :=
  (lines.foldlM (readStep c) ⟨⟨[], []⟩, none, [], []⟩).map (·.ini)

/-- `has_option(section, key)`: the section's own options; in the shipped configuration (`ownKeys = false`) also the keys of the default
    section `[Variables]` (a variable then counted as an item of every section) -/
def hasOption (c : IniCfg) (ini : Ini) (s k : String) : Bool :=
  let tk := testKey c k
  if s == "Variables" then ini.vars.any (fun p => p.1 == tk)
  else match ini.sections.find? (fun p => p.1 == s) with
    | none => false
    | some (_, kvs) => kvs.any (fun p => p.1 == tk) || (!c.ownKeys && ini.vars.any (fun p => p.1 == tk))

/-- what `for k in cp[section]` iterates -/
def sectionKeys (c : IniCfg) (ini : Ini) (s : String) : List String :=
  match ini.sections.find? (fun p => p.1 == s) with
  | none => []
  | some (_, kvs) =>
    let own := kvs.map (·.1)
    if c.ownKeys then own else own ++ (ini.vars.map (·.1)).filter (fun k => !own.contains k)

inductive Op where
  | override (s k v : String)
  | remove (s k : String)
  | add (s k v : String)
deriving Repr, DecidableEq

/-- one entry of `overrides` (value `None` = remove) or of `additional`, as `_init_config_parser` processes it -/
def applyOp (c : IniCfg) (ini : Ini) : Op → Except IniErr Ini
  | .override s k v =>
    -- (no file holds a section without a name: an item `:KEY` does not exist)
    if s == "" || !hasOption c ini s k then .error .missing
    else if s == "Variables" then .ok { ini with vars := assocSet ini.vars (norm k) v }
    else .ok { ini with sections := ini.sections.map fun (n, kvs) => if n == s then (n, assocSet kvs (norm k) v) else (n, kvs) }
  | .remove s k =>
    if s == "" || !hasOption c ini s k then .error .missing
    else if s == "Variables" then .ok { ini with vars := ini.vars.filter (fun p => p.1 != norm k) }    -- (the default section itself is never removed)
    else
      let secs := ini.sections.map fun (n, kvs) => if n == s then (n, kvs.filter (fun p => p.1 != norm k)) else (n, kvs)
      let ini' := { ini with sections := secs }
      -- `if len(cp[section]) == 0: cp.remove_section(section)`
      if (sectionKeys c ini' s).isEmpty then .ok { ini' with sections := secs.filter (fun p => p.1 != s) } else .ok ini'
  | .add s k v =>
    if s == "" then .error .missing
    else if hasOption c ini s k then .error .exists
    else if s == "Variables" then .ok { ini with vars := assocSet ini.vars (norm k) v }
    else
      let secs := if ini.sections.any (fun p => p.1 == s) then ini.sections else ini.sections ++ [(s, [])]
      .ok { ini with sections := secs.map fun (n, kvs) => if n == s then (n, assocSet kvs (norm k) v) else (n, kvs) }

/-- `ConfigParser(fp, overrides=..., additional=...)`: all overrides (incl. removals) in order, then all additions -/
def applyOps (c : IniCfg) (ini : Ini) (overrides additional : List Op) : Except IniErr Ini :=
  (overrides ++ additional).foldlM (applyOp c) ini

/-- the command-line layer (`_make_config_parser`): `-e` then `-r` options fill ONE ordered dictionary keyed by
    `(section, key)`: a later entry for the same key replaces the earlier one IN ITS POSITION.  `nk = true` (current code): the
    key is compared modulo embedded whitespace, as the parser matches keys; `nk = false` (shipped): the raw text is compared. -/
def cliOverridesWith (nk : Bool) (overrides removes : List Op) : List Op :=
  let key : Op → String × String := fun o => match o with
    | .override s k _ => (s, if nk then norm k else k) | .remove s k => (s, if nk then norm k else k) | .add s k _ => (s, if nk then norm k else k)
  (overrides ++ removes).foldl (fun acc o =>
    if acc.any (fun p => key p == key o) then acc.map (fun p => if key p == key o then o else p) else acc ++ [o]) []

def cliOverrides (overrides removes : List Op) : List Op := cliOverridesWith true overrides removes

/-- the items of the sections: SECTION:KEY=VALUE for every item of every section, each exactly once -/
def listSectionItems (c : IniCfg) (ini : Ini) : List (String × String × String) :=
  ini.sections.flatMap fun (n, kvs) =>
    (sectionKeys c ini n).map fun k => (n, k, ((assocGet kvs k).orElse (fun _ => assocGet ini.vars k)).getD "")

/-- `--list-items`: the items of the sections, then - since fix b361770 - the `[Variables]` entries (items too: addressed as Variables:NAME) -/
def listItems (c : IniCfg) (ini : Ini) : List (String × String × String) :=
  listSectionItems c ini ++ (if c.listVars then ini.vars.map fun (k, v) => ("Variables", k, v) else [])

end Atsim
