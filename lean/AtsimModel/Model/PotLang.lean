/-!
Token-level model of the potable potential-definition language:

* grammar of `atsim/potentials/config/_multi_range_parser.py`
    multi_range          := [range_start] potential_definition (range_start potential_definition)*
    potential_definition := modified | potential_description
    potential_description:= identifier number*
    modified             := identifier '(' multi_range (',' multi_range)* ')'
    range_start          := ('>=' | '>') number
* elaboration of `ConfigParser._descend_tree`: a definition without a leading range marker gets the default range ('>', 0);
  the pieces of one multi-range are chained through `next`.

Character-level tokenisation (pyparsing's whitespace skipping and number syntax) is outside this model; the harness
tokenises with its own tokeniser and the trees are compared with those produced by the real parser.
-/
namespace Atsim

inductive Tok where
  | num (q : Rat)
  | ident (s : String)
  | ge
  | gt
  | lpar
  | rpar
  | comma
deriving DecidableEq, Repr

/-- a range marker: inclusive?, start -/
abbrev RStart := Bool × Rat

/-- one piece of a multi-range definition -/
inductive Piece where
  | form (label : String) (params : List Rat)
  | modifier (label : String) (args : List (List (RStart × Piece)))
deriving Repr

/-- a multi-range definition: the pieces in textual order with their (elaborated) range starts;
    `PotentialFormInstanceTuple.next` chains exactly this list -/
abbrev MultiRange := List (RStart × Piece)

def defaultStart : RStart := (false, 0)

mutual
/-- parse one multi_range from the token list; returns the definition and the remaining tokens -/
def parseMulti : Nat → List Tok → Option (MultiRange × List Tok)
  | 0, _ => none
  | fuel + 1, toks =>
    -- optional leading range
    let (start, toks1) := match toks with
      | .ge :: .num q :: rest => ((true, q), rest)
      | .gt :: .num q :: rest => ((false, q), rest)
      | _ => (defaultStart, toks)
    match parsePiece fuel toks1 with
    | none => none
    | some (p, rest) => parseMore fuel rest [(start, p)]
/-- (range_start potential_definition)* -/
def parseMore : Nat → List Tok → MultiRange → Option (MultiRange × List Tok)
  | 0, _, _ => none
  | fuel + 1, toks, acc =>
    match toks with
    | .ge :: .num q :: rest =>
      match parsePiece fuel rest with
      | none => none
      | some (p, rest') => parseMore fuel rest' (acc ++ [((true, q), p)])
    | .gt :: .num q :: rest =>
      match parsePiece fuel rest with
      | none => none
      | some (p, rest') => parseMore fuel rest' (acc ++ [((false, q), p)])
    | _ => some (acc, toks)
/-- potential_definition -/
def parsePiece : Nat → List Tok → Option (Piece × List Tok)
  | 0, _ => none
  | fuel + 1, toks =>
    match toks with
    | .ident name :: .lpar :: rest =>
      match parseArgs fuel rest [] with
      | none => none
      | some (args, rest') => some (.modifier name args, rest')
    | .ident name :: rest =>
      let nums := rest.takeWhile (fun t => match t with | .num _ => true | _ => false)
      let ps := nums.filterMap (fun t => match t with | .num q => some q | _ => none)
      some (.form name ps, rest.drop nums.length)
    | _ => none
/-- multi_range (',' multi_range)* ')' -/
def parseArgs : Nat → List Tok → List MultiRange → Option (List MultiRange × List Tok)
  | 0, _, _ => none
  | fuel + 1, toks, acc =>
    match parseMulti fuel toks with
    | none => none
    | some (m, rest) =>
      match rest with
      | .comma :: rest' => parseArgs fuel rest' (acc ++ [m])
      | .rpar :: rest' => some (acc ++ [m], rest')
      | _ => none
end

/-- `multi_range_parser.parseString(value, parseAll = True)` -/
def parseDefinition (toks : List Tok) : Option MultiRange :=
  match parseMulti (2 * toks.length + 2) toks with
  | some (m, []) => some m
  | _ => none

mutual
/-- tokens of a definition (`explicitFirst = false` omits a leading default range marker, as users may) -/
def renderMulti (explicitFirst : Bool) : MultiRange → List Tok
  | [] => []
  | (s, p) :: rest =>
    (if explicitFirst || s != defaultStart then renderStart s else []) ++ renderPiece p ++ renderRest rest
def renderRest : MultiRange → List Tok
  | [] => []
  | (s, p) :: rest => renderStart s ++ renderPiece p ++ renderRest rest
def renderStart : RStart → List Tok
  | (true, q) => [.ge, .num q]
  | (false, q) => [.gt, .num q]
def renderPiece : Piece → List Tok
  | .form l ps => .ident l :: ps.map .num
  | .modifier l args => [.ident l, .lpar] ++ renderArgs args ++ [.rpar]
def renderArgs : List MultiRange → List Tok
  | [] => []
  | [m] => renderMulti false m
  | m :: ms => renderMulti false m ++ [.comma] ++ renderArgs ms
end

end Atsim
