/-!
Expression terms produced by the translator (`translator/py2lean.py`) from Python method bodies, and their
executable evaluation at `Float` (used on every run to validate the translator against the Python originals).
The evaluation at `ℝ` and the symbolic derivative live in `Lemmas/ExprReal.lean` (Mathlib).
-/
namespace Atsim

inductive E where
  | var                          -- the separation r
  | param (i : Nat)              -- i-th parameter after r, in signature order
  | lit (n d : Nat)              -- the exact rational n/d of a decimal literal's source text
  | pi
  | bad                          -- the translator could not translate the source
  | sym (k : Nat)                -- value of the k-th function symbol at r (closures of plus/product/pow)
  | add (a b : E)
  | sub (a b : E)
  | mul (a b : E)
  | div (a b : E)
  | neg (a : E)
  | npow (a : E) (n : Nat)       -- `a ** <integer literal>`
  | rpow (a b : E)               -- any other `**`
  | exp (a : E)
  | log (a : E)
  | sqrt (a : E)
deriving Repr, DecidableEq

namespace E

/-- the double nearest to n/d (the quotient is first taken with more than 64 extra bits, then rounded once) -/
def litF (n d : Nat) : Float :=
  if d == 0 then 0.0 / 0.0
  else if n == 0 then 0.0
  else
    let s := (128 + d.log2) - n.log2
    let q := (n <<< s) / d
    (Float.ofNat q).scaleB (-(s : Int))

def evalF (p : Nat → Float) (s : Nat → Float) (r : Float) : E → Float
  | var => r
  | param i => p i
  | lit n d => litF n d
  | pi => 3.141592653589793
  | bad => 0.0 / 0.0
  | sym k => s k
  | add a b => evalF p s r a + evalF p s r b
  | sub a b => evalF p s r a - evalF p s r b
  | mul a b => evalF p s r a * evalF p s r b
  | div a b => evalF p s r a / evalF p s r b
  | neg a => - evalF p s r a
  | npow a n => Float.pow (evalF p s r a) (Float.ofNat n)
  | rpow a b => Float.pow (evalF p s r a) (evalF p s r b)
  | exp a => Float.exp (evalF p s r a)
  | log a => Float.log (evalF p s r a)
  | sqrt a => Float.sqrt (evalF p s r a)

/-- evaluation over exact rationals, for the arithmetic kernels of the writers and grid rules (`Gen/Kernels.lean`): only
    `+ - * /`, literals, operands and natural powers occur there; any other node evaluates to 0 and is flagged by `isArith`. -/
def evalQ (p : Nat → Rat) : E → Rat
  | param i => p i
  | lit n d => (n : Rat) / (d : Rat)
  | add a b => evalQ p a + evalQ p b
  | sub a b => evalQ p a - evalQ p b
  | mul a b => evalQ p a * evalQ p b
  | div a b => evalQ p a / evalQ p b
  | neg a => - evalQ p a
  | npow a n => evalQ p a ^ n
  | _ => 0

def isArith : E → Bool
  | param _ | lit _ _ => true
  | add a b | sub a b | mul a b | div a b => isArith a && isArith b
  | neg a | npow a _ => isArith a
  | _ => false

/-- operand environment from a list -/
def envQ (l : List Rat) : Nat → Rat := fun i => l.getD i 0

def isBad : E → Bool
  | bad => true
  | add a b | sub a b | mul a b | div a b | rpow a b => isBad a || isBad b
  | neg a | npow a _ | exp a | log a | sqrt a => isBad a
  | _ => false

end E
end Atsim
