import AtsimModel.Gen.Logic
/-!
The operations of the raw INI parser that `_init_config_parser` calls while applying overrides, removals and additions (`has_option`, `has_section`, `cp[section]`,
`remove_option`, `remove_section`, `add_section`, and the assignment inside `_set_value`), as functions on the model's `Ini` (Model/Ini.lean).  They are the MODELLED
part of the override path: the regenerated `Atsim.Gen.Logic.apply_overrides` - the two loops and every decision of `_init_config_parser` as written - receives them as
parameters; `C14_code_apply_overrides` proves that with these operations the code computes the model's `applyOps`; the correspondence check compares both with the
real parser on generated files and operation lists.
-/
namespace Atsim.IniOps
open Atsim Atsim.Gen.Logic

def wrap (ini : Ini) : IniRec := ⟨ini, "Variables"⟩

def hasOptionR (r : IniRec) (s k : String) : Bool := hasOption currentCfg r.state s k
def hasSectionR (r : IniRec) (s : String) : Bool := r.state.sections.any fun p => p.1 == s
/-- `cp[section]` as iterated / measured: the default section's own keys, or the section's keys -/
def sectionKeysR (r : IniRec) (s : String) : List String :=
  if s == r.default_section then r.state.vars.map (·.1) else sectionKeys currentCfg r.state s
def removeOptionR (r : IniRec) (s k : String) : IniRec :=
  if s == r.default_section then { r with state := { r.state with vars := r.state.vars.filter (fun p => p.1 != norm k) } }
  else { r with state := { r.state with sections := r.state.sections.map fun (n, kvs) => if n == s then (n, kvs.filter (fun p => p.1 != norm k)) else (n, kvs) } }
def removeSectionR (r : IniRec) (s : String) : IniRec :=
  { r with state := { r.state with sections := r.state.sections.filter (fun p => p.1 != s) } }
def addSectionR (r : IniRec) (s : String) : IniRec :=
  { r with state := { r.state with sections := r.state.sections ++ [(s, [])] } }
/-- `cp[section][key] = value` (`_set_value`; a value of `None` never reaches it) -/
def setValueR (r : IniRec) (o : OvRec) : Except OvErr IniRec :=
  match o.value with
  | none => .error .badValue
  | some v =>
    if o.sect == r.default_section then .ok { r with state := { r.state with vars := assocSet r.state.vars (norm o.key) v } }
    else .ok { r with state := { r.state with sections := r.state.sections.map fun (n, kvs) => if n == o.sect then (n, assocSet kvs (norm o.key) v) else (n, kvs) } }

/-- a model operation as the `ConfigParserOverrideTuple` the command-line layer builds for it -/
def toOv : Op → OvRec
  | .override s k v => ⟨s, k, some v⟩
  | .remove s k => ⟨s, k, none⟩
  | .add s k v => ⟨s, k, some v⟩

def isEdit : Op → Bool
  | .add _ _ _ => false
  | _ => true

def isAdd : Op → Bool
  | .add _ _ _ => true
  | _ => false

def errMap : IniErr → OvErr
  | .missing => .missing
  | .exists => .exists
  | _ => .badValue

/-! ### the command-line layer (`_make_config_parser`) -/

/-- `_item_id`: section and key without its white space -/
def cliKey (o : OvRec) : String × String := (o.sect, norm o.key)

/-- the ordered dictionary of `-e` and `-r` options: a later option for the same item replaces the earlier one in its position -/
def cliDict (items : List OvRec) : List OvRec :=
  items.foldl (fun acc o =>
    if acc.any (fun p => cliKey p == cliKey o) then acc.map (fun p => if cliKey p == cliKey o then o else p) else acc ++ [o]) []

end Atsim.IniOps
