import Mathlib.Analysis.Calculus.Deriv.Pow
import Mathlib.Tactic.Ring
/-!
Hand model of `potentialfunctions.polynomial` over ℝ (its varargs comprehension is outside the translator's fragment):
`polyVal i0 cs r = Σ r^(i0+i) * cs[i]`, `polyD1` / `polyD2` = the code's `deriv` / `deriv2` sums (terms with i < 1 / i < 2 skipped).
Shared by Props/C07 (they are the true derivatives) and Props/C10 (the buck4 spline is built from them).
-/
namespace Atsim.Poly

/-- `sum(r**float(i) * c for (i, c) in enumerate(coefs))` starting the enumeration at `i0` -/
noncomputable def polyVal (i0 : Nat) : List ℝ → ℝ → ℝ
  | [], _ => 0
  | c :: cs, r => r ^ i0 * c + polyVal (i0 + 1) cs r
/-- `sum(float(i) * r**float(i-1) * c ...)` over the terms with `i ≥ 1` -/
noncomputable def polyD1 (i0 : Nat) : List ℝ → ℝ → ℝ
  | [], _ => 0
  | c :: cs, r => (if i0 = 0 then 0 else (i0 : ℝ) * r ^ (i0 - 1) * c) + polyD1 (i0 + 1) cs r
/-- `sum(i * float(i-1) * r**float(i-2) * c ...)` over the terms with `i ≥ 2` -/
noncomputable def polyD2 (i0 : Nat) : List ℝ → ℝ → ℝ
  | [], _ => 0
  | c :: cs, r => (if i0 < 2 then 0 else (i0 : ℝ) * ((i0 : ℝ) - 1) * r ^ (i0 - 2) * c) + polyD2 (i0 + 1) cs r

end Atsim.Poly
