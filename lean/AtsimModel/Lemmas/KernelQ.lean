import AtsimModel.Model.Expr
import AtsimModel.Gen.Kernels
import Mathlib.Tactic.Ring
import Mathlib.Tactic.FieldSimp
import Mathlib.Tactic.Linarith
import Mathlib.Tactic.NormNum
import Mathlib.Data.Rat.Defs
import Mathlib.Data.Nat.Cast.Field
import Mathlib.Algebra.Group.Nat.Even
import Mathlib.Algebra.Order.Field.Rat
/-!
Tactics for the "kernel tie" theorems `Cxx_kernel_*`: the arithmetic kernels of the writers and grid rules are REGENERATED from /repo's
source on every run (`Gen/Kernels.lean`, translator/py2lean.py `KERNELS`), and each theorem states that the regenerated expression,
evaluated over exact rationals (`E.evalQ`), IS the function the hand-written model uses at that place (`rowR`, `pairDr`, `meshResolution`,
`accum`, `tabStep`, `sampled`'s abscissa, `tblock.hi`, the declared counts, `ratOps.mulPred`, `plotXs`, `rValue`, ...).  A change of the
arithmetic in the code therefore breaks a proof obligation directly, in addition to the correspondence run.
-/
open Atsim Atsim.E

/-- closes "regenerated kernel = the model's function" after unfolding; the cascade accepts any algebraically equal spelling -/
macro "kernel_close" : tactic =>
  `(tactic| first
    | done
    | (norm_num; done)
    | (ring_nf; done)
    | (norm_num; ring_nf; done)
    | (push_cast; ring_nf; done)
    | (field_simp; done)
    | (field_simp; ring_nf; done))

/-- unfold a kernel evaluation -/
macro "kernel_unfold" "[" ds:Lean.Parser.Tactic.simpLemma,* "]" : tactic =>
  `(tactic| simp only [evalQ, envQ, List.map, List.getD_cons_zero, List.getD_cons_succ, $ds,*])
