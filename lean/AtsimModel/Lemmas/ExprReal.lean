import AtsimModel.Model.Expr
import Mathlib.Analysis.SpecialFunctions.ExpDeriv
import Mathlib.Analysis.Calculus.Deriv.Inv
import Mathlib.Analysis.Calculus.Deriv.Pow
import Mathlib.Analysis.SpecialFunctions.Pow.Deriv
import Mathlib.Analysis.SpecialFunctions.Sqrt
import Mathlib.Analysis.SpecialFunctions.Log.Deriv
import Mathlib.Analysis.SpecialFunctions.Trigonometric.Basic
import Mathlib.Tactic.Ring
import Mathlib.Tactic.FieldSimp
import Mathlib.Tactic.Linarith
/-!
Evaluation of translated expression terms over ℝ, symbolic differentiation `D`, and the soundness theorem
`hasDerivAt_evalR`: on its domain, `D e` evaluates to the derivative of `e` with respect to the separation.
This is the engine behind C06 / C07 / C10.
-/
namespace Atsim.E
open Real

noncomputable def evalR (p : Nat → ℝ) (s : Nat → ℝ) (r : ℝ) : E → ℝ
  | var => r
  | param i => p i
  | lit n d => (n : ℝ) / (d : ℝ)
  | pi => Real.pi
  | bad => 0
  | sym k => s k
  | add a b => evalR p s r a + evalR p s r b
  | sub a b => evalR p s r a - evalR p s r b
  | mul a b => evalR p s r a * evalR p s r b
  | div a b => evalR p s r a / evalR p s r b
  | neg a => - evalR p s r a
  | npow a n => (evalR p s r a) ^ n
  | rpow a b => (evalR p s r a) ^ (evalR p s r b)
  | exp a => Real.exp (evalR p s r a)
  | log a => Real.log (evalR p s r a)
  | sqrt a => Real.sqrt (evalR p s r a)

/-- symbolic derivative with respect to `var` -/
def D : E → E
  | var => lit 1 1
  | param _ => lit 0 1
  | lit _ _ => lit 0 1
  | pi => lit 0 1
  | bad => bad
  | sym _ => bad
  | add a b => add (D a) (D b)
  | sub a b => sub (D a) (D b)
  | mul a b => add (mul (D a) b) (mul a (D b))
  | div a b => div (sub (mul (D a) b) (mul a (D b))) (npow b 2)
  | neg a => neg (D a)
  | npow a n => mul (mul (lit n 1) (npow a (n - 1))) (D a)
  | rpow a b => mul (rpow a b) (add (mul (D b) (log a)) (div (mul b (D a)) a))
  | exp a => mul (exp a) (D a)
  | log a => div (D a) a
  | sqrt a => div (D a) (mul (lit 2 1) (sqrt a))

/-- where the term is differentiable by the rules above (function symbols and untranslatable pieces never are) -/
def Dom (p : Nat → ℝ) (s : Nat → ℝ) : E → ℝ → Prop
  | var, _ => True
  | param _, _ => True
  | lit _ _, _ => True
  | pi, _ => True
  | bad, _ => False
  | sym _, _ => False
  | add a b, r => Dom p s a r ∧ Dom p s b r
  | sub a b, r => Dom p s a r ∧ Dom p s b r
  | mul a b, r => Dom p s a r ∧ Dom p s b r
  | div a b, r => Dom p s a r ∧ Dom p s b r ∧ evalR p s r b ≠ 0
  | neg a, r => Dom p s a r
  | npow a _, r => Dom p s a r
  | rpow a b, r => Dom p s a r ∧ Dom p s b r ∧ 0 < evalR p s r a
  | exp a, r => Dom p s a r
  | log a, r => Dom p s a r ∧ evalR p s r a ≠ 0
  | sqrt a, r => Dom p s a r ∧ 0 < evalR p s r a

theorem hasDerivAt_evalR (p : Nat → ℝ) (s : Nat → ℝ) : ∀ (e : E) (r : ℝ), Dom p s e r →
    HasDerivAt (fun x => evalR p s x e) (evalR p s r (D e)) r
  | var, r, _ => by simpa [evalR, D] using hasDerivAt_id' r
  | param i, r, _ => by simpa [evalR, D] using hasDerivAt_const r (p i)
  | lit n d, r, _ => by simpa [evalR, D] using hasDerivAt_const r ((n : ℝ) / (d : ℝ))
  | pi, r, _ => by simpa [evalR, D] using hasDerivAt_const r Real.pi
  | bad, _, h => absurd h (by simp [Dom])
  | sym _, _, h => absurd h (by simp [Dom])
  | add a b, r, h => by
      simpa only [evalR, D] using (hasDerivAt_evalR p s a r h.1).fun_add (hasDerivAt_evalR p s b r h.2)
  | sub a b, r, h => by
      simpa only [evalR, D] using (hasDerivAt_evalR p s a r h.1).fun_sub (hasDerivAt_evalR p s b r h.2)
  | mul a b, r, h => by
      simpa only [evalR, D] using (hasDerivAt_evalR p s a r h.1).fun_mul (hasDerivAt_evalR p s b r h.2)
  | div a b, r, h => by
      simpa only [evalR, D] using (hasDerivAt_evalR p s a r h.1).fun_div (hasDerivAt_evalR p s b r h.2.1) h.2.2
  | neg a, r, h => by
      simpa only [evalR, D] using (hasDerivAt_evalR p s a r h).fun_neg
  | npow a n, r, h => by
      have := (hasDerivAt_evalR p s a r h).fun_pow n
      refine this.congr_deriv ?_
      simp only [evalR, D, Nat.cast_one, div_one, mul_assoc]
  | rpow a b, r, h => by
      have ha := hasDerivAt_evalR p s a r h.1
      have hb := hasDerivAt_evalR p s b r h.2.1
      have hpos := h.2.2
      have hne : evalR p s r a ≠ 0 := ne_of_gt hpos
      refine (ha.rpow hb hpos).congr_deriv ?_
      simp only [evalR, D]
      rw [Real.rpow_sub_one hne]
      field_simp
      ring
  | exp a, r, h => by
      have := (hasDerivAt_evalR p s a r h).exp
      simpa only [evalR, D] using this
  | log a, r, h => by
      have := (hasDerivAt_evalR p s a r h.1).log h.2
      simpa only [evalR, D] using this
  | sqrt a, r, h => by
      have := (hasDerivAt_evalR p s a r h.1).sqrt (ne_of_gt h.2)
      refine this.congr_deriv ?_
      simp only [evalR, D, Nat.cast_one, Nat.cast_ofNat, div_one]

/-- parameter environment from a list (`[A, rho, C]` ↦ param 0 = A, …) -/
noncomputable def envOf (l : List ℝ) : Nat → ℝ := fun i => l.getD i 0

/-- no function symbols -/
def noSyms : Nat → ℝ := fun _ => 0

end Atsim.E

/-- closes the residual goal of a "generated term = documented formula" identity after unfolding: tries, in order, the goal being closed already,
    numeral normalisation, commutative-ring normalisation (incl. inverses of products and powers), and clearing denominators.  The cascade makes
    the identities insensitive to harmless algebraic rewrites of the Python expression (`r**6` vs `r**3 * r**3`, reordered sums, factored terms). -/
macro "form_close" : tactic =>
  `(tactic| first
    | done
    | (norm_num; done)
    | (ring_nf; done)
    | (norm_num; ring_nf; done)
    | (field_simp; done)
    | (field_simp; ring_nf; done)
    | (norm_num; field_simp; ring_nf; done))

/-- closes "symbolic derivative of the generated value term = generated derivative term" after unfolding.  `ring1` (not `ring`) so that a failed
    alternative backtracks; `norm_num` first normalises the `n - 1` exponents and numeral casts that `D` introduces. -/
macro "deriv_close" : tactic =>
  `(tactic| first
    | done
    | (field_simp; ring1)
    | (norm_num; done)
    | (norm_num; field_simp; ring1)
    | (norm_num; field_simp; ring_nf; done)
    | (norm_num; ring_nf; done)
    | (push_cast; ring1)
    | (push_cast; field_simp; ring1))

