import AtsimModel.Model.Eam
import AtsimModel.Gen.Logic
/-!
Meaning of the tokens the regenerated writers emit (`Gen/Logic.lean`), used by the `Cxx_code_*` theorems of the EAM writers.

A token is a format text and opaque arguments.  Under an interpretation `I what fid x` of the callables (`I "value" 7 x` = value of function 7 at x, …)
every argument evaluates to a rational.  Function id `0` is the models' zero function: the interpretations considered map it to 0 (`ZeroFn`).
-/
namespace Atsim.TokSem
open Atsim Atsim.Gen.Logic

/-- value of an opaque argument under an interpretation of the callables; strings carry no number -/
def ovEval (I : String → Nat → Rat → Rat) : OV → Rat
  | .int i => (i : Rat)
  | .num q => q
  | .str _ => 0
  | .fn w f x => I w f x
  | .repr v => ovEval I v
  | .scaled r v => r * ovEval I v

/-- what is observable of a token: its format text, its string arguments as written and its numeric arguments evaluated -/
def tokSem (I : String → Nat → Rat → Rat) (t : Tok) : String × List (Option String × Rat) :=
  (t.fmt, t.args.map fun a => (match a with | .str s => some s | _ => none, ovEval I a))

def streamSem (I : String → Nat → Rat → Rat) (s : List Tok) : List (String × List (Option String × Rat)) := s.map (tokSem I)

/-- the interpretation treats function id 0 as the zero function -/
def ZeroFn (I : String → Nat → Rat → Rat) : Prop := ∀ w x, I w 0 x = 0

def toEam (e : El) : EamRec :=
  { species := e.sp, atomicNumber := e.z, mass := e.mass, latticeConstant := e.a0, latticeType := e.lat,
    embed := ⟨e.embed⟩, dens := ⟨e.dens⟩, densFS := e.densTo.map fun p => (p.1, (⟨p.2⟩ : FnRec)) }

def toPot (p : PairDecl) : PotRec := ⟨p.a, p.b, p.fid⟩

/-- value of a model slot that stands for a plain function value -/
def slotVal (I : String → Nat → Rat → Rat) (what : String) : Slot → Rat
  | .val f x => I what f x
  | .zero => 0

/-- value of a model slot of a pair block: `r * phi(r)` when scaled -/
def pairSlotVal (I : String → Nat → Rat → Rat) (scale : Bool) : Slot → Rat
  | .val f x => if scale then x * I "energy" f x else I "energy" f x
  | .zero => 0

/-- one line `"% 20.16e"` holding one number -/
def numLine (v : Rat) : String × List (Option String × Rat) := ("% 20.16e\n", [(none, v)])

/-! ### meaning of a whole TABEAM file of the model (used by the `C05_code_write*` / `C04_code_tabeam_fs*` theorems) -/

/-- one record of a TABEAM block: up to four `%f` fields; `what` names the callable's method (`"energy"` for pair potentials, `"value"` otherwise) -/
def tabeamRow (I : String → Nat → Rat → Rat) (what : String) (g : List Slot) : String × List (Option String × Rat) :=
  (" ".intercalate (g.map fun _ => "%f") ++ "\n", g.map fun s => (none, slotVal I what s))

/-- a block of the model as the lines it stands for: `kw <species…> n 0.0 hi`, then its records -/
def tblockSem (I : String → Nat → Rat → Rat) (b : TBlock) : List (String × List (Option String × Rat)) :=
  (b.kw ++ " " ++ String.join (b.species.map fun _ => "%s ") ++ "%d 0.0 %f\n",
    (b.species.map fun sp => (some sp, (0 : Rat))) ++ [(none, (b.n : Rat)), (none, b.hi)])
  :: b.rows.map (tabeamRow I (if b.kw == "pair" then "energy" else "value"))

/-- the hundred blanks `_writeTitle` appends to the title -/
def titlePad : String := String.ofList (List.replicate 100 ' ')

/-- a TABEAM file of the model as the lines it stands for: title line, declared number of functions, then the blocks in order -/
def tabeamSem (I : String → Nat → Rat → Rat) (title : String) (t : TabeamFile) : List (String × List (Option String × Rat)) :=
  [("%s%s\n", [(some title, 0), (some titlePad, 0)]), ("%d\n", [(none, (t.declared : Rat))])] ++ t.blocks.flatMap (tblockSem I)

/-! ### meaning of a whole setfl file of the model (used by `C03_code_write_alloy` / `C04_code_write_fs`) -/

/-- `_writeSetFLHeader`: exactly three comment lines (missing ones empty, further ones dropped) -/
def pad3 (c : List String) : List String := (c ++ ["", "", ""]).take 3

/-- the five header lines: the three comments (one `print` joined with the line separator), `ntypes` and the element names, the two grids and the cutoff -/
def setflHeaderSem (comments : List String) (cutoff : Rat) (f : SetflFile) : List (String × List (Option String × Rat)) :=
  [ ("<os.linesep>".intercalate ((pad3 comments).map fun _ => "%s") ++ "\n", (pad3 comments).map fun c => (some c, (0 : Rat))),
    (" ".intercalate ("%d" :: f.names.map fun _ => "%s") ++ "\n", (none, (f.ntypes : Rat)) :: f.names.map fun n => (some n, (0 : Rat))),
    ("%d  %20.16e %d  %20.16e  %20.16e\n", [(none, (f.nrho : Rat)), (none, f.drho), (none, (f.nr : Rat)), (none, f.dr), (none, cutoff)]) ]

/-- per element its line, its embedding values, its density values (one list, or one per element for Finnis-Sinclair); then the pair blocks `r*phi` -/
def setflBodySem (I : String → Nat → Rat → Rat) (f : SetflFile) : List (String × List (Option String × Rat)) :=
  (f.elements.flatMap fun b =>
    [("%d %20.16e %20.16e %s\n", [(none, (b.z : Rat)), (none, b.mass), (none, b.a0), (some b.lat, 0)])] ++
    (b.embed.map fun s => numLine (slotVal I "value" s)) ++ (b.dens.flatten.map fun s => numLine (slotVal I "value" s))) ++
  (f.pairs.flatten).map (fun s => numLine (pairSlotVal I true s))

def setflSem (I : String → Nat → Rat → Rat) (comments : List String) (cutoff : Rat) (f : SetflFile) : List (String × List (Option String × Rat)) :=
  setflHeaderSem comments cutoff f ++ setflBodySem I f

/-- `if not cutoff: cutoff = nr*dr` -/
def effCutoff (cutoff : Option Rat) (nr : Nat) (dr : Rat) : Rat :=
  match cutoff with
  | some c => if c = 0 then (nr : Rat) * dr else c
  | none => (nr : Rat) * dr

end Atsim.TokSem
