import AtsimModel.Driver.All
/-! Line-protocol driver: one JSON request per line on stdin, one JSON answer per line on stdout.
    Run with `lake env lean --run Main.lean`. -/
open Lean Atsim.Drv

def dispatch (j : Json) : Except String Json := do
  let m ← getStr j "m"
  let op ← getStr j "op"
  match m with
  | "pair" => handlePair op j
  | "eam" => handleEam op j
  | "range" => handleRange op j
  | "cutoff" => handleCutoff op j
  | "expr" => handleExpr op j
  | "lang" => handleLang op j
  | "trace" => handleTrace op j
  | "filter" => handleFilter op j
  | "table" => handleTable op j
  | "ini" => handleIni op j
  | "interp" => handleInterp op j
  | "validate" => handleValidate op j
  | _ => throw s!"unknown model {m}"

def step (line : String) : String :=
  match Json.parse line with
  | .error e => (Json.mkObj [("error", Json.str s!"parse: {e}")]).compress
  | .ok j =>
    match dispatch j with
    | .ok r => (Json.mkObj [("ok", r)]).compress
    | .error e => (Json.mkObj [("error", Json.str e)]).compress

partial def loop (h : IO.FS.Stream) (out : IO.FS.Stream) : IO Unit := do
  let line ← h.getLine
  if line.isEmpty then return ()
  out.putStrLn (step line)
  loop h out

def main : IO Unit := do
  loop (← IO.getStdin) (← IO.getStdout)
