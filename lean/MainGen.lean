import AtsimModel.Driver.GenLogic
/-! Line-protocol driver for the regenerated definitions (`Gen/Logic.lean`): `lake env lean --run MainGen.lean`. -/
open Lean Atsim.Drv

def stepG (line : String) : String :=
  match Json.parse line with
  | .error e => (Json.mkObj [("error", Json.str s!"parse: {e}")]).compress
  | .ok j =>
    match (do let op ← getStr j "op"; handleGen op j : Except String Json) with
    | .ok r => (Json.mkObj [("ok", r)]).compress
    | .error e => (Json.mkObj [("error", Json.str e)]).compress

partial def loopG (h : IO.FS.Stream) (out : IO.FS.Stream) : IO Unit := do
  let line ← h.getLine
  if line.isEmpty then return ()
  out.putStrLn (stepG line)
  loopG h out

def main : IO Unit := do
  loopG (← IO.getStdin) (← IO.getStdout)
