-- Root of the `AtsimModel` library: executable models, drivers, generated definitions, lemmas and property theorems.
import AtsimModel.Model.Basic
import AtsimModel.Model.PairTables
import AtsimModel.Driver.Json
import AtsimModel.Driver.Pair
